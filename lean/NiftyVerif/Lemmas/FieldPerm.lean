/-
  Lemmas/FieldPerm.lean — link between the `spaces` tuple (any order) and the axis mask: products over `spaces`
  are products over the masked positions; the sum over an index fibre of the product of the masked volume factors
  is the product of the masked sub-domain volumes.  Used for "mean = Σ w·x / Σ w over ANY subset of sub-domains".
-/
import NiftyVerif.Lemmas.Field
import Mathlib.Data.List.Nodup

namespace NiftyVerif.FieldM

section Perm
variable {K : Type} {α : Type}

theorem prodOver_perm [CommMonoid K] {l l' : List α} (h : l.Perm l') (f : α → K) :
    prodOver l f = prodOver l' f := by
  induction h with
  | nil => rfl
  | cons a _ ih => simp only [prodOver, ih]
  | swap a b l => simp only [prodOver]; rw [← mul_assoc, ← mul_assoc, mul_comm (f b)]
  | trans _ _ ih1 ih2 => exact ih1.trans ih2

theorem eraseDups_length_le [BEq α] [LawfulBEq α] (l : List α) : l.eraseDups.length ≤ l.length := by
  match l with
  | [] => simp
  | a :: as =>
    rw [List.eraseDups_cons]
    have h1 := List.length_filter_le (fun b => !b == a) as
    have h2 := eraseDups_length_le (as.filter fun b => !b == a)
    simp only [List.length_cons]
    omega
termination_by l.length
decreasing_by
  have := List.length_filter_le (fun b => !b == a) as
  simp only [List.length_cons]
  omega

theorem nodup_of_eraseDups_length [BEq α] [LawfulBEq α] (l : List α)
    (h : l.eraseDups.length = l.length) : l.Nodup := by
  match l with
  | [] => exact List.nodup_nil
  | a :: as =>
    rw [List.eraseDups_cons] at h
    have h1 := List.length_filter_le (fun b => !b == a) as
    have h2 := eraseDups_length_le (as.filter fun b => !b == a)
    simp only [List.length_cons] at h
    have hf : (as.filter fun b => !b == a).length = as.length := by omega
    have hall := List.length_filter_eq_length_iff.mp hf
    have hfe : as.filter (fun b => !b == a) = as := List.filter_eq_self.mpr hall
    rw [hfe] at h
    have hna : a ∉ as := by
      intro hm
      have := hall a hm
      simp at this
    exact List.nodup_cons.mpr ⟨hna, nodup_of_eraseDups_length as (by omega)⟩
termination_by l.length

theorem parseSpaces_nodup {sp : Spaces} {n : Nat} {l : List Nat} (h : parseSpaces sp n = .ok l) : l.Nodup := by
  cases sp with
  | none =>
    simp only [parseSpaces, Except.ok.injEq] at h
    subst h
    exact List.nodup_range
  | scalar i =>
    simp only [parseSpaces] at h
    split at h
    · cases h
    · simp only [Except.ok.injEq] at h
      subst h
      simp
  | list li =>
    simp only [parseSpaces] at h
    split at h
    · simp only [Except.ok.injEq] at h
      subst h
      exact List.nodup_nil
    · split at h
      · cases h
      · split at h
        · cases h
        · rename_i hb
          split at h
          · cases h
          · rename_i hd
            simp only [Except.ok.injEq] at h
            subst h
            have hnd : li.Nodup := nodup_of_eraseDups_length li (by simpa using hd)
            have hnn : ∀ i ∈ li, 0 ≤ i := by
              intro i hi
              by_contra hc
              exact hb (Or.inl (List.any_eq_true.mpr ⟨i, hi, by simpa using (by omega : i < 0)⟩))
            refine List.Nodup.map_on ?_ hnd
            intro x hx y hy hxy
            have := hnn x hx
            have := hnn y hy
            omega

/-- a duplicate-free `spaces` tuple within range is a permutation of the masked positions in axis order -/
theorem perm_masked {n : Nat} {l : List Nat} (hnd : l.Nodup) (hlt : ∀ i ∈ l, i < n) :
    l.Perm ((List.range n).filter fun i => l.contains i) := by
  refine (List.perm_ext_iff_of_nodup hnd (List.nodup_range.filter _)).mpr ?_
  intro a
  simp only [List.mem_filter, List.mem_range, List.contains_iff_mem]
  exact ⟨fun h => ⟨hlt a h, h⟩, fun h => h.2⟩

end Perm

section Masked
variable {K : Type} {α : Type}

theorem range_succ_filter (n : Nat) (p : Nat → Bool) :
    (List.range (n + 1)).filter p
      = (if p 0 then [0] else []) ++ ((List.range n).filter fun k => p (k + 1)).map (· + 1) := by
  rw [List.range_succ_eq_map, List.filter_cons, List.filter_map]
  by_cases h : p 0 <;> simp [h, Function.comp_def]

/-- product over the masked positions (axis order) = product over the selected entries -/
theorem prodOver_filter_range [CommMonoid K] (d : α) (G : α → K) :
    ∀ (xs : List α) (p : Nat → Bool),
      prodOver ((List.range xs.length).filter p) (fun i => G (xs.getD i d))
        = prodOver (sel true ((List.range xs.length).map p) xs) G := by
  intro xs
  induction xs with
  | nil => intro p; simp [prodOver, sel]
  | cons x t ih =>
    intro p
    rw [List.length_cons, range_succ_filter, List.range_succ_eq_map]
    simp only [List.map_cons, List.map_map, sel]
    have hrest : prodOver (((List.range t.length).filter fun k => p (k + 1)).map (· + 1))
        (fun i => G ((x :: t).getD i d)) = prodOver (sel true ((List.range t.length).map fun k => p (k + 1)) t) G := by
      rw [prodOver_map, ← ih (fun k => p (k + 1))]
      apply prodOver_congr
      intro k _
      simp
    by_cases h : p 0
    · simp only [h, if_true, List.singleton_append, prodOver, List.getD_cons_zero, beq_self_eq_true]
      rw [hrest]
      rfl
    · simp only [h, if_false, List.nil_append, Bool.false_eq_true]
      rw [hrest]
      rfl

/-- product of the volume factors of the masked sub-domains at a multi-index, by recursion over the axes -/
def wMask [Field K] : List Bool → List (Nat → K) → Idx → K
  | true :: m, w :: ws, idx => w (idx.headD 0) * wMask m ws idx.tail
  | false :: m, _ :: ws, idx => wMask m ws idx.tail
  | _, _, _ => 1

/-- Σ over an index fibre of the masked volume factors = Π over the masked sub-domains of their volumes -/
theorem sum_wMask [Field K] : ∀ (mask : List Bool) (ws : List (Nat → K)) (ns : List Nat) (o : Idx),
    mask.length = ws.length → mask.length = ns.length →
    sumOver (allIdx (sel true mask ns)) (fun c => wMask mask ws (merge mask o c))
      = prodOver (sel true mask (ws.zip ns)) (fun wn => sumOver (List.range wn.2) wn.1) := by
  intro mask
  induction mask with
  | nil => intro ws ns o _ _; simp [sel, allIdx, sumOver, wMask, prodOver]
  | cons b m ih =>
    intro ws ns o h1 h2
    cases ws with
    | nil => simp at h1
    | cons w ws =>
      cases ns with
      | nil => simp at h2
      | cons n ns =>
        have h1' : m.length = ws.length := by simpa using h1
        have h2' : m.length = ns.length := by simpa using h2
        cases b with
        | true =>
          have e2 : sel true (true :: m) (n :: ns) = n :: sel true m ns := by simp [sel]
          have e3 : sel true (true :: m) ((w :: ws).zip (n :: ns)) = (w, n) :: sel true m (ws.zip ns) := by
            simp [sel]
          rw [e2, e3, sumOver_allIdx_cons]
          simp only [merge, List.headD_cons, List.tail_cons, wMask, prodOver, sumOver_mul_left, ih ws ns o h1' h2']
          rw [sumOver_mul_right]
        | false =>
          have e2 : sel true (false :: m) (n :: ns) = sel true m ns := by simp [sel]
          have e3 : sel true (false :: m) ((w :: ws).zip (n :: ns)) = sel true m (ws.zip ns) := by simp [sel]
          rw [e2, e3]
          simp only [merge, wMask, List.tail_cons]
          exact ih ws ns o.tail h1' h2'

theorem wMask_eq_prod [Field K] : ∀ (subs : List (SubDom K)) (p : Nat → Bool) (idx : Idx),
    prodOver ((List.range subs.length).filter p) (fun k => dvolAt subs k idx)
      = wMask ((List.range subs.length).map p) (subs.map subW) idx := by
  intro subs
  induction subs with
  | nil => intro p idx; simp [prodOver, wMask]
  | cons s t ih =>
    intro p idx
    rw [List.length_cons, range_succ_filter, List.range_succ_eq_map]
    simp only [List.map_cons, List.map_map]
    have hrest : prodOver (((List.range t.length).filter fun k => p (k + 1)).map (· + 1))
        (fun k => dvolAt (s :: t) k idx) = wMask ((List.range t.length).map fun k => p (k + 1)) (t.map subW) idx.tail := by
      rw [prodOver_map, ← ih (fun k => p (k + 1)) idx.tail]
      apply prodOver_congr
      intro k _
      exact dvolAt_cons_succ s t k idx
    by_cases h : p 0
    · simp only [h, if_true, List.singleton_append, prodOver, wMask, dvolAt_cons_zero]
      rw [hrest]
      rfl
    · simp only [h, if_false, List.nil_append, wMask, Bool.false_eq_true]
      rw [hrest]
      rfl

theorem sel_map {β : Type} (b : Bool) (g : α → β) : ∀ (mask : List Bool) (xs : List α),
    sel b mask (xs.map g) = (sel b mask xs).map g := by
  intro mask
  induction mask with
  | nil => intro xs; cases xs <;> simp [sel]
  | cons m ms ih =>
    intro xs
    cases xs with
    | nil => simp [sel]
    | cons x t =>
      simp only [List.map_cons, sel]
      split <;> simp [ih]

/-- volume of a sub-domain that has volume factors and follows StructuredDomain's formula = Σ of its factors -/
theorem subTV_eq_sum [Field K] (s : SubDom K) (htv : s.tv = none) (hdv : s.dvol ≠ .none) :
    subTV s = sumOver (List.range s.size) (subW s) := by
  unfold subTV subW
  cases hd : s.dvol with
  | none => exact absurd hd hdv
  | scalar w =>
    simp only [htv]
    induction s.size with
    | zero => simp [sumOver]
    | succ n ihn =>
      rw [List.range_succ, sumOver_append]
      simp only [sumOver, add_zero, ← ihn, Nat.cast_succ]
      ring
  | vector w => simp only [htv]

theorem sel_subset (b : Bool) : ∀ (mask : List Bool) (xs : List α) (x : α), x ∈ sel b mask xs → x ∈ xs := by
  intro mask
  induction mask with
  | nil => intro xs x h; cases xs <;> simp [sel] at h
  | cons m ms ih =>
    intro xs x h
    cases xs with
    | nil => simp [sel] at h
    | cons y t =>
      simp only [sel] at h
      split at h
      · rcases List.mem_cons.mp h with rfl | h'
        · simp
        · exact List.mem_cons_of_mem _ (ih t x h')
      · exact List.mem_cons_of_mem _ (ih t x h)

theorem maskOf_length (n : Nat) (l : List Nat) : (maskOf n l).length = n := by simp [maskOf]

/-- the total volume of the listed sub-domains is the sum, over an index fibre of exactly those sub-domains, of the
    product of their volume factors — for ANY duplicate-free `spaces` tuple in any order -/
theorem totalVolume_eq_fibre_sum [Field K] (subs : List (SubDom K)) (sp : Spaces) (l : List Nat) (V : K)
    (hp : parseSpaces sp subs.length = .ok l) (h : totalVolume subs sp = .ok V)
    (hs : ∀ s ∈ subs, VolConsistent s) (o : Idx) :
    V = sumOver (allIdx (sel true (maskOf subs.length l) (subs.map SubDom.size)))
          (fun c => prodOver l (fun i => dvolAt subs i (merge (maskOf subs.length l) o c))) := by
  obtain ⟨hlt, hints⟩ := parseSpaces_ok hp
  have hnd := parseSpaces_nodup hp
  have hperm := perm_masked hnd hlt
  rw [totalVolume_eq_loop, hints] at h
  rw [totalVolumeLoop_prod subs l 1 V hlt h, one_mul]
  -- left: product of sub-domain volumes over the masked positions
  rw [prodOver_perm hperm, prodOver_filter_range default subTV subs (fun i => l.contains i)]
  -- right: fibre sum of masked factors
  have hR : ∀ c, prodOver l (fun i => dvolAt subs i (merge (maskOf subs.length l) o c))
      = wMask (maskOf subs.length l) (subs.map subW) (merge (maskOf subs.length l) o c) := by
    intro c
    rw [prodOver_perm hperm, wMask_eq_prod]
    rfl
  simp only [hR]
  rw [sum_wMask _ _ _ _ (by simp [maskOf_length]) (by simp [maskOf_length])]
  rw [List.zip_map', sel_map, prodOver_map]
  apply prodOver_congr
  intro s hsel
  have hmem := sel_subset true _ _ s hsel
  exact (hs s hmem).2

end Masked

/-! ### existence: where `mean` is defined, `integrate` and `total_volume` are -/
section Exists
variable {K : Type}

theorem integrate_of_mean [Field K] [DecidableEq K] (f m : Fld K) (sp : Spaces) (hm : mean f sp = .ok m) :
    ∃ h, integrate f sp = .ok h := by
  unfold mean at hm
  unfold integrate
  cases hsw : scalarWeight f.subs sp with
  | error e => simp only [hsw] at hm; cases hm
  | ok r =>
    cases r with
    | some swgt =>
      simp only [hsw] at hm ⊢
      cases hp : parseSpaces sp f.subs.length with
      | error e => simp only [hp] at hm; cases hm
      | ok l => exact ⟨smulFloat (contractFld f l (max f.dt DT.int) contract) swgt, by simp only [fsum, hp]⟩
    | none =>
      simp only [hsw] at hm ⊢
      cases hw : weight f 1 sp with
      | error e => simp only [hw] at hm; cases hm
      | ok tmp =>
        simp only [hw] at hm ⊢
        cases hs : fsum tmp sp with
        | error e => simp only [hs] at hm; cases hm
        | ok s => exact ⟨s, rfl⟩

theorem volConsistent_of_structured [Field K] (s : SubDom K) (htv : s.tv = none) (hdv : s.dvol ≠ .none) :
    VolConsistent s := ⟨hdv, subTV_eq_sum s htv hdv⟩

theorem totalVolumeLoop_ok [Field K] (subs : List (SubDom K)) (hs : ∀ s ∈ subs, VolConsistent s) :
    ∀ (l : List Nat) (res : K), (∀ i ∈ l, i < subs.length) →
      ∃ V, totalVolumeLoop subs (l.map Int.ofNat) res = .ok V := by
  intro l
  induction l with
  | nil => intro res _; exact ⟨res, rfl⟩
  | cons i t ih =>
    intro res hlt
    have hi : i < subs.length := hlt i (by simp)
    have hmem : subs.getD i default ∈ subs := by
      simp [List.getD_eq_getElem?_getD, List.getElem?_eq_getElem hi]
    obtain ⟨hdv, _⟩ := hs _ hmem
    simp only [List.map_cons, totalVolumeLoop, pyGet_ofNat subs i hi, SubDom.totalVolume]
    cases htv : (subs.getD i default).tv with
    | some T => simp only []; exact ih _ (fun j hj => hlt j (by simp [hj]))
    | none =>
      cases hd : (subs.getD i default).dvol with
      | none => exact absurd hd hdv
      | scalar w => simp only []; exact ih _ (fun j hj => hlt j (by simp [hj]))
      | vector w => simp only []; exact ih _ (fun j hj => hlt j (by simp [hj]))

theorem totalVolume_ok [Field K] (subs : List (SubDom K)) (sp : Spaces) (l : List Nat)
    (hp : parseSpaces sp subs.length = .ok l) (hs : ∀ s ∈ subs, VolConsistent s) :
    ∃ V, totalVolume subs sp = .ok V := by
  obtain ⟨hlt, hints⟩ := parseSpaces_ok hp
  rw [totalVolume_eq_loop, hints]
  exact totalVolumeLoop_ok subs hs l 1 hlt

theorem sel_merge : ∀ (mask : List Bool) (o c : Idx), o.length = (mask.filter (· == false)).length →
    sel false mask (merge mask o c) = o := by
  intro mask
  induction mask with
  | nil => intro o c h; simp at h; simp [sel, h]
  | cons b m ih =>
    intro o c h
    cases b with
    | true =>
      simp only [merge, sel]
      simp at h
      simpa using ih o c.tail (by simpa using h)
    | false =>
      cases o with
      | nil => simp at h
      | cons x o' =>
        simp only [merge, sel, List.headD_cons, List.tail_cons]
        simp at h
        simpa using ih o' c (by simpa using h)

end Exists

end NiftyVerif.FieldM
