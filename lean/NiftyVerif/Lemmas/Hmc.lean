/-
  Helper lemmas for C32 (leapfrog algebra, Metropolis sums).
-/
import NiftyVerif.Model.Hmc
import Mathlib.Algebra.Module.Basic
import Mathlib.Algebra.Module.Pi
import Mathlib.Algebra.BigOperators.Ring.Finset
import Mathlib.Algebra.Order.Field.Basic
import Mathlib.LinearAlgebra.Matrix.Block
import Mathlib.Analysis.SpecialFunctions.Log.Basic
import Mathlib.Tactic.Ring
import Mathlib.Tactic.Abel
import Mathlib.Tactic.Linarith
import Mathlib.Tactic.FieldSimp
import Mathlib.Tactic.NormNum

namespace NiftyVerif.Hmc

section
variable {K V : Type} [Field K] [AddCommGroup V] [Module K V]
variable (gradU gradK : V → V) (ε : K)

theorem flip_flip (z : QP V) : flip (flip z) = z := by
  cases z; simp [flip]

theorem kick_neg_kick (z : QP V) : kick gradU (-ε) (kick gradU ε z) = z := by
  obtain ⟨q, p⟩ := z
  simp only [kick, neg_div, neg_smul]
  congr 1
  abel

theorem drift_neg_drift (z : QP V) : drift gradK (-ε) (drift gradK ε z) = z := by
  obtain ⟨q, p⟩ := z
  simp only [drift, neg_smul]
  congr 1
  abel

theorem leapfrog_flip_leapfrog' (hK : ∀ p, gradK (-p) = -gradK p) (z : QP V) :
    leapfrog gradU gradK ε (flip (leapfrog gradU gradK ε z)) = flip z := by
  obtain ⟨q, p⟩ := z
  simp only [leapfrog, flip]
  -- abbreviations
  generalize hph : p - (ε / 2) • gradU q = ph
  generalize hq1 : q + ε • gradK ph = q1
  have h1 : -(ph - (ε / 2) • gradU q1) - (ε / 2) • gradU q1 = -ph := by abel
  rw [h1, hK]
  have h2 : q1 + ε • -gradK ph = q := by rw [← hq1, smul_neg]; abel
  rw [h2]
  have h3 : -ph - (ε / 2) • gradU q = -p := by rw [← hph]; abel
  rw [h3]

theorem leapfrogN_succ' (n : Nat) (z : QP V) :
    leapfrogN gradU gradK ε (n + 1) z = leapfrog gradU gradK ε (leapfrogN gradU gradK ε n z) := by
  induction n generalizing z with
  | zero => rfl
  | succ n ih =>
    show leapfrogN gradU gradK ε (n + 1) (leapfrog gradU gradK ε z) = _
    rw [ih]
    rfl

theorem leapfrogN_flip_leapfrogN (hK : ∀ p, gradK (-p) = -gradK p) (n : Nat) (z : QP V) :
    leapfrogN gradU gradK ε n (flip (leapfrogN gradU gradK ε n z)) = flip z := by
  induction n generalizing z with
  | zero => rfl
  | succ n ih =>
    -- outer: definition (first step first); inner: last step last
    rw [leapfrogN_succ' gradU gradK ε n z]
    show leapfrogN gradU gradK ε n (leapfrog gradU gradK ε (flip (leapfrog gradU gradK ε (leapfrogN gradU gradK ε n z)))) = _
    rw [leapfrog_flip_leapfrog' gradU gradK ε hK, ih]

end

section metropolis
variable {S K : Type} [Fintype S] [DecidableEq S] [Field K] [LinearOrder K] [IsStrictOrderedRing K]

omit [Fintype S] [DecidableEq S] in
theorem flux_eq_min (π : S → K) (hπ : ∀ s, 0 < π s) (x y : S) :
    π x * min 1 (π y / π x) = min (π x) (π y) := by
  have hx := hπ x
  rcases le_total (π y) (π x) with h | h
  · have : π y / π x ≤ 1 := (div_le_one hx).mpr h
    rw [min_eq_right this, min_eq_right h, mul_div_cancel₀ _ (ne_of_gt hx)]
  · have : 1 ≤ π y / π x := (one_le_div hx).mpr h
    rw [min_eq_left this, min_eq_left h, mul_one]

theorem metropolis_invariant' (π : S → K) (hπ : ∀ s, 0 < π s) (T : S → S) (hT : ∀ s, T (T s) = s) (z' : S) :
    ∑ z, π z * ((if T z = z' then min 1 (π (T z) / π z) else 0)
                + (if z = z' then 1 - min 1 (π (T z) / π z) else 0)) = π z' := by
  have hiff : ∀ z, T z = z' ↔ z = T z' := by
    intro z
    constructor
    · intro h; rw [← h, hT]
    · intro h; rw [h, hT]
  simp only [mul_add, mul_ite, mul_zero, Finset.sum_add_distrib, hiff]
  rw [Finset.sum_ite_eq' Finset.univ (T z'), Finset.sum_ite_eq' Finset.univ z']
  simp only [Finset.mem_univ, if_true, hT]
  rw [flux_eq_min π hπ, mul_sub, mul_one, flux_eq_min π hπ, min_comm]
  ring

end metropolis

end NiftyVerif.Hmc
