/-
  Further lemmas for C02: row-major raveling respects grouping of axes into sub-domains and ignores unit axes
  (why Squeeze / GeometryRemover / reshaping / sub-domain-granular models are identities on raveled data),
  block-copy operators (field adapters, PartialExtractor, PrependKey), the adjoint of an einsum contraction.
-/
import NiftyVerif.Lemmas.LinOpsWf
import NiftyVerif.Lemmas.Transpose

namespace NiftyVerif
open Coo LinOps

/-! ### ravel and grouping of axes -/

/-- raveling a concatenated multi-index: the leading block is the slow index -/
theorem ravel_append : ∀ (a i b j : List Nat), i.length = a.length →
    ravel (a ++ b) (i ++ j) = ravel a i * prodL b + ravel b j
  | [], [], b, j, _ => by simp [ravel]
  | n :: a, k :: i, b, j, h => by
    have ih := ravel_append a i b j (by simpa using h)
    simp only [List.cons_append, ravel, ih, prodL_append]; ring
  | [], _ :: _, _, _, h => by simp at h
  | _ :: _, [], _, _, h => by simp at h

/-- a unit axis (index 0) does not change the flat index: squeezing / `expand_dims` are identities on raveled data -/
theorem ravel_unit_axis (a i b j : List Nat) (h : i.length = a.length) :
    ravel (a ++ 1 :: b) (i ++ 0 :: j) = ravel (a ++ b) (i ++ j) := by
  rw [ravel_append a i (1 :: b) (0 :: j) h, ravel_append a i b j h]
  simp [ravel, prodL]

theorem prodL_flatten : ∀ (l : List (List Nat)), prodL l.flatten = prodL (l.map prodL)
  | [] => rfl
  | a :: l => by simp only [List.flatten_cons, List.map_cons, prodL_append, prodL, prodL_flatten l]

/-- raveling over all axes = raveling over sub-domain sizes of the per-sub-domain flat indices: a field on a
    DomainTuple may be indexed at sub-domain granularity -/
theorem ravel_grouped : ∀ (shapes idxs : List (List Nat)), shapes.length = idxs.length →
    (∀ p ∈ shapes.zip idxs, p.2.length = p.1.length) →
    ravel shapes.flatten idxs.flatten = ravel (shapes.map prodL) ((shapes.zip idxs).map fun p => ravel p.1 p.2)
  | [], [], _, _ => by simp [ravel]
  | s :: shapes, i :: idxs, hl, h => by
    have ih := ravel_grouped shapes idxs (by simpa using hl)
      (fun p hp => h p (by simp only [List.zip_cons_cons, List.mem_cons]; exact Or.inr hp))
    have h0 : i.length = s.length := h (s, i) (by simp)
    simp only [List.flatten_cons, List.map_cons, List.zip_cons_cons, ravel]
    rw [ravel_append s i _ _ h0, ih, prodL_flatten]
  | [], _ :: _, hl, _ => by simp at hl
  | _ :: _, [], hl, _ => by simp at hl

section blocks
variable {K : Type} [CommRing K]

/-- identity-type operators (SqueezeOperator, GeometryRemover, DomainChangerAndReshaper, FieldAdapter,
    Multifield2Vector): `y = x` on raveled data, self-adjoint, self-inverse -/
theorem ident_apply (n : Nat) (x : Nat → K) (r : Nat) (hr : r < n) : apply (ident n) x r = x r := by
  unfold apply applyE ident
  simp only [List.map_map]
  have := sumN_ite_eq (K := K) n r hr (fun i => x i)
  unfold sumN at this
  rw [← this]; apply sumL_map_congr; intro i _
  simp only [Function.comp]
  by_cases h : i = r <;> simp [h]

theorem ident_adj {cj : K → K} (hc1 : cj 1 = 1) (n : Nat) : adj cj (ident n : Coo K) = ident n := by
  simp [adj, adjE, ident, hc1, List.map_map, Function.comp_def]

/-- block copy: `y[r] = Σ_blocks [ro ≤ r < ro + n] x[co + (r − ro)]` -/
theorem blockOps_apply (rows cols : Nat) (bs : List (Nat × Nat × Nat)) (x : Nat → K) (r : Nat) :
    apply (blockOps rows cols bs) x r =
      sumL (bs.map fun b => if b.1 ≤ r ∧ r < b.1 + b.2.2 then x (b.2.1 + (r - b.1)) else 0) := by
  unfold apply blockOps
  simp only
  rw [applyE_flatMap]
  apply sumL_map_congr; intro b _
  unfold applyE
  rw [List.map_map]
  by_cases h : b.1 ≤ r ∧ r < b.1 + b.2.2
  · simp only [h, and_self, if_true]
    have hlt : r - b.1 < b.2.2 := by omega
    have := sumN_ite_eq (K := K) b.2.2 (r - b.1) hlt (fun i => x (b.2.1 + i))
    unfold sumN at this
    rw [← this]
    apply sumL_map_congr; intro i _
    simp only [Function.comp]
    by_cases hi : i = r - b.1
    · have h2 : b.1 + i = r := by omega
      rw [if_pos h2, if_pos hi, one_mul]
    · have h2 : ¬ b.1 + i = r := by omega
      rw [if_neg h2, if_neg hi]
  · rw [if_neg h]
    apply sumL_map_eq_zero; intro i hi
    have hi' := List.mem_range.mp hi
    simp only [Function.comp]
    have h2 : ¬ b.1 + i = r := by omega
    rw [if_neg h2]

theorem blockOps_wf (rows cols : Nat) (bs : List (Nat × Nat × Nat))
    (h : ∀ b ∈ bs, b.1 + b.2.2 ≤ rows ∧ b.2.1 + b.2.2 ≤ cols) : (blockOps rows cols bs : Coo K).wf = true := by
  rw [wf_iff]; intro e he
  simp only [blockOps, List.mem_flatMap, List.mem_map, List.mem_range] at he
  obtain ⟨b, hb, i, hi, rfl⟩ := he
  obtain ⟨h1, h2⟩ := h b hb
  show b.1 + i < rows ∧ b.2.1 + i < cols
  exact ⟨by omega, by omega⟩

end blocks

section einsum
variable {K : Type} [CommRing K]

theorem prodK_conj {cj : K → K} (hc : IsConj cj) (hc1 : cj 1 = 1) (l : List K) : cj (prodK l) = prodK (l.map cj) := by
  induction l with
  | nil => simp [prodK, hc1]
  | cons a l ih => simp [prodK, hc.mul, ih]

theorem getD_map_conj {cj : K → K} (hc : IsConj cj) (l : List K) (i : Nat) : (l.map cj).getD i 0 = cj (l.getD i 0) := by
  rw [List.getD_eq_getElem?_getD, List.getD_eq_getElem?_getD, List.getElem?_map]
  cases l[i]? <;> simp [hc.zero]

/-- **the adjoint of an einsum contraction is the einsum with input and output subscripts exchanged and the
    static operands conjugated** — exactly what `LinearEinsum.apply` does in ADJOINT_TIMES mode -/
theorem einsum_adj {cj : K → K} (hc : IsConj cj) (hc1 : cj 1 = 1) (letters : List Char) (sz : Char → Nat)
    (ops : List (List Char × List K)) (xs os : List Char) :
    adj cj (einsum letters sz ops xs os) = einsum letters sz (ops.map fun o => (o.1, o.2.map cj)) os xs := by
  unfold adj adjE einsum
  simp only [List.map_map, Coo.mk.injEq, true_and]
  apply List.map_congr_left; intro t _
  simp only [Function.comp, Prod.mk.injEq, true_and]
  rw [prodK_conj hc hc1, List.map_map]
  congr 1
  apply List.map_congr_left; intro o _
  simp only [Function.comp]
  rw [getD_map_conj hc]

end einsum
end NiftyVerif

namespace NiftyVerif
open Coo LinOps

section einsumwf
variable {K : Type} [CommRing K]

/-- the flat index of a letter list under an assignment is inside the corresponding shape -/
theorem einsum_flat_lt (letters : List Char) (sz : Char → Nat) (a : List Nat)
    (ha : inShape (letters.map sz) a = true) (ls : List Char) (hls : ∀ c ∈ ls, c ∈ letters) :
    ravel (ls.map sz) (ls.map fun c => a.getD (letters.idxOf c) 0) < prodL (ls.map sz) := by
  apply ravel_lt
  rw [inShape_iff] at ha ⊢
  obtain ⟨hl, hr⟩ := ha
  refine ⟨by simp, ?_⟩
  intro i hi
  have hi' : i < ls.length := by simpa using hi
  rw [getD_map_lt ls _ i 0 'a' hi', getD_map_lt ls sz i 0 'a' hi']
  have hc : ls.getD i 'a' ∈ letters := hls _ (by rw [List.getD_eq_getElem _ _ hi']; exact List.getElem_mem hi')
  generalize ls.getD i 'a' = c at hc ⊢
  have hidx : letters.idxOf c < letters.length := List.idxOf_lt_length_of_mem hc
  have := hr (letters.idxOf c) (by rw [List.length_map]; exact hidx)
  rw [getD_map_lt letters sz _ 0 'a' hidx, List.getD_eq_getElem _ _ hidx, List.getElem_idxOf hidx] at this
  exact this

/-- LinearEinsum's model is well-formed whenever the input and output letters occur among `letters` -/
theorem einsum_wf (letters : List Char) (sz : Char → Nat) (ops : List (List Char × List K)) (xs os : List Char)
    (hxs : ∀ c ∈ xs, c ∈ letters) (hos : ∀ c ∈ os, c ∈ letters) : (einsum letters sz ops xs os).wf = true := by
  rw [wf_iff]; intro e he
  simp only [einsum, List.mem_map, List.mem_range] at he
  obtain ⟨t, ht, rfl⟩ := he
  have ha := unravel_inShape (letters.map sz) t ht
  exact ⟨einsum_flat_lt letters sz _ ha os hos, einsum_flat_lt letters sz _ ha xs hxs⟩

end einsumwf
end NiftyVerif

namespace NiftyVerif
open Coo LinOps

section comp
variable {K : Type} [CommRing K]

/-- **applying a composition is applying one after the other** -/
theorem apply_comp (M N : Coo K) (hM : M.wf = true) (hN : N.wf = true) (hdim : N.rows = M.cols)
    (x : Nat → K) (r : Nat) : apply (comp M N) x r = apply M (apply N x) r := by
  rw [apply_eq_dense (comp M N) (comp_wf M N hM hN) x r, apply_eq_dense M hM (apply N x) r]
  have h1 : ∀ c, dense (comp M N) r c * x c = sumN M.cols fun k => dense M r k * (dense N k c * x c) := by
    intro c
    rw [coo_comp M N hN hdim r c]
    unfold sumN
    rw [← sumL_map_mul_right]
    apply sumL_map_congr; intro k _; ring
  have hcols : (comp M N).cols = N.cols := rfl
  rw [hcols]
  rw [sumN_congr N.cols _ _ (fun c _ => h1 c), sumN_comm]
  apply sumN_congr; intro k _
  rw [apply_eq_dense N hN x k, ← sumN_mul_left]

end comp
end NiftyVerif

namespace NiftyVerif
open Coo LinOps

section along
variable {K : Type} [CommRing K]

/-- `apply` only reads the input on `[0, cols)` -/
theorem apply_congr_wf (M : Coo K) (hM : M.wf = true) (x y : Nat → K) (h : ∀ c, c < M.cols → x c = y c) (r : Nat) :
    apply M x r = apply M y r := by
  have hw := (wf_iff M).mp hM
  unfold apply applyE
  apply sumL_map_congr; intro e he
  rw [h e.2.1 (hw e he).2]

theorem prodL_split (l : List Nat) (d : Nat) (hd : d < l.length) :
    prodL (l.take d) * l.getD d 0 * prodL (l.drop (d + 1)) = prodL l := by
  induction l generalizing d with
  | nil => simp at hd
  | cons a l ih =>
    cases d with
    | zero => simp [prodL]
    | succ d =>
      have := ih d (by simpa using hd)
      simp only [List.take_succ_cons, List.drop_succ_cons, prodL, List.getD_cons_succ]
      rw [← this]; ring

theorem prodL_set (l : List Nat) (d v : Nat) (hd : d < l.length) :
    prodL (l.set d v) = prodL (l.take d) * v * prodL (l.drop (d + 1)) := by
  induction l generalizing d with
  | nil => simp at hd
  | cons a l ih =>
    cases d with
    | zero => simp [prodL]
    | succ d =>
      have := ih d (by simpa using hd)
      simp only [List.set_cons_succ, List.take_succ_cons, List.drop_succ_cons, prodL]
      rw [this]; ring

/-- the per-axis loop as successive function application (what `FieldZeroPadder.apply`, `RegriddingOperator.apply`,
    `np.fft.fftshift` do: one axis after the other on the evolving array) -/
def alongAxesFn (sh : List Nat) (d0 : Nat) (ops : List (Option (Coo K))) (x : Nat → K) : Nat → K :=
  (ops.foldl (fun (st : (Nat → K) × List Nat × Nat) (M : Option (Coo K)) =>
      match M with
      | none => (st.1, st.2.1, st.2.2 + 1)
      | some M =>
        (apply (onAxis (prodL (st.2.1.take st.2.2)) (prodL (st.2.1.drop (st.2.2 + 1))) M) st.1,
         st.2.1.set st.2.2 M.rows, st.2.2 + 1))
    (x, sh, d0)).1

/-- side condition of the loop: each 1-D operator is well-formed and its column count is the current axis length -/
def alongOk : List Nat → Nat → List (Option (Coo K)) → Prop
  | _, _, [] => True
  | cur, d, none :: ops => alongOk cur (d + 1) ops
  | cur, d, some M :: ops => M.wf = true ∧ d < cur.length ∧ M.cols = cur.getD d 0 ∧ alongOk (cur.set d M.rows) (d + 1) ops

/-- **the composed COO operator of the per-axis loop acts like the successive 1-D operators** -/
theorem alongAxes_apply (sh : List Nat) (d0 : Nat) (ops : List (Option (Coo K))) (hok : alongOk sh d0 ops)
    (x : Nat → K) (r : Nat) (hr : r < (alongAxes sh d0 ops).rows) :
    apply (alongAxes sh d0 ops) x r = alongAxesFn sh d0 ops x r := by
  unfold alongAxes alongAxesFn
  -- generalised invariant over the fold state
  suffices hs : ∀ (ops : List (Option (Coo K))) (tot : Coo K) (f : Nat → K) (cur : List Nat) (d : Nat),
      tot.wf = true → tot.rows = prodL cur → (∀ i, i < tot.rows → apply tot x i = f i) → alongOk cur d ops →
      ∀ r, r < ((ops.foldl (fun (st : Coo K × List Nat × Nat) (M : Option (Coo K)) =>
            let (tot, cur, d) := st
            match M with
            | none => (tot, cur, d + 1)
            | some M => (comp (onAxis (prodL (cur.take d)) (prodL (cur.drop (d + 1))) M) tot, cur.set d M.rows, d + 1))
            (tot, cur, d))).1.rows →
        apply ((ops.foldl (fun (st : Coo K × List Nat × Nat) (M : Option (Coo K)) =>
            let (tot, cur, d) := st
            match M with
            | none => (tot, cur, d + 1)
            | some M => (comp (onAxis (prodL (cur.take d)) (prodL (cur.drop (d + 1))) M) tot, cur.set d M.rows, d + 1))
            (tot, cur, d))).1 x r
        = ((ops.foldl (fun (st : (Nat → K) × List Nat × Nat) (M : Option (Coo K)) =>
            match M with
            | none => (st.1, st.2.1, st.2.2 + 1)
            | some M =>
              (apply (onAxis (prodL (st.2.1.take st.2.2)) (prodL (st.2.1.drop (st.2.2 + 1))) M) st.1,
               st.2.1.set st.2.2 M.rows, st.2.2 + 1))
            (f, cur, d))).1 r by
    exact hs ops (ident (prodL sh)) x sh d0 (ident_wf _) rfl (fun i hi => ident_apply _ x i hi) hok r hr
  intro ops
  induction ops with
  | nil => intro tot f cur d _ _ hf _ r hr; exact hf r hr
  | cons o ops ih =>
    intro tot f cur d htw hrows hf hok r hr
    rw [List.foldl_cons] at hr ⊢
    rw [List.foldl_cons]
    cases o with
    | none => exact ih tot f cur (d + 1) htw hrows hf hok r hr
    | some M =>
      obtain ⟨hMw, hd, hcols, hrest⟩ := hok
      have hO := onAxis_wf (prodL (cur.take d)) (prodL (cur.drop (d + 1))) M hMw
      have hdim : tot.rows = (onAxis (prodL (cur.take d)) (prodL (cur.drop (d + 1))) M).cols := by
        rw [hrows]; show prodL cur = prodL (cur.take d) * M.cols * prodL (cur.drop (d + 1))
        rw [hcols, prodL_split cur d hd]
      refine ih (comp (onAxis (prodL (cur.take d)) (prodL (cur.drop (d + 1))) M) tot)
        (apply (onAxis (prodL (cur.take d)) (prodL (cur.drop (d + 1))) M) f) (cur.set d M.rows) (d + 1)
        (comp_wf _ _ hO htw) ?_ ?_ hrest r hr
      · show prodL (cur.take d) * M.rows * prodL (cur.drop (d + 1)) = prodL (cur.set d M.rows)
        rw [prodL_set cur d M.rows hd]
      · intro i _
        rw [apply_comp _ _ hO htw hdim]
        apply apply_congr_wf _ hO
        intro c hc; exact hf c (by rw [hdim]; exact hc)

end along
end NiftyVerif
