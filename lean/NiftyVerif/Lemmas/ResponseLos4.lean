/-
  Lemmas for C35 / LOS, part 4: unconditional facts about the transcribed traversal (no genericity): weights telescope and are
  non-negative, every step is `±inc` of a moving axis, the first pixel is the pixel of the entry point; the clipped interval
  `clipT` lies inside the grid.
-/
import NiftyVerif.Lemmas.ResponseLos3

namespace NiftyVerif.ResponseLos
open NiftyVerif Coo NiftyVerif.Response

/-! #### weights -/

theorem walkT_sum : ∀ (T : List (ℚ × ℤ)) (q : ℤ) (a hi : ℚ), sumL ((walkT q a T hi).map Prod.snd) = hi - a
  | [], q, a, hi => by simp [walkT, sumL]
  | e :: T, q, a, hi => by
    simp only [walkT, List.map_cons, sumL, walkT_sum T (q + e.2) e.1 hi]; ring

theorem walkT_nonneg : ∀ (T : List (ℚ × ℤ)) (q : ℤ) (a hi : ℚ), (∀ e ∈ T, a ≤ e.1) → (T.map Prod.fst).Pairwise (· ≤ ·) →
    (∀ e ∈ T, e.1 ≤ hi) → a ≤ hi → ∀ p ∈ walkT q a T hi, 0 ≤ p.2
  | [], q, a, hi, _, _, _, hahi, p, hp => by
    simp only [walkT, List.mem_singleton] at hp; subst hp; simpa using hahi
  | e :: T, q, a, hi, ha, hs, hhi, hahi, p, hp => by
    simp only [walkT, List.mem_cons] at hp
    rw [List.map_cons, List.pairwise_cons] at hs
    rcases hp with rfl | hp
    · simpa using ha e List.mem_cons_self
    · exact walkT_nonneg T (q + e.2) e.1 hi (fun e' he' => hs.1 e'.1 (List.mem_map_of_mem he')) hs.2
        (fun e' he' => hhi e' (List.mem_cons_of_mem _ he')) (hhi e List.mem_cons_self) p hp

/-- bounds of the code's crossing parameters without any genericity: `lo ≤ t < hi` -/
theorem axisEvents_bounds (inc : ℕ) (s d lo hi : ℚ) (e : ℚ × ℤ) (he : e ∈ axisEvents inc s d lo hi) : lo ≤ e.1 ∧ e.1 < hi := by
  obtain ⟨hd, _⟩ := axisEvents_snd _ _ _ _ _ e he
  unfold axisEvents at he
  rw [if_neg hd] at he
  obtain ⟨t, ht, rfl⟩ := List.mem_map.mp he
  obtain ⟨i, rfl, hlt⟩ := (mem_arangeQ _ _ _ _ (absK_inv_pos d hd)).mp ht
  refine ⟨?_, hlt⟩
  have hi0 : (0 : ℚ) ≤ (i : ℚ) * absK (1 / d) := mul_nonneg (Nat.cast_nonneg i) (absK_inv_pos d hd).le
  have hc : lo ≤ cFirst s d lo := by
    unfold cFirst
    simp only [ratCeil_eq]
    have hAc : s + d * lo ≤ (⌈s + d * lo⌉ : ℚ) := Int.le_ceil _
    have hAgt : (⌈s + d * lo⌉ : ℚ) < s + d * lo + 1 := Int.ceil_lt_add_one _
    rcases lt_or_gt_of_ne hd with hneg | hpos
    · rw [if_neg (not_lt.mpr hneg.le), le_div_iff_of_neg hneg]; linarith
    · rw [if_pos hpos, le_div_iff₀ hpos]; linarith
  simp only; linarith

theorem eventsA_bounds_weak (lo hi : ℚ) : ∀ ax : List Axis, ∀ e ∈ eventsA lo hi ax, lo ≤ e.1 ∧ e.1 < hi
  | [], e, he => by simp [eventsA] at he
  | b :: ax, e, he => by
    simp only [eventsA, List.mem_append] at he
    rcases he with he | he
    · exact axisEvents_bounds _ _ _ _ _ e he
    · exact eventsA_bounds_weak lo hi ax e he

theorem traverseFrom_eq_walkT (shape : List ℕ) (s dir : List ℚ) (lo hi : ℚ) :
    traverseFrom shape s dir lo hi =
      walkT (pos1 shape s dir lo) lo ((events shape s dir lo hi).mergeSort fun a b => decide (a.1 ≤ b.1)) hi := by
  unfold traverseFrom; simp only []; rw [zip_cumsum_diffs]

/-- the weights of one line add up to the length of the traversed parameter interval — for every input -/
theorem traverseFrom_weights_sum (shape : List ℕ) (s dir : List ℚ) (lo hi : ℚ) :
    sumL ((traverseFrom shape s dir lo hi).map Prod.snd) = hi - lo := by
  rw [traverseFrom_eq_walkT, walkT_sum]

/-- … and every weight is non-negative — for every input with `lo ≤ hi` -/
theorem traverseFrom_weights_nonneg (shape : List ℕ) (s dir : List ℚ) (lo hi : ℚ) (h : lo ≤ hi) :
    ∀ p ∈ traverseFrom shape s dir lo hi, 0 ≤ p.2 := by
  rw [traverseFrom_eq_walkT]
  have hperm : ((events shape s dir lo hi).mergeSort fun a b => decide (a.1 ≤ b.1)).Perm (events shape s dir lo hi) :=
    List.mergeSort_perm _ _
  have hb : ∀ e ∈ ((events shape s dir lo hi).mergeSort fun a b => decide (a.1 ≤ b.1)), lo ≤ e.1 ∧ e.1 < hi :=
    fun e he => eventsA_bounds_weak lo hi _ e (hperm.mem_iff.mp he)
  refine walkT_nonneg _ _ lo hi (fun e he => (hb e he).1) ?_ (fun e he => (hb e he).2.le) h
  rw [List.pairwise_map]
  have := List.pairwise_mergeSort (le := fun a b : ℚ × ℤ => decide (a.1 ≤ b.1))
    (by intro a b c; simp only [decide_eq_true_eq]; exact le_trans)
    (by intro a b; simp only [Bool.or_eq_true, decide_eq_true_eq]; exact le_total _ _) (events shape s dir lo hi)
  simpa using this

/-! #### steps -/

/-- consecutive entries differ by `±inc` of a moving axis (the pixels are face neighbours) -/
def StepsOK (ax : List Axis) : List ℤ → Prop
  | p :: p' :: l => (∃ a ∈ ax, a.2.2 ≠ 0 ∧ p' - p = sgn a.2.2 * (a.1 : ℤ)) ∧ StepsOK ax (p' :: l)
  | _ => True

theorem cumsum_cons_head (q : ℤ) (L : List ℤ) : ∃ l', cumsum q L = q :: l' := by
  cases L with
  | nil => exact ⟨[], rfl⟩
  | cons b l => exact ⟨cumsum (q + b) l, rfl⟩

theorem cumsum_steps (ax : List Axis) : ∀ (L : List ℤ) (q : ℤ),
    (∀ st ∈ L, ∃ a ∈ ax, a.2.2 ≠ 0 ∧ st = sgn a.2.2 * (a.1 : ℤ)) → StepsOK ax (cumsum q L)
  | [], q, _ => by simp [cumsum, StepsOK]
  | b :: l, q, h => by
    have ih := cumsum_steps ax l (q + b) (fun st hst => h st (List.mem_cons_of_mem _ hst))
    obtain ⟨l', hl'⟩ := cumsum_cons_head (q + b) l
    simp only [cumsum]
    rw [hl'] at ih ⊢
    refine ⟨?_, ih⟩
    obtain ⟨a, ha, hd, hb⟩ := h b List.mem_cons_self
    exact ⟨a, ha, hd, by rw [← hb]; ring⟩

theorem eventsA_snd (lo hi : ℚ) : ∀ ax : List Axis, ∀ e ∈ eventsA lo hi ax, ∃ a ∈ ax, a.2.2 ≠ 0 ∧ e.2 = sgn a.2.2 * (a.1 : ℤ)
  | [], e, he => by simp [eventsA] at he
  | b :: ax, e, he => by
    simp only [eventsA, List.mem_append] at he
    rcases he with he | he
    · obtain ⟨hd, hst⟩ := axisEvents_snd _ _ _ _ _ e he
      exact ⟨b, List.mem_cons_self, hd, hst⟩
    · obtain ⟨a, ha, h⟩ := eventsA_snd lo hi ax e he
      exact ⟨a, List.mem_cons_of_mem _ ha, h⟩

theorem walkT_fst : ∀ (T : List (ℚ × ℤ)) (q : ℤ) (a hi : ℚ), (walkT q a T hi).map Prod.fst = cumsum q (T.map Prod.snd)
  | [], _, _, _ => rfl
  | e :: T, q, a, hi => by simp only [walkT, List.map_cons, cumsum, walkT_fst T (q + e.2) e.1 hi]

/-- every step of the emitted pixel sequence changes exactly one axis index by `±1` — for every input -/
theorem traverseFrom_steps (shape : List ℕ) (s dir : List ℚ) (lo hi : ℚ) :
    StepsOK (axes shape s dir) ((traverseFrom shape s dir lo hi).map Prod.fst) := by
  rw [traverseFrom_eq_walkT, walkT_fst]
  refine cumsum_steps _ _ _ ?_
  intro st hst
  obtain ⟨e, he, rfl⟩ := List.mem_map.mp hst
  exact eventsA_snd lo hi _ e ((List.mergeSort_perm _ _).mem_iff.mp he)

/-- the first emitted pixel is the pixel that contains the entry point -/
theorem traverseFrom_first (shape : List ℕ) (s dir : List ℚ) (lo hi : ℚ)
    (hnn : ∀ a ∈ axes shape s dir, 0 ≤ a.2.1 + lo * a.2.2) :
    ((traverseFrom shape s dir lo hi).map Prod.fst).head? = some (flatF lo (axes shape s dir)) := by
  rw [traverseFrom_eq_walkT, walkT_fst]
  obtain ⟨l', hl'⟩ := cumsum_cons_head (pos1 shape s dir lo)
    (((events shape s dir lo hi).mergeSort fun a b => decide (a.1 ≤ b.1)).map Prod.snd)
  rw [hl']
  simp only [List.head?_cons, pos1]
  rw [pos1A_eq_flatF lo _ hnn]

/-! #### the clipped interval lies inside the grid -/

theorem le_maxL (d : ℚ) : ∀ l : List ℚ, d ≤ maxL d l ∧ ∀ x ∈ l, x ≤ maxL d l
  | [] => ⟨le_rfl, by simp⟩
  | a :: l => by
    obtain ⟨h1, h2⟩ := le_maxL d l
    simp only [maxL]
    by_cases h : a < maxL d l
    · rw [if_pos h]
      exact ⟨h1, fun x hx => by rcases List.mem_cons.mp hx with rfl | hx; exact h.le; exact h2 x hx⟩
    · rw [if_neg h]
      have h' := not_lt.mp h
      exact ⟨le_trans h1 h', fun x hx => by rcases List.mem_cons.mp hx with rfl | hx; exact le_rfl; exact le_trans (h2 x hx) h'⟩

theorem minL_le (d : ℚ) : ∀ l : List ℚ, minL d l ≤ d ∧ ∀ x ∈ l, minL d l ≤ x
  | [] => ⟨le_rfl, by simp⟩
  | a :: l => by
    obtain ⟨h1, h2⟩ := minL_le d l
    simp only [minL]
    by_cases h : minL d l < a
    · rw [if_pos h]
      exact ⟨h1, fun x hx => by rcases List.mem_cons.mp hx with rfl | hx; exact h.le; exact h2 x hx⟩
    · rw [if_neg h]
      have h' := not_lt.mp h
      exact ⟨le_trans h' h1, fun x hx => by rcases List.mem_cons.mp hx with rfl | hx; exact le_rfl; exact le_trans h' (h2 x hx)⟩

/-- one axis: a parameter `0 ≤ t ≤ 1` between `min(d0,d1)` and `max(d0,d1)` gives a coordinate inside `[0, n]` -/
theorem axis_inside (n : ℕ) (s d t : ℚ) (ht0 : 0 ≤ t) (ht1 : t ≤ 1)
    (h1 : minQ (d0 s d) (d1 (n : ℚ) s d) ≤ t) (h2 : t ≤ maxQ (d0 s d) (d1 (n : ℚ) s d)) :
    0 ≤ s + t * d ∧ s + t * d ≤ (n : ℚ) := by
  have hn : (0 : ℚ) ≤ (n : ℚ) := Nat.cast_nonneg n
  unfold d0 d1 at h1 h2
  by_cases hd : d = 0
  · subst hd
    simp only [if_true, mul_zero, add_zero] at h1 h2 ⊢
    unfold minQ at h1; unfold maxQ at h2; unfold big at h1 h2
    by_cases hs0 : 0 < s <;> by_cases hsn : s < (n : ℚ) <;> simp only [hs0, hsn, if_true, if_false] at h1 h2
    · exact ⟨hs0.le, hsn.le⟩
    · norm_num at h1; linarith
    · norm_num at h2; linarith
    · exact ⟨by linarith [not_lt.mp hsn], by linarith [not_lt.mp hs0]⟩
  · rw [if_neg hd, if_neg hd] at h1 h2
    unfold minQ at h1; unfold maxQ at h2
    rcases lt_or_gt_of_ne hd with hneg | hpos
    · have hle : ((n : ℚ) - s) / d ≤ -s / d := by
        rw [div_le_div_right_of_neg hneg]; linarith
      have e1 : (if ((n : ℚ) - s) / d < -s / d then ((n : ℚ) - s) / d else -s / d) = ((n : ℚ) - s) / d := by
        split_ifs with h
        · rfl
        · exact le_antisymm (not_lt.mp h) hle
      have e2 : (if -s / d < ((n : ℚ) - s) / d then ((n : ℚ) - s) / d else -s / d) = -s / d := by
        rw [if_neg (not_lt.mpr hle)]
      rw [e1] at h1; rw [e2] at h2
      rw [div_le_iff_of_neg hneg] at h1
      rw [le_div_iff_of_neg hneg] at h2
      constructor <;> linarith
    · have hle : -s / d ≤ ((n : ℚ) - s) / d := by
        rw [div_le_div_iff_of_pos_right hpos]; linarith
      have e1 : (if ((n : ℚ) - s) / d < -s / d then ((n : ℚ) - s) / d else -s / d) = -s / d := by
        rw [if_neg (not_lt.mpr hle)]
      have e2 : (if -s / d < ((n : ℚ) - s) / d then ((n : ℚ) - s) / d else -s / d) = ((n : ℚ) - s) / d := by
        split_ifs with h
        · rfl
        · exact le_antisymm hle (not_lt.mp h)
      rw [e1] at h1; rw [e2] at h2
      rw [div_le_iff₀ hpos] at h1
      rw [le_div_iff₀ hpos] at h2
      constructor <;> linarith

/-- `(n, start, direction)` per axis -/
def boxAxes : List ℕ → List ℚ → List ℚ → List Axis
  | n :: sh, s :: ss, d :: ds => (n, s, d) :: boxAxes sh ss ds
  | _, _, _ => []

theorem dminArr_dmaxArr_inside (t : ℚ) (ht0 : 0 ≤ t) (ht1 : t ≤ 1) : ∀ (sh : List ℕ) (ss ds : List ℚ),
    (∀ x ∈ dminArr sh ss ds, x ≤ t) → (∀ x ∈ dmaxArr sh ss ds, t ≤ x) →
    ∀ a ∈ boxAxes sh ss ds, 0 ≤ a.2.1 + t * a.2.2 ∧ a.2.1 + t * a.2.2 ≤ (a.1 : ℚ)
  | [], _, _, _, _, a, ha => by simp [boxAxes] at ha
  | _ :: _, [], _, _, _, a, ha => by simp [boxAxes] at ha
  | _ :: _, _ :: _, [], _, _, a, ha => by simp [boxAxes] at ha
  | n :: sh, s :: ss, d :: ds, h1, h2, a, ha => by
    simp only [boxAxes, List.mem_cons] at ha
    simp only [dminArr, dmaxArr, List.mem_cons, forall_eq_or_imp] at h1 h2
    rcases ha with rfl | ha
    · exact axis_inside n s d t ht0 ht1 h1.1 h2.1
    · exact dminArr_dmaxArr_inside t ht0 ht1 sh ss ds h1.2 h2.2 a ha

/-- every point of the clipped parameter interval `[dmin, dmax]` of the code lies inside the grid `[0, shape]` -/
theorem clipT_inside (shape : List ℕ) (s dir : List ℚ) (hlt : (clipT shape s dir).1 < (clipT shape s dir).2) (t : ℚ)
    (h1 : (clipT shape s dir).1 ≤ t) (h2 : t ≤ (clipT shape s dir).2) :
    ∀ a ∈ boxAxes shape s dir, 0 ≤ a.2.1 + t * a.2.2 ∧ a.2.1 + t * a.2.2 ≤ (a.1 : ℚ) := by
  unfold clipT at hlt h1 h2
  simp only at hlt h1 h2
  unfold maxQ at hlt h2
  obtain ⟨m0, mx⟩ := le_maxL 0 (dminArr shape s dir)
  obtain ⟨n1, nx⟩ := minL_le 1 (dmaxArr shape s dir)
  by_cases hc : maxL 0 (dminArr shape s dir) < minL 1 (dmaxArr shape s dir)
  · rw [if_pos hc] at h2
    exact dminArr_dmaxArr_inside t (le_trans m0 h1) (le_trans h2 n1) shape s dir
      (fun x hx => le_trans (mx x hx) h1) (fun x hx => le_trans h2 (nx x hx))
  · rw [if_neg hc] at hlt; exact absurd hlt (lt_irrefl _)

theorem boxAxes_zip : ∀ (sh : List ℕ) (ss es : List ℚ), sh.length = ss.length → ss.length = es.length →
    ∀ se ∈ ss.zip es, ∃ a ∈ boxAxes sh ss (dirOf ss es), a.2.1 = se.1 ∧ a.2.2 = se.2 - se.1
  | [], [], _, _, _, se, hse => by simp at hse
  | [], _ :: _, _, h, _, _, _ => by simp at h
  | _ :: _, [], _, h, _, _, _ => by simp at h
  | _, _ :: _, [], _, h, _, _ => by simp at h
  | n :: sh, s :: ss, e :: es, h1, h2, se, hse => by
    simp only [List.zip_cons_cons, List.mem_cons] at hse
    simp only [dirOf, List.zip_cons_cons, List.map_cons, boxAxes]
    rcases hse with rfl | hse
    · exact ⟨(n, s, e - s), List.mem_cons_self, rfl, rfl⟩
    · obtain ⟨a, ha, h⟩ := boxAxes_zip sh ss es (by simpa using h1) (by simpa using h2) se hse
      exact ⟨a, List.mem_cons_of_mem _ ha, h⟩

/-! #### decidable form of the genericity hypothesis at the entry point (for concrete instances) -/

theorem cross_iff_floor (s d t : ℚ) : Cross s d t ↔ ((⌊s + t * d⌋ : ℤ) : ℚ) = s + t * d := by
  constructor
  · rintro ⟨k, hk⟩; rw [hk, Int.floor_intCast]
  · intro h; exact ⟨⌊s + t * d⌋, h.symm⟩

def genEntryB (s e : List ℚ) (lo : ℚ) : Bool :=
  (s.zip e).all fun se => decide (se.2 - se.1 = 0) ||
    decide ((((se.1 + lo * (se.2 - se.1)).floor : ℤ) : ℚ) ≠ se.1 + lo * (se.2 - se.1))

theorem genEntryB_spec (s e : List ℚ) (lo : ℚ) (h : genEntryB s e lo = true) :
    ∀ se ∈ s.zip e, se.2 - se.1 ≠ 0 → ¬ Cross se.1 (se.2 - se.1) lo := by
  intro se hse hd hc
  unfold genEntryB at h
  rw [List.all_eq_true] at h
  have := h se hse
  rw [Bool.or_eq_true, decide_eq_true_eq, decide_eq_true_eq] at this
  rcases this with h0 | h1
  · exact hd h0
  · exact h1 ((cross_iff_floor _ _ _).mp hc)

theorem traverse_eq (eps : ℚ) (shape : List ℕ) (s e : List ℚ) :
    ResponseLos.traverse eps shape s e =
      if (clipT shape s (dirOf s e)).2 - eps ≤ (clipT shape s (dirOf s e)).1 + eps then []
      else traverseFrom shape s (dirOf s e) ((clipT shape s (dirOf s e)).1 + eps) ((clipT shape s (dirOf s e)).2 - eps) := rfl

end NiftyVerif.ResponseLos
