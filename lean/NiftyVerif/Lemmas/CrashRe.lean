/-
  Lemmas for C24 (Model/CrashRe.lean): the loop's result, and what every crash point of the loop leaves in last.pkl.
-/
import NiftyVerif.Model.CrashRe
import NiftyVerif.Lemmas.CrashFS
namespace NiftyVerif.CrashRe
open NiftyVerif.CrashFS

variable {S : Type}

/-- the two facts about the real driver the crash-safety theorems rest on (tied by the correspondence check) -/
structure Lawful (sys : Sys S) : Prop where
  nit_step : ∀ s, sys.nit (sys.step s) = sys.nit s + 1       -- `update` increments state.nit
  dec_enc : ∀ s, sys.dec (sys.enc s) = some s                -- pickle.load ∘ pickle.dump = id

/-- pickle streams are self-delimiting: a proper prefix of a pickle does not load (needed only for the statements about
    the in-place protocol) -/
def PrefixFree (sys : Sys S) : Prop :=
  ∀ s b, b <+: sys.enc s → b ≠ sys.enc s → sys.dec b = none

theorem iter_succ (f : S → S) (k : Nat) (s : S) : iter f (k + 1) s = f (iter f k s) := by
  induction k generalizing s with
  | zero => rfl
  | succ k ih => simp only [iter] at ih ⊢; rw [ih]

theorem iter_add (f : S → S) (a b : Nat) (s : S) : iter f (a + b) s = iter f b (iter f a s) := by
  induction a generalizing s with
  | zero => simp [iter]
  | succ a ih => rw [Nat.succ_add]; simp only [iter]; exact ih _

theorem nit_iter {sys : Sys S} (h : Lawful sys) (k : Nat) (s : S) : sys.nit (iter sys.step k s) = sys.nit s + k := by
  induction k with
  | zero => rfl
  | succ k ih => rw [iter_succ, h.nit_step, ih]; omega

theorem loop_snd (sys : Sys S) (proto : Proto) (fuel : Nat) (s : S) :
    (loop sys proto fuel s).2 = iter sys.step fuel s := by
  induction fuel generalizing s with
  | zero => rfl
  | succ k ih => simp only [loop, iter]; exact ih _

theorem loop_succ (sys : Sys S) (proto : Proto) (fuel : Nat) (s : S) :
    (loop sys proto (fuel + 1) s).1 = iterOps sys proto (sys.step s) ++ (loop sys proto fuel (sys.step s)).1 := rfl

/-- nothing before `os.replace` touches last.pkl in the atomic protocol -/
theorem atomic_body_untouched (sys : Sys S) (s' : S) :
    ∀ o ∈ appendFile Path.sanity (sys.msg s') ++ writeFile Path.tmp (sys.enc s'), o.touches Path.last = false := by
  intro o ho
  rcases List.mem_append.1 ho with h | h
  · exact appendFile_untouched _ _ _ (by decide) o h
  · exact writeFile_untouched _ _ _ (by decide) o h

theorem iterOps_atomic_eq (sys : Sys S) (s' : S) :
    iterOps sys .atomic s' =
      (appendFile Path.sanity (sys.msg s') ++ writeFile Path.tmp (sys.enc s')) ++ [Op.replace .tmp .last] := by
  simp [iterOps, savePkl, List.append_assoc]

/-- one completed loop pass (atomic protocol) leaves the new pickle, complete, in last.pkl -/
theorem iterOps_atomic_full (sys : Sys S) (s' : S) (fs : FS Path) :
    execs fs (iterOps sys .atomic s') .last = some (sys.enc s') := by
  rw [iterOps_atomic_eq, execs_append, execs_cons, execs_nil, execs_append]
  have : execs (execs fs (appendFile Path.sanity (sys.msg s'))) (writeFile Path.tmp (sys.enc s')) .tmp
      = some (sys.enc s') := execs_writeFile _ _ _
  simp [exec, FS.set, this]

/-- a crash anywhere inside one loop pass (atomic protocol): last.pkl is what it was, or the complete new pickle -/
theorem iterOps_atomic_prefix (sys : Sys S) (s' : S) (fs : FS Path) {pre : List (Op Path)}
    (hp : pre <+: iterOps sys .atomic s') :
    execs fs pre .last = fs .last ∨ execs fs pre .last = some (sys.enc s') := by
  rw [iterOps_atomic_eq, List.prefix_concat_iff] at hp
  rcases hp with rfl | hp
  · right; rw [← iterOps_atomic_eq]; exact iterOps_atomic_full sys s' fs
  · left; exact prefix_untouched _ (atomic_body_untouched sys s') hp fs

/-- last.pkl is absent or the complete pickle of one of the states of the uninterrupted run -/
def Good (sys : Sys S) (s0 : S) (n : Nat) (fs : FS Path) : Prop :=
  fs .last = none ∨ ∃ i, i ≤ n ∧ fs .last = some (sys.enc (iter sys.step i s0))

/-- every crash point of the loop started in state `i` (atomic protocol) keeps `Good` -/
theorem loop_prefix_good (sys : Sys S) (s0 : S) (n : Nat) :
    ∀ (fuel i : Nat), i + fuel ≤ n → ∀ (fs : FS Path), Good sys s0 n fs →
      ∀ pre, pre <+: (loop sys .atomic fuel (iter sys.step i s0)).1 → Good sys s0 n (execs fs pre) := by
  intro fuel
  induction fuel with
  | zero =>
    intro i _ fs hg pre hp
    have : pre = [] := by simpa [loop] using hp
    subst this; exact hg
  | succ fuel ih =>
    intro i hi fs hg pre hp
    rw [loop_succ, ← iter_succ sys.step i s0] at hp
    rcases prefix_append_cases hp with h | ⟨t, rfl, ht⟩
    · rcases iterOps_atomic_prefix sys _ fs h with h1 | h1
      · unfold Good at hg ⊢; rw [h1]; exact hg
      · right; exact ⟨i + 1, by omega, h1⟩
    · rw [execs_append]
      refine ih (i + 1) (by omega) _ ?_ t ht
      right; exact ⟨i + 1, by omega, iterOps_atomic_full sys _ fs⟩

/-- a completed loop of at least one pass leaves the pickle of its final state in last.pkl -/
theorem loop_full_last (sys : Sys S) :
    ∀ (fuel : Nat) (s : S) (fs : FS Path), 0 < fuel →
      execs fs (loop sys .atomic fuel s).1 .last = some (sys.enc (iter sys.step fuel s)) := by
  intro fuel
  induction fuel with
  | zero => intro s fs h; omega
  | succ fuel ih =>
    intro s fs _
    rw [loop_succ, execs_append]
    rcases Nat.eq_zero_or_pos fuel with h0 | hpos
    · subst h0; simp only [loop, execs_nil, iter]; exact iterOps_atomic_full sys _ fs
    · simp only [iter]; exact ih _ _ hpos

theorem preOps_untouched (resume : Bool) : ∀ o ∈ preOps resume, o.touches Path.last = false := by
  intro o ho
  cases resume <;> simp [preOps] at ho <;> rcases ho with rfl | rfl | rfl <;> simp [Op.touches]

end NiftyVerif.CrashRe

namespace NiftyVerif.CrashRe
open NiftyVerif.CrashFS
variable {S : Type}

/-- the output directories that can be met: start from an empty directory; run the driver (with either value of `resume`)
    and kill it after any number `k` of its file operations (`k ≥ length` = it ran to completion); repeat at will -/
inductive Reach (sys : Sys S) (proto : Proto) (s0 : S) (n : Nat) : FS Path → Prop
  | fresh : Reach sys proto s0 n FS.empty
  | killed (fs : FS Path) (resume : Bool) (ops : List (Op Path)) (sf : S) (k : Nat) :
      Reach sys proto s0 n fs → run sys proto resume s0 n fs = .ok (ops, sf) → Reach sys proto s0 n (crash fs ops k)

/-- from a `Good` directory every start of the driver gets past loading and returns the uninterrupted result; `i` is the
    iteration it continues from (0 = from scratch, otherwise the one whose complete pickle is in last.pkl) -/
theorem run_of_good {sys : Sys S} (hl : Lawful sys) {s0 : S} (h0 : sys.nit s0 = 0) {n : Nat} {fs : FS Path}
    (hg : Good sys s0 n fs) (proto : Proto) (resume : Bool) :
    ∃ i, i ≤ n ∧ (i = 0 ∨ fs .last = some (sys.enc (iter sys.step i s0))) ∧
      run sys proto resume s0 n fs =
        .ok (preOps resume ++ (loop sys proto (n - i) (iter sys.step i s0)).1, iter sys.step n s0) := by
  have key : ∀ i, i ≤ n → load sys resume s0 fs = .ok (iter sys.step i s0) →
      run sys proto resume s0 n fs =
        .ok (preOps resume ++ (loop sys proto (n - i) (iter sys.step i s0)).1, iter sys.step n s0) := by
    intro i hi hload
    have hn : sys.nit (iter sys.step i s0) = i := by rw [nit_iter hl, h0]; omega
    simp only [run, hload, hn, loop_snd]
    rw [← iter_add]; congr 3; omega
  cases resume with
  | false => exact ⟨0, Nat.zero_le _, Or.inl rfl, key 0 (Nat.zero_le _) (by simp [load, iter])⟩
  | true =>
    rcases hg with h | ⟨i, hi, h⟩
    · exact ⟨0, Nat.zero_le _, Or.inl rfl, key 0 (Nat.zero_le _) (by simp [load, h, iter])⟩
    · exact ⟨i, hi, Or.inr h, key i hi (by simp [load, h, hl.dec_enc])⟩

/-- every reachable directory is `Good` (atomic protocol) -/
theorem reach_good {sys : Sys S} (hl : Lawful sys) {s0 : S} (h0 : sys.nit s0 = 0) {n : Nat} {fs : FS Path}
    (hr : Reach sys .atomic s0 n fs) : Good sys s0 n fs := by
  induction hr with
  | fresh => left; rfl
  | killed fs resume ops sf k _ hrun ih =>
    obtain ⟨i, hi, _, hrun'⟩ := run_of_good hl h0 ih .atomic resume
    rw [hrun'] at hrun
    injection hrun with hrun; injection hrun with hops _
    subst hops
    unfold crash
    rcases prefix_append_cases (List.take_prefix k _) with h | ⟨t, ht, htp⟩
    · have := prefix_untouched Path.last (preOps_untouched resume) h fs
      unfold Good at ih ⊢; rw [this]; exact ih
    · rw [ht, execs_append]
      refine loop_prefix_good sys s0 n (n - i) i (by omega) _ ?_ t htp
      have := execs_untouched (preOps resume) Path.last (preOps_untouched resume) fs
      unfold Good at ih ⊢; rw [this]; exact ih

end NiftyVerif.CrashRe
