/-
  Lemmas/FieldCRat.lean — the driver's scalar type `CRat` (complex numbers with exact rational parts, defined with
  core instances in Model/Field.lean) is a field, with exactly the operations the driver executes, and `CRat.conj`
  is a ring involution on it.  Hence every theorem of Props/C06.lean (stated for an arbitrary field `K` and an
  arbitrary involution `conj`) applies to what the driver runs.
-/
import NiftyVerif.Model.Field
import Mathlib.Algebra.Field.Basic
import Mathlib.Algebra.Order.Field.Rat
import Mathlib.Tactic.Ring
import Mathlib.Tactic.FieldSimp
import Mathlib.Tactic.Linarith

namespace NiftyVerif.FieldM
namespace CRat

theorem ext' {a b : CRat} (h1 : a.re = b.re) (h2 : a.im = b.im) : a = b := by
  cases a; cases b; simp_all

@[simp] theorem add_re (a b : CRat) : (a + b).re = a.re + b.re := rfl
@[simp] theorem add_im (a b : CRat) : (a + b).im = a.im + b.im := rfl
@[simp] theorem sub_re (a b : CRat) : (a - b).re = a.re - b.re := rfl
@[simp] theorem sub_im (a b : CRat) : (a - b).im = a.im - b.im := rfl
@[simp] theorem neg_re (a : CRat) : (-a).re = -a.re := rfl
@[simp] theorem neg_im (a : CRat) : (-a).im = -a.im := rfl
@[simp] theorem mul_re (a b : CRat) : (a * b).re = a.re * b.re - a.im * b.im := rfl
@[simp] theorem mul_im (a b : CRat) : (a * b).im = a.re * b.im + a.im * b.re := rfl
@[simp] theorem zero_re : (0 : CRat).re = 0 := rfl
@[simp] theorem zero_im : (0 : CRat).im = 0 := rfl
@[simp] theorem one_re : (1 : CRat).re = 1 := rfl
@[simp] theorem one_im : (1 : CRat).im = 0 := rfl
@[simp] theorem inv_re (a : CRat) : (a⁻¹).re = a.re / (a.re * a.re + a.im * a.im) := rfl
@[simp] theorem inv_im (a : CRat) : (a⁻¹).im = -a.im / (a.re * a.re + a.im * a.im) := rfl
@[simp] theorem natCast_re (n : Nat) : ((n : CRat)).re = (n : Rat) := rfl
@[simp] theorem natCast_im (n : Nat) : ((n : CRat)).im = 0 := rfl
@[simp] theorem conj_re (a : CRat) : (conj a).re = a.re := rfl
@[simp] theorem conj_im (a : CRat) : (conj a).im = -a.im := rfl

theorem normSq_ne_zero {a : CRat} (h : a ≠ 0) : a.re * a.re + a.im * a.im ≠ 0 := by
  intro hz
  apply h
  have h1 : a.re * a.re ≥ 0 := mul_self_nonneg _
  have h2 : a.im * a.im ≥ 0 := mul_self_nonneg _
  have hre : a.re * a.re = 0 := by linarith
  have him : a.im * a.im = 0 := by linarith
  exact ext' (mul_self_eq_zero.mp hre) (mul_self_eq_zero.mp him)

/-- `CRat` with the model's own `+ - * ⁻¹ 0 1` and `Nat` cast is a field -/
instance instField : Field CRat where
  add := (· + ·)
  zero := 0
  neg := Neg.neg
  sub := (· - ·)
  mul := (· * ·)
  one := 1
  inv := Inv.inv
  natCast n := (n : CRat)
  add_assoc a b c := ext' (by simp [add_assoc]) (by simp [add_assoc])
  zero_add a := ext' (by simp) (by simp)
  add_zero a := ext' (by simp) (by simp)
  add_comm a b := ext' (by simp [add_comm]) (by simp [add_comm])
  neg_add_cancel a := ext' (by simp) (by simp)
  sub_eq_add_neg a b := ext' (by simp [sub_eq_add_neg]) (by simp [sub_eq_add_neg])
  mul_assoc a b c := ext' (by simp; ring) (by simp; ring)
  one_mul a := ext' (by simp) (by simp)
  mul_one a := ext' (by simp) (by simp)
  left_distrib a b c := ext' (by simp; ring) (by simp; ring)
  right_distrib a b c := ext' (by simp; ring) (by simp; ring)
  mul_comm a b := ext' (by simp; ring) (by simp; ring)
  zero_mul a := ext' (by simp) (by simp)
  mul_zero a := ext' (by simp) (by simp)
  natCast_zero := ext' (by simp) (by simp)
  natCast_succ n := ext' (by simp) (by simp)
  nsmul := nsmulRec
  zsmul := zsmulRec
  exists_pair_ne := ⟨0, 1, fun h => by have := congrArg CRat.re h; simp at this⟩
  mul_inv_cancel a h := by
    have hn := normSq_ne_zero h
    refine ext' ?_ ?_
    · simp only [mul_re, inv_re, inv_im, one_re]
      rw [eq_comm, ← div_self hn]
      ring
    · simp only [mul_im, inv_re, inv_im, one_im]
      ring
  inv_zero := ext' (by simp) (by simp)
  nnqsmul := _
  nnqsmul_def := fun _ _ => rfl
  qsmul := _
  qsmul_def := fun _ _ => rfl

/-- complex conjugation as a ring homomorphism of this field -/
def conjHom : CRat →+* CRat where
  toFun := conj
  map_one' := ext' (by simp) (by simp)
  map_mul' a b := ext' (by simp) (by simp; ring)
  map_zero' := ext' (by simp) (by simp)
  map_add' a b := ext' (by simp) (by simp; ring)

theorem conj_conj (a : CRat) : conjHom (conjHom a) = a := ext' (by simp [conjHom]) (by simp [conjHom])

/-- `|z|² = conj z · z`, the quantity Field.var uses for complex data -/
theorem nsq_eq (a : CRat) : nsq a = conj a * a := ext' (by simp [nsq, normSq]) (by simp [nsq]; ring)

end CRat
end NiftyVerif.FieldM
