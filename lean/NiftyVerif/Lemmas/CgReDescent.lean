/-
  Descent invariant of the eager CG loop (`_cg`, repaired): with a symmetric bilinear `ip`, a linear self-adjoint
  `mat` and `0 ≤ ip a a`, the quadratic energy never increases — for every matrix, definite or not — and the
  negative-curvature fallback is a steepest-descent step that lowers it.
-/
import NiftyVerif.Lemmas.CgReInv
import Mathlib.Tactic.Positivity

namespace NiftyVerif.CgRe
set_option linter.unusedSectionVars false
set_option linter.unusedSimpArgs false
open NiftyVerif.Iter

variable {K V : Type} [Field K] [LinearOrder K] [IsStrictOrderedRing K] [AddCommGroup V] [Module K V]
variable (c : Cfg K) (ip : V → V → K) (nrm : V → K) (mat : V → V) (j : V)

/-- `mat` is self-adjoint with respect to `ip` -/
def SelfAdj : Prop := ∀ a b, ip (mat a) b = ip a (mat b)

theorem quadE_step (hip : SymmBilin ip) (hm : Linear (K := K) mat) (hsa : SelfAdj ip mat) (x d : V) (a : K) :
    quadE ip mat j (x - a • d)
      = quadE ip mat j x - a * ip (mat x - j) d + (half : K) * a ^ 2 * ip d (mat d) := by
  have hb := hip.toBilin
  unfold quadE
  rw [hm.sub, hm.smul]
  simp only [hb.sub_left, hb.sub_right, hb.smul_left, hb.smul_right]
  have e1 : ip (mat d) x = ip (mat x) d := by rw [hsa d x, hip.symm]
  have e2 : ip (mat d) d = ip d (mat d) := hip.symm _ _
  rw [e1, e2]
  simp only [half]; ring

/-- loop invariant B: invariant A, `⟨r,d⟩ = γ`, and the energy is not above the reference value -/
def InvB (E0 : K) (s : St K V) : Prop :=
  InvA ip mat j s ∧ ip s.r s.d = s.gamma ∧ quadE ip mat j s.pos ≤ E0

theorem eagerStep_specB (hip : SymmBilin ip) (hm : Linear (K := K) mat) (hsa : SelfAdj ip mat)
    (hnn : ∀ a, 0 ≤ ip a a) (E0 : K) (i : Nat) (hi : 1 ≤ i) (s : St K V) (hinv : InvB ip mat j E0 s) :
    match eagerStep c ip nrm mat j i s with
    | .next s' => InvB ip mat j E0 s'
    | .stop (.ok res) => quadE ip mat j res.x ≤ E0
    | .stop (.error _) => True := by
  obtain ⟨hA, hrd, hE0⟩ := hinv
  have hA' := hA
  obtain ⟨hr, hg, he⟩ := hA
  have hb := hip.toBilin
  have hstepA := eagerStep_specA c ip nrm mat j hb hm i hi s hA'
  have hγ : 0 ≤ s.gamma := by rw [hg]; exact hnn _
  -- energy after a step of length `a` along `-d`
  have hq : ∀ a : K, quadE ip mat j (s.pos - a • s.d)
      = quadE ip mat j s.pos - a * s.gamma + (half : K) * a ^ 2 * ip s.d (mat s.d) := by
    intro a; rw [quadE_step ip mat j hip hm hsa, ← hr, hrd]
  revert hstepA
  unfold eagerStep
  simp only []
  generalize hα : s.gamma / ip s.d (mat s.d) = α
  generalize hp : s.pos - α • s.d = pos'
  have hrr : (if i % c.nreset = 0 then mat pos' - j else s.r - α • mat s.d) = mat pos' - j := by
    split_ifs
    · rfl
    · rw [← hp]; exact resid_step mat j hm s.pos s.r s.d α hr
  rw [hrr]
  split_ifs with h0 hrz hn hrz2 h1 hT hR hEI hrz3 hA
  all_goals intro hstepA
  all_goals try trivial
  · -- first-step negative curvature: steepest descent with t = γ/(−curv) ≥ 0
    simp only []
    rw [hq]
    have hc : 0 < -ip s.d (mat s.d) := by linarith
    have ht : 0 ≤ s.gamma / -ip s.d (mat s.d) := div_nonneg hγ hc.le
    have : (half : K) * (s.gamma / -ip s.d (mat s.d)) ^ 2 * ip s.d (mat s.d) ≤ 0 := by
      have h2 : (0:K) ≤ (half : K) * (s.gamma / -ip s.d (mat s.d)) ^ 2 := by
        simp only [half]; positivity
      nlinarith
    nlinarith [mul_nonneg ht hγ]
  all_goals
    have hc : 0 < ip s.d (mat s.d) := lt_of_le_of_ne (not_lt.mp hn) (Ne.symm h0)
    have hpos' : quadE ip mat j pos' ≤ quadE ip mat j s.pos := by
      have e : quadE ip mat j pos' = quadE ip mat j s.pos - (half : K) * s.gamma ^ 2 / ip s.d (mat s.d) := by
        rw [← hp, hq, ← hα]; simp only [half]; field_simp; ring
      have h2 : (0:K) ≤ (half : K) * s.gamma ^ 2 / ip s.d (mat s.d) := by
        apply div_nonneg _ hc.le
        simp only [half]; positivity
      linarith
  · exact le_trans hpos' hE0
  · exact le_trans hpos' hE0
  · exact le_trans hpos' hE0
  · exact le_trans hpos' hE0
  · simp only [] at hstepA ⊢
    refine ⟨hstepA, ?_, le_trans hpos' hE0⟩
    simp only []
    have hr' : mat pos' - j = s.r - α • mat s.d := by
      rw [← hp]; exact (resid_step mat j hm s.pos s.r s.d α hr).symm
    have hz : ip (mat pos' - j) s.d = 0 := by
      rw [hr', hb.sub_left, hb.smul_left, hrd, hip.symm (mat s.d) s.d, ← hα]
      field_simp
      ring
    rw [hb.add_right, hb.smul_right, hz]; ring

theorem loop_specB (hip : SymmBilin ip) (hm : Linear (K := K) mat) (hsa : SelfAdj ip mat)
    (hnn : ∀ a, 0 ≤ ip a a) (E0 : K) : ∀ (fuel i : Nat) (s : St K V), 1 ≤ i → InvB ip mat j E0 s →
    ∀ res, eagerLoop c ip nrm mat j fuel i s = .ok res → quadE ip mat j res.x ≤ E0 := by
  intro fuel
  induction fuel with
  | zero =>
    intro i s _ hinv res hres
    simp only [eagerLoop, Except.ok.injEq] at hres
    subst hres
    exact hinv.2.2
  | succ fuel ih =>
    intro i s hi hinv res hres
    have hstep := eagerStep_specB c ip nrm mat j hip hm hsa hnn E0 i hi s hinv
    rw [eagerLoop] at hres
    cases hE : eagerStep c ip nrm mat j i s with
    | stop r =>
      rw [hE] at hstep hres
      simp only at hres
      subst hres
      exact hstep
    | next s' =>
      rw [hE] at hstep hres
      simp only at hres hstep
      exact ih (i + 1) s' (by omega) hstep res hres

theorem init_pos (x0 : Option V) : (init ip mat j x0).pos = x0.getD 0 := by
  cases x0 <;> rfl

theorem init_d (x0 : Option V) : (init ip mat j x0).d = (init ip mat j x0).r := by
  cases x0 <;> rfl

theorem init_gamma (x0 : Option V) :
    (init ip mat j x0).gamma = ip (init ip mat j x0).r (init ip mat j x0).r := by
  cases x0 <;> rfl

theorem init_invB (hip : SymmBilin ip) (hm : Linear (K := K) mat) (x0 : Option V) :
    InvB ip mat j (quadE ip mat j (x0.getD 0)) (init ip mat j x0) := by
  refine ⟨init_invA ip mat j hip.toBilin hm x0, ?_, ?_⟩
  · rw [init_d, init_gamma]
  · rw [init_pos]

/-- `_cg` never returns a point with quadratic energy above the start -/
theorem cgEager_energy (hip : SymmBilin ip) (hm : Linear (K := K) mat) (hsa : SelfAdj ip mat)
    (hnn : ∀ a, 0 ≤ ip a a) (x0 : Option V) (res : Res K V) (hres : cgEager c ip nrm mat j x0 = .ok res) :
    quadE ip mat j res.x ≤ quadE ip mat j (x0.getD 0) := by
  have hinit := init_invB ip mat j hip hm x0
  unfold cgEager at hres
  simp only at hres
  split_ifs at hres with hz
  · simp only [Except.ok.injEq] at hres
    subst hres
    exact hinit.2.2
  · exact loop_specB c ip nrm mat j hip hm hsa hnn _ (maxiterEff c) 1 _ (le_refl _) hinit res hres

/-- first direction has negative curvature and failure is not requested: one steepest-descent step -/
theorem cgEager_first_step (hip : SymmBilin ip) (hm : Linear (K := K) mat) (hsa : SelfAdj ip mat)
    (hnn : ∀ a, 0 ≤ ip a a) (x0 : Option V) (hraise : c.raiseNPD = false) (hmax : 0 < maxiterEff c)
    (g : V) (hgdef : g = mat (x0.getD 0) - j) (hg0 : ip g g ≠ 0) (hcurv : ip g (mat g) < 0) :
    ∃ res, cgEager c ip nrm mat j x0 = .ok res ∧ res.x = x0.getD 0 - (ip g g / -ip g (mat g)) • g
      ∧ 0 < ip g g / -ip g (mat g) ∧ res.info = 0 ∧ res.nit = 1
      ∧ quadE ip mat j res.x < quadE ip mat j (x0.getD 0) := by
  have hA := init_invA ip mat j hip.toBilin hm x0
  have hr : (init ip mat j x0).r = g := by rw [hA.1, init_pos, hgdef]
  have hd : (init ip mat j x0).d = g := by rw [init_d, hr]
  have hgam : (init ip mat j x0).gamma = ip g g := by rw [init_gamma, hr]
  have hpos : (init ip mat j x0).pos = x0.getD 0 := init_pos ip mat j x0
  obtain ⟨m, hm1⟩ : ∃ m, maxiterEff c = m + 1 := ⟨maxiterEff c - 1, by omega⟩
  have hγ : 0 < ip g g := lt_of_le_of_ne (hnn g) (Ne.symm hg0)
  have hc : 0 < -ip g (mat g) := by linarith
  have ht : 0 < ip g g / -ip g (mat g) := div_pos hγ hc
  refine ⟨⟨x0.getD 0 - (ip g g / -ip g (mat g)) • g, 0, 1, .negCurvFirst, g, ip g g, 0⟩, ?_, rfl, ht, rfl, rfl, ?_⟩
  · unfold cgEager
    simp only [hgam, hg0, if_false, hm1, eagerLoop]
    unfold eagerStep
    simp only [hd, hr, hgam, hpos, ne_of_lt hcurv, hcurv, if_true, if_false, hraise, lt_irrefl]
    simp
  · simp only []
    rw [quadE_step ip mat j hip hm hsa, ← hgdef]
    have h2 : (half : K) * (ip g g / -ip g (mat g)) ^ 2 * ip g (mat g) ≤ 0 := by
      have h3 : (0:K) ≤ (half : K) * (ip g g / -ip g (mat g)) ^ 2 := by
        simp only [half]; positivity
      nlinarith
    nlinarith [mul_pos ht hγ]

/-! ### positive definite systems: the solver never fails -/

theorem absK_nonneg (a : K) : 0 ≤ absK a := by
  unfold absK; split_ifs with h
  · linarith
  · exact not_lt.mp h

theorem eagerStep_spd (hip : SymmBilin ip) (hm : Linear (K := K) mat) (hsa : SelfAdj ip mat)
    (hnn : ∀ a, 0 ≤ ip a a) (hpd : ∀ v : V, v ≠ 0 → 0 < ip v (mat v)) (heps : 0 ≤ c.eps) (htiny : 0 ≤ c.tiny)
    (E0 : K) (i : Nat) (hi : 1 ≤ i) (s : St K V) (hinv : InvB ip mat j E0 s) (hγ : 0 < s.gamma) :
    match eagerStep c ip nrm mat j i s with
    | .next s' => InvB ip mat j E0 s' ∧ 0 < s'.gamma
    | .stop (.ok res) => res.info = 0 ∧ (res.why = .gammaTiny ∨ res.why = .resnorm ∨ res.why = .absdelta)
    | .stop (.error _) => False := by
  have hB := eagerStep_specB c ip nrm mat j hip hm hsa hnn E0 i hi s hinv
  obtain ⟨hA, hrd, hE0⟩ := hinv
  obtain ⟨hr, hg, he⟩ := hA
  have hb := hip.toBilin
  have hd : s.d ≠ 0 := by
    intro h0
    rw [h0, hb.zero_right] at hrd
    linarith
  have hc : 0 < ip s.d (mat s.d) := hpd _ hd
  have hq : ∀ a : K, quadE ip mat j (s.pos - a • s.d)
      = quadE ip mat j s.pos - a * s.gamma + (half : K) * a ^ 2 * ip s.d (mat s.d) := by
    intro a; rw [quadE_step ip mat j hip hm hsa, ← hr, hrd]
  revert hB
  unfold eagerStep
  simp only [ne_of_gt hc, not_lt.mpr hc.le, if_false]
  generalize hα : s.gamma / ip s.d (mat s.d) = α
  generalize hp : s.pos - α • s.d = pos'
  have hrr : (if i % c.nreset = 0 then mat pos' - j else s.r - α • mat s.d) = mat pos' - j := by
    split_ifs
    · rfl
    · rw [← hp]; exact resid_step mat j hm s.pos s.r s.d α hr
  rw [hrr]
  have hE : energyOf ip j (mat pos' - j) pos' = quadE ip mat j pos' := energyOf_eq ip mat j hb pos'
  rw [hE, he]
  have hdiff : quadE ip mat j s.pos - quadE ip mat j pos' = (half : K) * s.gamma ^ 2 / ip s.d (mat s.d) := by
    rw [← hp, hq, ← hα]; simp only [half]; field_simp; ring
  have hdiff0 : 0 ≤ quadE ip mat j s.pos - quadE ip mat j pos' := by
    rw [hdiff]; apply div_nonneg _ hc.le; simp only [half]; positivity
  have hnoinc : ¬ (quadE ip mat j s.pos - quadE ip mat j pos' < -(c.eps * absK (quadE ip mat j pos'))) := by
    have := mul_nonneg heps (absK_nonneg (quadE ip mat j pos'))
    intro h; linarith
  simp only [hnoinc, if_false]
  split_ifs with hT hR hA
  · intro _; exact ⟨rfl, Or.inl rfl⟩
  · intro _; exact ⟨rfl, Or.inr (Or.inl rfl)⟩
  · intro _; exact ⟨rfl, Or.inr (Or.inr rfl)⟩
  · intro hB
    simp only [] at hB ⊢
    refine ⟨hB, ?_⟩
    have h0 := hnn (mat pos' - j)
    by_contra hle
    exact hT ⟨h0, le_trans (not_lt.mp hle) htiny⟩

theorem loop_spd (hip : SymmBilin ip) (hm : Linear (K := K) mat) (hsa : SelfAdj ip mat)
    (hnn : ∀ a, 0 ≤ ip a a) (hpd : ∀ v : V, v ≠ 0 → 0 < ip v (mat v)) (heps : 0 ≤ c.eps) (htiny : 0 ≤ c.tiny)
    (E0 : K) : ∀ (fuel i : Nat) (s : St K V), 1 ≤ i → InvB ip mat j E0 s → 0 < s.gamma →
    ∃ res, eagerLoop c ip nrm mat j fuel i s = .ok res ∧ (res.info = 0 ∨ res.why = .maxiter) := by
  intro fuel
  induction fuel with
  | zero => intro i s _ _ _; exact ⟨_, rfl, Or.inr rfl⟩
  | succ fuel ih =>
    intro i s hi hinv hγ
    have hstep := eagerStep_spd c ip nrm mat j hip hm hsa hnn hpd heps htiny E0 i hi s hinv hγ
    rw [eagerLoop]
    cases hE : eagerStep c ip nrm mat j i s with
    | stop r =>
      rw [hE] at hstep
      cases r with
      | ok res => exact ⟨res, rfl, Or.inl hstep.1⟩
      | error e => exact absurd hstep id
    | next s' =>
      rw [hE] at hstep
      simp only at hstep ⊢
      exact ih (i + 1) s' (by omega) hstep.1 hstep.2

/-- on a positive definite system `_cg` never raises, never stops for non-positive curvature or energy increase:
    it returns with `info = 0` or at the iteration limit -/
theorem cgEager_spd (hip : SymmBilin ip) (hm : Linear (K := K) mat) (hsa : SelfAdj ip mat)
    (hnn : ∀ a, 0 ≤ ip a a) (hpd : ∀ v : V, v ≠ 0 → 0 < ip v (mat v)) (heps : 0 ≤ c.eps) (htiny : 0 ≤ c.tiny)
    (x0 : Option V) : ∃ res, cgEager c ip nrm mat j x0 = .ok res ∧ (res.info = 0 ∨ res.why = .maxiter) := by
  have hinit := init_invB ip mat j hip hm x0
  unfold cgEager
  simp only []
  split_ifs with hz
  · exact ⟨_, rfl, Or.inl rfl⟩
  · have hγ : 0 < (init ip mat j x0).gamma := by
      rw [init_gamma] at hz ⊢
      exact lt_of_le_of_ne (hnn _) (Ne.symm hz)
    exact loop_spd c ip nrm mat j hip hm hsa hnn hpd heps htiny _ (maxiterEff c) 1 _ (le_refl _) hinit hγ

end NiftyVerif.CgRe
