/-
  Helper lemmas for C22: the sample loop over a consecutive index range, started with `y = None` or with the `y` of
  the preceding index, produces for every index `i` exactly `(draw (seedIdx i), isNeg i)`.
-/
import NiftyVerif.Model.Distributed
import Mathlib.Tactic.Ring
import Mathlib.Tactic.Linarith

namespace NiftyVerif.Distributed

/-- what the serial loop computes for index `i` -/
def spec {Y} (draw : Nat → Y) (mirror : Bool) (i : Nat) : Y × Bool := (draw (seedIdx mirror i), isNeg mirror i)

theorem seedIdx_pred_of_neg {mirror : Bool} {i : Nat} (h : isNeg mirror i = true) :
    seedIdx mirror (i - 1) = seedIdx mirror i := by
  unfold isNeg at h
  unfold seedIdx
  cases mirror with
  | false => simp at h
  | true =>
    simp only [Bool.true_and, bne_iff_ne, ne_eq] at h
    simp only [if_true]
    omega

theorem loop_spec {Y} (draw : Nat → Y) (mirror : Bool) : ∀ (k lo : Nat) (y : Option Y),
    (y = none ∨ y = some (draw (seedIdx mirror (lo - 1)))) →
    localLoop draw mirror (List.range' lo k) y = (List.range' lo k).map (spec draw mirror) := by
  intro k
  induction k with
  | zero => intro lo y _; rfl
  | succ k ih =>
    intro lo y hy
    rw [List.range'_succ]
    simp only [localLoop, List.map_cons]
    have hy' : nextY draw mirror lo y = draw (seedIdx mirror lo) := by
      rcases hy with rfl | rfl
      · rfl
      · simp only [nextY]
        by_cases hn : isNeg mirror lo = true
        · simp [hn, seedIdx_pred_of_neg hn]
        · simp [hn]
    rw [hy']
    congr 1
    apply ih
    right
    simp

end NiftyVerif.Distributed
