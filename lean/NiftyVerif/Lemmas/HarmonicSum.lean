/-
  Lemmas/HarmonicSum.lean — bridge from the model's own recursions to Mathlib, geometric sums of roots of unity.
-/
import NiftyVerif.Lemmas.Harmonic
import Mathlib.Algebra.Ring.GeomSum
import Mathlib.Tactic.Ring

namespace NiftyVerif.Harmonic
open Finset

variable {K : Type} [CommRing K]

theorem sumTo_eq_sum (n : Nat) (f : Nat → K) : sumTo n f = ∑ i ∈ range n, f i := by
  induction n with
  | zero => simp [sumTo]
  | succ n ih => rw [sumTo, ih, Finset.sum_range_succ]

theorem powN_eq_pow (x : K) (k : Nat) : powN x k = x ^ k := by
  induction k with
  | zero => simp [powN]
  | succ k ih => rw [powN, ih, pow_succ]

theorem natK_eq_cast (n : Nat) : (natK n : K) = (n : K) := by
  induction n with
  | zero => simp [natK]
  | succ n ih => rw [natK, ih, Nat.cast_succ]

theorem dftMat_eq (w : K) (k j : Nat) : dftMat w k j = w ^ (j * k) := by
  rw [dftMat, powN_eq_pow]

theorem dftMat_symm (w : K) (k j : Nat) : dftMat w k j = dftMat w j k := by
  rw [dftMat_eq, dftMat_eq, Nat.mul_comm]

/-- Σ_{k<n} ζ^k = 0 for an n-th root of unity ζ ≠ 1 in a domain -/
theorem geom_root_ne [IsDomain K] (ζ : K) (n : Nat) (hζ : ζ ^ n = 1) (h : ζ ≠ 1) :
    ∑ k ∈ range n, ζ ^ k = 0 := by
  have h1 := geom_sum_mul ζ n
  rw [hζ, sub_self] at h1
  rcases mul_eq_zero.mp h1 with h2 | h2
  · exact h2
  · exact absurd (sub_eq_zero.mp h2) h

theorem geom_root_one (n : Nat) : ∑ k ∈ range n, (1 : K) ^ k = (n : K) := by simp

/-- orthogonality F·F̄ = n·1 -/
theorem dft_orth [IsDomain K] (w wb : K) (n : Nat) (h : IsPrimitiveRoot w n) (hb : w * wb = 1)
    (k l : Nat) (hk : k < n) (hl : l < n) :
    ∑ j ∈ range n, dftMat w k j * dftMat wb j l = if k = l then (n : K) else 0 := by
  have hterm : ∀ j, dftMat w k j * dftMat wb j l = (w ^ k * wb ^ l) ^ j := by
    intro j; rw [dftMat_eq, dftMat_eq, mul_pow, ← pow_mul, ← pow_mul, Nat.mul_comm j k]
  simp only [hterm]
  have hwn : w ^ n = 1 := h.pow_eq_one
  have hwbn : wb ^ n = 1 := by
    have : (w * wb) ^ n = 1 := by rw [hb, one_pow]
    rw [mul_pow, hwn, one_mul] at this; exact this
  have hz : (w ^ k * wb ^ l) ^ n = 1 := by
    rw [mul_pow, ← pow_mul, ← pow_mul, Nat.mul_comm k n, Nat.mul_comm l n, pow_mul, pow_mul, hwn, hwbn]; simp
  have hiff : w ^ k * wb ^ l = 1 ↔ k = l := by
    constructor
    · intro e
      have : w ^ k = w ^ l := by
        have h2 : w ^ k * wb ^ l * w ^ l = w ^ l := by rw [e, one_mul]
        have h3 : wb ^ l * w ^ l = 1 := by rw [← mul_pow, mul_comm wb w, hb, one_pow]
        rw [mul_assoc, h3, mul_one] at h2; exact h2
      exact h.pow_inj hk hl this
    · intro e; subst e; rw [← mul_pow, hb, one_pow]
  by_cases e : k = l
  · rw [if_pos e, hiff.mpr e, geom_root_one]
  · rw [if_neg e, geom_root_ne _ n hz (fun h' => e (hiff.mp h'))]

/-- F·F = n·(reflection): Σ_j w^(jk) w^(lj) = n if n ∣ k + l else 0 -/
theorem dft_sq [IsDomain K] (w : K) (n : Nat) (h : IsPrimitiveRoot w n) (k l : Nat) :
    ∑ j ∈ range n, dftMat w k j * dftMat w j l = if n ∣ k + l then (n : K) else 0 := by
  have hterm : ∀ j, dftMat w k j * dftMat w j l = (w ^ (k + l)) ^ j := by
    intro j; rw [dftMat_eq, dftMat_eq, ← pow_add, ← pow_mul]; congr 1; ring
  simp only [hterm]
  have hz : (w ^ (k + l)) ^ n = 1 := by rw [← pow_mul, Nat.mul_comm, pow_mul, h.pow_eq_one, one_pow]
  have := h.pow_eq_one_iff_dvd (k + l)
  by_cases e : n ∣ k + l
  · rw [if_pos e, this.mpr e, geom_root_one]
  · rw [if_neg e, geom_root_ne _ n hz (fun h' => e (this.mp h'))]

end NiftyVerif.Harmonic
