/-
  Lemmas for C35 / LOS, part 5: the code's clipping (`d0/d1/dmin/dmax`, `direction == 0` sentinel ±5·10¹¹ — `clipT`) computes
  the same parameter interval as the independent `clipBox` (Model/Response.lean).
-/
import NiftyVerif.Lemmas.ResponseLos4

namespace NiftyVerif.ResponseLos
open NiftyVerif Coo NiftyVerif.Response

/-- per-axis entry of `clipBox` -/
def cbAxis (nse : ℕ × ℚ × ℚ) : Option ℚ × Option ℚ :=
  let n : ℚ := (nse.1 : ℕ)
  let s := nse.2.1
  let d := nse.2.2 - nse.2.1
  if d = 0 then (if 0 < s ∧ s < n then (some (0 : ℚ), some (1 : ℚ)) else (none, none))
  else
    let a := (0 - s) / d
    let b := (n - s) / d
    (some (if a < b then a else b), some (if a < b then b else a))

theorem clipBox_eq (shape : List ℕ) (s e : List ℚ) :
    clipBox shape s e =
      (let per := (shape.zip (s.zip e)).map cbAxis
       if per.any (fun ab => ab.1.isNone) then none else
       let lo := maxL 0 (per.filterMap (·.1))
       let hi := minL 1 (per.filterMap (·.2))
       if lo < hi then some (lo, hi) else none) := rfl

theorem maxL_cons (d a : ℚ) (l : List ℚ) : maxL d (a :: l) = if a < maxL d l then maxL d l else a := rfl
theorem minL_cons (d a : ℚ) (l : List ℚ) : minL d (a :: l) = if minL d l < a then minL d l else a := rfl

theorem maxL_mono (d a : ℚ) (l : List ℚ) : maxL d l ≤ maxL d (a :: l) := by
  rw [maxL_cons]; split_ifs with h
  · exact le_rfl
  · exact not_lt.mp h

theorem minL_mono (d a : ℚ) (l : List ℚ) : minL d (a :: l) ≤ minL d l := by
  rw [minL_cons]; split_ifs with h
  · exact le_rfl
  · exact not_lt.mp h

theorem fm1 (a : ℚ) (b : Option ℚ) (X : List (Option ℚ × Option ℚ)) :
    List.filterMap (fun x : Option ℚ × Option ℚ => x.1) ((some a, b) :: X) = a :: List.filterMap (fun x => x.1) X := rfl
theorem fm2 (a : Option ℚ) (b : ℚ) (X : List (Option ℚ × Option ℚ)) :
    List.filterMap (fun x : Option ℚ × Option ℚ => x.2) ((a, some b) :: X) = b :: List.filterMap (fun x => x.2) X := rfl

theorem big_pos : (2 : ℚ) < big / 2 := by unfold big; norm_num

/-- the invariant linking the two clipping computations, axis by axis -/
theorem clip_inv : ∀ (sh : List ℕ) (ss es : List ℚ), (∀ n ∈ sh, 0 < n) →
    ((((sh.zip (ss.zip es)).map cbAxis).any (fun ab => ab.1.isNone) = true →
        minL 1 (dmaxArr sh ss (dirOf ss es)) ≤ maxL 0 (dminArr sh ss (dirOf ss es))) ∧
     (((sh.zip (ss.zip es)).map cbAxis).any (fun ab => ab.1.isNone) = false →
        maxL 0 (((sh.zip (ss.zip es)).map cbAxis).filterMap (·.1)) = maxL 0 (dminArr sh ss (dirOf ss es)) ∧
        minL 1 (((sh.zip (ss.zip es)).map cbAxis).filterMap (·.2)) = minL 1 (dmaxArr sh ss (dirOf ss es))))
  | [], _, _, _ => by simp [dminArr, dmaxArr]
  | _ :: _, [], _, _ => by simp [dminArr, dmaxArr]
  | _ :: _, _ :: _, [], _ => by simp [dminArr, dmaxArr, dirOf]
  | n :: sh, s :: ss, e :: es, hn => by
    obtain ⟨ih1, ih2⟩ := clip_inv sh ss es (fun m hm => hn m (List.mem_cons_of_mem _ hm))
    have hn0 : (0 : ℚ) < (n : ℚ) := by exact_mod_cast hn n List.mem_cons_self
    have h0max : ∀ l, (0 : ℚ) ≤ maxL 0 l := fun l => (le_maxL 0 l).1
    have h1min : ∀ l, minL 1 l ≤ (1 : ℚ) := fun l => (minL_le 1 l).1
    simp only [List.zip_cons_cons, List.map_cons, List.any_cons, dirOf, dminArr, dmaxArr] at ih1 ih2 ⊢
    set X := (sh.zip (ss.zip es)).map cbAxis with hX
    set DM := dminArr sh ss (List.map (fun se => se.2 - se.1) (ss.zip es)) with hDM
    set DX := dmaxArr sh ss (List.map (fun se => se.2 - se.1) (ss.zip es)) with hDX
    by_cases hd : e - s = 0
    · -- axis-parallel in this coordinate
      by_cases hin : 0 < s ∧ s < (n : ℚ)
      · have hc : cbAxis (n, s, e) = (some 0, some 1) := by
          unfold cbAxis; simp only; rw [if_pos hd, if_pos hin]
        have hmn : minQ (d0 s (e - s)) (d1 (n : ℚ) s (e - s)) = -(big / 2) := by
          unfold minQ d0 d1; rw [if_pos hd, if_pos hd, if_pos hin.1, if_pos hin.2]; unfold big; norm_num
        have hmx : maxQ (d0 s (e - s)) (d1 (n : ℚ) s (e - s)) = big / 2 := by
          unfold maxQ d0 d1; rw [if_pos hd, if_pos hd, if_pos hin.1, if_pos hin.2]; unfold big; norm_num
        rw [hc, hmn, hmx]
        simp only [Option.isNone_some, Bool.false_or]
        have e1 : ∀ l, maxL 0 (-(big / 2) :: l) = maxL 0 l := fun l => by
          rw [maxL_cons, if_pos]; linarith [h0max l, big_pos]
        have e2 : ∀ l, maxL 0 ((0 : ℚ) :: l) = maxL 0 l := fun l => by
          rw [maxL_cons]; split_ifs with h
          · rfl
          · exact le_antisymm (h0max l) (not_lt.mp h)
        have e3 : ∀ l, minL 1 (big / 2 :: l) = minL 1 l := fun l => by
          rw [minL_cons, if_pos]; linarith [h1min l, big_pos]
        have e4 : ∀ l, minL 1 ((1 : ℚ) :: l) = minL 1 l := fun l => by
          rw [minL_cons]; split_ifs with h
          · rfl
          · exact le_antisymm (not_lt.mp h) (h1min l)
        rw [fm1, fm2, e1, e2, e3, e4]
        exact ⟨ih1, ih2⟩
      · have hc : cbAxis (n, s, e) = (none, none) := by
          unfold cbAxis; simp only; rw [if_pos hd, if_neg hin]
        rw [hc]
        simp only [Option.isNone_none, Bool.true_or, forall_true_left, reduceCtorEq, false_implies, and_true]
        rw [not_and_or, not_lt, not_lt] at hin
        rcases hin with hs0 | hsn
        · -- s ≤ 0 < n : the dmax entry is -big/2
          have hsn : s < (n : ℚ) := lt_of_le_of_lt hs0 hn0
          have hmx : maxQ (d0 s (e - s)) (d1 (n : ℚ) s (e - s)) = -(big / 2) := by
            unfold maxQ d0 d1; rw [if_pos hd, if_pos hd, if_neg (not_lt.mpr hs0), if_pos hsn]; unfold big; norm_num
          rw [hmx]
          have h1 : minL 1 (-(big / 2) :: DX) ≤ -(big / 2) := by
            have := (minL_le 1 (-(big / 2) :: DX)).2 (-(big / 2)) List.mem_cons_self; exact this
          linarith [h0max (minQ (d0 s (e - s)) (d1 (n : ℚ) s (e - s)) :: DM), big_pos]
        · -- n ≤ s : the dmin entry is +big/2
          have hs0 : 0 < s := lt_of_lt_of_le hn0 hsn
          have hmn : minQ (d0 s (e - s)) (d1 (n : ℚ) s (e - s)) = big / 2 := by
            unfold minQ d0 d1; rw [if_pos hd, if_pos hd, if_pos hs0, if_neg (not_lt.mpr hsn)]; unfold big; norm_num
          rw [hmn]
          have h1 : big / 2 ≤ maxL 0 (big / 2 :: DM) := (le_maxL 0 (big / 2 :: DM)).2 _ List.mem_cons_self
          linarith [h1min (maxQ (d0 s (e - s)) (d1 (n : ℚ) s (e - s)) :: DX), big_pos]
    · -- moving axis: the same two parameters, min and max
      have hc : cbAxis (n, s, e) = (some (minQ (d0 s (e - s)) (d1 (n : ℚ) s (e - s))),
          some (maxQ (d0 s (e - s)) (d1 (n : ℚ) s (e - s)))) := by
        unfold cbAxis minQ maxQ d0 d1
        simp only
        rw [if_neg hd, if_neg hd, if_neg hd, zero_sub]
        by_cases hab : -s / (e - s) < ((n : ℚ) - s) / (e - s)
        · simp only [if_pos hab, if_neg (not_lt.mpr hab.le)]
        · rcases eq_or_lt_of_le (not_lt.mp hab) with heq | hlt
          · simp only [heq, lt_irrefl, if_false]
          · simp only [if_neg hab, if_pos hlt]
      rw [hc, fm1, fm2]
      simp only [Option.isNone_some, Bool.false_or]
      constructor
      · intro h
        have := ih1 h
        exact le_trans (minL_mono 1 _ DX) (le_trans this (maxL_mono 0 _ DM))
      · intro h
        obtain ⟨i1, i2⟩ := ih2 h
        rw [maxL_cons, maxL_cons, minL_cons, minL_cons, i1, i2]
        exact ⟨rfl, rfl⟩

/-- **the transcribed clipping is the independent `clipBox`** (every dimension; all axis lengths positive) -/
theorem clipBox_eq_clipT (shape : List ℕ) (s e : List ℚ) (hn : ∀ n ∈ shape, 0 < n) :
    clipBox shape s e =
      if (clipT shape s (dirOf s e)).1 < (clipT shape s (dirOf s e)).2 then some (clipT shape s (dirOf s e)) else none := by
  obtain ⟨h1, h2⟩ := clip_inv shape s e hn
  rw [clipBox_eq]
  simp only
  unfold clipT
  simp only
  by_cases hany : ((shape.zip (s.zip e)).map cbAxis).any (fun ab => ab.1.isNone) = true
  · rw [if_pos hany]
    have := h1 hany
    unfold maxQ
    rw [if_neg (not_lt.mpr this), if_neg (lt_irrefl _)]
  · rw [Bool.not_eq_true] at hany
    rw [hany]
    simp only [Bool.false_eq_true, if_false]
    obtain ⟨i1, i2⟩ := h2 hany
    rw [i1, i2]
    unfold maxQ
    by_cases hlt : maxL 0 (dminArr shape s (dirOf s e)) < minL 1 (dmaxArr shape s (dirOf s e))
    · rw [if_pos hlt, if_pos hlt, if_pos hlt]
    · rw [if_neg hlt, if_neg hlt, if_neg (lt_irrefl _)]

end NiftyVerif.ResponseLos
