/-
  The controllers compare norms (`sqrt` of a sum of squares) with tolerances; Model/Controllers.lean compares the squares.
  Over the reals the two are the same decision:
-/
import NiftyVerif.Lemmas.Controllers
import Mathlib.Analysis.Real.Sqrt

namespace NiftyVerif.Ctrl

/-- `sqrt a ≤ t  ⇔  0 ≤ t ∧ a ≤ t*t`  — the model's `normLe` -/
theorem sqrt_le_iff_sq (a t : ℝ) : Real.sqrt a ≤ t ↔ 0 ≤ t ∧ a ≤ t * t := by
  rw [Real.sqrt_le_iff, sq]

/-- `normLe` decides `‖g‖ ≤ t` -/
theorem normLe_iff (gnsq t : ℝ) : normLe gnsq t = true ↔ Real.sqrt gnsq ≤ t := by
  rw [sqrt_le_iff_sq]; simp [normLe]

/-- `normLeRel` decides `‖g‖ ≤ t_rel · ‖g₀‖` (`ref = ‖g₀‖² ≥ 0`) -/
theorem normLeRel_iff (gnsq trel ref : ℝ) (href : 0 ≤ ref) :
    normLeRel gnsq trel ref = true ↔ Real.sqrt gnsq ≤ trel * Real.sqrt ref := by
  rw [sqrt_le_iff_sq]
  have hs : Real.sqrt ref * Real.sqrt ref = ref := Real.mul_self_sqrt href
  have e : trel * Real.sqrt ref * (trel * Real.sqrt ref) = trel * trel * ref := by
    rw [mul_mul_mul_comm, hs]
  rw [e]
  simp only [normLeRel, Bool.and_eq_true, Bool.or_eq_true, decide_eq_true_eq]
  constructor
  · rintro ⟨h1, h2⟩
    refine ⟨?_, h2⟩
    rcases h1 with h1 | h1
    · exact mul_nonneg h1 (Real.sqrt_nonneg _)
    · rw [h1]; simp
  · rintro ⟨h1, h2⟩
    refine ⟨?_, h2⟩
    by_cases h0 : ref = 0
    · exact Or.inr h0
    · left
      have hpos : 0 < Real.sqrt ref := Real.sqrt_pos.2 (lt_of_le_of_ne href (Ne.symm h0))
      by_contra hneg
      have : trel * Real.sqrt ref < 0 := mul_neg_of_neg_of_pos (not_le.1 hneg) hpos
      exact absurd h1 (not_le.2 this)

/-- `sqrt a < t  ⇔  0 < t ∧ a < t*t`  (used for `np.std(memory) < deltaE`) -/
theorem sqrt_lt_iff_sq (a t : ℝ) : Real.sqrt a < t ↔ 0 < t ∧ a < t * t := by
  constructor
  · intro h
    have ht : 0 < t := lt_of_le_of_lt (Real.sqrt_nonneg a) h
    exact ⟨ht, by rw [← sq]; exact (Real.sqrt_lt' ht).1 h⟩
  · rintro ⟨ht, h⟩
    exact (Real.sqrt_lt' ht).2 (by rw [sq]; exact h)

end NiftyVerif.Ctrl
