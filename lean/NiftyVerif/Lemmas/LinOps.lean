/-
  Lemmas about `Model/LinOps.lean`: Kronecker embedding `onAxis`, gathers with bijective sources, masks.
-/
import NiftyVerif.Lemmas.Coo
import NiftyVerif.Model.LinOps
import Mathlib.Algebra.Field.Basic

namespace NiftyVerif
open Coo LinOps

section onaxis
variable {K : Type} [CommRing K]

/-- uniqueness of the `(a, r, b)` decomposition of a flat index of a `(pre, rows, post)` array -/
theorem axis_index_inj {rows post a r b a' r' b' : Nat} (hr : r < rows) (hr' : r' < rows)
    (hb : b < post) (hb' : b' < post) :
    (a' * rows + r') * post + b' = (a * rows + r) * post + b ↔ (a' = a ∧ r' = r ∧ b' = b) := by
  constructor
  · intro h
    have hpost : 0 < post := by omega
    have h1 : ((a' * rows + r') * post + b') / post = ((a * rows + r) * post + b) / post := by rw [h]
    have h2 : ((a' * rows + r') * post + b') % post = ((a * rows + r) * post + b) % post := by rw [h]
    rw [Nat.add_comm, Nat.add_mul_div_right _ _ hpost, Nat.div_eq_of_lt hb',
        Nat.add_comm ((a * rows + r) * post), Nat.add_mul_div_right _ _ hpost, Nat.div_eq_of_lt hb] at h1
    rw [Nat.add_comm, Nat.add_mul_mod_self_right, Nat.mod_eq_of_lt hb',
        Nat.add_comm ((a * rows + r) * post), Nat.add_mul_mod_self_right, Nat.mod_eq_of_lt hb] at h2
    simp only [Nat.zero_add] at h1
    have hrows : 0 < rows := by omega
    have h3 : (a' * rows + r') / rows = (a * rows + r) / rows := by rw [h1]
    have h4 : (a' * rows + r') % rows = (a * rows + r) % rows := by rw [h1]
    rw [Nat.add_comm, Nat.add_mul_div_right _ _ hrows, Nat.div_eq_of_lt hr',
        Nat.add_comm (a * rows), Nat.add_mul_div_right _ _ hrows, Nat.div_eq_of_lt hr] at h3
    rw [Nat.add_comm, Nat.add_mul_mod_self_right, Nat.mod_eq_of_lt hr',
        Nat.add_comm (a * rows), Nat.add_mul_mod_self_right, Nat.mod_eq_of_lt hr] at h4
    simp only [Nat.zero_add] at h3
    exact ⟨h3, h4, h2⟩
  · rintro ⟨rfl, rfl, rfl⟩; rfl

/-- **Kronecker embedding acts slice-wise**: on the `(a, ·, b)` fibre `onAxis pre post M` is `M` -/
theorem apply_onAxis (pre post : Nat) (M : Coo K) (hwf : M.wf = true) (x : Nat → K)
    (a r b : Nat) (ha : a < pre) (hr : r < M.rows) (hb : b < post) :
    apply (onAxis pre post M) x ((a * M.rows + r) * post + b)
      = apply M (fun c => x ((a * M.cols + c) * post + b)) r := by
  have hw := (wf_iff M).mp hwf
  unfold apply onAxis
  simp only
  rw [applyE_flatMap]
  -- only a' = a contributes
  have hA : ∀ a', applyE (M.ent.flatMap fun e => (List.range post).map fun b' =>
        ((a' * M.rows + e.1) * post + b', (a' * M.cols + e.2.1) * post + b', e.2.2)) x
        ((a * M.rows + r) * post + b)
      = if a' = a then applyE M.ent (fun c => x ((a * M.cols + c) * post + b)) r else 0 := by
    intro a'
    rw [applyE_flatMap]
    by_cases haa : a' = a
    · subst haa
      simp only [if_true]
      unfold applyE
      apply sumL_map_congr; intro e he
      have her := (hw e he).1
      rw [List.map_map]
      by_cases h1 : e.1 = r
      · simp only [h1, if_true]
        have := sumN_ite_eq (K := K) post b hb (fun b' => e.2.2 * x ((a' * M.cols + e.2.1) * post + b'))
        unfold sumN at this
        rw [← this]; apply sumL_map_congr; intro b' hb'
        have hb'' := List.mem_range.mp hb'
        simp only [Function.comp]
        have hiff := axis_index_inj (rows := M.rows) (post := post) (a := a') (a' := a') (r := r) (r' := r) (b := b) (b' := b') hr hr hb hb''
        by_cases hbb : b' = b
        · subst hbb; simp
        · have : ¬ ((a' * M.rows + r) * post + b' = (a' * M.rows + r) * post + b) := by
            intro hh; exact hbb (hiff.mp hh).2.2
          simp [this, hbb]
      · simp only [h1, if_false]
        apply sumL_map_eq_zero; intro b' hb'
        have hb'' := List.mem_range.mp hb'
        simp only [Function.comp]
        have hiff := axis_index_inj (rows := M.rows) (post := post) (a := a') (a' := a') (r := r) (r' := e.1) (b := b) (b' := b') hr her hb hb''
        have : ¬ ((a' * M.rows + e.1) * post + b' = (a' * M.rows + r) * post + b) := by
          intro hh; exact h1 (hiff.mp hh).2.1
        simp [this]
    · simp only [haa, if_false]
      apply sumL_map_eq_zero; intro e he
      have her := (hw e he).1
      unfold applyE
      rw [List.map_map]
      apply sumL_map_eq_zero; intro b' hb'
      have hb'' := List.mem_range.mp hb'
      simp only [Function.comp]
      have hiff := axis_index_inj (rows := M.rows) (post := post) (a := a) (a' := a') (r := r) (r' := e.1) (b := b) (b' := b') hr her hb hb''
      have : ¬ ((a' * M.rows + e.1) * post + b' = (a * M.rows + r) * post + b) := by
        intro hh; exact haa (hiff.mp hh).1
      simp [this]
  simp only [hA]
  exact sumN_ite_eq pre a ha (fun _ => applyE M.ent (fun c => x ((a * M.cols + c) * post + b)) r)

/-- the adjoint of a Kronecker embedding is the Kronecker embedding of the adjoint -/
theorem adj_onAxis (cj : K → K) (pre post : Nat) (M : Coo K) :
    adj cj (onAxis pre post M) = onAxis pre post (adj cj M) := by
  simp [adj, adjE, onAxis, List.map_flatMap, List.flatMap_map, List.map_map, Function.comp_def]

theorem onAxis_wf (pre post : Nat) (M : Coo K) (hwf : M.wf = true) : (onAxis pre post M).wf = true := by
  have hw := (wf_iff M).mp hwf
  rw [wf_iff]; intro e he
  simp only [onAxis, List.mem_flatMap, List.mem_range, List.mem_map] at he
  obtain ⟨a, ha, e', he', b, hb, rfl⟩ := he
  have h1 := (hw e' he').1
  have h2 := (hw e' he').2
  simp only
  constructor
  · calc (a * M.rows + e'.1) * post + b < (a * M.rows + e'.1) * post + post := by omega
      _ = (a * M.rows + e'.1 + 1) * post := by ring
      _ ≤ (pre * M.rows) * post := by
          apply Nat.mul_le_mul_right
          calc a * M.rows + e'.1 + 1 ≤ a * M.rows + M.rows := by omega
            _ = (a + 1) * M.rows := by ring
            _ ≤ pre * M.rows := Nat.mul_le_mul_right _ ha
  · calc (a * M.cols + e'.2.1) * post + b < (a * M.cols + e'.2.1) * post + post := by omega
      _ = (a * M.cols + e'.2.1 + 1) * post := by ring
      _ ≤ (pre * M.cols) * post := by
          apply Nat.mul_le_mul_right
          calc a * M.cols + e'.2.1 + 1 ≤ a * M.cols + M.cols := by omega
            _ = (a + 1) * M.cols := by ring
            _ ≤ pre * M.cols := Nat.mul_le_mul_right _ ha

end onaxis

section gather
variable {K : Type} [CommRing K]

theorem gather_wf (rows cols : Nat) (src : Nat → Nat) (h : ∀ r, r < rows → src r < cols) :
    (gather rows cols src : Coo K).wf = true := by
  unfold gather; apply ofRows_wf; intro r hr cw hcw
  simp only [List.mem_singleton] at hcw; subst hcw; exact h r hr

/-- a gather whose source map is a bijection of `[0,N)` is inverted by its adjoint (a permutation matrix) -/
theorem gather_perm_inverse {cj : K → K} (hc1 : cj 1 = 1) (N : Nat) (src inv : Nat → Nat)
    (hinv : ∀ r, r < N → ∀ c, c < N → (src r = c ↔ r = inv c)) (hinvlt : ∀ c, c < N → inv c < N)
    (x : Nat → K) (c : Nat) (hc : c < N) :
    applyAdj cj (gather N N src) (apply (gather N N src) x) c = x c := by
  rw [applyAdj_gather hc1]
  have : sumN N (fun r => if src r = c then apply (gather N N src) x r else 0)
       = sumN N (fun r => if r = inv c then x c else 0) := by
    apply sumN_congr; intro r hr
    rw [apply_gather]; simp only [hr, if_true]
    by_cases h : src r = c
    · have h2 := (hinv r hr c hc).mp h
      rw [if_pos h, if_pos h2, h]
    · have h' : ¬ r = inv c := fun hh => h ((hinv r hr c hc).mpr hh)
      rw [if_neg h, if_neg h']
  rw [this, sumN_ite_eq N (inv c) (hinvlt c hc) (fun _ => x c)]

/-- … and the other way round -/
theorem gather_perm_inverse' {cj : K → K} (hc1 : cj 1 = 1) (N : Nat) (src inv : Nat → Nat)
    (hinv : ∀ r, r < N → ∀ c, c < N → (src r = c ↔ r = inv c)) (hsrclt : ∀ r, r < N → src r < N)
    (hinvlt : ∀ c, c < N → inv c < N)
    (y : Nat → K) (r : Nat) (hr : r < N) :
    apply (gather N N src) (applyAdj cj (gather N N src) y) r = y r := by
  rw [apply_gather]; simp only [hr, if_true]
  rw [applyAdj_gather hc1]
  have : sumN N (fun r' => if src r' = src r then y r' else 0)
       = sumN N (fun r' => if r' = r then y r' else 0) := by
    apply sumN_congr; intro r' hr'
    have h1 := hinv r' hr' (src r) (hsrclt r hr)
    have h2 := (hinv r hr (src r) (hsrclt r hr)).mp rfl
    by_cases h : src r' = src r
    · have : r' = r := by rw [h1.mp h, ← h2]
      simp [h, this]
    · have h' : ¬ r' = r := fun hh => h (by rw [hh])
      simp [h, h']
  rw [this, sumN_ite_eq N r hr y]

end gather

section weights
variable {F : Type} [Field F]

theorem powN_mul_inv (a : F) (ha : a ≠ 0) (n : Nat) : powN a n * powN a⁻¹ n = 1 := by
  induction n with
  | zero => simp [powN]
  | succ n ih =>
    simp only [powN]
    calc a * powN a n * (a⁻¹ * powN a⁻¹ n) = (a * a⁻¹) * (powN a n * powN a⁻¹ n) := by ring
      _ = 1 := by rw [ih, mul_inv_cancel₀ ha]; ring

theorem powI_neg (a : F) (ha : a ≠ 0) (p : Int) : powI a p * powI a (-p) = 1 := by
  unfold powI
  rcases lt_trichotomy p 0 with h | h | h
  · have h1 : ¬ p ≥ 0 := by omega
    have h2 : -p ≥ 0 := by omega
    simp only [h1, h2, if_true, if_false, neg_neg]
    rw [mul_comm]; exact powN_mul_inv a ha _
  · subst h; simp [powN]
  · have h1 : p ≥ 0 := by omega
    have h2 : ¬ -p ≥ 0 := by omega
    simp only [h1, h2, if_true, if_false, neg_neg]
    exact powN_mul_inv a ha _

theorem prodK_mul_map {α : Type} (l : List α) (f g : α → F) (h : ∀ a ∈ l, f a * g a = 1) :
    prodK (l.map f) * prodK (l.map g) = 1 := by
  induction l with
  | nil => simp [prodK]
  | cons a l ih =>
    simp only [List.map_cons, prodK]
    calc f a * prodK (l.map f) * (g a * prodK (l.map g))
        = (f a * g a) * (prodK (l.map f) * prodK (l.map g)) := by ring
      _ = 1 := by rw [h a (List.mem_cons_self), ih (fun b hb => h b (List.mem_cons_of_mem _ hb))]; ring

end weights

section mask

/-- the unflagged list is strictly increasing: the mask keeps the raveled order -/
theorem unflagged_sorted (flags : List Bool) : (unflagged flags).Pairwise (· < ·) := by
  unfold unflagged
  exact List.Pairwise.filter _ List.pairwise_lt_range

/-- membership: exactly the in-range indices whose flag is `false` -/
theorem mem_unflagged (flags : List Bool) (i : Nat) :
    i ∈ unflagged flags ↔ i < flags.length ∧ flags.getD i true = false := by
  unfold unflagged; simp [List.mem_filter]

theorem unflagged_lt (flags : List Bool) (r : Nat) (hr : r < (unflagged flags).length) :
    (unflagged flags).getD r 0 < flags.length := by
  have hm : (unflagged flags).getD r 0 ∈ unflagged flags := by
    rw [List.getD_eq_getElem?_getD, List.getElem?_eq_getElem hr, Option.getD_some]; exact List.getElem_mem hr
  exact ((mem_unflagged flags _).mp hm).1

end mask

end NiftyVerif
