/-
  The successive-halving line search of `_newton_cg` accepts the FIRST trial of its fixed schedule that does not
  increase the energy; with the CG of C15 as the inner solver, a negative-curvature start yields trials along −g.
-/
import NiftyVerif.Model.NewtonRe
import NiftyVerif.Lemmas.CgReDescent
import NiftyVerif.Lemmas.CgReSim

namespace NiftyVerif.NewtonRe
set_option linter.unusedSectionVars false
set_option linter.unusedSimpArgs false
open NiftyVerif.Iter

variable {K V : Type} [Field K] [LinearOrder K] [IsStrictOrderedRing K] [AddCommGroup V] [Module K V]
variable (c : Cfg K) (f : V → K × V) (hessp : V → V → V) (ip : V → V → K) (gradnorm : V → K) (nrm : V → K)

theorem ite3_cases' {α : Type} (A B : Prop) [Decidable A] [Decidable B] (x y z : α) (P : α → Prop)
    (hx : P x) (hy : P y) (hz : P z) : P (if A then x else if B then y else z) := by
  split_ifs <;> assumption

/-- `1, 1/2, 1/4, …` exactly as the code computes them (`grad_scaling /= 2`) -/
def halves : Nat → K
  | 0 => 1
  | k + 1 => halves k / two

/-- step length factor of trial `k`: six halvings, then the reset restarts at 1 -/
def sched (k : Nat) : K := if k ≤ 5 then halves k else halves (k - 6)

/-- position of trial `k` of the schedule: trials 0–5 along `natg`, trials 6–8 along the reset direction -/
def trialPos (pos natg rd : V) (k : Nat) : V :=
  if k ≤ 5 then pos - (halves k : K) • natg else pos - (halves (k - 6) : K) • rd

theorem halves_pos : ∀ k, 0 < (halves k : K) := by
  intro k
  induction k with
  | zero => simp [halves]
  | succ k ih => simp only [halves, two]; positivity

theorem sched_pos (k : Nat) : 0 < (sched k : K) := by
  unfold sched; split_ifs <;> exact halves_pos _

theorem lsEager_spec' (pos : V) (energy : K) (g : V) : ∀ (fuel ls : Nat) (gs : K) (dd : V) (reset : Bool),
    (lsEager f hessp ip pos energy g fuel ls gs dd reset).found = true →
    (lsEager f hessp ip pos energy g fuel ls gs dd reset).newEnergy
      = (f (lsEager f hessp ip pos energy g fuel ls gs dd reset).newPos).1 := by
  intro fuel
  induction fuel with
  | zero => intro ls gs dd reset h; simp [lsEager] at h
  | succ fuel ih =>
    intro ls gs dd reset
    simp only [lsEager]
    split_ifs with h1 h2
    · intro _; rfl
    · exact ih _ _ _ _
    · exact ih _ _ _ _

theorem lsEager_first (pos : V) (energy : K) (g natg : V) :
    ∀ (fuel ls : Nat) (gs : K) (dd : V) (reset : Bool), ls + fuel = 9 →
    (ls ≤ 5 → gs = halves ls ∧ dd = natg) → (6 ≤ ls → gs = halves (ls - 6) ∧ dd = resetDir ip hessp pos g) →
    let R := lsEager f hessp ip pos energy g fuel ls gs dd reset
    (R.found = true → ∃ k, ls ≤ k ∧ k < 9 ∧ R.trials = k + 1
        ∧ R.newPos = trialPos (K := K) pos natg (resetDir ip hessp pos g) k
        ∧ (f (trialPos (K := K) pos natg (resetDir ip hessp pos g) k)).1 ≤ energy
        ∧ ∀ k', ls ≤ k' → k' < k → ¬ (f (trialPos (K := K) pos natg (resetDir ip hessp pos g) k')).1 ≤ energy)
    ∧ (R.found = false → ∀ k, ls ≤ k → k < 9 → ¬ (f (trialPos (K := K) pos natg (resetDir ip hessp pos g) k)).1 ≤ energy) := by
  intro fuel
  induction fuel with
  | zero =>
    intro ls gs dd reset hsum _ _
    simp only [lsEager]
    exact ⟨fun h => by simp at h, fun _ k h1 h2 => by omega⟩
  | succ fuel ih =>
    intro ls gs dd reset hsum hlo hhi
    have hpos : pos - gs • dd = trialPos (K := K) pos natg (resetDir ip hessp pos g) ls := by
      unfold trialPos
      split_ifs with h5
      · rw [(hlo h5).1, (hlo h5).2]
      · rw [(hhi (by omega)).1, (hhi (by omega)).2]
    simp only [lsEager]
    by_cases hacc : (f (pos - gs • dd)).1 ≤ energy
    · simp only [hacc, if_true]
      refine ⟨fun _ => ⟨ls, le_refl _, by omega, rfl, hpos, by rw [← hpos]; exact hacc, fun k' a b => by omega⟩,
        fun h => by simp at h⟩
    · simp only [hacc, if_false]
      have hrej : ¬ (f (trialPos (K := K) pos natg (resetDir ip hessp pos g) ls)).1 ≤ energy := by rw [← hpos]; exact hacc
      have key : ∀ (gs' : K) (dd' : V) (reset' : Bool),
          ((ls + 1) ≤ 5 → gs' = halves (ls + 1) ∧ dd' = natg) →
          (6 ≤ ls + 1 → gs' = halves (ls + 1 - 6) ∧ dd' = resetDir ip hessp pos g) →
          (let R := lsEager f hessp ip pos energy g fuel (ls + 1) gs' dd' reset'
          (R.found = true → ∃ k, ls ≤ k ∧ k < 9 ∧ R.trials = k + 1
              ∧ R.newPos = trialPos (K := K) pos natg (resetDir ip hessp pos g) k
              ∧ (f (trialPos (K := K) pos natg (resetDir ip hessp pos g) k)).1 ≤ energy
              ∧ ∀ k', ls ≤ k' → k' < k → ¬ (f (trialPos (K := K) pos natg (resetDir ip hessp pos g) k')).1 ≤ energy)
          ∧ (R.found = false → ∀ k, ls ≤ k → k < 9 →
              ¬ (f (trialPos (K := K) pos natg (resetDir ip hessp pos g) k)).1 ≤ energy)) := by
        intro gs' dd' reset' h1 h2
        have := ih (ls + 1) gs' dd' reset' (by omega) h1 h2
        simp only at this ⊢
        refine ⟨fun hf => ?_, fun hf k hk1 hk2 => ?_⟩
        · obtain ⟨k, a, b, c', d, e, g'⟩ := this.1 hf
          refine ⟨k, by omega, b, c', d, e, fun k' a' b' => ?_⟩
          rcases Nat.lt_or_ge ls k' with hlt | hge
          · exact g' k' (by omega) b'
          · have : k' = ls := by omega
            subst this; exact hrej
        · rcases Nat.lt_or_ge ls k with hlt | hge
          · exact this.2 hf k (by omega) hk2
          · have : k = ls := by omega
            subst this; exact hrej
      by_cases h5 : ls = 5
      · simp only [h5, if_true]
        subst h5
        exact key 1 _ true (fun h => by omega) (fun _ => ⟨by simp [halves], rfl⟩)
      · simp only [h5, if_false]
        refine key (gs / two) dd reset (fun h => ?_) (fun h => ?_)
        · have := hlo (by omega)
          exact ⟨by rw [this.1]; rfl, this.2⟩
        · have h6 : 6 ≤ ls := by omega
          have := hhi h6
          refine ⟨?_, this.2⟩
          have e : ls + 1 - 6 = (ls - 6) + 1 := by omega
          rw [e, this.1]; rfl

/-- **The line search accepts the first acceptable trial.** -/
theorem lineSearchEager_first (pos : V) (energy : K) (g natg : V) :
    let R := lineSearchEager f hessp ip pos energy g natg
    let tp := trialPos (K := K) pos natg (resetDir ip hessp pos g)
    (R.found = true ↔ ∃ k, k < 9 ∧ (f (tp k)).1 ≤ energy)
    ∧ (R.found = true → ∃ k, k < 9 ∧ R.trials = k + 1 ∧ R.newPos = tp k ∧ R.newEnergy = (f (tp k)).1
        ∧ (f (tp k)).1 ≤ energy ∧ ∀ k', k' < k → energy < (f (tp k')).1) := by
  have h := lsEager_first f hessp ip pos energy g natg 9 0 1 natg false (by omega)
    (fun _ => ⟨by simp [halves], rfl⟩) (fun h => by omega)
  have hspec := lsEager_spec' f hessp ip pos energy g 9 0 1 natg false
  simp only [lineSearchEager] at h hspec ⊢
  refine ⟨⟨fun hf => ?_, fun ⟨k, hk, hle⟩ => ?_⟩, fun hf => ?_⟩
  · obtain ⟨k, _, b, _, _, e, _⟩ := h.1 hf
    exact ⟨k, b, e⟩
  · by_contra hnf
    have hnf' : (lsEager f hessp ip pos energy g 9 0 1 natg false).found = false := by simpa using hnf
    exact h.2 hnf' k (Nat.zero_le _) hk hle
  · obtain ⟨k, _, b, c', d, e, g'⟩ := h.1 hf
    refine ⟨k, b, c', d, ?_, e, fun k' hk' => lt_of_not_ge (g' k' (Nat.zero_le _) hk')⟩
    rw [← d]; exact hspec hf

/-- with negative curvature along a non-zero gradient the CG of C15 (failure not requested) returns `t·g`,
    `t = ⟨g,g⟩ / (−⟨g,Hg⟩) > 0`, `info = 0` -/
theorem maxiterEff_cgCfgOf (base : CgRe.Cfg K) (pa pr : Bool) (a : CgArgs K) :
    CgRe.maxiterEff (cgCfgOf base pa pr a) = CgRe.maxiterEff base := rfl

theorem cgOracle_negcurv (base : CgRe.Cfg K) (pa pr : Bool) (a : CgArgs K) (pos g : V) (hip : SymmBilin ip)
    (hm : Linear (K := K) (hessp pos))
    (hsa : CgRe.SelfAdj ip (hessp pos)) (hnn : ∀ a, 0 ≤ ip a a)
    (hmax : 0 < CgRe.maxiterEff base) (hg0 : ip g g ≠ 0) (hcurv : ip g (hessp pos g) < 0) :
    cgOracle base pa pr ip nrm hessp a pos g = ((ip g g / -ip g (hessp pos g)) • g, 0) := by
  have hb := hip.toBilin
  have hgdef : -g = hessp pos ((none : Option V).getD 0) - g := by
    simp [hm.zero]
  have e1 : ip (-g) (-g) = ip g g := by rw [hb.neg_left, hb.neg_right]; ring
  have e2 : ip (-g) (hessp pos (-g)) = ip g (hessp pos g) := by
    rw [hm.neg, hb.neg_left, hb.neg_right]; ring
  obtain ⟨res, h1, h2, _, h4, _, _⟩ := CgRe.cgEager_first_step (cgCfgOf base pa pr a) ip nrm (hessp pos) g hip hm hsa hnn
    none rfl (by rw [maxiterEff_cgCfgOf]; exact hmax)
    (-g) hgdef (by rw [e1]; exact hg0) (by rw [e2]; exact hcurv)
  unfold cgOracle
  rw [h1]
  simp only [h2, h4, e1, e2, Option.getD_none]
  congr 1
  rw [smul_neg, zero_sub, neg_neg]

theorem resetDir_negcurv (pos g : V) (hcurv : ip g (hessp pos g) < 0) :
    resetDir ip hessp pos g = (ip g g / -ip g (hessp pos g)) • g := by
  unfold resetDir absK
  simp [hcurv]

theorem trialPos_along (pos g : V) (t : K) (k : Nat) :
    trialPos (K := K) pos (t • g) (t • g) k = pos - (sched k * t) • g := by
  unfold trialPos sched
  split_ifs <;> rw [smul_smul]

/-- **Negative curvature ⇒ progress along −g.** One Newton-CG iteration started where `g ≠ 0` and `gᵀHg < 0`, with the
    C15 conjugate gradient as inner solver: if any trial step length `sched k · t` (`t = ⟨g,g⟩/|gᵀHg|`, `k < 9`) does not
    increase the energy, the iteration does not abort (status −1) but moves to `pos − (sched k · t)·g` for the first such
    `k` — a strictly positive multiple of `−g`, all earlier trials having strictly higher energy. -/
theorem ncgEagerStep_negcurv (base : CgRe.Cfg K) (pa pr : Bool) (cgnorm : V → K) (i : Nat) (s : NSt K V)
    (hip : SymmBilin ip)
    (hm : Linear (K := K) (hessp s.pos)) (hsa : CgRe.SelfAdj ip (hessp s.pos)) (hnn : ∀ a, 0 ≤ ip a a)
    (hmax : 0 < CgRe.maxiterEff base) (hg0 : ip s.g s.g ≠ 0)
    (hcurv : ip s.g (hessp s.pos s.g) < 0)
    (hex : ∃ k, k < 9 ∧ (f (s.pos - ((sched k : K) * (ip s.g s.g / -ip s.g (hessp s.pos s.g))) • s.g)).1 ≤ s.energy) :
    ∃ k, k < 9 ∧ 0 < (sched k : K) * (ip s.g s.g / -ip s.g (hessp s.pos s.g))
      ∧ (f (s.pos - ((sched k : K) * (ip s.g s.g / -ip s.g (hessp s.pos s.g))) • s.g)).1 ≤ s.energy
      ∧ (∀ k', k' < k →
          s.energy < (f (s.pos - ((sched k' : K) * (ip s.g s.g / -ip s.g (hessp s.pos s.g))) • s.g)).1)
      ∧ (match ncgEagerStep c f hessp ip gradnorm cgnorm (cgOracle base pa pr ip nrm hessp) i s with
         | .next s' => s'.pos = s.pos - ((sched k : K) * (ip s.g s.g / -ip s.g (hessp s.pos s.g))) • s.g
             ∧ s'.energy = (f s'.pos).1
         | .stop (.ok r) => r.status = 0
             ∧ r.x = s.pos - ((sched k : K) * (ip s.g s.g / -ip s.g (hessp s.pos s.g))) • s.g ∧ r.fn = (f r.x).1
         | .stop (.error _) => False) := by
  set t : K := ip s.g s.g / -ip s.g (hessp s.pos s.g) with ht
  have hγ : 0 < ip s.g s.g := lt_of_le_of_ne (hnn _) (Ne.symm hg0)
  have htpos : 0 < t := div_pos hγ (by linarith)
  have hcg := cgOracle_negcurv hessp ip nrm base pa pr (eagerCgArgs c cgnorm s) s.pos s.g hip hm hsa hnn hmax hg0 hcurv
  have hrd := resetDir_negcurv hessp ip s.pos s.g hcurv
  have hfirst := lineSearchEager_first f hessp ip s.pos s.energy s.g (t • s.g)
  simp only [hrd, ← ht, trialPos_along] at hfirst
  have hfound : (lineSearchEager f hessp ip s.pos s.energy s.g (t • s.g)).found = true := hfirst.1.mpr hex
  obtain ⟨k, hk, _, hpos, hen, hle, hfirstk⟩ := hfirst.2 hfound
  refine ⟨k, hk, mul_pos (sched_pos k) htpos, hle, hfirstk, ?_⟩
  unfold ncgEagerStep
  simp only [hcg, ← ht, show ¬ ((0 : Int) < 0) from by omega, if_false, hfound, Bool.true_eq_false]
  refine ite3_cases' _ _ _ _ _ (fun (o : StepOut K V) => match o with
    | .next s' => s'.pos = s.pos - ((sched k : K) * t) • s.g ∧ s'.energy = (f s'.pos).1
    | .stop (.ok r) => r.status = 0 ∧ r.x = s.pos - ((sched k : K) * t) • s.g ∧ r.fn = (f r.x).1
    | .stop (.error _) => False) ?_ ?_ ?_
  · exact ⟨rfl, hpos, by rw [hen, hpos]⟩
  · exact ⟨rfl, hpos, by rw [hen, hpos]⟩
  · exact ⟨hpos, by rw [hen, hpos]⟩

end NiftyVerif.NewtonRe

namespace NiftyVerif.CgRe
set_option linter.unusedSectionVars false
variable {K V : Type} [Field K] [LinearOrder K] [IsStrictOrderedRing K] [AddCommGroup V] [Module K V]

/-- with `_raise_nonposdef = False` the eager CG never raises -/
theorem eagerLoop_noraise (c : Cfg K) (ip : V → V → K) (nrm : V → K) (mat : V → V) (j : V) (hr : c.raiseNPD = false) :
    ∀ (fuel i : Nat) (s : St K V), ∃ r, eagerLoop c ip nrm mat j fuel i s = .ok r := by
  intro fuel
  induction fuel with
  | zero => intro i s; exact ⟨_, rfl⟩
  | succ fuel ih =>
    intro i s
    rw [eagerLoop]
    unfold eagerStep
    simp only [hr, Bool.false_eq_true, if_false]
    split_ifs <;> first | exact ⟨_, rfl⟩ | exact ih _ _

theorem cgEager_noraise (c : Cfg K) (ip : V → V → K) (nrm : V → K) (mat : V → V) (j : V) (x0 : Option V)
    (hr : c.raiseNPD = false) : ∃ r, cgEager c ip nrm mat j x0 = .ok r := by
  unfold cgEager
  simp only []
  split_ifs
  · exact ⟨_, rfl⟩
  · exact eagerLoop_noraise c ip nrm mat j hr _ _ _

end NiftyVerif.CgRe

namespace NiftyVerif.NewtonRe
set_option linter.unusedSectionVars false
variable {K V : Type} [Field K] [LinearOrder K] [IsStrictOrderedRing K] [AddCommGroup V] [Module K V]

/-- the compiled CG oracle is the eager CG oracle (C15 `static_eq_eager`; `_newton_cg` passes `_raise_nonposdef=False`) -/
theorem cgOracleStatic_eq (base : CgRe.Cfg K) (pa pr : Bool) (ip : V → V → K) (nrm : V → K) (hessp : V → V → V)
    (hmax : 0 < CgRe.maxiterEff base) :
    cgOracleStatic base pa pr ip nrm hessp = cgOracle base pa pr ip nrm hessp := by
  funext a pos g
  obtain ⟨r, hrr⟩ := CgRe.cgEager_noraise (cgCfgOf base pa pr a) ip nrm (hessp pos) g none rfl
  have hs := CgRe.static_sim (cgCfgOf base pa pr a) ip nrm (hessp pos) g none
    (Or.inl (by rw [maxiterEff_cgCfgOf]; exact hmax))
  rw [hrr] at hs
  simp only at hs
  unfold cgOracleStatic cgOracle
  rw [hrr]
  simp only []
  have h1 := congrArg CgRe.Obs.x hs
  have h2 := congrArg CgRe.Obs.info hs
  simp only [CgRe.SSt.obs, CgRe.Res.obs] at h1 h2
  rw [h1, h2]

end NiftyVerif.NewtonRe
