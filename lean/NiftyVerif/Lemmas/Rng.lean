/-
  Helper lemmas for C21: bounds on the ghost `low`, the frame lemma (what a program does not pop it cannot change).
-/
import NiftyVerif.Model.Rng
import Mathlib.Tactic.Ring
import Mathlib.Tactic.Linarith

namespace NiftyVerif.Rng

theorem resolve_stack {st st1 : St} {s : SeedSpec} {r : Nat} (h : resolve st s = some (st1, r)) :
    st1.stack = st.stack ∧ st1.out = st.out := by
  cases s with
  | seed n => simp [resolve] at h; obtain ⟨rfl, _⟩ := h; exact ⟨rfl, rfl⟩
  | last i =>
    simp only [resolve, Option.map_eq_some_iff] at h
    obtain ⟨a, _, h2⟩ := h
    injection h2 with h3 _
    subst h3; exact ⟨rfl, rfl⟩

theorem depth_pushRef (st : St) (r : Nat) : depth (pushRef st r) = depth st + 1 := by
  simp [depth, pushRef]

theorem drawSt_stack (st : St) (f : Frame) (rest : List Frame) (req : Nat) :
    (drawSt st f rest req).stack = { f with gen := { f.gen with hist := f.gen.hist ++ [req] } } :: rest := rfl

theorem spawnSt_stack (st : St) (f : Frame) (n : Nat) : (spawnSt st f n).stack = st.stack := rfl

theorem setStack_stack (st : St) (l : List Frame) : (setStack st l).stack = l := rfl

/-- the ghost minimum is below the initial and the final depth -/
theorem low_le : ∀ (p : Prog) (st : St), (exec p st).low ≤ depth st ∧ (exec p st).low ≤ depth (exec p st).st := by
  intro p
  induction p with
  | done => intro st; simp [exec]
  | raise t => intro st; simp [exec]
  | push s k ih =>
    intro st
    unfold exec
    cases h : resolve st s with
    | none => simp
    | some pr =>
      obtain ⟨st1, r⟩ := pr
      simp only
      have := ih (pushRef st1 r)
      exact ⟨Nat.min_le_left _ _, Nat.le_trans (Nat.min_le_right _ _) this.2⟩
  | pop k ih =>
    intro st
    unfold exec
    cases h : st.stack with
    | nil => simp
    | cons f rest =>
      simp only
      have := ih (setStack st rest)
      exact ⟨Nat.min_le_left _ _, Nat.le_trans (Nat.min_le_right _ _) this.2⟩
  | draw req k ih =>
    intro st
    unfold exec
    cases h : st.stack with
    | nil => simp
    | cons f rest =>
      simp only
      have := ih (drawSt st f rest req)
      have hd : depth st = rest.length + 1 := by simp [depth, h]
      simp only [depth, drawSt_stack, List.length_cons] at this hd ⊢
      exact ⟨by omega, this.2⟩
  | spawn n k ih =>
    intro st
    unfold exec
    cases h : st.stack with
    | nil => simp
    | cons f rest =>
      simp only
      have := ih (spawnSt st f n)
      simp only [depth, spawnSt_stack] at this ⊢
      exact this
  | ctx s body k ihb ihk =>
    intro st
    unfold exec
    cases h : resolve st s with
    | none => simp
    | some pr =>
      obtain ⟨st1, r⟩ := pr
      simp only
      cases hs : (exec body (pushRef st1 r)).st.stack with
      | nil => simp
      | cons f rest =>
        simp only
        by_cases hne : rest.length ≠ depth st1
        · rw [if_pos hne]
          simp only [depth, setStack]
          exact ⟨by omega, by omega⟩
        · rw [if_neg hne]
          cases ho : (exec body (pushRef st1 r)).out with
          | exc e => simp only [depth, setStack]; exact ⟨by omega, by omega⟩
          | ok =>
            simp only
            have := ihk (setStack (exec body (pushRef st1 r)).st rest)
            exact ⟨by omega, by omega⟩

/-- **frame lemma**: the part of the stack a program never reaches (`low` stays above it) is left exactly as it was -/
theorem frame : ∀ (p : Prog) (st : St) (top base : List Frame), st.stack = top ++ base →
    base.length < (exec p st).low → ∃ top', (exec p st).st.stack = top' ++ base := by
  intro p
  induction p with
  | done => intro st top base h _; exact ⟨top, by simpa [exec] using h⟩
  | raise t => intro st top base h _; exact ⟨top, by simpa [exec] using h⟩
  | push s k ih =>
    intro st top base h hl
    unfold exec at hl ⊢
    cases hr : resolve st s with
    | none => exact ⟨top, by simpa using h⟩
    | some pr =>
      obtain ⟨st1, r⟩ := pr
      simp only [hr] at hl ⊢
      apply ih (pushRef st1 r) (⟨r, mkGen (st1.heap.getD r ⟨0, [], 0⟩)⟩ :: top) base
      · simp [pushRef, (resolve_stack hr).1, h]
      · exact Nat.lt_of_lt_of_le hl (Nat.min_le_right _ _)
  | pop k ih =>
    intro st top base h hl
    unfold exec at hl ⊢
    cases hs : st.stack with
    | nil => exact ⟨top, by simp only [hs]; rw [← hs]; exact h⟩
    | cons f rest =>
      simp only [hs] at hl ⊢
      have hl2 : base.length < (exec k (setStack st rest)).low := Nat.lt_of_lt_of_le hl (Nat.min_le_right _ _)
      have hb := (low_le k (setStack st rest)).1
      simp only [depth, setStack_stack] at hb
      cases top with
      | nil =>
        exfalso
        simp only [List.nil_append] at h
        rw [h] at hs
        have : base.length = rest.length + 1 := by rw [hs]; rfl
        omega
      | cons t top2 =>
        rw [h] at hs
        simp only [List.cons_append, List.cons.injEq] at hs
        exact ih (setStack st rest) top2 base hs.2.symm hl2
  | draw req k ih =>
    intro st top base h hl
    unfold exec at hl ⊢
    cases hs : st.stack with
    | nil => exact ⟨top, by simp only [hs]; rw [← hs]; exact h⟩
    | cons f rest =>
      simp only [hs] at hl ⊢
      cases top with
      | nil =>
        exfalso
        have hb := (low_le k (drawSt st f rest req)).1
        simp only [depth, drawSt_stack, List.length_cons] at hb
        simp only [List.nil_append] at h
        rw [h] at hs
        have : base.length = rest.length + 1 := by rw [hs]; rfl
        omega
      | cons t top2 =>
        rw [h] at hs
        simp only [List.cons_append, List.cons.injEq] at hs
        apply ih _ ({ f with gen := { f.gen with hist := f.gen.hist ++ [req] } } :: top2) base
        · simp [drawSt_stack, hs.2]
        · exact hl
  | spawn n k ih =>
    intro st top base h hl
    unfold exec at hl ⊢
    cases hs : st.stack with
    | nil => exact ⟨top, by simp only [hs]; rw [← hs]; exact h⟩
    | cons f rest =>
      simp only [hs] at hl ⊢
      apply ih _ top base
      · rw [spawnSt_stack]; exact h
      · exact hl
  | ctx s body k ihb ihk =>
    intro st top base h hl
    unfold exec at hl ⊢
    cases hr : resolve st s with
    | none => exact ⟨top, by simpa using h⟩
    | some pr =>
      obtain ⟨st1, r⟩ := pr
      simp only [hr] at hl ⊢
      cases hs : (exec body (pushRef st1 r)).st.stack with
      | nil => simp only [hs] at hl; omega
      | cons f rest =>
        simp only [hs] at hl ⊢
        have hbody : ∀ (hlb : base.length < (exec body (pushRef st1 r)).low),
            ∃ top', (exec body (pushRef st1 r)).st.stack = top' ++ base :=
          fun hlb => ihb (pushRef st1 r) (⟨r, mkGen (st1.heap.getD r ⟨0, [], 0⟩)⟩ :: top) base
            (by simp [pushRef, (resolve_stack hr).1, h]) hlb
        by_cases hne : rest.length ≠ depth st1
        · rw [if_pos hne] at hl ⊢
          simp only at hl ⊢
          obtain ⟨top', ht⟩ := hbody (by omega)
          rw [hs] at ht
          cases top' with
          | nil =>
            exfalso
            simp only [List.nil_append] at ht
            have : base.length = rest.length + 1 := by rw [← ht]; rfl
            omega
          | cons t top2 =>
            simp only [List.cons_append, List.cons.injEq] at ht
            exact ⟨top2, ht.2⟩
        · rw [if_neg hne] at hl ⊢
          cases ho : (exec body (pushRef st1 r)).out with
          | exc e =>
            simp only [ho] at hl ⊢
            obtain ⟨top', ht⟩ := hbody (by omega)
            rw [hs] at ht
            cases top' with
            | nil =>
              exfalso
              simp only [List.nil_append] at ht
              have : base.length = rest.length + 1 := by rw [← ht]; rfl
              omega
            | cons t top2 =>
              simp only [List.cons_append, List.cons.injEq] at ht
              exact ⟨top2, ht.2⟩
          | ok =>
            simp only [ho] at hl ⊢
            obtain ⟨top', ht⟩ := hbody (by omega)
            rw [hs] at ht
            cases top' with
            | nil =>
              exfalso
              simp only [List.nil_append] at ht
              have : base.length = rest.length + 1 := by rw [← ht]; rfl
              omega
            | cons t top2 =>
              simp only [List.cons_append, List.cons.injEq] at ht
              exact ihk (setStack (exec body (pushRef st1 r)).st rest) top2 base ht.2 (by omega)

/-- programs that manage the stack through `Context` only never dip below and end at their entry depth -/
theorem ctxOnly_balanced : ∀ (p : Prog) (st : St), ctxOnly p = true →
    (exec p st).low = depth st ∧ depth (exec p st).st = depth st := by
  intro p
  induction p with
  | done => intro st _; simp [exec]
  | raise t => intro st _; simp [exec]
  | push s k _ => intro st h; simp [ctxOnly] at h
  | pop k _ => intro st h; simp [ctxOnly] at h
  | draw req k ih =>
    intro st h
    simp only [ctxOnly] at h
    unfold exec
    cases hs : st.stack with
    | nil => simp
    | cons f rest =>
      simp only
      have := ih (drawSt st f rest req) h
      simp only [depth, drawSt_stack, List.length_cons, hs] at this ⊢
      exact this
  | spawn n k ih =>
    intro st h
    simp only [ctxOnly] at h
    unfold exec
    cases hs : st.stack with
    | nil => simp
    | cons f rest =>
      simp only
      have := ih (spawnSt st f n) h
      simp only [depth, spawnSt_stack, hs] at this ⊢
      exact this
  | ctx s body k ihb ihk =>
    intro st h
    simp only [ctxOnly, Bool.and_eq_true] at h
    unfold exec
    cases hr : resolve st s with
    | none => simp
    | some pr =>
      obtain ⟨st1, r⟩ := pr
      simp only
      have hb := ihb (pushRef st1 r) h.1
      rw [depth_pushRef] at hb
      have hst : depth st1 = depth st := by simp [depth, (resolve_stack hr).1]
      cases hs : (exec body (pushRef st1 r)).st.stack with
      | nil => simp [depth, hs] at hb
      | cons f rest =>
        have hrl : rest.length = depth st1 := by
          have := hb.2; simp only [depth, hs, List.length_cons] at this; simp only [depth]; omega
        have hne : ¬ (rest.length ≠ depth st1) := by simp [hrl]
        simp only
        rw [if_neg hne]
        cases ho : (exec body (pushRef st1 r)).out with
        | exc e =>
          simp only [depth, setStack_stack]
          simp only [depth] at hrl hst hb
          exact ⟨by omega, by omega⟩
        | ok =>
          simp only
          have hk := ihk (setStack (exec body (pushRef st1 r)).st rest) h.2
          simp only [depth, setStack_stack] at hk hrl hst hb ⊢
          exact ⟨by omega, by omega⟩


end NiftyVerif.Rng
