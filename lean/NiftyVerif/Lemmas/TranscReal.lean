/-
  The `ℝ` instance of `Transc` (noncomputable; Mathlib's real special functions) and the rewriting lemmas
  that turn the class projections into `Real.*` so that the analysis library applies.
-/
import NiftyVerif.Model.Transc
import Mathlib.Analysis.SpecialFunctions.Trigonometric.ArctanDeriv
import Mathlib.Analysis.SpecialFunctions.Trigonometric.DerivHyp
import Mathlib.Analysis.SpecialFunctions.Log.Deriv
import Mathlib.Analysis.SpecialFunctions.Pow.Deriv
import Mathlib.Analysis.SpecialFunctions.Sqrt

namespace NiftyVerif

noncomputable instance instTranscReal : Transc ℝ where
  sqrt := Real.sqrt
  exp := Real.exp
  log := Real.log
  sin := Real.sin
  cos := Real.cos
  tan := Real.tan
  sinh := Real.sinh
  cosh := Real.cosh
  tanh := Real.tanh
  arctan := Real.arctan
  pow := fun x y => x ^ y
  pi := Real.pi
  nan := 0

instance instConjReal : Conj ℝ := ⟨fun x => x⟩

namespace TranscReal
@[simp] theorem conj_eq (x : ℝ) : Conj.conj x = x := rfl
@[simp] theorem sqrt_eq (x : ℝ) : Transc.sqrt x = Real.sqrt x := rfl
@[simp] theorem exp_eq (x : ℝ) : Transc.exp x = Real.exp x := rfl
@[simp] theorem log_eq (x : ℝ) : Transc.log x = Real.log x := rfl
@[simp] theorem sin_eq (x : ℝ) : Transc.sin x = Real.sin x := rfl
@[simp] theorem cos_eq (x : ℝ) : Transc.cos x = Real.cos x := rfl
@[simp] theorem tan_eq (x : ℝ) : Transc.tan x = Real.tan x := rfl
@[simp] theorem sinh_eq (x : ℝ) : Transc.sinh x = Real.sinh x := rfl
@[simp] theorem cosh_eq (x : ℝ) : Transc.cosh x = Real.cosh x := rfl
@[simp] theorem tanh_eq (x : ℝ) : Transc.tanh x = Real.tanh x := rfl
@[simp] theorem arctan_eq (x : ℝ) : Transc.arctan x = Real.arctan x := rfl
@[simp] theorem pow_eq (x y : ℝ) : Transc.pow x y = x ^ y := rfl
@[simp] theorem pi_eq : (Transc.pi : ℝ) = Real.pi := rfl

/-- `tanh` has derivative `1 - tanh²` (not in Mathlib under this name) -/
theorem hasDerivAt_tanh (x : ℝ) : HasDerivAt Real.tanh (1 - Real.tanh x ^ 2) x := by
  have hc : Real.cosh x ≠ 0 := (Real.cosh_pos x).ne'
  have h := (Real.hasDerivAt_sinh x).div (Real.hasDerivAt_cosh x) hc
  have e : Real.tanh = fun y => Real.sinh y / Real.cosh y := by
    funext y; exact Real.tanh_eq_sinh_div_cosh y
  have hv : 1 - Real.tanh x ^ 2
      = (Real.cosh x * Real.cosh x - Real.sinh x * Real.sinh x) / Real.cosh x ^ 2 := by
    rw [Real.tanh_eq_sinh_div_cosh]; field_simp
  rw [hv, e]; exact h
end TranscReal

end NiftyVerif
