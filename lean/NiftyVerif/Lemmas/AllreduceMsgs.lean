/-
  C23: compound messages at theorem level (the call sequences compared in the tie are the projections of the expanded
  event list) and order-independence of the type-detection reduction.
-/
import NiftyVerif.Lemmas.AllreduceTree

namespace NiftyVerif.Allreduce

theorem sendSeq_eq_recvSeq (t : Ty) : sendSeq t = recvSeq t := by
  induction t with
  | plain => rfl
  | ndarray => rfl
  | field t ih => simp [sendSeq, recvSeq, ih]
  | multifield k => rfl

/-- the communicator call an action of the EXPANDED system stands for: sub-message `part` of a transfer of type `ty` -/
def toCall (ty : Ty) : Act → Option Call
  | .loc _ => none
  | .recv b e => some (Call.recv b ((recvSeq ty).getD e.part .obj))
  | .send a e => some (Call.send a ((sendSeq ty).getD e.part .obj))

theorem map_getD_range_msgs (l : List Msg) (f : Msg → Call) :
    (List.range l.length).map (fun i => f (l.getD i .obj)) = l.map f := by
  apply List.ext_getElem
  · simp
  · intro i h1 h2
    simp at h1
    simp [h1]

theorem act_parts (who : Nat → Nat) (r : Nat) (e : Ev) (i : Nat) (fin : Bool) :
    act who r { e with part := i, fin := fin } =
      (act who r e).map (fun a => match a with
        | .loc _ => Act.loc { e with part := i, fin := fin }
        | .recv b _ => Act.recv b { e with part := i, fin := fin }
        | .send b _ => Act.send b { e with part := i, fin := fin }) := by
  unfold act
  simp only
  split
  · split <;> rfl
  · split <;> rfl

/-- for one event: the calls of its sub-events are the call list of the (unexpanded) action -/
theorem toCall_parts (who : Nat → Nat) (ty : Ty) (r : Nat) (e : Ev) (h : who e.dst ≠ who e.src) :
    (proj who r (parts (sendSeq ty).length e)).filterMap (toCall ty) =
      (match act who r e with | none => [] | some a => actCalls ty a) := by
  have hlen : (recvSeq ty).length = (sendSeq ty).length := by rw [sendSeq_eq_recvSeq ty]
  unfold proj parts
  rw [List.filterMap_map, List.filterMap_filterMap]
  by_cases h1 : r = who e.dst
  · have hact : act who r e = some (.recv (who e.src) e) := by subst h1; exact act_dst' h
    rw [hact]
    simp only [actCalls]
    rw [← map_getD_range_msgs (recvSeq ty) (Call.recv (who e.src)), hlen]
    rw [← List.filterMap_eq_map']
    apply List.filterMap_congr
    intro i _
    simp only [Function.comp, act_parts, hact, Option.map_some, Option.bind_some, toCall]
  · by_cases h2 : r = who e.src
    · have hact : act who r e = some (.send (who e.dst) e) := by subst h2; exact act_src' h
      rw [hact]
      simp only [actCalls]
      rw [← map_getD_range_msgs (sendSeq ty) (Call.send (who e.dst))]
      rw [← List.filterMap_eq_map']
      apply List.filterMap_congr
      intro i _
      simp only [Function.comp, act_parts, hact, Option.map_some, Option.bind_some, toCall]
    · have hact : act who r e = none := act_none_iff.mpr ⟨h1, h2⟩
      rw [hact]
      simp only
      rw [List.filterMap_eq_nil_iff]
      intro i _
      simp only [Function.comp, act_parts, hact, Option.map_none, Option.bind_none]

/-! ### order-independence of `list(set(comm.allreduce([type(x) …])))` -/

theorem mem_reduce {α} (ls : Nat → List α) (x : α) : ∀ t : RTree, x ∈ t.reduce ls ↔ ∃ r ∈ t.leavesOf, x ∈ ls r := by
  intro t
  induction t with
  | leaf r => simp [RTree.reduce, RTree.leavesOf]
  | node l r ihl ihr =>
    simp only [RTree.reduce, RTree.leavesOf, List.mem_append, ihl, ihr]
    constructor
    · rintro (⟨q, hq, hx⟩ | ⟨q, hq, hx⟩)
      · exact ⟨q, Or.inl hq, hx⟩
      · exact ⟨q, Or.inr hq, hx⟩
    · rintro ⟨q, hq | hq, hx⟩
      · exact Or.inl ⟨q, hq, hx⟩
      · exact Or.inr ⟨q, hq, hx⟩

theorem uniqueType_some_iff {α} [DecidableEq α] (l : List α) (a : α) :
    uniqueType l = some a ↔ l ≠ [] ∧ ∀ b ∈ l, b = a := by
  cases l with
  | nil => simp [uniqueType]
  | cons c rest =>
    simp only [uniqueType, List.all_eq_true, decide_eq_true_eq]
    constructor
    · intro h
      split at h
      · injection h with h; subst h
        rename_i hall
        exact ⟨by simp, fun b hb => by rcases List.mem_cons.mp hb with rfl | hb; rfl; exact hall b hb⟩
      · cases h
    · rintro ⟨_, h⟩
      have hc : c = a := h c (List.mem_cons_self ..)
      subst hc
      have : ∀ b ∈ rest, b = c := fun b hb => h b (List.mem_cons_of_mem _ hb)
      simp only [if_pos this, implies_true]
      try rfl

theorem uniqueType_congr {α} [DecidableEq α] (l1 l2 : List α) (h : ∀ x, x ∈ l1 ↔ x ∈ l2) :
    uniqueType l1 = uniqueType l2 := by
  have key : ∀ (l1 l2 : List α) (a : α), (∀ x, x ∈ l1 ↔ x ∈ l2) → uniqueType l1 = some a → uniqueType l2 = some a := by
    intro l1 l2 a h h1
    rw [uniqueType_some_iff] at h1 ⊢
    obtain ⟨hne, hall⟩ := h1
    refine ⟨?_, fun b hb => hall b ((h b).mpr hb)⟩
    intro e
    cases l1 with
    | nil => exact hne rfl
    | cons c r => have := (h c).mp (List.mem_cons_self ..); rw [e] at this; cases this
  cases h1 : uniqueType l1 with
  | some a => exact (key l1 l2 a h h1).symm
  | none =>
    cases h2 : uniqueType l2 with
    | none => rfl
    | some b =>
      have := key l2 l1 b (fun x => (h x).symm) h2
      rw [h1] at this; cases this

end NiftyVerif.Allreduce
