/-
  Lemmas for C35 / LOS, part 6: every pixel index the transcribed traversal emits lies inside the grid (generic lines).
-/
import NiftyVerif.Lemmas.ResponseLos5

namespace NiftyVerif.ResponseLos
open NiftyVerif Coo NiftyVerif.Response

/-- every pixel the walk emits is the pixel function at a parameter strictly between the current left end and `hi` -/
theorem walkG_mem (f : ℚ → ℤ) (hi : ℚ) : ∀ (L : List ℚ) (a : ℚ), a < hi → L.Pairwise (· < ·) → (∀ t ∈ L, a < t ∧ t < hi) →
    ∀ p ∈ walkG f a L hi, ∃ m, a < m ∧ m < hi ∧ p.1 = f m
  | [], a, hahi, _, _, p, hp => by
    simp only [walkG, List.mem_singleton] at hp; subst hp
    exact ⟨(a + hi) / 2, by linarith, by linarith, rfl⟩
  | t :: L, a, hahi, hs, hL, p, hp => by
    have ht := hL t List.mem_cons_self
    rw [List.pairwise_cons] at hs
    simp only [walkG, List.mem_cons] at hp
    rcases hp with rfl | hp
    · exact ⟨(a + t) / 2, by linarith [ht.1], by linarith [ht.1, ht.2], rfl⟩
    · obtain ⟨m, h1, h2, h3⟩ := walkG_mem f hi L t ht.2 hs.2
        (fun u hu => ⟨hs.1 u hu, (hL u (List.mem_cons_of_mem _ hu)).2⟩) p hp
      exact ⟨m, by linarith [ht.1], h2, h3⟩

/-- under the hypotheses of the refinement theorem the emitted list is the walk over a strictly increasing list of crossing
    parameters strictly inside `(lo, hi)` -/
theorem traverseFrom_is_walk (shape : List ℕ) (s e : List ℚ) (lo hi : ℚ) (hlt : lo < hi)
    (hnn : ∀ se ∈ s.zip e, 0 ≤ se.1 + lo * (se.2 - se.1))
    (hgen : ∀ se ∈ s.zip e, se.2 - se.1 ≠ 0 → ¬ Cross se.1 (se.2 - se.1) lo)
    (hnd : ((events shape s (dirOf s e) lo hi).map Prod.fst).Nodup) :
    ∃ L : List ℚ, L.Pairwise (· < ·) ∧ (∀ t ∈ L, lo < t ∧ t < hi) ∧
      traverseFrom shape s (dirOf s e) lo hi = walkG (fun t => flatF t (axes shape s (dirOf s e))) lo L hi := by
  have hg : GenEntry lo (axes shape s (dirOf s e)) := axes_forall (fun s d => d ≠ 0 → ¬ Cross s d lo) shape s e hgen
  have hnnlo : ∀ a ∈ axes shape s (dirOf s e), 0 ≤ a.2.1 + lo * a.2.2 :=
    axes_forall (fun s d => 0 ≤ s + lo * d) shape s e hnn
  unfold events at hnd
  generalize hax : axes shape s (dirOf s e) = ax at hg hnnlo hnd
  generalize hE : eventsA lo hi ax = E at hnd
  have hperm : (E.mergeSort fun a b => decide (a.1 ≤ b.1)).Perm E := List.mergeSort_perm _ _
  have hsortedT : (E.mergeSort fun a b => decide (a.1 ≤ b.1)).Pairwise (fun a b => a.1 ≤ b.1) := by
    have := List.pairwise_mergeSort (le := fun a b : ℚ × ℤ => decide (a.1 ≤ b.1))
      (by intro a b c; simp only [decide_eq_true_eq]; exact le_trans)
      (by intro a b; simp only [Bool.or_eq_true, decide_eq_true_eq]; exact le_total _ _) E
    simpa using this
  generalize hT : (E.mergeSort fun a b => decide (a.1 ≤ b.1)) = T at hperm hsortedT
  have hndT : (T.map Prod.fst).Nodup := (hperm.map Prod.fst).nodup_iff.mpr hnd
  have hltT : (T.map Prod.fst).Pairwise (· < ·) := by
    rw [List.pairwise_map]
    have h2 : T.Pairwise (fun a b => a.1 ≠ b.1) := List.pairwise_map.mp hndT
    exact (hsortedT.and h2).imp (fun h => lt_of_le_of_ne h.1 h.2)
  have hbT : ∀ e ∈ T, lo < e.1 ∧ e.1 < hi := fun e he =>
    eventsA_bounds lo hi ax hg e (hE ▸ hperm.mem_iff.mp he)
  refine ⟨T.map Prod.fst, hltT, ?_, ?_⟩
  · intro t ht
    obtain ⟨e', he', rfl⟩ := List.mem_map.mp ht
    exact hbT e' he'
  · unfold traverseFrom events pos1
    simp only []
    rw [hax, hE, hT, zip_cumsum_diffs]
    rw [walk_eq lo hi ax hg (hE ▸ hnd) T lo (pos1A lo ax) hltT le_rfl hlt (fun e he => (hbT e he).1) (fun e he => (hbT e he).2)
      (fun e he => hE ▸ hperm.mem_iff.mp he) (fun e he _ => hperm.mem_iff.mpr (hE ▸ he)) ?_, walkF_eq_walkG]
    intro m hm1 hm2 hm3
    rw [pos1A_eq_flatF lo ax hnnlo]
    refine (flatF_const lo m hm1.le ax (noCross_of_no_events lo hi lo m ax hg le_rfl hm2 ?_)).symm
    rintro e he ⟨_, h2⟩
    exact absurd (hm3 e (hperm.mem_iff.mpr (hE ▸ he))) (not_lt.mpr h2)

/-- the flat index of a point whose coordinates are inside `[0, n_j)` is inside `[0, Π n_j)` -/
theorem flatF_in_grid (t : ℚ) : ∀ (sh : List ℕ) (ss ds : List ℚ), (∀ n ∈ sh, 0 < n) →
    (∀ a ∈ boxAxes sh ss ds, 0 ≤ a.2.1 + t * a.2.2 ∧ a.2.1 + t * a.2.2 < (a.1 : ℚ)) →
    0 ≤ flatF t (axes sh ss ds) ∧ flatF t (axes sh ss ds) < (prodL sh : ℤ)
  | [], _, _, _, _ => by simp [axes, flatF, prodL]
  | n :: sh, [], _, hn, _ => by
    have hp : 0 < prodL (n :: sh) := by
      have : ∀ l : List ℕ, (∀ m ∈ l, 0 < m) → 0 < prodL l := by
        intro l; induction l with
        | nil => intro _; simp [prodL]
        | cons a l ih => intro h; simp only [prodL]; exact Nat.mul_pos (h a List.mem_cons_self) (ih fun m hm => h m (List.mem_cons_of_mem _ hm))
      exact this _ hn
    simp only [axes, flatF]; exact ⟨le_rfl, by exact_mod_cast hp⟩
  | n :: sh, _ :: _, [], hn, _ => by
    have hp : 0 < prodL (n :: sh) := by
      have : ∀ l : List ℕ, (∀ m ∈ l, 0 < m) → 0 < prodL l := by
        intro l; induction l with
        | nil => intro _; simp [prodL]
        | cons a l ih => intro h; simp only [prodL]; exact Nat.mul_pos (h a List.mem_cons_self) (ih fun m hm => h m (List.mem_cons_of_mem _ hm))
      exact this _ hn
    simp only [axes, flatF]; exact ⟨le_rfl, by exact_mod_cast hp⟩
  | n :: sh, s :: ss, d :: ds, hn, h => by
    obtain ⟨i1, i2⟩ := flatF_in_grid t sh ss ds (fun m hm => hn m (List.mem_cons_of_mem _ hm))
      (fun a ha => h a (by simp only [boxAxes]; exact List.mem_cons_of_mem _ ha))
    obtain ⟨b1, b2⟩ := h (n, s, d) (by simp [boxAxes])
    simp only at b1 b2
    have f0 : 0 ≤ ⌊s + t * d⌋ := Int.floor_nonneg.mpr b1
    have f1 : ⌊s + t * d⌋ < (n : ℤ) := by
      have : ((⌊s + t * d⌋ : ℤ) : ℚ) < ((n : ℤ) : ℚ) := lt_of_le_of_lt (Int.floor_le _) (by exact_mod_cast b2)
      exact_mod_cast this
    simp only [axes, flatF, prodL]
    push_cast
    constructor
    · have := mul_nonneg f0 (Int.natCast_nonneg (prodL sh)); linarith
    · have h1 : ⌊s + t * d⌋ + 1 ≤ (n : ℤ) := f1
      have h2 : (⌊s + t * d⌋ + 1) * (prodL sh : ℤ) ≤ (n : ℤ) * (prodL sh : ℤ) :=
        Int.mul_le_mul_of_nonneg_right h1 (Int.natCast_nonneg _)
      nlinarith

/-- one axis, `direction == 0`: inside the clipped interval the coordinate is strictly below `n` (sentinel logic) -/
theorem axis_inside_zero (n : ℕ) (hn : 0 < n) (s t : ℚ) (_ht0 : 0 ≤ t) (ht1 : t ≤ 1)
    (h1 : minQ (d0 s 0) (d1 (n : ℚ) s 0) ≤ t) (_h2 : t ≤ maxQ (d0 s 0) (d1 (n : ℚ) s 0)) : s < (n : ℚ) := by
  have hn' : (0 : ℚ) < (n : ℚ) := by exact_mod_cast hn
  unfold d0 d1 at h1
  simp only [if_true] at h1
  unfold minQ at h1; unfold big at h1
  by_cases hs0 : 0 < s <;> by_cases hsn : s < (n : ℚ) <;> simp only [hs0, hsn, if_true, if_false] at h1
  · exact hsn
  · norm_num at h1; linarith
  · exact hsn
  · linarith [not_lt.mp hsn, not_lt.mp hs0]

theorem dmin_dmax_zero_strict (t : ℚ) (ht0 : 0 ≤ t) (ht1 : t ≤ 1) : ∀ (sh : List ℕ) (ss ds : List ℚ), (∀ n ∈ sh, 0 < n) →
    (∀ x ∈ dminArr sh ss ds, x ≤ t) → (∀ x ∈ dmaxArr sh ss ds, t ≤ x) →
    ∀ a ∈ boxAxes sh ss ds, a.2.2 = 0 → a.2.1 < (a.1 : ℚ)
  | [], _, _, _, _, _, a, ha, _ => by simp [boxAxes] at ha
  | _ :: _, [], _, _, _, _, a, ha, _ => by simp [boxAxes] at ha
  | _ :: _, _ :: _, [], _, _, _, a, ha, _ => by simp [boxAxes] at ha
  | n :: sh, s :: ss, d :: ds, hn, h1, h2, a, ha, hd => by
    simp only [boxAxes, List.mem_cons] at ha
    simp only [dminArr, dmaxArr, List.mem_cons, forall_eq_or_imp] at h1 h2
    rcases ha with rfl | ha
    · simp only at hd; subst hd
      exact axis_inside_zero n (hn n List.mem_cons_self) s t ht0 ht1 h1.1 h2.1
    · exact dmin_dmax_zero_strict t ht0 ht1 sh ss ds (fun m hm => hn m (List.mem_cons_of_mem _ hm)) h1.2 h2.2 a ha hd

/-- strictly inside the clipped parameter interval every coordinate is strictly below the axis length -/
theorem clipT_inside_strict (shape : List ℕ) (s dir : List ℚ) (hn : ∀ n ∈ shape, 0 < n) (t : ℚ)
    (h1 : (clipT shape s dir).1 < t) (h2 : t < (clipT shape s dir).2) :
    ∀ a ∈ boxAxes shape s dir, 0 ≤ a.2.1 + t * a.2.2 ∧ a.2.1 + t * a.2.2 < (a.1 : ℚ) := by
  have hlt : (clipT shape s dir).1 < (clipT shape s dir).2 := lt_trans h1 h2
  intro a ha
  have hin := clipT_inside shape s dir hlt t h1.le h2.le a ha
  refine ⟨hin.1, ?_⟩
  by_cases hd : a.2.2 = 0
  · -- sentinel case
    have hz : a.2.1 < (a.1 : ℚ) := by
      have e1 := h1; have e2 := h2
      unfold clipT at e1 e2 hlt
      simp only at e1 e2 hlt
      unfold maxQ at e2 hlt
      obtain ⟨m0, mx⟩ := le_maxL 0 (dminArr shape s dir)
      obtain ⟨n1, nx⟩ := minL_le 1 (dmaxArr shape s dir)
      by_cases hc : maxL 0 (dminArr shape s dir) < minL 1 (dmaxArr shape s dir)
      · rw [if_pos hc] at e2
        exact dmin_dmax_zero_strict t (le_trans m0 e1.le) (le_trans e2.le n1) shape s dir hn
          (fun x hx => le_trans (mx x hx) e1.le) (fun x hx => le_trans e2.le (nx x hx)) a ha hd
      · rw [if_neg hc] at hlt; exact absurd hlt (lt_irrefl _)
    rw [hd, mul_zero, add_zero]; exact hz
  · rcases lt_or_gt_of_ne hd with hneg | hpos
    · have := (clipT_inside shape s dir hlt (clipT shape s dir).1 le_rfl hlt.le a ha).2
      nlinarith
    · have := (clipT_inside shape s dir hlt (clipT shape s dir).2 hlt.le le_rfl a ha).2
      nlinarith

end NiftyVerif.ResponseLos
