/-
  The driver-side vector instance (`ℚ`, `RVec n`, `RVec.dot`) satisfies the hypotheses used by the L-BFGS theorems of C16,
  so `vl_eq_two_loop`, `vl_run_eq_lbfgs_run`, … apply to what `Driver/C16.lean` runs.
-/
import NiftyVerif.Lemmas.RVec
import NiftyVerif.Lemmas.Lbfgs

namespace NiftyVerif.RVec

theorem isIP_dot {n : Nat} : Lbfgs.IsIP (K := ℚ) (RVec.dot (n := n)) :=
  ⟨RVec.dot_symmBilin.symm, RVec.dot_symmBilin.add_left, RVec.dot_symmBilin.smul_left⟩

end NiftyVerif.RVec
