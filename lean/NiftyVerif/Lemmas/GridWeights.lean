/-  Lemmas/GridWeights.lean — the regenerated row-major weights of FlatGridAtLevel equal the model's (C31). -/
import NiftyVerif.Gen.GridWeights
import NiftyVerif.Lemmas.GridNest
namespace NiftyVerif.Grid
open NiftyVerif.Gen

theorem npCumprodAux_snoc (acc : Nat) (l : List Nat) (x : Nat) :
    npCumprodAux acc (l ++ [x]) = npCumprodAux acc l ++ [acc * l.prod * x] := by
  induction l generalizing acc with
  | nil => simp [npCumprodAux]
  | cons a as ih => simp [npCumprodAux, ih, Nat.mul_assoc]

theorem suffix_products (t : List Nat) :
    List.reverse (1 :: npCumprodAux 1 (List.reverse t)) = t.prod :: weightsSerial t := by
  induction t with
  | nil => simp [npCumprodAux, weightsSerial]
  | cons a t ih =>
    have e : (a :: t).reverse = t.reverse ++ [a] := List.reverse_cons
    rw [e, npCumprodAux_snoc, ← List.cons_append, List.reverse_append, ih]
    simp [weightsSerial, List.prod_reverse, Nat.mul_comm]

/-- the row-major weights written in the code (`np.cumprod(np.append(shape[1:], 1)[::-1])[::-1]`, regenerated from the source on
    every run) are the model's `weightsSerial` for every non-empty shape -/
theorem weightsSerialGen_eq (n : Nat) (t : List Nat) : weightsSerialGen (n :: t) = weightsSerial (n :: t) := by
  unfold weightsSerialGen npCumprod
  simp only [List.drop_succ_cons, List.drop_zero, List.reverse_append, List.reverse_cons, List.reverse_nil, List.nil_append,
    List.singleton_append]
  rw [show npCumprodAux 1 (1 :: t.reverse) = 1 :: npCumprodAux 1 t.reverse by simp [npCumprodAux]]
  rw [suffix_products]
  simp [weightsSerial]

end NiftyVerif.Grid
