/-
  Lawful instances for the parametric iterative-solver models (DESIGN §2.2): what "ip is a symmetric bilinear form",
  "mat is linear", "mat is self-adjoint" mean for plain functions, and the derived rewriting lemmas.
-/
import Mathlib.Algebra.Module.Basic
import Mathlib.Algebra.Order.Field.Basic
import Mathlib.Tactic.Ring
import Mathlib.Tactic.Linarith

namespace NiftyVerif.Iter

variable {K V : Type} [Field K] [AddCommGroup V] [Module K V]

/-- `ip` is a bilinear form -/
structure Bilin (ip : V → V → K) : Prop where
  add_left : ∀ a b c, ip (a + b) c = ip a c + ip b c
  smul_left : ∀ (k : K) a b, ip (k • a) b = k * ip a b
  add_right : ∀ a b c, ip a (b + c) = ip a b + ip a c
  smul_right : ∀ (k : K) a b, ip a (k • b) = k * ip a b

/-- `ip` is a symmetric bilinear form -/
structure SymmBilin (ip : V → V → K) : Prop extends Bilin ip where
  symm : ∀ a b, ip a b = ip b a

/-- `mat` is a linear map -/
structure Linear (mat : V → V) : Prop where
  add : ∀ a b, mat (a + b) = mat a + mat b
  smul : ∀ (k : K) a, mat (k • a) = k • mat a

namespace Bilin
variable {ip : V → V → K} (h : Bilin ip)
include h
theorem zero_left (a : V) : ip 0 a = 0 := by
  have := h.smul_left 0 0 a; simpa using this
theorem neg_left (a b : V) : ip (-a) b = - ip a b := by
  have := h.smul_left (-1) a b; simpa using this
theorem sub_left (a b c : V) : ip (a - b) c = ip a c - ip b c := by
  rw [sub_eq_add_neg, h.add_left, h.neg_left]; ring
theorem zero_right (a : V) : ip a 0 = 0 := by
  have := h.smul_right 0 a 0; simpa using this
theorem neg_right (a b : V) : ip a (-b) = - ip a b := by
  have := h.smul_right (-1) a b; simpa using this
theorem sub_right (a b c : V) : ip a (b - c) = ip a b - ip a c := by
  rw [sub_eq_add_neg, h.add_right, h.neg_right]; ring
end Bilin

/-- a form that is linear on the left and symmetric is bilinear -/
theorem SymmBilin.of_left {ip : V → V → K} (hadd : ∀ a b c, ip (a + b) c = ip a c + ip b c)
    (hsmul : ∀ (k : K) a b, ip (k • a) b = k * ip a b) (hsymm : ∀ a b, ip a b = ip b a) : SymmBilin ip :=
  { add_left := hadd, smul_left := hsmul, symm := hsymm,
    add_right := fun a b c => by rw [hsymm, hadd, hsymm b, hsymm c],
    smul_right := fun k a b => by rw [hsymm, hsmul, hsymm] }

namespace Linear
variable {mat : V → V} (h : Linear (K := K) mat)
include h
theorem zero : mat 0 = 0 := by
  have := h.smul 0 0; simpa using this
theorem neg (a : V) : mat (-a) = - mat a := by
  have := h.smul (-1) a; simpa using this
theorem sub (a b : V) : mat (a - b) = mat a - mat b := by
  rw [sub_eq_add_neg, h.add, h.neg, ← sub_eq_add_neg]
end Linear

end NiftyVerif.Iter
