/-
  From the residual to the error: if `A` is coercive, `m·⟨v,v⟩ ≤ ⟨v, A v⟩` with `m > 0`, and `x*` solves `A x* = b`, then for
  every `x`   `m²·‖x − x*‖² ≤ ‖A x − b‖²`.   So a verdict on the residual (the controllers' criterion) is a verdict on
  the distance to the solution; and the energy gap is half the squared `A`-norm of the error.
-/
import NiftyVerif.Lemmas.CgClassic
import Mathlib.Tactic.Positivity

set_option linter.unusedSectionVars false
set_option linter.unnecessarySeqFocus false

namespace NiftyVerif.CgClassic
open NiftyVerif.Ctrl

variable {K V τ : Type} [Field K] [LinearOrder K] [IsStrictOrderedRing K] [AddCommGroup V] [Module K V]

/-- Cauchy–Schwarz for a positive semidefinite symmetric bilinear form -/
theorem cauchy_schwarz {S : Sys V K} (hb : S.Bilinear) (hpos : ∀ v, 0 ≤ S.ip v v) (x y : V) :
    S.ip x y * S.ip x y ≤ S.ip x x * S.ip y y := by
  have key : ∀ t : K, 0 ≤ S.ip x x - 2 * t * S.ip x y + t * t * S.ip y y := by
    intro t
    have h := hpos (x - t • y)
    rw [hb.sub_left, hb.sub_right, hb.sub_right, hb.smul_left, hb.smul_left, hb.smul_right, hb.smul_right,
      hb.symm y x] at h
    linarith
  by_cases hy : S.ip y y = 0
  · have hxy : S.ip x y = 0 := by
      by_contra hne
      have h := key ((S.ip x x + 1) / (2 * S.ip x y))
      rw [hy] at h
      have e : 2 * ((S.ip x x + 1) / (2 * S.ip x y)) * S.ip x y = S.ip x x + 1 := by
        field_simp
      rw [e] at h
      linarith
    rw [hxy, hy]; simp
  · have hypos : 0 < S.ip y y := lt_of_le_of_ne (hpos y) (Ne.symm hy)
    have h := key (S.ip x y / S.ip y y)
    have e : S.ip x x - 2 * (S.ip x y / S.ip y y) * S.ip x y + S.ip x y / S.ip y y * (S.ip x y / S.ip y y) * S.ip y y
        = S.ip x x - S.ip x y * S.ip x y / S.ip y y := by
      field_simp
      ring
    rw [e] at h
    have h2 : S.ip x y * S.ip x y / S.ip y y ≤ S.ip x x := by linarith
    rwa [div_le_iff₀ hypos] at h2

/-- the true gradient is `A (x − x*)` when `x*` is a solution -/
theorem trueGrad_eq_A_error {S : Sys V K} (hA : S.Linear) (x xs : V) (hxs : trueGrad S xs = 0) :
    trueGrad S x = S.A (x - xs) := by
  rw [hA.A_sub]
  unfold trueGrad at hxs ⊢
  cases hb : S.b with
  | none => rw [hb] at hxs; simp only at hxs ⊢; rw [hxs]; simp
  | some b =>
    rw [hb] at hxs; simp only at hxs ⊢
    have : S.A xs = b := sub_eq_zero.1 hxs
    rw [this]

/-- **residual bounds error**: `m²·⟨e,e⟩ ≤ ⟨g,g⟩` for `e = x − x*`, `g = A x − b` -/
theorem residual_bounds_error {S : Sys V K} (hA : S.Linear) (hb : S.Bilinear) (hpos : ∀ v, 0 ≤ S.ip v v)
    (m : K) (hm : 0 < m) (hco : ∀ v, m * S.ip v v ≤ S.ip v (S.A v)) (x xs : V) (hxs : trueGrad S xs = 0) :
    m * m * S.ip (x - xs) (x - xs) ≤ S.ip (trueGrad S x) (trueGrad S x) := by
  rw [trueGrad_eq_A_error hA x xs hxs]
  set e := x - xs
  have h1 := hco e
  have h2 := cauchy_schwarz hb hpos e (S.A e)
  have he := hpos e
  have hg := hpos (S.A e)
  by_cases h0 : S.ip e e = 0
  · rw [h0]; simpa using hg
  · have hepos : 0 < S.ip e e := lt_of_le_of_ne he (Ne.symm h0)
    have h3 : 0 ≤ m * S.ip e e := le_of_lt (mul_pos hm hepos)
    have h4 : (m * S.ip e e) * (m * S.ip e e) ≤ S.ip e (S.A e) * S.ip e (S.A e) :=
      mul_self_le_mul_self h3 h1
    have h5 : (m * m * S.ip e e) * S.ip e e ≤ S.ip (S.A e) (S.A e) * S.ip e e := by
      calc (m * m * S.ip e e) * S.ip e e = (m * S.ip e e) * (m * S.ip e e) := by ring
        _ ≤ S.ip e (S.A e) * S.ip e (S.A e) := h4
        _ ≤ S.ip e e * S.ip (S.A e) (S.A e) := h2
        _ = S.ip (S.A e) (S.A e) * S.ip e e := by ring
    exact le_of_mul_le_mul_right h5 hepos

/-- the energy gap to the solution is half the squared `A`-norm of the error -/
theorem energy_gap {S : Sys V K} (hS : S.SPD) (x xs : V) (hxs : trueGrad S xs = 0) :
    trueValue S x - trueValue S xs = S.ip (x - xs) (S.A (x - xs)) / 2 := by
  have e : x = xs - (-1 : K) • (x - xs) := by simp
  have h := trueValue_step hS xs (x - xs) (-1)
  rw [← e, hxs, ip_zero_left hS.bil] at h
  rw [h]; ring

end NiftyVerif.CgClassic
