/-
  C16 — along every sequence of points (with resets) `VL_BFGS` and `L_BFGS` return the same directions
  (helper for Props/C16.lean): the state correspondence between the two circular buffers and the store invariant are
  preserved by every call.
-/
import NiftyVerif.Lemmas.LbfgsStore

set_option linter.unusedSectionVars false
set_option linter.unusedVariables false

namespace NiftyVerif.Lbfgs

variable {K V : Type} [Field K] [AddCommGroup V] [Module K V]

/-- correspondence between the `L_BFGS` object and the `VL_BFGS` object between two calls -/
def Rel (ip : V → V → K) (mmax : Nat) (s0 y0 : Nat → V) (stL : LState V) : Option (VLState K V) → Prop
  | none => stL.k = 0 ∧ stL.s = s0 ∧ stL.y = y0
  | some sv => sv.k + 1 = stL.k ∧ sv.s = stL.s ∧ sv.y = stL.y ∧ sv.lastx = stL.lastx ∧
      sv.lastgrad = stL.lastgrad ∧ StoreFull ip mmax sv

theorem storeFull_after {ip : V → V → K} (hip : IsIP ip) (gg : V → K) (mmax : Nat) (st : VLState K V)
    (hok : StoreOK ip mmax st) : StoreFull ip mmax (bDotB ip gg mmax st).2 := by
  obtain ⟨hk, _, _, _, _, hE⟩ := bDotB_full hip gg mmax st hok
  intro a b ha hb
  have hl : ∀ c, Live mmax (bDotB ip gg mmax st).2 c → Live mmax st c := by
    intro c hc
    unfold Live histLen at hc ⊢
    rw [hk] at hc
    exact hc
  exact hE a b (hl a ha) (hl b hb)

theorem vlDir_snd (ip : V → V → K) (gg : V → K) (mmax : Nat) (st : VLState K V) (al0 : Nat → K) :
    (vlDir ip gg mmax st al0).2 = (bDotB ip gg mmax st).2 := rfl

theorem lbfgsDir_snd (ip : V → V → K) (mmax : Nat) (st : LState V) (x g : V) (al0 : Nat → K) :
    (lbfgsDir ip mmax st x g al0).2 =
      { k := st.k + 1,
        s := if 0 < st.k then upd st.s ((st.k - 1) % mmax) (x - st.lastx) else st.s,
        y := if 0 < st.k then upd st.y ((st.k - 1) % mmax) (g - st.lastgrad) else st.y,
        lastx := x, lastgrad := g } := rfl

/-- one step of the two runs from related states: equal directions, related states -/
theorem step_rel {ip : V → V → K} (hip : IsIP ip) (gg : V → K) (mmax : Nat) (hmm : 0 < mmax)
    (alL alV : Nat → K) (s0 y0 : Nat → V) (e0 : Nat → Nat → K) (p : Point V) (hgg : gg p.g ≠ 0)
    (stL : LState V) (ov : Option (VLState K V)) (hR : Rel ip mmax s0 y0 stL ov) :
    let stL' := if p.reset then resetL s0 y0 stL else stL
    let ov' := if p.reset then none else ov
    let st1 := vlPrep mmax s0 y0 e0 ov p
    (vlDir ip gg mmax st1 alV).1 = (lbfgsDir ip mmax stL' p.x p.g alL).1 ∧
    Rel ip mmax s0 y0 (lbfgsDir ip mmax stL' p.x p.g alL).2 (some (vlDir ip gg mmax st1 alV).2) := by
  intro stL' ov' st1
  -- the two cases: fresh store / existing store
  have hcases : (ov' = none ∧ stL'.k = 0 ∧ stL'.s = s0 ∧ stL'.y = y0) ∨
      (∃ sv, ov' = some sv ∧ sv.k + 1 = stL'.k ∧ sv.s = stL'.s ∧ sv.y = stL'.y ∧ sv.lastx = stL'.lastx ∧
        sv.lastgrad = stL'.lastgrad ∧ StoreFull ip mmax sv) := by
    by_cases hr : p.reset = true
    · left
      simp [ov', stL', hr, resetL]
    · have hr' : p.reset = false := by simpa using hr
      simp only [ov', stL', hr', Bool.false_eq_true, if_false]
      cases ov with
      | none => left; exact ⟨rfl, hR.1, hR.2.1, hR.2.2⟩
      | some sv => right; exact ⟨sv, rfl, hR⟩
  rcases hcases with ⟨hov, hk0, hs0, hy0⟩ | ⟨sv, hov, hk, hs, hy, hx, hg, hfull⟩
  · -- fresh store: k = 0 on both sides
    have hst1 : st1 = freshVL p.x p.g s0 y0 e0 := by
      show vlPrep mmax s0 y0 e0 ov p = _
      unfold vlPrep
      have : (if p.reset = true then none else ov) = none := hov
      rw [this]
    have hok : StoreOK ip mmax st1 := by
      intro a b ha _ _ _
      exfalso
      obtain ⟨i, hi, _⟩ := live_iff.mp ha
      rw [hst1] at hi
      have : histLen mmax (freshVL (K := K) p.x p.g s0 y0 e0) = 0 := by simp [histLen, freshVL]
      omega
    have hG := bDotB_gram hip gg mmax st1 hok
    have hdir := vl_eq_lbfgs_call hip gg mmax hmm stL' st1 p.x p.g alL alV
      (by rw [hst1, hk0]; rfl)
      (by rw [hst1, hk0]; simp [freshVL, hs0])
      (by rw [hst1, hk0]; simp [freshVL, hy0])
      (by rw [hst1]; rfl) hG (fun _ => hgg)
    refine ⟨hdir, ?_⟩
    rw [lbfgsDir_snd, vlDir_snd]
    obtain ⟨bk, bs, by', bg, bx, _⟩ := bDotB_full hip gg mmax st1 hok
    refine ⟨?_, ?_, ?_, ?_, ?_, storeFull_after hip gg mmax st1 hok⟩
    · rw [bk, hst1, hk0]; rfl
    · rw [bs, hst1, hk0]; simp [freshVL, hs0]
    · rw [by', hst1, hk0]; simp [freshVL, hy0]
    · rw [bx, hst1]; rfl
    · rw [bg, hst1]; rfl
  · -- existing store: add_new_point writes the slot L_BFGS writes
    have hst1 : st1 = addNewPoint mmax sv p.x p.g := by
      show vlPrep mmax s0 y0 e0 ov p = _
      unfold vlPrep
      have : (if p.reset = true then none else ov) = some sv := hov
      rw [this]
    have hok : StoreOK ip mmax st1 := by rw [hst1]; exact addNewPoint_ok ip mmax hmm sv p.x p.g hfull
    have hG := bDotB_gram hip gg mmax st1 hok
    have hkpos : 0 < stL'.k := by omega
    have hkm : stL'.k - 1 = sv.k := by omega
    have e_s : st1.s = if 0 < stL'.k then upd stL'.s ((stL'.k - 1) % mmax) (p.x - stL'.lastx) else stL'.s := by
      rw [if_pos hkpos, hkm, hst1, ← hs, ← hx]; rfl
    have e_y : st1.y = if 0 < stL'.k then upd stL'.y ((stL'.k - 1) % mmax) (p.g - stL'.lastgrad) else stL'.y := by
      rw [if_pos hkpos, hkm, hst1, ← hy, ← hg]; rfl
    have e_k : st1.k = stL'.k := by rw [hst1, ← hk]; rfl
    have hdir := vl_eq_lbfgs_call hip gg mmax hmm stL' st1 p.x p.g alL alV e_k e_s e_y
      (by rw [hst1]; rfl) hG
      (by intro h; exfalso; have := Nat.min_eq_zero_iff.mp h; omega)
    refine ⟨hdir, ?_⟩
    rw [lbfgsDir_snd, vlDir_snd]
    obtain ⟨bk, bs, by', bg, bx, _⟩ := bDotB_full hip gg mmax st1 hok
    refine ⟨?_, ?_, ?_, ?_, ?_, storeFull_after hip gg mmax st1 hok⟩
    · rw [bk, e_k]
    · rw [bs, e_s]
    · rw [by', e_y]
    · rw [bx, hst1]; rfl
    · rw [bg, hst1]; rfl

/-- **whole runs**: the two variants return the same list of directions -/
theorem runVL_eq_runL {ip : V → V → K} (hip : IsIP ip) (gg : V → K) (mmax : Nat) (hmm : 0 < mmax)
    (alL alV : Nat → K) (s0 y0 : Nat → V) (e0 : Nat → Nat → K) :
    ∀ (pts : List (Point V)), (∀ p ∈ pts, gg p.g ≠ 0) →
      ∀ (stL : LState V) (ov : Option (VLState K V)), Rel ip mmax s0 y0 stL ov →
        runVL ip gg mmax alV s0 y0 e0 pts ov = runL ip mmax alL s0 y0 pts stL := by
  intro pts
  induction pts with
  | nil => intro _ _ _ _; rfl
  | cons p r ih =>
    intro hgg stL ov hR
    obtain ⟨h1, h2⟩ := step_rel hip gg mmax hmm alL alV s0 y0 e0 p (hgg p List.mem_cons_self) stL ov hR
    simp only [runVL, runL]
    rw [h1]
    congr 1
    exact ih (fun q hq => hgg q (List.mem_cons_of_mem _ hq)) _ _ h2

end NiftyVerif.Lbfgs
