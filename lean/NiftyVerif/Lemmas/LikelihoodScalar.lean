/-
  C11 helper lemmas: derivatives of the scalar likelihood formulas of `Model/Likelihood.lean` over `ℝ`.
  (The property theorems themselves are in `Props/C11.lean`.)
-/
import NiftyVerif.Model.Likelihood
import NiftyVerif.Lemmas.TranscReal

namespace NiftyVerif.Likelihood
open NiftyVerif

/-- `sqrt` of a positive number has derivative `1/2/sqrt x` (the form `pointwise._sqrt_helper` returns) -/
theorem hasDerivAt_sqrt' {x : ℝ} (hx : 0 < x) : HasDerivAt Real.sqrt (1 / 2 / Real.sqrt x) x :=
  (Real.hasDerivAt_sqrt hx.ne').congr_deriv (by field_simp)

theorem sqrt_mul_self' {x : ℝ} (hx : 0 ≤ x) : Real.sqrt x * Real.sqrt x = x := Real.mul_self_sqrt hx

/-- `u(x) = (1-x)·(1/x)` is positive on `(0,1)` -/
theorem bernoulliU_pos {x : ℝ} (h0 : 0 < x) (h1 : x < 1) : 0 < bernoulliU x := by
  unfold bernoulliU
  have : 0 < 1 - x := by linarith
  positivity

theorem hasDerivAt_one_div {x : ℝ} (h0 : x ≠ 0) : HasDerivAt (fun y : ℝ => 1 / y) (-((1 / x) * (1 / x))) x := by
  have h := hasDerivAt_inv h0
  simp only [one_div]
  exact h.congr_deriv (by ring)

theorem hasDerivAt_bernoulliU {x : ℝ} (h0 : x ≠ 0) : HasDerivAt (fun y : ℝ => bernoulliU y) (bernoulliUd x) x := by
  unfold bernoulliU bernoulliUd
  have h1 : HasDerivAt (fun y : ℝ => 1 - y) (-1) x := by
    simpa using (hasDerivAt_id' x).const_sub 1
  exact (h1.mul (hasDerivAt_one_div h0)).congr_deriv (by ring)

end NiftyVerif.Likelihood
