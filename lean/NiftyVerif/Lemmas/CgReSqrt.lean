/-
  The sqrt-free encodings used by Model/CgRe.lean (`normLt`) are exact over the reals.
-/
import Mathlib.Analysis.Real.Sqrt
import Mathlib.Tactic.Ring
import Mathlib.Tactic.Linarith
import Mathlib.Tactic.Positivity

namespace NiftyVerif.CgRe

/-- `n < min(1/2, √m)·m` (the `resnorm` `_newton_cg` passes, `n = ‖r‖ ≥ 0`, `m = mag_g`) ⇔ `0 < m ∧ 2n < m ∧ n² < m³` -/
theorem resnorm_sqrt_encoding (n m : ℝ) (hn : 0 ≤ n) :
    n < min (1 / 2) (Real.sqrt m) * m ↔ (0 < m ∧ (1 + 1) * n < m ∧ n * n < m * m * m) := by
  by_cases hm : 0 < m
  · have hs : 0 < Real.sqrt m := Real.sqrt_pos.mpr hm
    have key : n < Real.sqrt m * m ↔ n * n < m * m * m := by
      have h1 : n < Real.sqrt m * m ↔ n / m < Real.sqrt m := by
        rw [div_lt_iff₀ hm]
      rw [h1, Real.lt_sqrt (div_nonneg hn hm.le), div_pow, div_lt_iff₀ (by positivity)]
      constructor <;> intro h <;> nlinarith
    constructor
    · intro h
      have h2 : n < 1 / 2 * m := lt_of_lt_of_le h (mul_le_mul_of_nonneg_right (min_le_left _ _) hm.le)
      have h3 : n < Real.sqrt m * m := lt_of_lt_of_le h (mul_le_mul_of_nonneg_right (min_le_right _ _) hm.le)
      exact ⟨hm, by linarith, key.mp h3⟩
    · rintro ⟨_, h2, h3⟩
      rcases min_choice (1 / 2 : ℝ) (Real.sqrt m) with h | h <;> rw [h]
      · linarith
      · exact key.mpr h3
  · have hm' : m ≤ 0 := not_lt.mp hm
    have : min (1 / 2) (Real.sqrt m) * m = 0 := by
      rw [Real.sqrt_eq_zero_of_nonpos hm']
      simp
    rw [this]
    constructor
    · intro h; linarith
    · rintro ⟨h, _⟩; exact absurd h hm

/-- `√g < ρ` for the Euclidean norm `‖r‖ = √g`, `g = ⟨r,r⟩ ≥ 0` ⇔ `0 < ρ ∧ g < ρ²` -/
theorem norm_two_encoding (g rho : ℝ) (hg : 0 ≤ g) : Real.sqrt g < rho ↔ (0 < rho ∧ g < rho * rho) := by
  constructor
  · intro h
    have hr : 0 < rho := lt_of_le_of_lt (Real.sqrt_nonneg g) h
    exact ⟨hr, by rw [Real.sqrt_lt' hr] at h; nlinarith⟩
  · rintro ⟨hr, h⟩
    rw [Real.sqrt_lt' hr]; nlinarith

end NiftyVerif.CgRe
