/-
  Soundness of the executable replay: an accepted observation sequence is a run of the transition system.
-/
import NiftyVerif.Model.AllreduceReplay
import NiftyVerif.Lemmas.AllreduceFull

namespace NiftyVerif.Allreduce

/-- reflexive-transitive closure of `FStep` -/
inductive FStar (p : Nat) : FSt → FSt → Prop where
  | refl (st : FSt) : FStar p st st
  | step {a b c : FSt} : FStar p a b → FStep p b c → FStar p a c

theorem FStar.trans {p : Nat} {a b c : FSt} (h1 : FStar p a b) (h2 : FStar p b c) : FStar p a c := by
  induction h2 with
  | refl => exact h1
  | step _ hs ih => exact FStar.step ih hs

theorem getD_set_progs (l : List (List FAct)) (r j : Nat) (v : List FAct) (hr : r < l.length) :
    (l.set r v).getD j [] = if j = r then v else l.getD j [] := by
  simp only [List.getD_eq_getElem?_getD, List.getElem?_set]
  by_cases hj : r = j
  · subst hj; simp [hr]
  · have : ¬ j = r := fun e => hj e.symm
    simp [hj, this]

theorem lt_of_getD_ne_nil {l : List (List FAct)} {r : Nat} {a : FAct} {rest : List FAct}
    (h : l.getD r [] = a :: rest) : r < l.length := by
  rcases Nat.lt_or_ge r l.length with h1 | h1
  · exact h1
  · rw [List.getD_eq_getElem?_getD, List.getElem?_eq_none h1] at h; cases h

theorem toF_set (x : XSt) (r : Nat) (v : List FAct) (s : Store) (hr : r < x.progs.length) :
    (⟨x.progs.set r v, s⟩ : XSt).toF = ⟨setFProg x.toF.prog r v, s⟩ := by
  simp only [XSt.toF, FSt.mk.injEq, and_true]
  funext j
  rw [getD_set_progs _ _ _ _ hr]
  rfl

theorem flushLoc_star (p : Nat) : ∀ (f : Nat) (x : XSt) (r : Nat),
    FStar p x.toF (flushLoc f x r).toF ∧ (flushLoc f x r).progs.length = x.progs.length := by
  intro f
  induction f with
  | zero => intro x r; exact ⟨FStar.refl _, rfl⟩
  | succ f ih =>
    intro x r
    unfold flushLoc
    split
    · rename_i e rest hh
      have hr := lt_of_getD_ne_nil hh
      have hstep : FStep p x.toF (⟨x.progs.set r rest, exec e x.store⟩ : XSt).toF := by
        rw [toF_set x r rest _ hr]
        exact FStep.loc x.toF r e rest hh
      have := ih ⟨x.progs.set r rest, exec e x.store⟩ r
      exact ⟨FStar.trans (FStar.step (FStar.refl _) hstep) this.1, by rw [this.2]; simp⟩
    · exact ⟨FStar.refl _, rfl⟩

theorem flushAll_star (p fuel : Nat) : ∀ (rs : List Nat) (x : XSt),
    FStar p x.toF (flushAll fuel x rs).toF ∧ (flushAll fuel x rs).progs.length = x.progs.length := by
  intro rs
  induction rs with
  | nil => intro x; exact ⟨FStar.refl _, rfl⟩
  | cons r rs ih =>
    intro x
    have h1 := flushLoc_star p fuel x r
    have h2 := ih (flushLoc fuel x r)
    exact ⟨FStar.trans h1.1 h2.1, by rw [show flushAll fuel x (r :: rs) = flushAll fuel (flushLoc fuel x r) rs from rfl, h2.2, h1.2]⟩

theorem xstep_star (p fuel : Nat) (x x' : XSt) (o : Obs) (hlen : x.progs.length ≤ p) (h : xstep p fuel x o = some x') :
    FStar p x.toF x'.toF ∧ x'.progs.length ≤ p := by
  cases o with
  | p2p b a =>
    simp only [xstep] at h
    have f1 := flushLoc_star p fuel x a
    have f2 := flushLoc_star p fuel (flushLoc fuel x a) b
    generalize hx2 : flushLoc fuel (flushLoc fuel x a) b = x2 at h f2
    split at h
    · rename_i b' e ra a' e' rb ha hb
      split at h
      · rename_i hc
        obtain ⟨rfl, rfl, hab⟩ := hc
        injection h with h
        subst h
        have hla := lt_of_getD_ne_nil ha
        have hlb := lt_of_getD_ne_nil hb
        have hstep : FStep p x2.toF (⟨(x2.progs.set a' ra).set b' rb, execRdv e e' x2.store⟩ : XSt).toF := by
          have e1 := toF_set ⟨x2.progs.set a' ra, x2.store⟩ b' rb (execRdv e e' x2.store) (by simpa using hlb)
          rw [show (⟨(x2.progs.set a' ra).set b' rb, execRdv e e' x2.store⟩ : XSt) =
            ⟨(⟨x2.progs.set a' ra, x2.store⟩ : XSt).progs.set b' rb, execRdv e e' x2.store⟩ from rfl, e1]
          rw [toF_set x2 a' ra _ hla]
          exact FStep.rdv x2.toF a' b' e e' ra rb hab ha hb
        refine ⟨FStar.step (FStar.trans f1.1 f2.1) hstep, ?_⟩
        simp only [List.length_set]
        rw [f2.2, f1.2]; exact hlen
      · cases h
    · cases h
  | coll t =>
    simp only [xstep] at h
    have f := flushAll_star p fuel (List.range p) x
    generalize hx2 : flushAll fuel x (List.range p) = x2 at h f
    split at h
    · rename_i hall
      injection h with h
      subst h
      have hl2 : x2.progs.length ≤ p := by rw [f.2]; exact hlen
      have hheads : ∀ r, r < p → x2.toF.prog r = .coll t :: (x2.progs.getD r []).tail := by
        intro r hr
        have := (List.all_eq_true.mp hall) r (List.mem_range.mpr hr)
        simp only [XSt.toF]
        split at this
        · rename_i t' rest hh
          simp only [beq_iff_eq] at this
          subst this
          rw [hh]; rfl
        · cases this
      have hstep : FStep p x2.toF (⟨x2.progs.map List.tail, x2.store⟩ : XSt).toF := by
        have := FStep.coll (p := p) x2.toF t (fun r => (x2.progs.getD r []).tail) hheads
        have heq : (⟨x2.progs.map List.tail, x2.store⟩ : XSt).toF =
            ⟨fun r => if r < p then (x2.progs.getD r []).tail else x2.toF.prog r, x2.toF.store⟩ := by
          simp only [XSt.toF, FSt.mk.injEq, and_true]
          funext r
          by_cases hr : r < p
          · simp only [hr, if_true, List.getD_eq_getElem?_getD, List.getElem?_map]
            cases x2.progs[r]? <;> rfl
          · simp only [hr, if_false, List.getD_eq_getElem?_getD]
            have : x2.progs.length ≤ r := by omega
            simp [this]
        rw [heq]; exact this
      exact ⟨FStar.step f.1 hstep, by simpa using hl2⟩
    · cases h

theorem replay_star (p fuel : Nat) : ∀ (obs : List Obs) (x x' : XSt), x.progs.length ≤ p →
    replay p fuel x obs = some x' → FStar p x.toF x'.toF := by
  intro obs
  induction obs with
  | nil =>
    intro x x' _ h
    simp only [replay, Option.some.injEq] at h
    subst h
    exact (flushAll_star p fuel _ x).1
  | cons o os ih =>
    intro x x' hlen h
    simp only [replay] at h
    cases hx : xstep p fuel x o with
    | none => rw [hx] at h; cases h
    | some x1 =>
      rw [hx] at h
      have := xstep_star p fuel x x1 o hlen hx
      exact FStar.trans this.1 (ih x1 x' this.2 h)

theorem xInit_toF (p : Nat) (who : Nat → Nat) (pre post : List Nat) (E : List Ev) (init : Store) :
    (xInit p who pre post E init).toF = fInit p who pre post E init := by
  simp only [XSt.toF, xInit, fInit, FSt.mk.injEq, and_true]
  funext r
  by_cases hr : r < p
  · simp [List.getD_eq_getElem?_getD, hr]
  · simp [List.getD_eq_getElem?_getD, hr, fullProg]

theorem freach_of_star {p who pre post E init} {k : Nat} {a b : FSt} (ha : FReach p who pre post E init k a)
    (h : FStar p a b) : ∃ k', FReach p who pre post E init k' b := by
  induction h with
  | refl => exact ⟨k, ha⟩
  | step _ hs ih =>
    obtain ⟨k', hk⟩ := ih
    exact ⟨k' + 1, FReach.succ hk hs⟩

theorem no_step_of_all_nil {p : Nat} (hp : 0 < p) {st : FSt} (h : ∀ r, st.prog r = []) : ¬ ∃ st', FStep p st st' := by
  rintro ⟨st', hs⟩
  cases hs with
  | loc r e rest hpr => rw [h r] at hpr; cases hpr
  | rdv a b e e' ra rb _ ha _ => rw [h a] at ha; cases ha
  | coll t rests hall => have := hall 0 hp; rw [h 0] at this; cases this

end NiftyVerif.Allreduce
