/-
  C16 — the persistent `ss/sy/yy` stores of `_InformationStore` (refreshed only in row/column `(k-1) % mmax`)
  hold the Gram entries of the live window; hence `b_dot_b` assembles a Gram matrix (helper lemmas for Props/C16.lean).
-/
import NiftyVerif.Lemmas.Lbfgs

set_option linter.unusedSectionVars false
set_option linter.unusedVariables false
set_option linter.unnecessarySeqFocus false

namespace NiftyVerif.Lbfgs

variable {K V : Type} [Field K] [AddCommGroup V] [Module K V]

/-- slot `a` holds one of the window's pairs whose logical index is listed in `L` -/
def InSlots (mmax k m : Nat) (L : List Nat) (a : Nat) : Prop := ∃ i ∈ L, a = slot mmax k m i

theorem inSlots_cons {mmax k m i : Nat} {r : List Nat} {a : Nat} :
    InSlots mmax k m (i :: r) a ↔ a = slot mmax k m i ∨ InSlots mmax k m r a := by
  unfold InSlots
  constructor
  · rintro ⟨j, hj, rfl⟩
    rcases List.mem_cons.mp hj with h | h
    · left; rw [h]
    · right; exact ⟨j, h, rfl⟩
  · rintro (h | ⟨j, hj, rfl⟩)
    · exact ⟨i, List.mem_cons_self, h⟩
    · exact ⟨j, List.mem_cons_of_mem _ hj, rfl⟩

theorem inSlots_nil {mmax k m a : Nat} : ¬ InSlots mmax k m [] a := by
  rintro ⟨j, hj, _⟩; cases hj

/-! ### the two store-refresh loops of `b_dot_b` -/

theorem storeLoop1_frame (ip : V → V → K) (mmax : Nat) : ∀ (L : List Nat) (st : VLState K V),
    (storeLoop1 ip mmax st L).k = st.k ∧ (storeLoop1 ip mmax st L).s = st.s ∧
    (storeLoop1 ip mmax st L).y = st.y ∧ (storeLoop1 ip mmax st L).lastgrad = st.lastgrad ∧
    (storeLoop1 ip mmax st L).lastx = st.lastx := by
  intro L
  induction L with
  | nil => intro st; simp [storeLoop1]
  | cons i r ih =>
    intro st
    simp only [storeLoop1]
    exact ih (storeStep1 ip mmax st i)

theorem storeLoop2_frame (ip : V → V → K) (mmax : Nat) : ∀ (L : List Nat) (st : VLState K V),
    (storeLoop2 ip mmax st L).k = st.k ∧ (storeLoop2 ip mmax st L).s = st.s ∧
    (storeLoop2 ip mmax st L).y = st.y ∧ (storeLoop2 ip mmax st L).lastgrad = st.lastgrad ∧
    (storeLoop2 ip mmax st L).lastx = st.lastx ∧
    (storeLoop2 ip mmax st L).ss = st.ss ∧ (storeLoop2 ip mmax st L).yy = st.yy := by
  intro L
  induction L with
  | nil => intro st; simp [storeLoop2]
  | cons i r ih =>
    intro st
    simp only [storeLoop2]
    exact ih (storeStep2 ip mmax st i)

/-- first refresh loop, `ss`: entries of row/column `k1` against the slots of `L` become inner products, all others
    are kept -/
theorem storeLoop1_ss {ip : V → V → K} (hip : IsIP ip) (mmax : Nat) :
    ∀ (L : List Nat) (st : VLState K V) (a b : Nat),
    (((b = (st.k - 1) % mmax ∧ InSlots mmax st.k (histLen mmax st) L a) ∨
      (a = (st.k - 1) % mmax ∧ InSlots mmax st.k (histLen mmax st) L b)) →
        (storeLoop1 ip mmax st L).ss a b = ip (st.s a) (st.s b)) ∧
    (¬ ((b = (st.k - 1) % mmax ∧ InSlots mmax st.k (histLen mmax st) L a) ∨
      (a = (st.k - 1) % mmax ∧ InSlots mmax st.k (histLen mmax st) L b)) →
        (storeLoop1 ip mmax st L).ss a b = st.ss a b) := by
  intro L
  induction L with
  | nil =>
    intro st a b
    refine ⟨?_, fun _ => rfl⟩
    rintro (⟨_, h⟩ | ⟨_, h⟩) <;> exact absurd h inSlots_nil
  | cons i r ih =>
    intro st a b
    simp only [storeLoop1]
    have hk : (storeStep1 ip mmax st i).k = st.k := rfl
    have hs : (storeStep1 ip mmax st i).s = st.s := rfl
    have hm : histLen mmax (storeStep1 ip mmax st i) = histLen mmax st := rfl
    have hss : (storeStep1 ip mmax st i).ss =
        upd2 (upd2 st.ss ((st.k - 1) % mmax) (slot mmax st.k (histLen mmax st) i)
          (ip (st.s (slot mmax st.k (histLen mmax st) i)) (st.s ((st.k - 1) % mmax))))
          (slot mmax st.k (histLen mmax st) i) ((st.k - 1) % mmax)
          (ip (st.s (slot mmax st.k (histLen mmax st) i)) (st.s ((st.k - 1) % mmax))) := rfl
    obtain ⟨ih1, ih2⟩ := ih (storeStep1 ip mmax st i) a b
    rw [hk, hm, hs] at ih1
    rw [hk, hm] at ih2
    by_cases hr : (b = (st.k - 1) % mmax ∧ InSlots mmax st.k (histLen mmax st) r a) ∨
        (a = (st.k - 1) % mmax ∧ InSlots mmax st.k (histLen mmax st) r b)
    · refine ⟨fun _ => ih1 hr, fun hn => ?_⟩
      exfalso; apply hn
      rcases hr with ⟨h1, h2⟩ | ⟨h1, h2⟩
      · exact Or.inl ⟨h1, inSlots_cons.mpr (Or.inr h2)⟩
      · exact Or.inr ⟨h1, inSlots_cons.mpr (Or.inr h2)⟩
    · rw [ih2 hr, hss]
      by_cases h1 : a = slot mmax st.k (histLen mmax st) i ∧ b = (st.k - 1) % mmax
      · refine ⟨fun _ => ?_, fun hn => ?_⟩
        · obtain ⟨ha, hb⟩ := h1
          subst ha; subst hb
          simp [upd2]
        · exfalso; apply hn
          exact Or.inl ⟨h1.2, inSlots_cons.mpr (Or.inl h1.1)⟩
      · by_cases h2 : a = (st.k - 1) % mmax ∧ b = slot mmax st.k (histLen mmax st) i
        · refine ⟨fun _ => ?_, fun hn => ?_⟩
          · obtain ⟨ha, hb⟩ := h2
            subst ha; subst hb
            simp only [upd2, and_self, if_true]
            split_ifs <;> exact hip.symm _ _
          · exfalso; apply hn
            exact Or.inr ⟨h2.1, inSlots_cons.mpr (Or.inl h2.2)⟩
        · refine ⟨fun ht => ?_, fun _ => ?_⟩
          · exfalso
            rcases ht with ⟨e1, e2⟩ | ⟨e1, e2⟩
            · rcases inSlots_cons.mp e2 with e | e
              · exact h1 ⟨e, e1⟩
              · exact hr (Or.inl ⟨e1, e⟩)
            · rcases inSlots_cons.mp e2 with e | e
              · exact h2 ⟨e1, e⟩
              · exact hr (Or.inr ⟨e1, e⟩)
          · simp only [upd2, h1, if_false, h2]

/-- first refresh loop, `yy`: entries of row/column `k1` against the slots of `L` become inner products, all others
    are kept -/
theorem storeLoop1_yy {ip : V → V → K} (hip : IsIP ip) (mmax : Nat) :
    ∀ (L : List Nat) (st : VLState K V) (a b : Nat),
    (((b = (st.k - 1) % mmax ∧ InSlots mmax st.k (histLen mmax st) L a) ∨
      (a = (st.k - 1) % mmax ∧ InSlots mmax st.k (histLen mmax st) L b)) →
        (storeLoop1 ip mmax st L).yy a b = ip (st.y a) (st.y b)) ∧
    (¬ ((b = (st.k - 1) % mmax ∧ InSlots mmax st.k (histLen mmax st) L a) ∨
      (a = (st.k - 1) % mmax ∧ InSlots mmax st.k (histLen mmax st) L b)) →
        (storeLoop1 ip mmax st L).yy a b = st.yy a b) := by
  intro L
  induction L with
  | nil =>
    intro st a b
    refine ⟨?_, fun _ => rfl⟩
    rintro (⟨_, h⟩ | ⟨_, h⟩) <;> exact absurd h inSlots_nil
  | cons i r ih =>
    intro st a b
    simp only [storeLoop1]
    have hk : (storeStep1 ip mmax st i).k = st.k := rfl
    have hs : (storeStep1 ip mmax st i).y = st.y := rfl
    have hm : histLen mmax (storeStep1 ip mmax st i) = histLen mmax st := rfl
    have hss : (storeStep1 ip mmax st i).yy =
        upd2 (upd2 st.yy ((st.k - 1) % mmax) (slot mmax st.k (histLen mmax st) i)
          (ip (st.y (slot mmax st.k (histLen mmax st) i)) (st.y ((st.k - 1) % mmax))))
          (slot mmax st.k (histLen mmax st) i) ((st.k - 1) % mmax)
          (ip (st.y (slot mmax st.k (histLen mmax st) i)) (st.y ((st.k - 1) % mmax))) := rfl
    obtain ⟨ih1, ih2⟩ := ih (storeStep1 ip mmax st i) a b
    rw [hk, hm, hs] at ih1
    rw [hk, hm] at ih2
    by_cases hr : (b = (st.k - 1) % mmax ∧ InSlots mmax st.k (histLen mmax st) r a) ∨
        (a = (st.k - 1) % mmax ∧ InSlots mmax st.k (histLen mmax st) r b)
    · refine ⟨fun _ => ih1 hr, fun hn => ?_⟩
      exfalso; apply hn
      rcases hr with ⟨h1, h2⟩ | ⟨h1, h2⟩
      · exact Or.inl ⟨h1, inSlots_cons.mpr (Or.inr h2)⟩
      · exact Or.inr ⟨h1, inSlots_cons.mpr (Or.inr h2)⟩
    · rw [ih2 hr, hss]
      by_cases h1 : a = slot mmax st.k (histLen mmax st) i ∧ b = (st.k - 1) % mmax
      · refine ⟨fun _ => ?_, fun hn => ?_⟩
        · obtain ⟨ha, hb⟩ := h1
          subst ha; subst hb
          simp [upd2]
        · exfalso; apply hn
          exact Or.inl ⟨h1.2, inSlots_cons.mpr (Or.inl h1.1)⟩
      · by_cases h2 : a = (st.k - 1) % mmax ∧ b = slot mmax st.k (histLen mmax st) i
        · refine ⟨fun _ => ?_, fun hn => ?_⟩
          · obtain ⟨ha, hb⟩ := h2
            subst ha; subst hb
            simp only [upd2, and_self, if_true]
            split_ifs <;> exact hip.symm _ _
          · exfalso; apply hn
            exact Or.inr ⟨h2.1, inSlots_cons.mpr (Or.inl h2.2)⟩
        · refine ⟨fun ht => ?_, fun _ => ?_⟩
          · exfalso
            rcases ht with ⟨e1, e2⟩ | ⟨e1, e2⟩
            · rcases inSlots_cons.mp e2 with e | e
              · exact h1 ⟨e, e1⟩
              · exact hr (Or.inl ⟨e1, e⟩)
            · rcases inSlots_cons.mp e2 with e | e
              · exact h2 ⟨e1, e⟩
              · exact hr (Or.inr ⟨e1, e⟩)
          · simp only [upd2, h1, if_false, h2]

/-- first refresh loop, `sy`: column `k1` against the slots of `L` -/
theorem storeLoop1_sy (ip : V → V → K) (mmax : Nat) :
    ∀ (L : List Nat) (st : VLState K V) (a b : Nat),
    ((b = (st.k - 1) % mmax ∧ InSlots mmax st.k (histLen mmax st) L a) →
        (storeLoop1 ip mmax st L).sy a b = ip (st.s a) (st.y b)) ∧
    (¬ (b = (st.k - 1) % mmax ∧ InSlots mmax st.k (histLen mmax st) L a) →
        (storeLoop1 ip mmax st L).sy a b = st.sy a b) := by
  intro L
  induction L with
  | nil =>
    intro st a b
    exact ⟨fun h => absurd h.2 inSlots_nil, fun _ => rfl⟩
  | cons i r ih =>
    intro st a b
    simp only [storeLoop1]
    have hk : (storeStep1 ip mmax st i).k = st.k := rfl
    have hs : (storeStep1 ip mmax st i).s = st.s := rfl
    have hy : (storeStep1 ip mmax st i).y = st.y := rfl
    have hm : histLen mmax (storeStep1 ip mmax st i) = histLen mmax st := rfl
    have hsy : (storeStep1 ip mmax st i).sy =
        upd2 st.sy (slot mmax st.k (histLen mmax st) i) ((st.k - 1) % mmax)
          (ip (st.s (slot mmax st.k (histLen mmax st) i)) (st.y ((st.k - 1) % mmax))) := rfl
    obtain ⟨ih1, ih2⟩ := ih (storeStep1 ip mmax st i) a b
    rw [hk, hm, hs, hy] at ih1
    rw [hk, hm] at ih2
    by_cases hr : b = (st.k - 1) % mmax ∧ InSlots mmax st.k (histLen mmax st) r a
    · exact ⟨fun _ => ih1 hr, fun hn => absurd ⟨hr.1, inSlots_cons.mpr (Or.inr hr.2)⟩ hn⟩
    · rw [ih2 hr, hsy]
      by_cases h1 : a = slot mmax st.k (histLen mmax st) i ∧ b = (st.k - 1) % mmax
      · refine ⟨fun _ => ?_, fun hn => absurd ⟨h1.2, inSlots_cons.mpr (Or.inl h1.1)⟩ hn⟩
        obtain ⟨ha, hb⟩ := h1
        subst ha; subst hb
        simp [upd2]
      · refine ⟨fun ht => ?_, fun _ => by simp only [upd2, h1, if_false]⟩
        exfalso
        rcases inSlots_cons.mp ht.2 with e | e
        · exact h1 ⟨e, ht.1⟩
        · exact hr ⟨ht.1, e⟩

/-- second refresh loop, `sy`: row `k1` against the slots of `L` -/
theorem storeLoop2_sy (ip : V → V → K) (mmax : Nat) :
    ∀ (L : List Nat) (st : VLState K V) (a b : Nat),
    ((a = (st.k - 1) % mmax ∧ InSlots mmax st.k (histLen mmax st) L b) →
        (storeLoop2 ip mmax st L).sy a b = ip (st.s a) (st.y b)) ∧
    (¬ (a = (st.k - 1) % mmax ∧ InSlots mmax st.k (histLen mmax st) L b) →
        (storeLoop2 ip mmax st L).sy a b = st.sy a b) := by
  intro L
  induction L with
  | nil =>
    intro st a b
    exact ⟨fun h => absurd h.2 inSlots_nil, fun _ => rfl⟩
  | cons i r ih =>
    intro st a b
    simp only [storeLoop2]
    have hk : (storeStep2 ip mmax st i).k = st.k := rfl
    have hs : (storeStep2 ip mmax st i).s = st.s := rfl
    have hy : (storeStep2 ip mmax st i).y = st.y := rfl
    have hm : histLen mmax (storeStep2 ip mmax st i) = histLen mmax st := rfl
    have hsy : (storeStep2 ip mmax st i).sy =
        upd2 st.sy ((st.k - 1) % mmax) (slot mmax st.k (histLen mmax st) i)
          (ip (st.s ((st.k - 1) % mmax)) (st.y (slot mmax st.k (histLen mmax st) i))) := rfl
    obtain ⟨ih1, ih2⟩ := ih (storeStep2 ip mmax st i) a b
    rw [hk, hm, hs, hy] at ih1
    rw [hk, hm] at ih2
    by_cases hr : a = (st.k - 1) % mmax ∧ InSlots mmax st.k (histLen mmax st) r b
    · exact ⟨fun _ => ih1 hr, fun hn => absurd ⟨hr.1, inSlots_cons.mpr (Or.inr hr.2)⟩ hn⟩
    · rw [ih2 hr, hsy]
      by_cases h1 : a = (st.k - 1) % mmax ∧ b = slot mmax st.k (histLen mmax st) i
      · refine ⟨fun _ => ?_, fun hn => absurd ⟨h1.1, inSlots_cons.mpr (Or.inl h1.2)⟩ hn⟩
        obtain ⟨ha, hb⟩ := h1
        subst ha; subst hb
        simp [upd2]
      · refine ⟨fun ht => ?_, fun _ => by simp only [upd2, h1, if_false]⟩
        exfalso
        rcases inSlots_cons.mp ht.2 with e | e
        · exact h1 ⟨ht.1, e⟩
        · exact hr ⟨ht.1, e⟩

/-! ### the store invariant -/

/-- slot `a` belongs to the live window of the store -/
def Live (mmax : Nat) (st : VLState K V) (a : Nat) : Prop :=
  InSlots mmax st.k (histLen mmax st) (List.range (histLen mmax st)) a

/-- the three stores hold the inner products of the vectors in slots `a`, `b` -/
def Entries (ip : V → V → K) (st : VLState K V) (a b : Nat) : Prop :=
  st.ss a b = ip (st.s a) (st.s b) ∧ st.yy a b = ip (st.y a) (st.y b) ∧ st.sy a b = ip (st.s a) (st.y b)

/-- what holds *before* `b_dot_b` refreshes row/column `k1 = (k-1) % mmax` (i.e. right after `add_new_point`) -/
def StoreOK (ip : V → V → K) (mmax : Nat) (st : VLState K V) : Prop :=
  ∀ a b, Live mmax st a → Live mmax st b → a ≠ (st.k - 1) % mmax → b ≠ (st.k - 1) % mmax → Entries ip st a b

/-- what holds *after* `b_dot_b` -/
def StoreFull (ip : V → V → K) (mmax : Nat) (st : VLState K V) : Prop :=
  ∀ a b, Live mmax st a → Live mmax st b → Entries ip st a b

theorem live_iff {mmax : Nat} {st : VLState K V} {a : Nat} :
    Live mmax st a ↔ ∃ i, i < histLen mmax st ∧ a = slot mmax st.k (histLen mmax st) i := by
  unfold Live InSlots
  constructor
  · rintro ⟨i, hi, h⟩; exact ⟨i, List.mem_range.mp hi, h⟩
  · rintro ⟨i, hi, h⟩; exact ⟨i, List.mem_range.mpr hi, h⟩

/-- the newest pair sits in slot `k1` -/
theorem slot_last (mmax k m : Nat) (hm : 0 < m) (hmk : m ≤ k) : slot mmax k m (m - 1) = (k - 1) % mmax := by
  unfold slot; congr 1; omega

/-- after both refresh loops every pair of live slots is correct -/
theorem bDotB_full {ip : V → V → K} (hip : IsIP ip) (gg : V → K) (mmax : Nat) (st : VLState K V)
    (hok : StoreOK ip mmax st) :
    (bDotB ip gg mmax st).2.k = st.k ∧ (bDotB ip gg mmax st).2.s = st.s ∧ (bDotB ip gg mmax st).2.y = st.y ∧
    (bDotB ip gg mmax st).2.lastgrad = st.lastgrad ∧ (bDotB ip gg mmax st).2.lastx = st.lastx ∧
    ∀ a b, Live mmax st a → Live mmax st b → Entries ip (bDotB ip gg mmax st).2 a b := by
  have f1 := storeLoop1_frame ip mmax (List.range (histLen mmax st)) st
  have f2 := storeLoop2_frame ip mmax (List.range (histLen mmax st - 1))
    (storeLoop1 ip mmax st (List.range (histLen mmax st)))
  obtain ⟨f1k, f1s, f1y, f1g, f1x⟩ := f1
  obtain ⟨f2k, f2s, f2y, f2g, f2x, f2ss, f2yy⟩ := f2
  have hst2 : (bDotB ip gg mmax st).2 = storeLoop2 ip mmax (storeLoop1 ip mmax st (List.range (histLen mmax st)))
      (List.range (histLen mmax st - 1)) := rfl
  rw [hst2]
  refine ⟨by rw [f2k, f1k], by rw [f2s, f1s], by rw [f2y, f1y], by rw [f2g, f1g], by rw [f2x, f1x], ?_⟩
  intro a b ha hb
  have hmk : histLen mmax st ≤ st.k := Nat.min_le_left _ _
  have hmpos : 0 < histLen mmax st := by
    obtain ⟨i, hi, _⟩ := live_iff.mp ha; omega
  have hk1 := slot_last mmax st.k (histLen mmax st) hmpos hmk
  have hm1 : histLen mmax (storeLoop1 ip mmax st (List.range (histLen mmax st))) = histLen mmax st := by
    show min (storeLoop1 ip mmax st (List.range (histLen mmax st))).k mmax = min st.k mmax
    rw [f1k]
  unfold Entries
  rw [f2ss, f2yy, f2s, f1s, f2y, f1y]
  refine ⟨?_, ?_, ?_⟩
  · -- ss
    obtain ⟨t1, t2⟩ := storeLoop1_ss hip mmax (List.range (histLen mmax st)) st a b
    by_cases ht : (b = (st.k - 1) % mmax ∧ InSlots mmax st.k (histLen mmax st) (List.range (histLen mmax st)) a) ∨
        (a = (st.k - 1) % mmax ∧ InSlots mmax st.k (histLen mmax st) (List.range (histLen mmax st)) b)
    · exact t1 ht
    · rw [t2 ht]
      have hb1 : b ≠ (st.k - 1) % mmax := fun h => ht (Or.inl ⟨h, ha⟩)
      have ha1 : a ≠ (st.k - 1) % mmax := fun h => ht (Or.inr ⟨h, hb⟩)
      exact (hok a b ha hb ha1 hb1).1
  · -- yy
    obtain ⟨t1, t2⟩ := storeLoop1_yy hip mmax (List.range (histLen mmax st)) st a b
    by_cases ht : (b = (st.k - 1) % mmax ∧ InSlots mmax st.k (histLen mmax st) (List.range (histLen mmax st)) a) ∨
        (a = (st.k - 1) % mmax ∧ InSlots mmax st.k (histLen mmax st) (List.range (histLen mmax st)) b)
    · exact t1 ht
    · rw [t2 ht]
      have hb1 : b ≠ (st.k - 1) % mmax := fun h => ht (Or.inl ⟨h, ha⟩)
      have ha1 : a ≠ (st.k - 1) % mmax := fun h => ht (Or.inr ⟨h, hb⟩)
      exact (hok a b ha hb ha1 hb1).2.1
  · -- sy
    obtain ⟨u1, u2⟩ := storeLoop2_sy ip mmax (List.range (histLen mmax st - 1))
      (storeLoop1 ip mmax st (List.range (histLen mmax st))) a b
    rw [f1k, hm1, f1s, f1y] at u1
    rw [f1k, hm1] at u2
    by_cases hu : a = (st.k - 1) % mmax ∧
        InSlots mmax st.k (histLen mmax st) (List.range (histLen mmax st - 1)) b
    · exact u1 hu
    · rw [u2 hu]
      obtain ⟨t1, t2⟩ := storeLoop1_sy ip mmax (List.range (histLen mmax st)) st a b
      by_cases ht : b = (st.k - 1) % mmax ∧
          InSlots mmax st.k (histLen mmax st) (List.range (histLen mmax st)) a
      · exact t1 ht
      · rw [t2 ht]
        have hb1 : b ≠ (st.k - 1) % mmax := fun h => ht ⟨h, ha⟩
        have ha1 : a ≠ (st.k - 1) % mmax := by
          intro h
          apply hu
          refine ⟨h, ?_⟩
          obtain ⟨j, hj, hbj⟩ := live_iff.mp hb
          refine ⟨j, List.mem_range.mpr ?_, hbj⟩
          rcases Nat.lt_or_ge j (histLen mmax st - 1) with hlt | hge
          · exact hlt
          · exfalso
            have : j = histLen mmax st - 1 := by omega
            rw [this, hk1] at hbj
            exact hb1 hbj
        exact (hok a b ha hb ha1 hb1).2.2

/-- **`b_dot_b` assembles the Gram matrix of the basis** (corner `[2m,2m]` exempt) whenever the stores were correct on
    the live window outside row/column `k1` -/
theorem bDotB_gram {ip : V → V → K} (hip : IsIP ip) (gg : V → K) (mmax : Nat) (st : VLState K V)
    (hok : StoreOK ip mmax st) :
    IsGram ip (basis mmax st) (histLen mmax st) (bDotB ip gg mmax st).1 := by
  obtain ⟨_, hs2, hy2, _, _, hE⟩ := bDotB_full hip gg mmax st hok
  intro l j hl hj hne
  have hlive : ∀ i, i < histLen mmax st → Live mmax st (slot mmax st.k (histLen mmax st) i) :=
    fun i hi => live_iff.mpr ⟨i, hi, rfl⟩
  have hres : (bDotB ip gg mmax st).1 l j =
      (if l < histLen mmax st then
        if j < histLen mmax st then
          (bDotB ip gg mmax st).2.ss (slot mmax st.k (histLen mmax st) l) (slot mmax st.k (histLen mmax st) j)
        else if j < 2 * histLen mmax st then
          (bDotB ip gg mmax st).2.sy (slot mmax st.k (histLen mmax st) l)
            (slot mmax st.k (histLen mmax st) (j - histLen mmax st))
        else ip (st.s (slot mmax st.k (histLen mmax st) l)) st.lastgrad
      else if l < 2 * histLen mmax st then
        if j < histLen mmax st then
          (bDotB ip gg mmax st).2.sy (slot mmax st.k (histLen mmax st) j)
            (slot mmax st.k (histLen mmax st) (l - histLen mmax st))
        else if j < 2 * histLen mmax st then
          (bDotB ip gg mmax st).2.yy (slot mmax st.k (histLen mmax st) (l - histLen mmax st))
            (slot mmax st.k (histLen mmax st) (j - histLen mmax st))
        else ip (st.y (slot mmax st.k (histLen mmax st) (l - histLen mmax st))) st.lastgrad
      else
        if j < histLen mmax st then ip (st.s (slot mmax st.k (histLen mmax st) j)) st.lastgrad
        else if j < 2 * histLen mmax st then
          ip (st.y (slot mmax st.k (histLen mmax st) (j - histLen mmax st))) st.lastgrad
        else gg st.lastgrad) := rfl
  rw [hres]
  have hb : ∀ i, basis mmax st i =
      (if i < histLen mmax st then st.s (slot mmax st.k (histLen mmax st) i)
       else if i < 2 * histLen mmax st then st.y (slot mmax st.k (histLen mmax st) (i - histLen mmax st))
       else st.lastgrad) := fun i => rfl
  rw [hb l, hb j]
  by_cases l1 : l < histLen mmax st
  · rw [if_pos l1, if_pos l1]
    by_cases j1 : j < histLen mmax st
    · rw [if_pos j1, if_pos j1]
      have := (hE _ _ (hlive l l1) (hlive j j1)).1
      rw [hs2] at this; exact this
    · rw [if_neg j1, if_neg j1]
      by_cases j2 : j < 2 * histLen mmax st
      · rw [if_pos j2, if_pos j2]
        have := (hE _ _ (hlive l l1) (hlive (j - histLen mmax st) (by omega))).2.2
        rw [hs2, hy2] at this; exact this
      · rw [if_neg j2, if_neg j2]
  · rw [if_neg l1, if_neg l1]
    by_cases l2 : l < 2 * histLen mmax st
    · rw [if_pos l2, if_pos l2]
      by_cases j1 : j < histLen mmax st
      · rw [if_pos j1, if_pos j1]
        have := (hE _ _ (hlive j j1) (hlive (l - histLen mmax st) (by omega))).2.2
        rw [hs2, hy2] at this; rw [this, hip.symm]
      · rw [if_neg j1, if_neg j1]
        by_cases j2 : j < 2 * histLen mmax st
        · rw [if_pos j2, if_pos j2]
          have := (hE _ _ (hlive (l - histLen mmax st) (by omega)) (hlive (j - histLen mmax st) (by omega))).2.1
          rw [hy2] at this; exact this
        · rw [if_neg j2, if_neg j2]
    · rw [if_neg l2, if_neg l2]
      by_cases j1 : j < histLen mmax st
      · rw [if_pos j1, if_pos j1, hip.symm]
      · rw [if_neg j1, if_neg j1]
        by_cases j2 : j < 2 * histLen mmax st
        · rw [if_pos j2, if_pos j2, hip.symm]
        · exfalso; apply hne; constructor <;> omega

/-- `add_new_point` overwrites only the slot that becomes `k1`: a fully correct store stays correct outside `k1` -/
theorem addNewPoint_ok (ip : V → V → K) (mmax : Nat) (hmm : 0 < mmax) (st : VLState K V) (x g : V)
    (hfull : StoreFull ip mmax st) : StoreOK ip mmax (addNewPoint mmax st x g) := by
  have hk' : (addNewPoint mmax st x g).k = st.k + 1 := rfl
  have hk1 : ((addNewPoint mmax st x g).k - 1) % mmax = st.k % mmax := by rw [hk']; simp
  have hm' : histLen mmax (addNewPoint mmax st x g) = min (st.k + 1) mmax := rfl
  have hm : histLen mmax st = min st.k mmax := rfl
  -- a live slot of the new window other than the new `k1` was live before
  have hold : ∀ a, Live mmax (addNewPoint mmax st x g) a → a ≠ st.k % mmax → Live mmax st a := by
    intro a ha hne
    obtain ⟨i, hi, hai⟩ := live_iff.mp ha
    rw [hk', hm'] at hai
    rw [hm'] at hi
    apply live_iff.mpr
    rw [hm]
    unfold slot at hai ⊢
    have hi2 : i ≠ min (st.k + 1) mmax - 1 := by
      intro h
      apply hne
      rw [hai, h]
      congr 1
      have : min (st.k + 1) mmax ≤ st.k + 1 := Nat.min_le_left _ _
      have : 0 < min (st.k + 1) mmax := by omega
      omega
    rcases Nat.lt_or_ge st.k mmax with hlt | hge
    · have e1 : min (st.k + 1) mmax = st.k + 1 := by omega
      have e2 : min st.k mmax = st.k := by omega
      rw [e1] at hai hi hi2
      rw [e2]
      refine ⟨i, by omega, ?_⟩
      rw [hai]; congr 1; omega
    · have e1 : min (st.k + 1) mmax = mmax := by omega
      have e2 : min st.k mmax = mmax := by omega
      rw [e1] at hai hi hi2
      rw [e2]
      refine ⟨i + 1, by omega, ?_⟩
      rw [hai]; congr 1; omega
  intro a b ha hb ha1 hb1
  rw [hk1] at ha1 hb1
  have ea := hfull a b (hold a ha ha1) (hold b hb hb1)
  have hsa : ∀ c, c ≠ st.k % mmax → (addNewPoint mmax st x g).s c = st.s c := fun c hc => upd_other _ _ hc
  have hya : ∀ c, c ≠ st.k % mmax → (addNewPoint mmax st x g).y c = st.y c := fun c hc => upd_other _ _ hc
  unfold Entries at ea ⊢
  rw [hsa a ha1, hsa b hb1, hya a ha1, hya b hb1]
  exact ea

end NiftyVerif.Lbfgs
