/-
  Program equivalence `_static_newton_cg` (+ `_line_search_successive_halving`) = `_newton_cg` (repaired code).
-/
import NiftyVerif.Model.NewtonRe
import Mathlib.Algebra.Module.Basic
import Mathlib.Algebra.Order.Field.Basic
import Mathlib.Tactic.Ring
import Mathlib.Tactic.Linarith
import Mathlib.Tactic.SplitIfs

namespace NiftyVerif.NewtonRe
set_option linter.unusedSectionVars false
set_option linter.unusedSimpArgs false

variable {K V : Type} [Field K] [LinearOrder K] [IsStrictOrderedRing K] [AddCommGroup V] [Module K V]
variable (c : Cfg K) (f : V → K × V) (hessp : V → V → V) (ip : V → V → K) (gradnorm : V → K)
  (cgnorm : V → K) (cg : CgArgs K → V → V → V × Int)

theorem lsStaticLoop_done (pos : V) (e : K) (g : V) (fuel : Nat) (v : LsSt K V) (h : ¬ v.status < -1) :
    lsStaticLoop f hessp ip pos e g fuel v = v := by
  cases fuel <;> simp [lsStaticLoop, h]

/-- the compiled line search result corresponds to the eager one -/
def LsMatch (R : LsRes K V) (S : LsSt K V) : Prop :=
  (R.found = true → S.status = 0 ∧ S.newPos = R.newPos ∧ S.newEnergy = R.newEnergy ∧ S.newG = R.newG
      ∧ S.dd = R.dd ∧ S.gs = R.gs ∧ S.it = R.trials)
  ∧ (R.found = false → S.status = -1)

theorem ls_sim (pos : V) (energy : K) (g : V) : ∀ (fuel ls : Nat) (gs : K) (dd : V) (reset : Bool)
    (np : V) (ne : K) (ng : V), 1 ≤ fuel → ls + fuel = 9 →
    LsMatch (lsEager f hessp ip pos energy g fuel ls gs dd reset)
      (lsStaticLoop f hessp ip pos energy g fuel ⟨-2, ls, np, ne, ng, dd, gs, reset⟩) := by
  intro fuel
  induction fuel with
  | zero => intro ls gs dd reset np ne ng h; omega
  | succ fuel ih =>
    intro ls gs dd reset np ne ng _ hsum
    simp only [lsStaticLoop, show ((-2 : Int) < -1) from by omega, if_true, lsEager]
    by_cases hacc : (f (pos - gs • dd)).1 ≤ energy
    · simp only [hacc, if_true]
      have hstep : lsStaticStep f hessp ip pos energy g ⟨-2, ls, np, ne, ng, dd, gs, reset⟩
          = ⟨0, ls + 1, pos - gs • dd, (f (pos - gs • dd)).1, (f (pos - gs • dd)).2, dd, gs, reset⟩ := by
        simp [lsStaticStep, hacc]
      rw [hstep, lsStaticLoop_done _ _ _ _ _ _ _ _ (by simp)]
      simp [LsMatch]
    · simp only [hacc, if_false]
      by_cases h8 : ls = 8
      · have hf0 : fuel = 0 := by omega
        subst hf0
        subst h8
        have hstep : (lsStaticStep f hessp ip pos energy g ⟨-2, 8, np, ne, ng, dd, gs, reset⟩).status = -1 := by
          simp [lsStaticStep, hacc]
        simp [lsStaticLoop, lsEager, LsMatch, hstep]
      · have hfuel : 1 ≤ fuel := by omega
        by_cases h5 : ls = 5
        · subst h5
          have hstep : lsStaticStep f hessp ip pos energy g ⟨-2, 5, np, ne, ng, dd, gs, reset⟩
              = ⟨-2, 6, pos - gs • dd, (f (pos - gs • dd)).1, (f (pos - gs • dd)).2,
                  resetDir ip hessp pos g, 1, true⟩ := by
            simp [lsStaticStep, hacc]
          rw [hstep]
          simp only [if_true]
          exact ih 6 1 _ true _ _ _ hfuel (by omega)
        · have hstep : lsStaticStep f hessp ip pos energy g ⟨-2, ls, np, ne, ng, dd, gs, reset⟩
              = ⟨-2, ls + 1, pos - gs • dd, (f (pos - gs • dd)).1, (f (pos - gs • dd)).2, dd, gs / two, reset⟩ := by
            simp [lsStaticStep, hacc, h5, h8]
          rw [hstep]
          simp only [h5, if_false]
          exact ih (ls + 1) _ _ _ _ _ _ hfuel (by omega)

theorem lineSearch_sim (pos : V) (energy : K) (g natg : V) :
    LsMatch (lineSearchEager f hessp ip pos energy g natg) (lineSearchStatic f hessp ip pos energy g natg) :=
  ls_sim f hessp ip pos energy g 9 0 1 natg false pos energy g (by omega) (by omega)

/-- compiled state corresponding to the eager state at the start of iteration `i` -/
def sOf (s : NSt K V) (i : Nat) : SSt K V := ⟨-2, i - 1, s.pos, s.energy, s.g, s.oldF⟩

def resOf (v : SSt K V) : NRes K V := ⟨v.pos, v.status, v.energy, v.g, v.it⟩

theorem ncgStep_sim (i : Nat) (hi : 1 ≤ i) (s : NSt K V)
    (hargs : cg (eagerCgArgs c cgnorm s) s.pos s.g = cg (staticCgArgs c cgnorm (sOf s i)) s.pos s.g) :
    match ncgEagerStep c f hessp ip gradnorm cgnorm cg i s with
    | .stop (.ok r) => ∃ v, ncgStaticStep c f hessp ip gradnorm cgnorm cg (sOf s i) = some v ∧ resOf v = r ∧ -1 ≤ r.status
    | .stop (.error _) => ncgStaticStep c f hessp ip gradnorm cgnorm cg (sOf s i) = none
    | .next s' => ncgStaticStep c f hessp ip gradnorm cgnorm cg (sOf s i)
        = some { sOf s' (i + 1) with status := if i = c.maxiter then (i : Int) else -2 } := by
  have hi1 : i - 1 + 1 = i := by omega
  have hiI : ¬ ((i : Int) < -1) := by omega
  have hls := lineSearch_sim f hessp ip s.pos s.energy s.g (cg (eagerCgArgs c cgnorm s) s.pos s.g).1
  simp only [sOf] at hargs
  unfold ncgEagerStep ncgStaticStep
  simp only [sOf, hi1]
  simp only [← hargs]
  by_cases hc : (cg (eagerCgArgs c cgnorm s) s.pos s.g).2 < 0
  · simp only [hc, if_true]
  · simp only [hc, if_false]
    by_cases hf : (lineSearchEager f hessp ip s.pos s.energy s.g (cg (eagerCgArgs c cgnorm s) s.pos s.g).1).found = false
    · have hS := hls.2 hf
      simp only [hf, if_true, hS]
      refine ⟨_, rfl, ?_, by simp⟩
      simp [resOf]
    · have hf' : (lineSearchEager f hessp ip s.pos s.energy s.g (cg (eagerCgArgs c cgnorm s) s.pos s.g).1).found = true := by
        simpa using hf
      obtain ⟨h0, hp, he, hg, hdd, hgs, hit⟩ := hls.1 hf'
      simp only [hf', Bool.true_eq_false, if_false, h0, hp, he, hg, hdd, hgs, hit]
      generalize (lineSearchEager f hessp ip s.pos s.energy s.g (cg (eagerCgArgs c cgnorm s) s.pos s.g).1) = R
      cases hab : c.absdelta with
      | none =>
        by_cases hx : R.gs * gradnorm R.dd ≤ c.xtol ∧ c.miniter < i
        · simp [hx, resOf, hx.1, hx.2]
        · by_cases hm : i = c.maxiter
          · rcases not_and_or.mp hx with h | h <;> simp [h, eq_true hm, hiI, resOf]
          · rcases not_and_or.mp hx with h | h <;> simp [h, eq_false hm, hiI, resOf]
      | some a =>
        by_cases hA : (decide (0 ≤ s.energy - R.newEnergy) && decide (s.energy - R.newEnergy < a)) = true
            ∧ (decide (R.trials ≤ 2) && decide (c.miniter < i)) = true
        · obtain ⟨hA1, hA2⟩ := hA
          simp only [Bool.and_eq_true, decide_eq_true_eq] at hA1 hA2
          simp [hA1.1, hA1.2, hA2.1, hA2.2, resOf]
        · have hA' : (decide (0 ≤ s.energy - R.newEnergy) && decide (s.energy - R.newEnergy < a)
              && (decide (R.trials ≤ 2) && decide (c.miniter < i))) = false := by
            rw [Bool.eq_false_iff]
            intro h
            rw [Bool.and_eq_true] at h
            exact hA h
          have hA'' : ¬ ((decide (0 ≤ s.energy - R.newEnergy) && decide (s.energy - R.newEnergy < a)) = true
              ∧ (decide (R.trials ≤ 2) && decide (c.miniter < i)) = true) := hA
          simp only [hA'', if_false]
          have hP : ¬ ((R.newEnergy ≤ s.energy ∧ s.energy - R.newEnergy < a) ∧ R.trials ≤ 2 ∧ c.miniter < i) := by
            intro h
            apply hA
            simp only [Bool.and_eq_true, decide_eq_true_eq, sub_nonneg]
            exact ⟨h.1, h.2⟩
          by_cases hx : R.gs * gradnorm R.dd ≤ c.xtol ∧ c.miniter < i
          · have hP' : ¬ ((R.newEnergy ≤ s.energy ∧ s.energy - R.newEnergy < a) ∧ R.trials ≤ 2) :=
              fun h => hP ⟨h.1, h.2, hx.2⟩
            simp [hx, resOf, hx.1, hx.2, hP']
          · by_cases hm : i = c.maxiter
            · rcases not_and_or.mp hx with h | h
              · by_cases hmi : c.miniter < i
                · have hP' : ¬ ((R.newEnergy ≤ s.energy ∧ s.energy - R.newEnergy < a) ∧ R.trials ≤ 2) :=
                    fun h => hP ⟨h.1, h.2, hmi⟩
                  simp [h, eq_true hm, hiI, resOf, hP', hmi]
                · simp [h, eq_true hm, hiI, resOf, hmi]
              · simp [h, eq_true hm, hiI, resOf]
            · rcases not_and_or.mp hx with h | h
              · by_cases hmi : c.miniter < i
                · have hP' : ¬ ((R.newEnergy ≤ s.energy ∧ s.energy - R.newEnergy < a) ∧ R.trials ≤ 2) :=
                    fun h => hP ⟨h.1, h.2, hmi⟩
                  simp [h, eq_false hm, hiI, resOf, hP', hmi]
                · simp [h, eq_false hm, hiI, resOf, hmi]
              · simp [h, eq_false hm, hiI, resOf]

theorem ncgStaticLoop_done (fuel : Nat) (v : SSt K V) (h : ¬ v.status < -1) :
    ncgStaticLoop c f hessp ip gradnorm cgnorm cg fuel v = some v := by
  cases fuel <;> simp [ncgStaticLoop, h]

theorem ncgLoop_sim (P : NSt K V → Prop)
    (hP : ∀ s i s', P s → ncgEagerStep c f hessp ip gradnorm cgnorm cg i s = .next s' → P s')
    (hA : ∀ s i, P s → cg (eagerCgArgs c cgnorm s) s.pos s.g = cg (staticCgArgs c cgnorm (sOf s i)) s.pos s.g) :
    ∀ (fuel i : Nat) (s : NSt K V) (fs : Nat), P s → 1 ≤ i → 1 ≤ fuel → fuel ≤ fs →
    i + fuel = c.maxiter + 1 →
    match ncgEagerLoop c f hessp ip gradnorm cgnorm cg fuel i s with
    | .ok r => ∃ v, ncgStaticLoop c f hessp ip gradnorm cgnorm cg fs (sOf s i) = some v ∧ resOf v = r
    | .error _ => ncgStaticLoop c f hessp ip gradnorm cgnorm cg fs (sOf s i) = none := by
  intro fuel
  induction fuel with
  | zero => intro i s fs _ _ h; omega
  | succ fuel ih =>
    intro i s fs hPs hi _ hfs hsum
    obtain ⟨fs', rfl⟩ : ∃ k, fs = k + 1 := ⟨fs - 1, by omega⟩
    have hstart : (sOf s i).status < -1 := by simp [sOf]
    have hstep := ncgStep_sim c f hessp ip gradnorm cgnorm cg i hi s (hA s i hPs)
    simp only [ncgStaticLoop, hstart, if_true, ncgEagerLoop]
    cases hE : ncgEagerStep c f hessp ip gradnorm cgnorm cg i s with
    | stop r =>
      rw [hE] at hstep
      cases r with
      | ok res =>
        simp only at hstep ⊢
        obtain ⟨v, hv, hres, hst⟩ := hstep
        rw [hv]
        simp only
        have : ¬ v.status < -1 := by
          have : v.status = res.status := by rw [← hres]; rfl
          omega
        rw [ncgStaticLoop_done _ _ _ _ _ _ _ _ _ this]
        exact ⟨v, rfl, hres⟩
      | error e =>
        simp only at hstep ⊢
        rw [hstep]
    | next s' =>
      have hPs' := hP s i s' hPs hE
      rw [hE] at hstep
      simp only at hstep ⊢
      rw [hstep]
      simp only
      rcases Nat.eq_zero_or_pos fuel with h0 | hpos
      · subst h0
        have hm : i = c.maxiter := by omega
        simp only [hm, if_true, ncgEagerLoop]
        rw [ncgStaticLoop_done _ _ _ _ _ _ _ _ _ (by simp)]
        refine ⟨_, rfl, ?_⟩
        simp [resOf, sOf]
      · have hm : ¬ i = c.maxiter := by omega
        simp only [hm, if_false]
        have := ih (i + 1) s' fs' hPs' (by omega) hpos (by omega) (by omega)
        simpa [sOf] using this

/-- `_static_newton_cg` returns exactly what `_newton_cg` returns, and raises where it raises, whenever the CG oracle
    answers alike for the stopping parameters the two variants derive (`hA`) along an invariant `P` of the eager run -/
theorem ncgStatic_sim (P : NSt K V → Prop)
    (hP : ∀ s i s', P s → ncgEagerStep c f hessp ip gradnorm cgnorm cg i s = .next s' → P s')
    (hA : ∀ s i, P s → cg (eagerCgArgs c cgnorm s) s.pos s.g = cg (staticCgArgs c cgnorm (sOf s i)) s.pos s.g)
    (x0 : V) (h0 : P ⟨x0, (f x0).1, (f x0).2, c.oldFval⟩) :
    match ncgEager c f hessp ip gradnorm cgnorm cg x0 with
    | .ok r => ncgStatic c f hessp ip gradnorm cgnorm cg x0 = some r
    | .error _ => ncgStatic c f hessp ip gradnorm cgnorm cg x0 = none := by
  unfold ncgEager ncgStatic
  simp only []
  rcases Nat.eq_zero_or_pos c.maxiter with hz | hpos
  · simp [hz, ncgEagerLoop, ncgStaticLoop]
  · have hne : ¬ c.maxiter = 0 := by omega
    simp only [hne, if_false]
    have := ncgLoop_sim c f hessp ip gradnorm cgnorm cg P hP hA c.maxiter 1 ⟨x0, (f x0).1, (f x0).2, c.oldFval⟩
      c.maxiter h0 (le_refl _) hpos (le_refl _) (by omega)
    simp only [sOf] at this
    cases hE : ncgEagerLoop c f hessp ip gradnorm cgnorm cg c.maxiter 1 ⟨x0, (f x0).1, (f x0).2, c.oldFval⟩ with
    | ok r =>
      rw [hE] at this
      obtain ⟨v, hv, hr⟩ := this
      simp only
      rw [hv]
      simp only [Option.map_some, Option.some.injEq]
      rw [← hr]; rfl
    | error e =>
      rw [hE] at this
      simp only at this ⊢
      rw [this]; rfl

/-- when the two variants derive the same stopping parameters for the inner CG -/
theorem cgArgs_eq (e : K) (he : c.erf = some e) (he0 : e ≠ 0) (s : NSt K V) (i : Nat) (h1 : s.oldF ≠ some 0)
    (h2 : s.oldF = none → c.absdelta ≠ none) : eagerCgArgs c cgnorm s = staticCgArgs c cgnorm (sOf s i) := by
  unfold eagerCgArgs staticCgArgs sOf
  cases ho : s.oldF with
  | none =>
    have := h2 ho
    cases ha : c.absdelta with
    | none => exact absurd ha this
    | some a => simp [truthy, he]
  | some o =>
    have ho0 : o ≠ 0 := fun h => h1 (by rw [ho, h])
    simp [truthy, he, ho0, he0]

/-! ### the compiled minimiser never goes uphill (direct invariant, no equivalence guard needed) -/

theorem lsEager_specE (pos : V) (energy : K) (g natg : V)
    (h : (lineSearchEager f hessp ip pos energy g natg).found = true) :
    (lineSearchEager f hessp ip pos energy g natg).newEnergy = (f (lineSearchEager f hessp ip pos energy g natg).newPos).1
    ∧ (lineSearchEager f hessp ip pos energy g natg).newG = (f (lineSearchEager f hessp ip pos energy g natg).newPos).2
    ∧ (lineSearchEager f hessp ip pos energy g natg).newEnergy ≤ energy := by
  have key : ∀ (fuel ls : Nat) (gs : K) (dd : V) (reset : Bool),
      (lsEager f hessp ip pos energy g fuel ls gs dd reset).found = true →
      (lsEager f hessp ip pos energy g fuel ls gs dd reset).newEnergy
          = (f (lsEager f hessp ip pos energy g fuel ls gs dd reset).newPos).1
      ∧ (lsEager f hessp ip pos energy g fuel ls gs dd reset).newG
          = (f (lsEager f hessp ip pos energy g fuel ls gs dd reset).newPos).2
      ∧ (lsEager f hessp ip pos energy g fuel ls gs dd reset).newEnergy ≤ energy := by
    intro fuel
    induction fuel with
    | zero => intro ls gs dd reset h; simp [lsEager] at h
    | succ fuel ih =>
      intro ls gs dd reset
      simp only [lsEager]
      split_ifs with h1 h2
      · intro _; exact ⟨rfl, rfl, h1⟩
      · exact ih _ _ _ _
      · exact ih _ _ _ _
  exact key 9 0 1 natg false h

def SInv (E0 : K) (v : SSt K V) : Prop := v.energy = (f v.pos).1 ∧ v.g = (f v.pos).2 ∧ v.energy ≤ E0

theorem ncgStaticStep_inv (E0 : K) (v v' : SSt K V) (hv : SInv f E0 v) (hs : v.status < -1)
    (h : ncgStaticStep c f hessp ip gradnorm cgnorm cg v = some v') : SInv f E0 v' := by
  obtain ⟨h1, h2, h3⟩ := hv
  have hls := lineSearch_sim f hessp ip v.pos v.energy v.g (cg (staticCgArgs c cgnorm v) v.pos v.g).1
  unfold ncgStaticStep at h
  simp only [] at h
  by_cases hc : (cg (staticCgArgs c cgnorm v) v.pos v.g).2 < 0
  · simp [hc] at h
  · simp only [hc, if_false, Option.some.injEq] at h
    subst h
    by_cases hf : (lineSearchEager f hessp ip v.pos v.energy v.g (cg (staticCgArgs c cgnorm v) v.pos v.g).1).found = true
    · obtain ⟨hs0, hp, he, hg, _⟩ := hls.1 hf
      obtain ⟨a, b, c'⟩ := lsEager_specE f hessp ip v.pos v.energy v.g _ hf
      simp only [SInv, hs0, ne_eq, not_true_eq_false, if_false, hs, if_true, hp, he, hg]
      exact ⟨a, b, le_trans c' h3⟩
    · have hf' : (lineSearchEager f hessp ip v.pos v.energy v.g (cg (staticCgArgs c cgnorm v) v.pos v.g).1).found = false := by
        simpa using hf
      have hs1 := hls.2 hf'
      simp only [SInv, hs1, ne_eq, show ¬ ((-1 : Int) = 0) from by omega, not_false_eq_true, if_true,
        show ¬ ((-1 : Int) < -1) from by omega, if_false]
      exact ⟨h1, h2, h3⟩

theorem ncgStaticLoop_inv (E0 : K) : ∀ (fuel : Nat) (v v' : SSt K V), SInv f E0 v →
    ncgStaticLoop c f hessp ip gradnorm cgnorm cg fuel v = some v' → SInv f E0 v' := by
  intro fuel
  induction fuel with
  | zero => intro v v' hv h; simp only [ncgStaticLoop, Option.some.injEq] at h; subst h; exact hv
  | succ fuel ih =>
    intro v v' hv h
    simp only [ncgStaticLoop] at h
    split_ifs at h with hs
    · cases hstep : ncgStaticStep c f hessp ip gradnorm cgnorm cg v with
      | none => rw [hstep] at h; simp at h
      | some w =>
        rw [hstep] at h
        exact ih w v' (ncgStaticStep_inv c f hessp ip gradnorm cgnorm cg E0 v w hv hs hstep) h
    · simp only [Option.some.injEq] at h; subst h; exact hv

end NiftyVerif.NewtonRe
