/-
  Chain bookkeeping of nifty/re/hmc_oo.py `update_chain` (C32):
      acceptance = chain.acceptance + (x - chain.acceptance) / (idx + 1)
  is the running mean: after `n` updates it equals `(Σ x_i) / n`.
-/
import NiftyVerif.Model.Hmc
import Mathlib.Algebra.Order.Field.Basic
import Mathlib.Algebra.BigOperators.Group.List.Basic
import Mathlib.Tactic.FieldSimp
import Mathlib.Tactic.Ring
import Mathlib.Tactic.Linarith
import Mathlib.Tactic.LinearCombination

namespace NiftyVerif.Hmc

variable {K : Type} [Field K] [CharZero K]

theorem accRun_spec (xs : List K) (idx : Nat) (a : K) :
    accRun xs idx a * ((idx : K) + xs.length) = a * idx + xs.sum := by
  induction xs generalizing idx a with
  | nil => simp [accRun]
  | cons x xs ih =>
    simp only [accRun, List.length_cons, List.sum_cons]
    have h := ih (idx + 1) (accUpdate a idx x)
    have hne : ((idx : K) + 1) ≠ 0 := by exact_mod_cast Nat.succ_ne_zero idx
    have e : accUpdate a idx x * ((idx + 1 : Nat) : K) = a * idx + x := by
      unfold accUpdate; push_cast; field_simp; ring
    push_cast at h ⊢
    rw [show (idx : K) + ((xs.length : K) + 1) = (idx : K) + 1 + xs.length by ring, h]
    push_cast at e
    linear_combination e

/-- **chain_acceptance_is_mean**: the reported acceptance is the arithmetic mean of the per-sample values -/
theorem chain_acceptance_is_mean (xs : List K) (h : xs ≠ []) : accRun xs 0 0 = xs.sum / xs.length := by
  have := accRun_spec xs 0 0
  have hl : (xs.length : K) ≠ 0 := by
    have : 0 < xs.length := List.length_pos_iff.mpr h
    exact_mod_cast (Nat.pos_iff_ne_zero.mp this)
  simp only [Nat.cast_zero, zero_add, mul_zero] at this
  rw [eq_div_iff hl, this]

end NiftyVerif.Hmc
