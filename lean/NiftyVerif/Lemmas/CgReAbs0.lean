/-
  `absdelta = 0.` (what `_static_newton_cg` passes to the inner CG when no energy criterion is wanted) behaves like
  `absdelta = None` (what `_newton_cg` passes): in exact arithmetic the energy difference of a CG step with positive curvature
  is never negative, so the test `energy_diff < 0.` never fires.
-/
import NiftyVerif.Lemmas.CgReDescent

namespace NiftyVerif.CgRe
set_option linter.unusedSectionVars false
set_option linter.unusedSimpArgs false
open NiftyVerif.Iter

variable {K V : Type} [Field K] [LinearOrder K] [IsStrictOrderedRing K] [AddCommGroup V] [Module K V]
variable (c : Cfg K) (ip : V → V → K) (nrm : V → K) (mat : V → V) (j : V)

/-- the configuration with the energy criterion switched off -/
def noAbs (c : Cfg K) : Cfg K := { c with absdelta := none }

theorem eagerStep_abs0 (hip : SymmBilin ip) (hm : Linear (K := K) mat) (hsa : SelfAdj ip mat)
    (h0 : c.absdelta = some 0) (hres : c.resnorm.isSome = true ∨ c.resnormSqrt.isSome = true)
    (E0 : K) (i : Nat) (s : St K V) (hinv : InvB ip mat j E0 s) :
    eagerStep c ip nrm mat j i s = eagerStep (noAbs c) ip nrm mat j i s := by
  obtain ⟨hA, hrd, _⟩ := hinv
  obtain ⟨hr, hg, he⟩ := hA
  have hb := hip.toBilin
  have hra : resActive (noAbs c) = resActive c := by
    unfold resActive noAbs
    rcases hres with h | h <;> simp [h, h0]
  have hq : ∀ a : K, quadE ip mat j (s.pos - a • s.d)
      = quadE ip mat j s.pos - a * s.gamma + (half : K) * a ^ 2 * ip s.d (mat s.d) := by
    intro a; rw [quadE_step ip mat j hip hm hsa, ← hr, hrd]
  unfold eagerStep
  simp only [show (noAbs c).raiseNPD = c.raiseNPD from rfl, show (noAbs c).nreset = c.nreset from rfl,
    show (noAbs c).tiny = c.tiny from rfl, show (noAbs c).eps = c.eps from rfl,
    show miniterEff (noAbs c) = miniterEff c from rfl, hra,
    show ∀ r, normLt (noAbs c) ip nrm j r = normLt c ip nrm j r from fun _ => rfl,
    show (noAbs c).absdelta = none from rfl, h0]
  by_cases hz : ip s.d (mat s.d) = 0
  · simp only [hz, if_true]
  · by_cases hn : ip s.d (mat s.d) < 0
    · simp only [hz, hn, if_true, if_false]
    · have hc : 0 < ip s.d (mat s.d) := lt_of_le_of_ne (not_lt.mp hn) (Ne.symm hz)
      simp only [hz, hn, if_false]
      generalize hα : s.gamma / ip s.d (mat s.d) = α
      generalize hp : s.pos - α • s.d = pos'
      have hrr : (if i % c.nreset = 0 then mat pos' - j else s.r - α • mat s.d) = mat pos' - j := by
        split_ifs
        · rfl
        · rw [← hp]; exact resid_step mat j hm s.pos s.r s.d α hr
      rw [hrr]
      have hE : energyOf ip j (mat pos' - j) pos' = quadE ip mat j pos' := energyOf_eq ip mat j hb pos'
      rw [hE, he]
      have hdiff : quadE ip mat j s.pos - quadE ip mat j pos' = (half : K) * s.gamma ^ 2 / ip s.d (mat s.d) := by
        rw [← hp, hq, ← hα]; simp only [half]; field_simp; ring
      have hdiff0 : ¬ (quadE ip mat j s.pos - quadE ip mat j pos' < 0) := by
        rw [hdiff]; apply not_lt.mpr; apply div_nonneg _ hc.le; simp only [half]; positivity
      simp only [hdiff0, decide_false, Bool.false_eq_true, false_and, if_false]

theorem eagerLoop_abs0 (hip : SymmBilin ip) (hm : Linear (K := K) mat) (hsa : SelfAdj ip mat) (hnn : ∀ a, 0 ≤ ip a a)
    (h0 : c.absdelta = some 0) (hres : c.resnorm.isSome = true ∨ c.resnormSqrt.isSome = true) (E0 : K) :
    ∀ (fuel i : Nat) (s : St K V), 1 ≤ i → InvB ip mat j E0 s →
    eagerLoop c ip nrm mat j fuel i s = eagerLoop (noAbs c) ip nrm mat j fuel i s := by
  intro fuel
  induction fuel with
  | zero => intro i s _ _; rfl
  | succ fuel ih =>
    intro i s hi hinv
    have hstep := eagerStep_abs0 c ip nrm mat j hip hm hsa h0 hres E0 i s hinv
    have hB := eagerStep_specB c ip nrm mat j hip hm hsa hnn E0 i hi s hinv
    rw [eagerLoop, eagerLoop, ← hstep]
    cases hE : eagerStep c ip nrm mat j i s with
    | stop r => rfl
    | next s' =>
      rw [hE] at hB
      simp only at hB ⊢
      exact ih (i + 1) s' (by omega) hB

/-- `_cg(…, absdelta=0.)` = `_cg(…, absdelta=None)` whenever a residual criterion is present -/
theorem cgEager_abs0 (hip : SymmBilin ip) (hm : Linear (K := K) mat) (hsa : SelfAdj ip mat) (hnn : ∀ a, 0 ≤ ip a a)
    (h0 : c.absdelta = some 0) (hres : c.resnorm.isSome = true ∨ c.resnormSqrt.isSome = true) (x0 : Option V) :
    cgEager c ip nrm mat j x0 = cgEager (noAbs c) ip nrm mat j x0 := by
  have hinit := init_invB ip mat j hip hm x0
  unfold cgEager
  simp only [show maxiterEff (noAbs c) = maxiterEff c from rfl]
  split_ifs
  · rfl
  · exact eagerLoop_abs0 c ip nrm mat j hip hm hsa hnn h0 hres _ _ 1 _ (le_refl _) hinit

end NiftyVerif.CgRe
