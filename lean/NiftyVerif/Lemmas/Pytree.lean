import NiftyVerif.Model.Pytree
import Mathlib.Algebra.BigOperators.Group.List.Basic
import Mathlib.Tactic.Ring
import Mathlib.Algebra.Group.Defs
import Mathlib.Tactic.Linarith
import Mathlib.Analysis.Real.Sqrt
import Mathlib.Algebra.Order.BigOperators.Group.List
namespace NiftyVerif.Pytree
open NiftyVerif.Pytree.PTree
variable {α β γ : Type}

mutual
  theorem flatten_map (f : α → β) : ∀ t : PTree α, (PTree.map f t).flatten = t.flatten.map f
    | leaf _ _ => by simp [PTree.map, flatten]
    | node _ cs => by simp [PTree.map, flatten, flattenList_map f cs]
  theorem flattenList_map (f : α → β) : ∀ ts : List (PTree α), flattenList (mapList f ts) = (flattenList ts).map f
    | [] => by simp [mapList, flattenList]
    | t :: ts => by simp [mapList, flattenList, flatten_map f t, flattenList_map f ts]
end

mutual
  theorem flatten_bcast (s : α) : ∀ t : PTree β, (bcast s t).flatten = List.replicate t.flatten.length s
    | leaf _ vals => by simp [bcast, flatten, List.map_const']
    | node _ cs => by simp [bcast, flatten, flattenList_bcast s cs]
  theorem flattenList_bcast (s : α) : ∀ ts : List (PTree β), flattenList (bcastList s ts) = List.replicate (flattenList ts).length s
    | [] => by simp [bcastList, flattenList]
    | t :: ts => by
      simp [bcastList, flattenList, flatten_bcast s t, flattenList_bcast s ts]
end

mutual
  theorem flatten_map₂ (f : α → β → γ) : ∀ (a : PTree α) (b : PTree β) (c : PTree γ), map₂ f a b = some c →
      a.flatten.length = b.flatten.length ∧ c.flatten = List.zipWith f a.flatten b.flatten
    | leaf sh va, leaf sh' vb, c => by
      intro h
      simp only [map₂] at h
      split at h
      · rename_i hc
        simp at h; subst h
        exact ⟨hc.2, by simp [flatten]⟩
      · simp at h
    | node tag cs, node tag' cs', c => by
      intro h
      simp only [map₂] at h
      split at h
      · cases hm : map₂List f cs cs' with
        | none => simp [hm] at h
        | some r =>
          simp [hm] at h; subst h
          have := flattenList_map₂ f cs cs' r hm
          simpa [flatten] using this
      · simp at h
    | leaf _ _, node _ _, c => by intro h; simp [map₂] at h
    | node _ _, leaf _ _, c => by intro h; simp [map₂] at h
  theorem flattenList_map₂ (f : α → β → γ) : ∀ (as : List (PTree α)) (bs : List (PTree β)) (cs : List (PTree γ)),
      map₂List f as bs = some cs →
      (flattenList as).length = (flattenList bs).length ∧ flattenList cs = List.zipWith f (flattenList as) (flattenList bs)
    | [], [], cs => by
      intro h; simp [map₂List] at h; subst h; simp [flattenList]
    | a :: as, b :: bs, cs => by
      intro h
      simp only [map₂List] at h
      cases h1 : map₂ f a b with
      | none => simp [h1] at h
      | some c =>
        cases h2 : map₂List f as bs with
        | none => simp [h1, h2] at h
        | some r =>
          simp [h1, h2] at h; subst h
          obtain ⟨l1, e1⟩ := flatten_map₂ f a b c h1
          obtain ⟨l2, e2⟩ := flattenList_map₂ f as bs r h2
          refine ⟨by simp [flattenList, l1, l2], ?_⟩
          simp only [flattenList, e1, e2]
          rw [List.zipWith_append l1]
    | [], _ :: _, cs => by intro h; simp [map₂List] at h
    | _ :: _, [], cs => by intro h; simp [map₂List] at h
end

mutual
  theorem leafVals_flatten : ∀ t : PTree α, t.leafVals.flatten = t.flatten
    | leaf _ vals => by simp [leafVals, flatten]
    | node _ cs => by simp [leafVals, flatten, leafValsList_flatten cs]
  theorem leafValsList_flatten : ∀ ts : List (PTree α), (leafValsList ts).flatten = flattenList ts
    | [] => by simp [leafValsList, flattenList]
    | t :: ts => by simp [leafValsList, flattenList, leafVals_flatten t, leafValsList_flatten ts]
end

theorem foldl_add_nat (l : List Nat) (a : Nat) : l.foldl (· + ·) a = a + l.sum := by
  induction l generalizing a with
  | nil => simp
  | cons x xs ih => simp [ih]; omega

/-- `size(tree)` is the length of the concatenated flat array -/
theorem size_flat (t : PTree α) : t.size = t.flatten.length := by
  unfold PTree.size
  rw [foldl_add_nat, Nat.zero_add, ← leafVals_flatten, List.length_flatten]



theorem binaryOp_tree_tree (f : α → α → β) (a b : PTree α) (r : PTree β)
    (h : binaryOp f (.tree a) (.tree b) = .ok r) : r.flatten = List.zipWith f a.flatten b.flatten := by
  simp only [binaryOp] at h
  split at h
  · cases h
  · cases hm : map₂ f a b with
    | none => simp [hm] at h
    | some c =>
      simp [hm] at h
      subst h
      exact (flatten_map₂ f a b c hm).2

theorem binaryOp_scalar_left (f : α → α → β) (s : α) (t : PTree α) :
    ∃ r, binaryOp f (.scalar s) (.tree t) = .ok r ∧
      r.flatten = List.zipWith f (List.replicate t.flatten.length s) t.flatten := by
  refine ⟨_, rfl, ?_⟩
  rw [flatten_map]
  induction t.flatten with
  | nil => rfl
  | cons x xs ih => simp [List.replicate_succ, ih]

theorem binaryOp_scalar_right (f : α → α → β) (s : α) (t : PTree α) :
    ∃ r, binaryOp f (.tree t) (.scalar s) = .ok r ∧
      r.flatten = List.zipWith f t.flatten (List.replicate t.flatten.length s) := by
  refine ⟨_, rfl, ?_⟩
  rw [flatten_map]
  induction t.flatten with
  | nil => rfl
  | cons x xs ih => simp [List.replicate_succ, ih]

section sums
variable [AddCommMonoid α]

theorem foldl_add (l : List α) (a : α) : l.foldl (· + ·) a = a + l.sum := by
  induction l generalizing a with
  | nil => simp
  | cons x xs ih => simp [ih, add_assoc]

theorem fold1_add (l : List α) (s : α) (h : fold1 (· + ·) l = some s) : s = l.sum := by
  cases l with
  | nil => simp [fold1] at h
  | cons a as => simp [fold1, foldl_add] at h; rw [← h]; simp

theorem leafSums (t : PTree α) : (t.leafVals.map fun l => l.foldl (· + ·) 0).sum = t.flatten.sum := by
  rw [← leafVals_flatten, List.sum_flatten]
  congr 1
  apply List.map_congr_left
  intro l _
  rw [foldl_add, zero_add]

/-- `sum(tree)` = sum of the concatenated flat array -/
theorem sum_flat (t : PTree α) (s : α) (h : sumTree t = some s) : s = t.flatten.sum := by
  unfold sumTree at h
  rw [fold1_add _ s h, leafSums]

/-- `vdot(a, b)` = `Σ conj(a_i) b_i` over the concatenated flat arrays -/
theorem vdot_flat [Mul α] (conj : α → α) (a b : PTree α) (v : α) (h : vdotTree conj a b = some v) :
    v = (List.zipWith (fun x y => conj x * y) a.flatten b.flatten).sum := by
  unfold vdotTree at h
  cases hm : map₂ (fun x y => conj x * y) a b with
  | none => simp [hm] at h
  | some p =>
    simp [hm] at h
    rw [← h, foldl_add, zero_add]
    have := leafSums p
    rw [this, (flatten_map₂ _ a b p hm).2]
end sums

section minmax
variable (op : α → α → α) [Std.Associative op]

theorem foldl_assoc (l : List α) (a b : α) : l.foldl op (op a b) = op a (l.foldl op b) := by
  induction l generalizing b with
  | nil => rfl
  | cons x xs ih => simp only [List.foldl_cons]; rw [Std.Associative.assoc (op := op), ih]

theorem fold1_append (l1 l2 : List α) (m1 m2 : α) (h1 : fold1 op l1 = some m1) (h2 : fold1 op l2 = some m2) :
    fold1 op (l1 ++ l2) = some (op m1 m2) := by
  cases l1 with
  | nil => simp [fold1] at h1
  | cons a as =>
    cases l2 with
    | nil => simp [fold1] at h2
    | cons b bs =>
      simp only [fold1, Option.some.injEq] at h1 h2
      subst h1 h2
      simp only [List.cons_append, fold1, List.foldl_append, List.foldl_cons, Option.some.injEq]
      exact foldl_assoc op bs _ b

theorem fold1_leaves (ls : List (List α)) (ms : List α) (h : ls.mapM (fold1 op) = some ms) :
    fold1 op ms = fold1 op ls.flatten := by
  induction ls generalizing ms with
  | nil => simp at h; subst h; rfl
  | cons l rest ih =>
    simp only [List.mapM_cons, Option.pure_def, Option.bind_eq_bind] at h
    cases h1 : fold1 op l with
    | none => simp [h1] at h
    | some m =>
      cases h2 : rest.mapM (fold1 op) with
      | none => simp [h1, h2] at h
      | some ms' =>
        simp [h1, h2] at h; subst h
        have ih' := ih ms' h2
        simp only [List.flatten_cons]
        cases ms' with
        | nil =>
          -- no further leaves: the flat array is `l`
          have : rest.flatten = [] := by
            cases hr : rest.flatten with
            | nil => rfl
            | cons x xs => rw [hr] at ih'; simp [fold1] at ih'
          rw [this, List.append_nil, h1]; rfl
        | cons m' ms'' =>
          cases hm : fold1 op (m' :: ms'') with
          | none => simp [fold1] at hm
          | some mm =>
            rw [hm] at ih'
            rw [fold1_append op l rest.flatten m mm h1 ih'.symm]
            simp only [fold1, Option.some.injEq] at hm ⊢
            rw [← hm]
            exact foldl_assoc op ms'' m m'

/-- `max(tree)` / `min(tree)` (any associative reduction) = the reduction of the concatenated flat array -/
theorem red_flat (t : PTree α) (m : α) (h : redTree op t = some m) : fold1 op t.flatten = some m := by
  unfold redTree at h
  cases hm : t.leafVals.mapM (fold1 op) with
  | none => simp [hm] at h
  | some ms =>
    simp [hm] at h
    rw [← leafVals_flatten, ← fold1_leaves op _ ms hm, h]
end minmax


section norms
variable {α : Type} [Ring α] [LinearOrder α] [IsStrictOrderedRing α]

theorem sum_abs_nonneg (l : List α) : 0 ≤ (l.map fun x => |x|).sum := by
  apply List.sum_nonneg
  intro x hx
  rw [List.mem_map] at hx
  obtain ⟨y, _, rfl⟩ := hx
  exact abs_nonneg y

/-- `norm(tree, ord=1)` = 1-norm of the concatenated flat array -/
theorem norm1_flat (t : PTree α) : norm1 (fun x => |x|) t = (t.flatten.map fun x => |x|).sum := by
  unfold norm1
  rw [foldl_add, zero_add, ← leafVals_flatten, List.map_flatten, List.sum_flatten, List.map_map]
  congr 1
  apply List.map_congr_left
  intro l _
  simp only [Function.comp]
  rw [foldl_add, zero_add, abs_of_nonneg (sum_abs_nonneg l)]

def maxAbs (l : List α) : α := (l.map fun x => |x|).foldl max 0

theorem foldl_max_ge (l : List α) (a : α) : a ≤ l.foldl max a := by
  induction l generalizing a with
  | nil => exact le_refl _
  | cons x xs ih => exact le_trans (le_max_left a x) (ih _)

theorem maxAbs_nonneg (l : List α) : 0 ≤ maxAbs l := foldl_max_ge _ 0

instance : Std.Associative (max : α → α → α) := ⟨max_assoc⟩

theorem foldl_max_append (l1 l2 : List α) :
    (l1 ++ l2).foldl max 0 = max (l1.foldl max 0) (l2.foldl max 0) := by
  rw [List.foldl_append]
  have h0 : l1.foldl max 0 = max (l1.foldl max 0) 0 := (max_eq_left (foldl_max_ge l1 0)).symm
  rw [h0, foldl_assoc max l2 _ 0, ← h0]

theorem maxAbs_leaves (ls : List (List α)) :
    (ls.map fun l => |maxAbs l|).foldl max 0 = maxAbs ls.flatten := by
  induction ls with
  | nil => rfl
  | cons l rest ih =>
    have e1 : (List.map (fun l => |maxAbs l|) (l :: rest)) = [|maxAbs l|] ++ List.map (fun l => |maxAbs l|) rest := rfl
    rw [e1, foldl_max_append, ih]
    unfold maxAbs
    rw [List.flatten_cons, List.map_append, foldl_max_append]
    congr 1
    simp only [List.foldl_cons, List.foldl_nil]
    have := maxAbs_nonneg l
    unfold maxAbs at this
    rw [abs_of_nonneg this, max_eq_right this]

/-- `norm(tree, ord=inf)` = max |x| over the concatenated flat array -/
theorem normInf_flat (t : PTree α) : normInf (fun x => |x|) max 0 t = (t.flatten.map fun x => |x|).foldl max 0 := by
  unfold normInf
  have := maxAbs_leaves t.leafVals
  unfold maxAbs at this
  rw [this, leafVals_flatten]
end norms

/-- `norm(tree, ord=2)` = Euclidean norm of the concatenated flat array (over ℝ, `Real.sqrt`) -/
theorem norm2_flat (t : PTree ℝ) :
    norm2 (fun x => |x|) Real.sqrt t = Real.sqrt ((t.flatten.map fun x => x * x).sum) := by
  unfold norm2
  congr 1
  rw [foldl_add, zero_add, ← leafVals_flatten, List.map_flatten, List.sum_flatten, List.map_map]
  congr 1
  apply List.map_congr_left
  intro l _
  simp only [Function.comp]
  rw [foldl_add, zero_add]
  have hnn : 0 ≤ (l.map fun x => |x| * |x|).sum := by
    apply List.sum_nonneg
    intro x hx
    rw [List.mem_map] at hx
    obtain ⟨y, _, rfl⟩ := hx
    exact mul_nonneg (abs_nonneg y) (abs_nonneg y)
  rw [abs_of_nonneg (Real.sqrt_nonneg _), Real.mul_self_sqrt hnn]
  congr 1
  apply List.map_congr_left
  intro x _
  exact abs_mul_abs_self x


section whereflat
variable {α : Type}

/-- `tree_map(jnp.where, c, x, y)` on equally structured trees is `np.where` on the concatenated flat arrays -/
theorem where_flat_trees (c : PTree Bool) (x y : PTree α) (p : PTree (α × α)) (r : PTree α)
    (h1 : map₂ (fun a b => (a, b)) x y = some p)
    (h2 : map₂ (fun (b : Bool) (q : α × α) => if b then q.1 else q.2) c p = some r) :
    r.flatten = List.zipWith (fun (b : Bool) (q : α × α) => if b then q.1 else q.2) c.flatten
      (List.zipWith (fun a b => (a, b)) x.flatten y.flatten) := by
  rw [(flatten_map₂ _ c p r h2).2, (flatten_map₂ _ x y p h1).2]

theorem ok_of_guarded {β : Type} (p q : Prop) [Decidable p] [Decidable q] (t t' : β)
    (h : (Except.ok t' : Except OpErr β) =
      (if p then (if q then Except.error OpErr.valueError else Except.error OpErr.valueError) else Except.ok t)) : t' = t := by
  by_cases hp : p
  · by_cases hq : q <;> simp [hp, hq] at h
  · simp [hp] at h; exact h

/-- `where(c, x, y)` with three tree operands: whenever the model of vector_math.where succeeds, the result is the
    flat selection -/
theorem whereOp_flat (c : PTree Bool) (x y : PTree α) (r : PTree α)
    (h : whereOp (.tree c) (.tree x) (.tree y) = .ok r) :
    r.flatten = List.zipWith (fun (b : Bool) (q : α × α) => if b then q.1 else q.2) c.flatten
      (List.zipWith (fun a b => (a, b)) x.flatten y.flatten) := by
  unfold whereOp at h
  simp only [] at h
  split at h
  · rename_i tc tx ty hc hx hy
    have ec : tc = c := ok_of_guarded _ _ _ _ hc.symm
    have ex : tx = x := ok_of_guarded _ _ _ _ hx.symm
    have ey : ty = y := ok_of_guarded _ _ _ _ hy.symm
    subst ec ex ey
    cases hp : map₂ (fun a b => (a, b)) tx ty with
    | none =>
      simp only [hp] at h
      split at h <;> simp at h
    | some p =>
      simp only [hp] at h
      split at h
      · rename_i r' hr'
        simp at h
        subst h
        exact where_flat_trees tc tx ty p r' hp hr'
      · simp at h
  · simp at h


end whereflat

section gint

theorem GInt.add_def (a b : GInt) : a + b = ⟨a.re + b.re, a.im + b.im⟩ := rfl
theorem GInt.zero_def : (0 : GInt) = ⟨0, 0⟩ := rfl

/-- Gaussian integers form a commutative additive monoid: `sum_flat` / `vdot_flat` apply to complex leaves as run by the driver -/
instance : AddCommMonoid GInt where
  add := (· + ·)
  zero := 0
  add_assoc a b c := by
    cases a; cases b; cases c
    simp only [GInt.add_def, GInt.mk.injEq]; omega
  zero_add a := by
    cases a
    simp only [GInt.add_def, GInt.zero_def, GInt.mk.injEq]; omega
  add_zero a := by
    cases a
    simp only [GInt.add_def, GInt.zero_def, GInt.mk.injEq]; omega
  add_comm a b := by
    cases a; cases b
    simp only [GInt.add_def, GInt.mk.injEq]; omega
  nsmul := nsmulRec


end gint

section forest
variable {α : Type} [Add α]

/-- entry-wise sum of the flat arrays of a forest -/
def sumFlats : List α → List (List α) → List α
  | acc, [] => acc
  | acc, l :: ls => sumFlats (List.zipWith (· + ·) acc l) ls

theorem sumTrees_flat (acc : PTree α) (ts : List (PTree α)) (r : PTree α) (h : sumTrees acc ts = some r) :
    r.flatten = sumFlats acc.flatten (ts.map PTree.flatten) := by
  induction ts generalizing acc with
  | nil => simp [sumTrees] at h; subst h; rfl
  | cons t ts ih =>
    simp only [sumTrees] at h
    cases hm : map₂ (· + ·) acc t with
    | none => simp [hm] at h
    | some q =>
      simp only [hm] at h
      rw [ih q h, (flatten_map₂ _ acc t q hm).2]
      rfl

/-- **mean_flat**: `mean(forest)` is `1/n` times the entry-wise sum of the concatenated flat arrays of its members -/
theorem mean_flat [Mul α] (inv : α) (t : PTree α) (ts : List (PTree α)) (r : PTree α)
    (h : meanTrees inv (t :: ts) = some r) :
    r.flatten = (sumFlats t.flatten (ts.map PTree.flatten)).map fun x => inv * x := by
  simp only [meanTrees] at h
  cases hs : sumTrees t ts with
  | none => simp [hs] at h
  | some q =>
    simp [hs] at h
    subst h
    rw [flatten_map, sumTrees_flat t ts q hs]


end forest

end NiftyVerif.Pytree
