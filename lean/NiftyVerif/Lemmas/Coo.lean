/-
  Generic lemmas about `Model/Coo.lean`: list sums, adjointness, linearity, dense form, composition,
  row/column-wise constructors, ravel/unravel.  Valid for every commutative ring `K` and every ring
  involution `cj` (identity on ℚ, complex conjugation on Gaussian rationals).
-/
import NiftyVerif.Model.Coo
import Mathlib.Tactic.Ring
import Mathlib.Tactic.Linarith
import Mathlib.Algebra.Ring.Basic

namespace NiftyVerif
open Coo

/-- what the model needs from "complex conjugation": an involutive ring endomorphism -/
structure IsConj {K : Type} [CommRing K] (cj : K → K) : Prop where
  add : ∀ a b, cj (a + b) = cj a + cj b
  mul : ∀ a b, cj (a * b) = cj a * cj b
  invol : ∀ a, cj (cj a) = a

theorem IsConj.zero {K : Type} [CommRing K] {cj : K → K} (h : IsConj cj) : cj 0 = 0 := by
  have := h.add 0 0
  simp only [add_zero] at this
  have h2 : cj 0 + cj 0 = cj 0 + 0 := by rw [add_zero]; exact this.symm
  exact add_left_cancel h2

theorem isConj_id {K : Type} [CommRing K] : IsConj (fun a : K => a) := ⟨fun _ _ => rfl, fun _ _ => rfl, fun _ => rfl⟩

section sums
variable {K : Type} [CommRing K]

@[simp] theorem sumL_nil : sumL ([] : List K) = 0 := rfl
@[simp] theorem sumL_cons (a : K) (l : List K) : sumL (a :: l) = a + sumL l := rfl

theorem sumL_append (l1 l2 : List K) : sumL (l1 ++ l2) = sumL l1 + sumL l2 := by
  induction l1 with
  | nil => simp
  | cons a l ih => simp [ih, add_assoc]

theorem sumL_map_add {α : Type} (l : List α) (f g : α → K) :
    sumL (l.map fun i => f i + g i) = sumL (l.map f) + sumL (l.map g) := by
  induction l with
  | nil => simp
  | cons a l ih => simp only [List.map_cons, sumL_cons, ih]; ring

theorem sumL_map_mul_left {α : Type} (l : List α) (a : K) (f : α → K) :
    sumL (l.map fun i => a * f i) = a * sumL (l.map f) := by
  induction l with
  | nil => simp
  | cons b l ih => simp only [List.map_cons, sumL_cons, ih]; ring

theorem sumL_map_mul_right {α : Type} (l : List α) (a : K) (f : α → K) :
    sumL (l.map fun i => f i * a) = sumL (l.map f) * a := by
  induction l with
  | nil => simp
  | cons b l ih => simp only [List.map_cons, sumL_cons, ih]; ring

theorem sumL_map_zero {α : Type} (l : List α) : sumL (l.map fun _ => (0 : K)) = 0 := by
  induction l with
  | nil => simp
  | cons b l ih => simp [ih]

theorem sumL_map_congr {α : Type} (l : List α) (f g : α → K) (h : ∀ a ∈ l, f a = g a) :
    sumL (l.map f) = sumL (l.map g) := by
  induction l with
  | nil => simp
  | cons b l ih =>
    simp only [List.map_cons, sumL_cons]
    rw [h b (List.mem_cons_self), ih (fun a ha => h a (List.mem_cons_of_mem _ ha))]

theorem sumL_map_eq_zero {α : Type} (l : List α) (f : α → K) (h : ∀ a ∈ l, f a = 0) :
    sumL (l.map f) = 0 := by
  rw [sumL_map_congr l f (fun _ => 0) h, sumL_map_zero]

theorem sumL_flatMap {α β : Type} (l : List α) (g : α → List β) (f : β → K) :
    sumL ((l.flatMap g).map f) = sumL (l.map fun a => sumL ((g a).map f)) := by
  induction l with
  | nil => simp
  | cons a l ih => simp [List.flatMap_cons, sumL_append, ih]

/-- Fubini for finite list sums -/
theorem sumL_comm {α β : Type} (l1 : List α) (l2 : List β) (f : α → β → K) :
    sumL (l1.map fun a => sumL (l2.map fun b => f a b)) =
    sumL (l2.map fun b => sumL (l1.map fun a => f a b)) := by
  induction l1 with
  | nil => simp [sumL_map_zero]
  | cons a l ih => simp only [List.map_cons, sumL_cons, ih, sumL_map_add]

theorem sumL_conj {cj : K → K} (h : IsConj cj) {α : Type} (l : List α) (f : α → K) :
    cj (sumL (l.map f)) = sumL (l.map fun a => cj (f a)) := by
  induction l with
  | nil => simp [h.zero]
  | cons a l ih => simp [h.add, ih]

/-- a sum over `[0,n)` of a function supported at one point `r0 < n` -/
theorem sumN_ite_eq (n r0 : Nat) (h : r0 < n) (v : Nat → K) :
    sumN n (fun i => if i = r0 then v i else 0) = v r0 := by
  unfold sumN
  induction n with
  | zero => omega
  | succ n ih =>
    rw [List.range_succ, List.map_append, sumL_append]
    by_cases h2 : r0 < n
    · rw [ih h2]; have : n ≠ r0 := by omega
      simp [this]
    · have h3 : r0 = n := by omega
      subst h3
      rw [sumL_map_eq_zero]
      · simp
      · intro a ha; have := List.mem_range.mp ha; have : a ≠ r0 := by omega
        simp [this]

theorem sumN_ite_eq' (n r0 : Nat) (h : r0 < n) (v : Nat → K) :
    sumN n (fun i => if r0 = i then v i else 0) = v r0 := by
  rw [← sumN_ite_eq n r0 h v]; unfold sumN
  apply sumL_map_congr; intro a _
  by_cases h : a = r0
  · subst h; simp
  · have h' : ¬ r0 = a := fun hh => h hh.symm
    simp [h, h']

theorem sumN_ite_ge (n r0 : Nat) (h : n ≤ r0) (v : Nat → K) :
    sumN n (fun i => if i = r0 then v i else 0) = 0 := by
  unfold sumN; apply sumL_map_eq_zero
  intro a ha; have := List.mem_range.mp ha; have : a ≠ r0 := by omega
  simp [this]

theorem sumN_add (n : Nat) (f g : Nat → K) : sumN n (fun i => f i + g i) = sumN n f + sumN n g :=
  sumL_map_add _ f g

theorem sumN_mul_left (n : Nat) (a : K) (f : Nat → K) : sumN n (fun i => a * f i) = a * sumN n f :=
  sumL_map_mul_left _ a f

theorem sumN_zero (n : Nat) : sumN n (fun _ => (0 : K)) = 0 := sumL_map_zero _

theorem sumN_congr (n : Nat) (f g : Nat → K) (h : ∀ i, i < n → f i = g i) : sumN n f = sumN n g :=
  sumL_map_congr _ f g (fun a ha => h a (List.mem_range.mp ha))

theorem sumN_comm (n m : Nat) (f : Nat → Nat → K) :
    sumN n (fun i => sumN m fun j => f i j) = sumN m (fun j => sumN n fun i => f i j) :=
  sumL_comm _ _ f

end sums

namespace Coo
variable {K : Type} [CommRing K]

@[simp] theorem applyE_nil (x : Nat → K) (r : Nat) : applyE ([] : List (Nat × Nat × K)) x r = 0 := rfl

theorem applyE_cons (e : Nat × Nat × K) (ent : List (Nat × Nat × K)) (x : Nat → K) (r : Nat) :
    applyE (e :: ent) x r = (if e.1 = r then e.2.2 * x e.2.1 else 0) + applyE ent x r := rfl

theorem applyE_append (e1 e2 : List (Nat × Nat × K)) (x : Nat → K) (r : Nat) :
    applyE (e1 ++ e2) x r = applyE e1 x r + applyE e2 x r := by
  simp [applyE, sumL_append]

/-- the key computation behind adjointness, on raw entry lists -/
theorem adjoint_entries {cj : K → K} (hc : IsConj cj) (R C : Nat) (ent : List (Nat × Nat × K))
    (hwf : ∀ e ∈ ent, e.1 < R ∧ e.2.1 < C) (x y : Nat → K) :
    inner cj R y (applyE ent x) = inner cj C (applyE (adjE cj ent) y) x := by
  induction ent with
  | nil => simp [inner, adjE, hc.zero, sumN_zero]
  | cons e ent ih =>
    have hwf' : ∀ e' ∈ ent, e'.1 < R ∧ e'.2.1 < C := fun e' he' => hwf e' (List.mem_cons_of_mem _ he')
    have he := hwf e (List.mem_cons_self)
    have ih := ih hwf'
    unfold inner at *
    have hL : sumN R (fun i => cj (y i) * applyE (e :: ent) x i)
        = sumN R (fun i => if i = e.1 then cj (y i) * (e.2.2 * x e.2.1) else 0)
          + sumN R (fun i => cj (y i) * applyE ent x i) := by
      rw [← sumN_add]; apply sumN_congr; intro i _
      rw [applyE_cons]; by_cases h : e.1 = i
      · simp [h]; ring
      · have h' : ¬ i = e.1 := fun hh => h hh.symm
        simp [h, h']
    have hR : sumN C (fun i => cj (applyE (adjE cj (e :: ent)) y i) * x i)
        = sumN C (fun i => if i = e.2.1 then cj (cj e.2.2 * y e.1) * x i else 0)
          + sumN C (fun i => cj (applyE (adjE cj ent) y i) * x i) := by
      rw [← sumN_add]; apply sumN_congr; intro i _
      simp only [adjE, List.map_cons]
      rw [applyE_cons, hc.add]; by_cases h : e.2.1 = i
      · simp [h]; ring
      · have h' : ¬ i = e.2.1 := fun hh => h hh.symm
        simp [h, h', hc.zero]
    rw [hL, hR, ih, sumN_ite_eq _ _ he.1, sumN_ite_eq _ _ he.2, hc.mul, hc.invol]
    ring

/-- wf as a proposition on entries -/
theorem wf_iff (M : Coo K) : M.wf = true ↔ ∀ e ∈ M.ent, e.1 < M.rows ∧ e.2.1 < M.cols := by
  simp [wf, List.all_eq_true]

/-- **adjointness**: `⟨y, M x⟩ = ⟨Mᴴ y, x⟩` for every well-formed COO operator, all sizes, all vectors -/
theorem coo_adjoint {cj : K → K} (hc : IsConj cj) (M : Coo K) (hwf : M.wf = true) (x y : Nat → K) :
    inner cj M.rows y (apply M x) = inner cj M.cols (applyAdj cj M y) x :=
  adjoint_entries hc M.rows M.cols M.ent ((wf_iff M).mp hwf) x y

/-- **linearity** -/
theorem coo_linear (M : Coo K) (a b : K) (x y : Nat → K) (r : Nat) :
    apply M (fun i => a * x i + b * y i) r = a * apply M x r + b * apply M y r := by
  unfold apply applyE
  rw [← sumL_map_mul_left, ← sumL_map_mul_left, ← sumL_map_add]
  apply sumL_map_congr; intro e _
  by_cases h : e.1 = r <;> simp [h]; ring

theorem adj_adj {cj : K → K} (hc : IsConj cj) (M : Coo K) : adj cj (adj cj M) = M := by
  cases M with
  | mk r c ent =>
    simp only [adj, adjE, List.map_map, Coo.mk.injEq, true_and]
    conv => rhs; rw [← List.map_id ent]
    apply List.map_congr_left; intro e _; simp [hc.invol]

theorem adj_wf {cj : K → K} (M : Coo K) (h : M.wf = true) : (adj cj M).wf = true := by
  rw [wf_iff] at *
  intro e he
  simp only [adj, adjE, List.mem_map] at he
  obtain ⟨e', he', rfl⟩ := he
  exact ⟨(h e' he').2, (h e' he').1⟩

/-- **dense form of the adjoint is the conjugate transpose** -/
theorem coo_dense_adj {cj : K → K} (hc : IsConj cj) (M : Coo K) (r c : Nat) :
    dense (adj cj M) c r = cj (dense M r c) := by
  unfold dense adj adjE
  rw [sumL_conj hc, List.map_map]
  apply sumL_map_congr; intro e _
  by_cases h : e.1 = r ∧ e.2.1 = c
  · simp [h]
  · have h' : ¬ (e.2.1 = c ∧ e.1 = r) := fun hh => h ⟨hh.2, hh.1⟩
    simp [h, h', hc.zero]

/-- apply is multiplication by the dense matrix -/
theorem apply_eq_dense (M : Coo K) (hwf : M.wf = true) (x : Nat → K) (r : Nat) :
    apply M x r = sumN M.cols fun c => dense M r c * x c := by
  have hw := (wf_iff M).mp hwf
  unfold apply applyE dense
  have : ∀ c, sumL (M.ent.map fun e => if e.1 = r ∧ e.2.1 = c then e.2.2 else 0) * x c
      = sumL (M.ent.map fun e => (if e.1 = r ∧ e.2.1 = c then e.2.2 else 0) * x c) := by
    intro c; rw [sumL_map_mul_right]
  simp only [this]
  unfold sumN
  rw [sumL_comm]
  apply sumL_map_congr; intro e he
  have hc := (hw e he).2
  by_cases h : e.1 = r
  · simp only [h, true_and, if_true]
    have := sumN_ite_eq' (K := K) M.cols e.2.1 hc (fun c => e.2.2 * x c)
    unfold sumN at this
    rw [← this]; apply sumL_map_congr; intro c _
    by_cases h2 : e.2.1 = c <;> simp [h2]
  · simp only [h, false_and, if_false, zero_mul]; rw [sumL_map_zero]

theorem dense_append (r c R C R' C' : Nat) (e1 e2 : List (Nat × Nat × K)) :
    dense ⟨R, C, e1 ++ e2⟩ r c = dense ⟨R', C', e1⟩ r c + dense ⟨R', C', e2⟩ r c := by
  simp [dense, sumL_append]

/-- **dense form of a composition is the matrix product** -/
theorem coo_comp (M N : Coo K) (hN : N.wf = true) (hdim : N.rows = M.cols) (r c : Nat) :
    dense (comp M N) r c = sumN M.cols fun k => dense M r k * dense N k c := by
  have hw := (wf_iff N).mp hN
  unfold dense comp
  simp only
  rw [sumL_flatMap]
  -- right side: exchange the k-sum with the sum over entries of M
  have hR : ∀ k, sumL (M.ent.map fun e => if e.1 = r ∧ e.2.1 = k then e.2.2 else 0) *
        sumL (N.ent.map fun f => if f.1 = k ∧ f.2.1 = c then f.2.2 else 0)
      = sumL (M.ent.map fun e => (if e.1 = r ∧ e.2.1 = k then e.2.2 else 0) *
        sumL (N.ent.map fun f => if f.1 = k ∧ f.2.1 = c then f.2.2 else 0)) := by
    intro k; rw [sumL_map_mul_right]
  simp only [hR]
  unfold sumN
  rw [sumL_comm]
  apply sumL_map_congr; intro e _
  -- inner: filterMap sum
  have hF : ∀ (l : List (Nat × Nat × K)),
      sumL ((l.filterMap fun f => if e.2.1 = f.1 then some (e.1, f.2.1, e.2.2 * f.2.2) else none).map
        fun e' => if e'.1 = r ∧ e'.2.1 = c then e'.2.2 else 0)
      = sumL (l.map fun f => if e.2.1 = f.1 then (if e.1 = r ∧ f.2.1 = c then e.2.2 * f.2.2 else 0) else 0) := by
    intro l
    induction l with
    | nil => simp
    | cons f l ih =>
      rw [List.filterMap_cons, List.map_cons, sumL_cons, ← ih]
      by_cases h : e.2.1 = f.1
      · rw [if_pos h, if_pos h]; simp only [List.map_cons, sumL_cons]
      · rw [if_neg h, if_neg h]; simp only [zero_add]
  rw [hF]
  by_cases h1 : e.1 = r
  · simp only [h1, true_and]
    by_cases h2 : e.2.1 < M.cols
    · -- pick k = e.2.1
      have key := sumN_ite_eq' (K := K) M.cols e.2.1 h2
        (fun k => e.2.2 * sumL (N.ent.map fun f => if f.1 = k ∧ f.2.1 = c then f.2.2 else 0))
      unfold sumN at key
      have : (List.range M.cols).map (fun k => (if e.2.1 = k then e.2.2 else 0) *
            sumL (N.ent.map fun f => if f.1 = k ∧ f.2.1 = c then f.2.2 else 0))
          = (List.range M.cols).map (fun k => if e.2.1 = k then e.2.2 *
            sumL (N.ent.map fun f => if f.1 = k ∧ f.2.1 = c then f.2.2 else 0) else 0) := by
        apply List.map_congr_left; intro k _; by_cases hk : e.2.1 = k <;> simp [hk]
      rw [this, key, ← sumL_map_mul_left]
      apply sumL_map_congr; intro f _
      by_cases h3 : e.2.1 = f.1
      · simp [h3]
      · have h3' : ¬ f.1 = e.2.1 := fun hh => h3 hh.symm
        simp [h3, h3']
    · -- column of e outside: no entry of N has that row (N.rows = M.cols), both sides zero
      rw [sumL_map_eq_zero, sumL_map_eq_zero]
      · intro k hk; have := List.mem_range.mp hk
        have : ¬ e.2.1 = k := by omega
        simp [this]
      · intro f hf
        have := (hw f hf).1
        have : ¬ e.2.1 = f.1 := by omega
        simp [this]
  · simp only [h1, false_and, if_false, zero_mul]
    rw [sumL_map_zero, sumL_map_eq_zero]
    intro f _; simp

/-! ### row-wise and column-wise constructors -/

theorem applyE_flatMap {α : Type} (l : List α) (g : α → List (Nat × Nat × K)) (x : Nat → K) (r : Nat) :
    applyE (l.flatMap g) x r = sumL (l.map fun a => applyE (g a) x r) := by
  unfold applyE; rw [sumL_flatMap]

/-- closed form of a row-wise operator -/
theorem apply_ofRows (rows cols : Nat) (f : Nat → List (Nat × K)) (x : Nat → K) (r : Nat) :
    apply (ofRows rows cols f) x r =
      if r < rows then sumL ((f r).map fun cw => cw.2 * x cw.1) else 0 := by
  unfold apply ofRows
  simp only
  rw [applyE_flatMap]
  have h1 : ∀ a, applyE ((f a).map fun cw => (a, cw.1, cw.2)) x r =
      if a = r then sumL ((f a).map fun cw => cw.2 * x cw.1) else 0 := by
    intro a; unfold applyE; rw [List.map_map]
    by_cases h : a = r
    · simp only [h, if_true]; apply sumL_map_congr; intro cw _; simp
    · simp only [h, if_false]; apply sumL_map_eq_zero; intro cw _; simp [h]
  simp only [h1]
  by_cases h : r < rows
  · simp only [h, if_true]
    exact sumN_ite_eq rows r h (fun a => sumL ((f a).map fun cw => cw.2 * x cw.1))
  · simp only [h, if_false]
    exact sumN_ite_ge rows r (by omega) _

/-- closed form of a column-wise operator -/
theorem apply_ofCols (rows cols : Nat) (g : Nat → List (Nat × K)) (x : Nat → K) (r : Nat) :
    apply (ofCols rows cols g) x r =
      sumN cols fun c => sumL ((g c).map fun rw => if rw.1 = r then rw.2 * x c else 0) := by
  unfold apply ofCols
  simp only
  rw [applyE_flatMap]
  unfold sumN
  apply sumL_map_congr; intro c _
  unfold applyE; rw [List.map_map]; rfl

/-- the adjoint of a row-wise operator is the column-wise operator with conjugated weights -/
theorem adj_ofRows (cj : K → K) (rows cols : Nat) (f : Nat → List (Nat × K)) :
    adj cj (ofRows rows cols f) = ofCols cols rows (fun r => (f r).map fun cw => (cw.1, cj cw.2)) := by
  simp [adj, adjE, ofRows, ofCols, List.map_flatMap, List.map_map, Function.comp_def]

theorem adj_ofCols (cj : K → K) (rows cols : Nat) (g : Nat → List (Nat × K)) :
    adj cj (ofCols rows cols g) = ofRows cols rows (fun c => (g c).map fun rw => (rw.1, cj rw.2)) := by
  simp [adj, adjE, ofRows, ofCols, List.map_flatMap, List.map_map, Function.comp_def]

theorem ofRows_wf (rows cols : Nat) (f : Nat → List (Nat × K))
    (h : ∀ r, r < rows → ∀ cw ∈ f r, cw.1 < cols) : (ofRows rows cols f).wf = true := by
  rw [wf_iff]; intro e he
  simp only [ofRows, List.mem_flatMap, List.mem_range, List.mem_map] at he
  obtain ⟨r, hr, cw, hcw, rfl⟩ := he
  exact ⟨hr, h r hr cw hcw⟩

theorem ofCols_wf (rows cols : Nat) (g : Nat → List (Nat × K))
    (h : ∀ c, c < cols → ∀ rw ∈ g c, rw.1 < rows) : (ofCols rows cols g).wf = true := by
  rw [wf_iff]; intro e he
  simp only [ofCols, List.mem_flatMap, List.mem_range, List.mem_map] at he
  obtain ⟨c, hc, rw, hrw, rfl⟩ := he
  exact ⟨h c hc rw hrw, hc⟩

/-- gather: `y r = x (src r)` -/
theorem apply_gather (rows cols : Nat) (src : Nat → Nat) (x : Nat → K) (r : Nat) :
    apply (gather rows cols src) x r = if r < rows then x (src r) else 0 := by
  unfold gather; rw [apply_ofRows]; simp

/-- adjoint of a gather: scatter-add, `(Aᴴ y) c = Σ_{r<rows, src r = c} y r` -/
theorem applyAdj_gather {cj : K → K} (hc1 : cj 1 = 1) (rows cols : Nat) (src : Nat → Nat) (y : Nat → K) (c : Nat) :
    applyAdj cj (gather rows cols src) y c = sumN rows fun r => if src r = c then y r else 0 := by
  unfold applyAdj gather; rw [adj_ofRows, apply_ofCols]
  apply sumN_congr; intro r _; simp [hc1]

theorem apply_diag (n : Nat) (d : Nat → K) (x : Nat → K) (r : Nat) :
    apply (diag n d) x r = if r < n then d r * x r else 0 := by
  unfold diag; rw [apply_ofRows]; simp

end Coo

/-! ### ravel / unravel -/

theorem prodL_append (a b : List Nat) : prodL (a ++ b) = prodL a * prodL b := by
  induction a with
  | nil => simp [prodL]
  | cons x a ih => simp [prodL, ih, Nat.mul_assoc]

theorem ravel_lt : ∀ (sh idx : List Nat), inShape sh idx = true → ravel sh idx < prodL sh
  | [], [], _ => by simp [ravel, prodL]
  | n :: sh, i :: idx, h => by
    simp only [inShape, Bool.and_eq_true, decide_eq_true_eq] at h
    have ih := ravel_lt sh idx h.2
    simp only [ravel, prodL]
    have : i * prodL sh + prodL sh ≤ n * prodL sh := by
      have : (i + 1) * prodL sh ≤ n * prodL sh := Nat.mul_le_mul_right _ h.1
      linarith [Nat.succ_mul i (prodL sh)]
    omega
  | [], _ :: _, h => by simp [inShape] at h
  | _ :: _, [], h => by simp [inShape] at h

/-- `unravel (ravel i) = i` for every in-range multi-index -/
theorem unravel_ravel : ∀ (sh idx : List Nat), inShape sh idx = true → unravel sh (ravel sh idx) = idx
  | [], [], _ => by simp [unravel]
  | n :: sh, i :: idx, h => by
    simp only [inShape, Bool.and_eq_true, decide_eq_true_eq] at h
    have hlt := ravel_lt sh idx h.2
    have ih := unravel_ravel sh idx h.2
    have hpos : 0 < prodL sh := by omega
    simp only [ravel, unravel]
    have h1 : (i * prodL sh + ravel sh idx) / prodL sh = i := by
      rw [Nat.add_comm, Nat.add_mul_div_right _ _ hpos, Nat.div_eq_of_lt hlt]; simp
    have h2 : (i * prodL sh + ravel sh idx) % prodL sh = ravel sh idx := by
      rw [Nat.add_comm, Nat.add_mul_mod_self_right, Nat.mod_eq_of_lt hlt]
    rw [h1, h2, ih]
  | [], _ :: _, h => by simp [inShape] at h
  | _ :: _, [], h => by simp [inShape] at h

/-- `unravel` produces an in-range multi-index, and `ravel (unravel k) = k`, for every `k < size` -/
theorem unravel_inShape : ∀ (sh : List Nat) (k : Nat), k < prodL sh → inShape sh (unravel sh k) = true
  | [], _, _ => by simp [unravel, inShape]
  | n :: sh, k, h => by
    simp only [prodL] at h
    have hpos : 0 < prodL sh := by
      rcases Nat.eq_zero_or_pos (prodL sh) with h0 | h0
      · rw [h0] at h; simp at h
      · exact h0
    simp only [unravel, inShape, Bool.and_eq_true, decide_eq_true_eq]
    refine ⟨?_, unravel_inShape sh _ (Nat.mod_lt _ hpos)⟩
    exact Nat.div_lt_of_lt_mul (by rw [Nat.mul_comm]; exact h)

theorem ravel_unravel : ∀ (sh : List Nat) (k : Nat), k < prodL sh → ravel sh (unravel sh k) = k
  | [], k, h => by simp [prodL] at h; simp [ravel, unravel, h]
  | n :: sh, k, h => by
    simp only [prodL] at h
    have hpos : 0 < prodL sh := by
      rcases Nat.eq_zero_or_pos (prodL sh) with h0 | h0
      · rw [h0] at h; simp at h
      · exact h0
    simp only [unravel, ravel]
    rw [ravel_unravel sh _ (Nat.mod_lt _ hpos)]
    exact Nat.div_add_mod' k (prodL sh)

end NiftyVerif
