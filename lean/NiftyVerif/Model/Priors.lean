/-
  C30 — executable model of NIFTy's prior transforms (core imports only).

  Transcribed from (function by function, as coded):
    nifty/re/num/stats_distributions.py   `_standard_to_normal`, `_normal_to_standard`, `lognormal_moments`,
                                          `_standard_to_lognormal`, `_lognormal_to_standard`, `_standard_to_uniform`,
                                          `uniform_prior`, `_standard_to_laplace`, `interpolator`, `invgamma_prior`,
                                          `invgamma_invprior`
    nifty/cl/utilities.py                 `lognormal_moments`
    nifty/cl/operators/normal_operators.py `NormalTransform`, `LognormalTransform` (value formulas)
    nifty/cl/library/special_distributions.py  `UniformOperator` (apply, Jacobian, inverse), `LaplaceOperator`
                                          (apply, Jacobian, inverse), the compositions around `_InterpolationOperator`
                                          (`InverseGammaOperator`, `GammaOperator`, `LogInverseGammaOperator`) and the
                                          parameter conversions (mode/mean -> alpha/q, mean/var -> alpha/theta).

  Special functions (DESIGN.md §2.4) enter as *function parameters*: `Φ` (normal cdf, `norm.cdf`/`norm._cdf`),
  `φ` (`norm._pdf`), `logΦ` (`norm.logcdf`), `Φinv` (`norm._ppf`), the tabulated function `f` of an interpolator and
  SciPy's `CubicSpline` value/derivative (`spline`, `dspline`).  SciPy's Laplace quantile and cdf are elementary and are
  transcribed from `scipy/stats/_continuous_distns.py` (`laplace_gen._ppf/_cdf`).

  Polymorphic in the scalar type `K`: instantiated at `Float` (driver, comparison class T), `Rat` (driver, interpolation step,
  exact) and `ℝ` (theorems, Props/C30.lean).
-/
import NiftyVerif.Model.Transc

namespace NiftyVerif.Priors
open NiftyVerif

/-! ## Elementary transforms -/
section Elementary
variable {K : Type} [Transc K] [Add K] [Sub K] [Mul K] [Div K] [Neg K]
  [OfNat K 0] [OfNat K 1] [OfNat K 2] [OfScientific K] [LT K] [DecidableLT K] [LE K] [DecidableLE K]

/-- `x ** 2` on floats (NumPy and JAX evaluate an integer power 2 as `x * x`) -/
def sq (v : K) : K := v * v

/-- `_standard_to_normal(xi, mean, std) = mean + std * xi`; also `NormalTransform`: `mean + sigma * ducktape` -/
def normal (mean std xi : K) : K := mean + std * xi

/-- `_normal_to_standard(y, mean, std) = (y - mean) / std` -/
def normalInv (mean std y : K) : K := (y - mean) / std

/-- A numerically stable evaluation of `log1p v = log(1+v)` in floating point (Kahan): with `u = fl(1+v)` return `v` if `u = 1`
    and `log(u)·v/(u−1)` otherwise — the rounding error of `u` cancels in the quotient. Over `ℝ` it *equals* `Np.log1p`
    (`C30.log1pStable_eq`); the Float driver uses it so that the model stays comparable with `np.log1p`/`jnp.log1p` for
    arguments down to `1e-18` (narrow log-normal priors), where the textbook form `log(1+v)` has lost every digit. -/
def log1pStable (v : K) : K :=
  let u := (1.0 : K) + v
  if (u < (1.0 : K) ∨ (1.0 : K) < u) then Transc.log u * v / (u - (1.0 : K)) else v

/-- `nifty.re...lognormal_moments(mean, std)` with the evaluation of `log1p` as a parameter: `none` is the `ValueError` raised
    `if mean <= 0.0` resp. `if std <= 0.0`; `logstd = sqrt(log1p((std/mean)**2))`, `logmean = log(mean) - 0.5*logstd**2`;
    returns `(logmean, logstd)` -/
def lognormalMomentsReWith (l1p : K → K) (mean std : K) : Option (K × K) :=
  if mean ≤ (0 : K) then none else
  if std ≤ (0 : K) then none else
  let logstd := Transc.sqrt (l1p (sq (std / mean)))
  let logmean := Transc.log mean - (0.5 : K) * sq logstd
  some (logmean, logstd)

/-- `nifty.re...lognormal_moments(mean, std)`, `log1p` as NumPy documents it (`log(1+v)`) -/
def lognormalMomentsRe (mean std : K) : Option (K × K) := lognormalMomentsReWith Np.log1p mean std

/-- `nifty.cl.utilities.lognormal_moments(mean, sigma)` (`ValueError` raised `if not mean > 0` resp. `if not sigma > 0`) with the
    evaluation of `log1p` as a parameter: `logsigma = sqrt(log1p((sigma/mean)**2))`, `logmean = log(mean) - logsigma**2/2` -/
def lognormalMomentsClWith (l1p : K → K) (mean sigma : K) : Option (K × K) :=
  if ¬ ((0 : K) < mean) then none else
  if ¬ ((0 : K) < sigma) then none else
  let logsigma := Transc.sqrt (l1p (sq (sigma / mean)))
  let logmean := Transc.log mean - sq logsigma / (2 : K)
  some (logmean, logsigma)

/-- `nifty.cl.utilities.lognormal_moments(mean, sigma)`, `log1p` as NumPy documents it -/
def lognormalMomentsCl (mean sigma : K) : Option (K × K) := lognormalMomentsClWith Np.log1p mean sigma

/-- `_standard_to_lognormal(xi, log_mean, log_std) = exp(_standard_to_normal(xi, log_mean, log_std))`;
    also `LognormalTransform = NormalTransform(logmean, logsigma).ptw("exp")` -/
def lognormal (logMean logStd xi : K) : K := Transc.exp (normal logMean logStd xi)

/-- `_lognormal_to_standard(y, log_mean, log_std) = _normal_to_standard(log(y), log_mean, log_std)` -/
def lognormalInv (logMean logStd y : K) : K := normalInv logMean logStd (Transc.log y)

/-- `lognormal_prior(mean, std)(xi)` (re) -/
def lognormalPriorRe (mean std xi : K) : Option K :=
  (lognormalMomentsRe mean std).map fun p => lognormal p.1 p.2 xi

/-- `lognormal_invprior(mean, std)(y)` (re) -/
def lognormalInvPriorRe (mean std y : K) : Option K :=
  (lognormalMomentsRe mean std).map fun p => lognormalInv p.1 p.2 y

/-- `LognormalTransform(mean, sigma, key, N)(xi)` (cl), one component -/
def lognormalTransformCl (mean sigma xi : K) : Option K :=
  (lognormalMomentsCl mean sigma).map fun p => lognormal p.1 p.2 xi

/-- `_standard_to_uniform(xi, a_min, scale) = a_min + scale * norm.cdf(xi)` -/
def uniformRe (Φ : K → K) (aMin scale xi : K) : K := aMin + scale * Φ xi

/-- `uniform_prior(a_min, a_max)`: `scale = a_max - a_min` (general branch) -/
def uniformPriorRe (Φ : K → K) (aMin aMax xi : K) : K := uniformRe Φ aMin (aMax - aMin) xi

/-- `uniform_prior()` with the float defaults `(0.0, 1.0)`: returns `norm.cdf` itself -/
def uniformPriorDefault (Φ : K → K) (xi : K) : K := Φ xi

/-- `UniformOperator.apply` value: `scale * norm._cdf(x) + loc` -/
def uniformCl (Φ : K → K) (loc scale xi : K) : K := scale * Φ xi + loc

/-- `UniformOperator.apply` Jacobian diagonal: `norm._pdf(x) * scale` -/
def uniformClJac (φ : K → K) (scale xi : K) : K := φ xi * scale

/-- argument handed to `norm._ppf` by `UniformOperator.inverse`: `(field - loc) / scale` -/
def uniformClInvArg (loc scale y : K) : K := (y - loc) / scale

/-- `UniformOperator.inverse` -/
def uniformClInv (Φinv : K → K) (loc scale y : K) : K := Φinv (uniformClInvArg loc scale y)

/-- NumPy/JAX boolean mask as a number -/
def ind (b : Prop) [Decidable b] : K := if b then (1 : K) else (0 : K)

/-- `_standard_to_laplace(xi, alpha)`:
    `res = (xi < 0) * (logcdf(xi) + log 2); res -= (xi > 0) * (logcdf(-xi) + log 2); return res * alpha` -/
def laplaceRe (logΦ : K → K) (alpha xi : K) : K :=
  let res := ind (xi < (0 : K)) * (logΦ xi + Transc.log (2 : K))
  let res := res - ind ((0 : K) < xi) * (logΦ (-xi) + Transc.log (2 : K))
  res * alpha

/-- SciPy `laplace._ppf(q) = where(q > 0.5, -log(2*(1-q)), log(2*q))` -/
def scipyLaplacePpf (q : K) : K :=
  if (0.5 : K) < q then -(Transc.log ((2 : K) * ((1 : K) - q))) else Transc.log ((2 : K) * q)

/-- SciPy `laplace._cdf(x) = where(x > 0, 1 - 0.5*exp(-x), 0.5*exp(x))` -/
def scipyLaplaceCdf (x : K) : K :=
  if (0 : K) < x then (1 : K) - (0.5 : K) * Transc.exp (-x) else (0.5 : K) * Transc.exp x

/-- `LaplaceOperator.apply` value: `laplace.ppf(norm._cdf(x), loc, scale) = loc + scale * _ppf(Φ x)` -/
def laplaceCl (Φ : K → K) (loc scale xi : K) : K := loc + scale * scipyLaplacePpf (Φ xi)

/-- `LaplaceOperator.apply` Jacobian diagonal:
    `y = norm._cdf(x); y = scale * where(y > 0.5, 1/(1-y), 1/y); y * norm._pdf(x)` -/
def laplaceClJac (Φ φ : K → K) (scale xi : K) : K :=
  let y := Φ xi
  let y := scale * (if (0.5 : K) < y then (1 : K) / ((1 : K) - y) else (1 : K) / y)
  y * φ xi

/-- argument handed to `norm._ppf` by `LaplaceOperator.inverse`: `laplace.cdf(x, loc, scale)` -/
def laplaceClInvArg (loc scale y : K) : K := scipyLaplaceCdf ((y - loc) / scale)

/-- `LaplaceOperator.inverse` -/
def laplaceClInv (Φinv : K → K) (loc scale y : K) : K := Φinv (laplaceClInvArg loc scale y)

/-! ### Classic parameter conversions and the compositions around the tabulated operator -/

/-- `InverseGammaOperator(mode=, mean=)`: `none` is the `ValueError` for `mean < mode`;
    `alpha = 2/(mean/mode - 1) + 1`, `q = mode*(alpha + 1)`; returns `(alpha, q)` -/
def invGammaFromModeMean (mode mean : K) : Option (K × K) :=
  if mean < mode then none else
  let alpha := (2 : K) / (mean / mode - (1 : K)) + (1 : K)
  let q := mode * (alpha + (1 : K))
  some (alpha, q)

/-- `GammaOperator(mean=, var=)`: `theta = var/mean`, `alpha = mean/theta`; returns `(alpha, theta)` -/
def gammaFromMeanVar (mean var : K) : K × K :=
  let theta := var / mean
  let alpha := mean / theta
  (alpha, theta)

/-- `GammaOperator(beta=)`: `theta = 1/beta` -/
def gammaThetaFromBeta (beta : K) : K := (1 : K) / beta

/-- `InverseGammaOperator.apply` value: `q * exp(spline(x))` (table in log space, `inv_table_func = exp`) -/
def invGammaCl (spline : K → K) (q xi : K) : K := q * Transc.exp (spline xi)

/-- its Jacobian diagonal by the chain rule the `Linearization` applies: `q * (exp(spline x) * spline'(x))` -/
def invGammaClJac (spline dspline : K → K) (q xi : K) : K := q * (Transc.exp (spline xi) * dspline xi)

/-- `GammaOperator.apply` value: `spline(x) * theta` (no table function) -/
def gammaCl (spline : K → K) (theta xi : K) : K := spline xi * theta

/-- `LogInverseGammaOperator`: `log(q) + spline(x)` with the table of `log(invgamma.ppf(Φ x))` -/
def logInvGammaCl (spline : K → K) (q xi : K) : K := Transc.log q + spline xi

end Elementary

/-! ## Piecewise-linear interpolation (`jnp.interp` as used by `interpolator`) -/
section Interp
variable {K : Type} [Add K] [Sub K] [Mul K] [Div K] [LT K] [DecidableLT K]

/-- walk to the right from the node `(x0, y0)`: the first node `(x1, y1)` with `x < x1` closes the interval
    (`searchsorted(..., side="right")`) and the value is `y0 + (x - x0)/(x1 - x0) * (y1 - y0)`
    (`fp[i-1] + (delta/dx) * df`); right of the last node the value is clamped to the last table entry. -/
def interpFrom (x : K) (x0 y0 : K) : List (K × K) → K
  | [] => y0
  | (x1, y1) :: rest =>
    if x < x1 then y0 + (x - x0) / (x1 - x0) * (y1 - y0) else interpFrom x x1 y1 rest

/-- `jnp.interp(x, xs, ys)` over the non-empty node list `(x0,y0) :: rest` (sorted by `xs`):
    left of the first node clamped to the first table entry. -/
def interp (x : K) (n0 : K × K) (rest : List (K × K)) : K :=
  if x < n0.1 then n0.2 else interpFrom x n0.1 n0.2 rest

/-- the table with the roles of abscissa and ordinate exchanged (`jnp.interp(y, ys, xs)` in `inverse_interp`) -/
def swapNodes (l : List (K × K)) : List (K × K) := l.map fun p => (p.2, p.1)

/-- `interpolator(...)`'s `interp`: `inv_table_func(jnp.interp(x, xs, ys))` where `ys = table_func(func(xs))` -/
def interpolatorApply (invTable : K → K) (x : K) (n0 : K × K) (rest : List (K × K)) : K :=
  invTable (interp x n0 rest)

/-- `interpolator(..., return_inverse=True)`'s `inverse_interp`: `jnp.interp(table_func(y), ys, xs)` -/
def interpolatorInverse (table : K → K) (y : K) (n0 : K × K) (rest : List (K × K)) : K :=
  interp (table y) (n0.2, n0.1) (swapNodes rest)

/-- the table of `f` over the abscissae `xs`: `ys = table_func(func(xs))` with `f = table_func ∘ func` -/
def mkTable (f : K → K) (xs : List K) : List (K × K) := xs.map fun x => (x, f x)

end Interp

/-! ## Table abscissae -/

/-- `len(np.arange(start, stop, step)) = ceil((stop - start)/step)` (0 if not positive) -/
def arangeLen (start stop step : Rat) : Nat := ((stop - start) / step).ceil.toNat

/-- `np.arange(start, stop, step)[i] = start + i*step` -/
def arange (start stop step : Rat) : List Rat :=
  (List.range (arangeLen start stop step)).map fun (i : Nat) => start + (i : Rat) * step

/-- `interpolator(step=)`: `xs = np.arange(xmin, xmax + step, step)` -/
def interpolatorXsStep (xmin xmax step : Rat) : List Rat := arange xmin (xmax + step) step

/-- `interpolator(num=)`: `xs = np.linspace(xmin, xmax, num)`, `xs[i] = xmin + i*(xmax - xmin)/(num - 1)` -/
def interpolatorXsNum (xmin xmax : Rat) (num : Nat) : List Rat :=
  (List.range num).map fun (i : Nat) => xmin + (i : Rat) * ((xmax - xmin) / ((num : Rat) - 1))

/-- `_InterpolationOperator`: `xs = np.arange(xmin, xmax, delta)` -/
def interpolationOperatorXs (xmin xmax delta : Rat) : List Rat := arange xmin xmax delta

/-! ## Inverse gamma (JAX), composition around the interpolator -/
section InvGamma
variable {K : Type} [Transc K] [Add K] [Sub K] [Mul K] [Div K] [LT K] [DecidableLT K]

/-- `invgamma_prior(a, scale, loc, step)(x)`: table of `log(ppf(Φ(xs)))` (unit scale if `loc == 0`, else with `loc`
    and `scale` inside the tabulated quantile function), `exp` of the interpolated value, times `scale` iff `loc == 0`. -/
def invgammaRe (locIsZero : Bool) (scale x : K) (n0 : K × K) (rest : List (K × K)) : K :=
  if locIsZero then interpolatorApply Transc.exp x n0 rest * scale
  else interpolatorApply Transc.exp x n0 rest

/-- `invgamma_invprior(a, scale, loc, step)(y) = jnp.interp(log(y), ys, xs)` (table with `loc` and `scale` inside) -/
def invgammaInvRe (y : K) (n0 : K × K) (rest : List (K × K)) : K :=
  interpolatorInverse Transc.log y n0 rest

end InvGamma

end NiftyVerif.Priors
