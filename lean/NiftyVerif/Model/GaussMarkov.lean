/-
  Model of nifty/re/gauss_markov.py (C29).  Core imports only.

  Sequences are functions `Nat → _` (the driver feeds `fun k => l.getD k 0`).  Scalars live in `K`,
  the excitations and the process values in `W` with a scalar action `K` on `W`:
    * driver:    `W = K = Rat`  (the code's arithmetic, `sqrt`/`exp` passed as functions);
    * theorems:  `W` = any `K`-module carrying a covariance form in which the excitations are
                 orthonormal (random variables), so `Cov(x_i,x_j)` is *computed* from the model.

  Transcribed statements (gauss_markov.py):
    wiener_process:            amp = sqrt(dt)*sigma ; cumsum(concat(x0, amp*xi))
    integrated_wiener_process: res = (sigma*sqrt(dt))[:,None]*xi ; res[:,0] *= sqrt(dt**2/12+asp)
                               res[:,0] += 0.5*dt*res[:,1] ; concat x0 ; res[:,1] = cumsum(res[:,1])
                               res[1:,0] += dt*res[:-1,1] ; res[:,0] = cumsum(res[:,0])
    ornstein_uhlenbeck_process: drift = exp(-gamma*dt) ; amp = sigma*sqrt(1-drift**2)
                               scalar_gauss_markov_process(xi, x0, drift, amp)
    discrete_gauss_markov_process: res[0]=x0 ; res[i+1] = diffamp_i @ xi_i + drift_i @ res[i]
-/

namespace NiftyVerif.GaussMarkov

section
variable {K W : Type} [Add K] [Mul K] [Sub K] [Div K] [Neg K] [OfNat K 0] [OfNat K 1] [OfNat K 2] [OfNat K 12]
variable [Add W] [SMul K W]

/-- `jnp.cumsum(jnp.concatenate((x0, incr)))[i]` as a running sum -/
def cumsumAt (x0 : W) (incr : Nat → W) : Nat → W
  | 0 => x0
  | i + 1 => cumsumAt x0 incr i + incr i

/-- `amp = jnp.sqrt(dt) * sigma` -/
def wienerAmp (sqrt : K → K) (sigma dt : Nat → K) (k : Nat) : K := sqrt (dt k) * sigma k

/-- `wiener_process(xi, x0, sigma, dt)[i]` -/
def wiener (sqrt : K → K) (xi : Nat → W) (x0 : W) (sigma dt : Nat → K) : Nat → W :=
  cumsumAt x0 (fun k => wienerAmp sqrt sigma dt k • xi k)

/-- second column after `res = (sigma*sqrt(dt))[:,None]*xi` -/
def iwpN1 (sqrt : K → K) (sigma dt : Nat → K) (xi1 : Nat → W) (k : Nat) : W :=
  (sigma k * sqrt (dt k)) • xi1 k

/-- first column after `res[:,0] *= sqrt(dt**2/12+asp)` and `res[:,0] += 0.5*dt*res[:,1]` -/
def iwpN0 (sqrt : K → K) (sigma dt asp : Nat → K) (xi0 xi1 : Nat → W) (k : Nat) : W :=
  ((sigma k * sqrt (dt k)) * sqrt (dt k * dt k / 12 + asp k)) • xi0 k
    + (dt k / 2) • iwpN1 sqrt sigma dt xi1 k

/-- `res[:,1] = cumsum(res[:,1])` (the Wiener component) -/
def iwpV (sqrt : K → K) (sigma dt : Nat → K) (xi1 : Nat → W) (x0v : W) : Nat → W :=
  cumsumAt x0v (iwpN1 sqrt sigma dt xi1)

/-- `res[1:,0] += dt*res[:-1,1]; res[:,0] = cumsum(res[:,0])` (the integrated component) -/
def iwpX (sqrt : K → K) (sigma dt asp : Nat → K) (xi0 xi1 : Nat → W) (x0x x0v : W) : Nat → W :=
  cumsumAt x0x (fun k => iwpN0 sqrt sigma dt asp xi0 xi1 k + dt k • iwpV sqrt sigma dt xi1 x0v k)

/-- scalar Gauss–Markov recursion: `res[i+1] = diffamp_i*xi_i + drift_i*res[i]` -/
def scalarGM (xi : Nat → W) (x0 : W) (drift diffamp : Nat → K) : Nat → W
  | 0 => x0
  | i + 1 => diffamp i • xi i + drift i • scalarGM xi x0 drift diffamp i

/-- `drift = exp(-gamma*dt)` -/
def ouDrift (exp : K → K) (gamma dt : Nat → K) (k : Nat) : K := exp (-(gamma k) * dt k)

/-- `amp = sigma*sqrt(1-drift**2)` -/
def ouAmp (sqrt exp : K → K) (sigma gamma dt : Nat → K) (k : Nat) : K :=
  sigma k * sqrt (1 - ouDrift exp gamma dt k * ouDrift exp gamma dt k)

/-- `ornstein_uhlenbeck_process(xi, x0, sigma, gamma, dt)[i]` -/
def ou (sqrt exp : K → K) (xi : Nat → W) (x0 : W) (sigma gamma dt : Nat → K) : Nat → W :=
  scalarGM xi x0 (ouDrift exp gamma dt) (ouAmp sqrt exp sigma gamma dt)

end

/-! ### generic `discrete_gauss_markov_process` on lists (state dimension arbitrary) -/
section
variable {K W : Type} [Add W] [SMul K W] [OfNat W 0]

/-- `jnp.matmul(row, v)` for one row: Σ_c row_c • v_c -/
def dotSmul : List K → List W → W
  | a :: as, v :: vs => a • v + dotSmul as vs
  | _, _ => 0

/-- `jnp.matmul(M, v)` -/
def matVec (M : List (List K)) (v : List W) : List W := M.map (fun row => dotSmul row v)

def vecAdd : List W → List W → List W
  | a :: as, b :: bs => (a + b) :: vecAdd as bs
  | _, _ => []

/-- `res[0]=x0; res[i+1] = diffamp_i @ xi_i + drift_i @ res[i]` -/
def discreteGM (xi : Nat → List W) (x0 : List W) (drift diffamp : Nat → List (List K)) : Nat → List W
  | 0 => x0
  | i + 1 => vecAdd (matVec (diffamp i) (xi i)) (matVec (drift i) (discreteGM xi x0 drift diffamp i))

end

/-! ### matrices the specialised processes correspond to (used by `generic_eq_special` and by the driver) -/
section
variable {K : Type} [Add K] [Mul K] [Div K] [OfNat K 0] [OfNat K 1] [OfNat K 2] [OfNat K 12]

def iwpDrift (dt : Nat → K) (k : Nat) : List (List K) := [[1, dt k], [0, 1]]

def iwpDiffamp (sqrt : K → K) (sigma dt asp : Nat → K) (k : Nat) : List (List K) :=
  [[(sigma k * sqrt (dt k)) * sqrt (dt k * dt k / 12 + asp k), dt k / 2 * (sigma k * sqrt (dt k))],
   [0, sigma k * sqrt (dt k)]]

end

end NiftyVerif.GaussMarkov
