/-
  Line-protocol handler for the operator-class models of Model/LinOps.lean (shared by Driver/C02.lean and
  Driver/C35.lean).  One JSON object per operator instance:
    {"cls": <class name>, <constructor configuration>, "x": [...]?, "y": [...]?}
  Output: {"rows":R,"cols":C,"doubled":bool,"modes":{"1":[[r,c,re,im],…],"2":…,"4":…,"8":…},"Ax":…,"AHy":…, extras}
  or {"error": <exception kind the real constructor raises>}.
  Scalars are Gaussian rationals: "p/q" (real) or ["p/q","p/q"].   Core only.
-/
import NiftyVerif.Core.Proto
import NiftyVerif.Model.CQ
import NiftyVerif.Model.LinOps
open Lean NiftyVerif NiftyVerif.Proto NiftyVerif.Coo NiftyVerif.LinOps

namespace NiftyVerif.LinOpsProto

abbrev E := Except String

def req {α : Type} (o : Option α) (what : String := "bad-args") : E α :=
  match o with
  | some a => pure a
  | none => throw what

def getCQ? (j : Json) : Option CQ :=
  match j with
  | Json.arr a => if a.size == 2 then do
      let re ← getRat? a[0]!
      let im ← getRat? a[1]!
      pure ⟨re, im⟩ else none
  | _ => (getRat? j).map CQ.ofRat

def jCQ (a : CQ) : Json := Json.arr #[jRat a.re, jRat a.im]

def cqList? (j : Json) : Option (List CQ) := listOf? getCQ? j
def boolList? (j : Json) : Option (List Bool) := listOf? getBool? j

def parseDom (j : Json) : Option (SubDom CQ) := do
  let sh ← fNatList? j "shape"
  match field? j "dvol" with
  | none => pure ⟨sh, .scalar 1⟩
  | some (Json.arr a) => do
      let l ← a.toList.mapM getCQ?
      pure ⟨sh, .vec l⟩
  | some v => do
      let s ← getCQ? v
      pure ⟨sh, .scalar s⟩

def parseDoms (j : Json) (k : String := "doms") : E (List (SubDom CQ)) :=
  req ((field? j k).bind (listOf? parseDom))

/-- optional list of naturals: JSON null / absent → none; a single integer is a one-element list -/
def optSpaces (j : Json) (k : String) : E (Option (List Int)) :=
  match field? j k with
  | none => pure none
  | some Json.null => pure none
  | some (Json.arr a) => do
      let l ← req (a.toList.mapM getInt?)
      pure (some l)
  | some v => do
      let i ← req (getInt? v)
      pure (some [i])

/-- parse_spaces on possibly negative input: negative entries are "out of range" -/
def parseSpacesI (sp : Option (List Int)) (n : Nat) : E (List Nat) :=
  match sp with
  | none => pure (List.range n)
  | some l =>
    if l.any (· < 0) then throw "ValueError" else
    parseSpaces (some (l.map Int.toNat)) n

/-- infer_space -/
def inferSpace (j : Json) (ndom : Nat) : E Nat :=
  match field? j "space" with
  | none | some Json.null => if ndom != 1 then throw "ValueError" else pure 0
  | some v => do
      let i ← req (getInt? v)
      if i < 0 || i ≥ ndom then throw "ValueError" else pure i.toNat

def cqOne : CQ := 1
def qCQ (a b : Nat) : CQ := CQ.ofRat (mkRat a b)

structure Out where
  modes : List (Nat × Coo CQ)
  doubled : Bool := false
  extra : List (String × Json) := []

/-- declared domain / target shapes (per sub-domain) of the operator, compared with `op.domain` / `op.target` -/
def withShapes (o : Out) (dsh tsh : List (List Nat)) : Out :=
  { o with extra := o.extra ++ [("dshapes", jList jNats dsh), ("tshapes", jList jNats tsh)] }

def shapesOf (doms : List (SubDom CQ)) : List (List Nat) := doms.map (·.shape)

def twoModes (M : Coo CQ) : Out := { modes := [(1, M), (2, adj CQ.conj M)] }
/-- all four modes of an operator whose inverse is `Minv` -/
def fourModes (M Minv : Coo CQ) : Out :=
  { modes := [(1, M), (2, adj CQ.conj M), (4, Minv), (8, adj CQ.conj Minv)] }

def prePost (doms : List (SubDom CQ)) (space : Nat) : Nat × Nat × Nat :=
  let sizes := doms.map SubDom.size
  (prodL (sizes.take space), sizes.getD space 1, prodL (sizes.drop (space + 1)))

def fullShape (doms : List (SubDom CQ)) : List Nat := (doms.map (·.shape)).flatten
def axis0 (doms : List (SubDom CQ)) (space : Nat) : Nat := ((doms.take space).map (·.shape.length)).foldl (· + ·) 0

/-- per-subdomain slice spec of SplitOperator → selected indices (none = whole axis kept) -/
def parseSel (n : Nat) (j : Json) : E (List Nat × Bool) :=   -- (indices, axis kept?)
  match j with
  | Json.null => pure (List.range n, true)
  | _ =>
    match field? j "slice" with
    | some (Json.arr a) =>
      let g (i : Nat) : Option Nat := (a[i]?).bind getNat?
      let start := (g 0).getD 0
      let stop := (g 1).getD n
      let step := (g 2).getD 1
      pure (sliceIdx start stop step n, true)
    | _ =>
    match fNatList? j "idx" with
    | some l => if l.any (· ≥ n) then throw "IndexError" else pure (l, true)
    | none =>
    match (field? j "mask").bind boolList? with
    | some m => if m.length != n then throw "ValueError" else pure (unflagged (m.map (!·)), true)
    | none =>
    match fNat? j "int" with
    | some k => if k ≥ n then throw "IndexError" else pure ([k], false)
    | none => throw "ValueError"

def handleCls (cls : String) (j : Json) : E Out := do
  match cls with
  | "ContractionOperator" =>
    let doms ← parseDoms j
    let sp ← parseSpacesI (← optSpaces j "spaces") doms.length
    let p ← req (fInt? j "power")
    pure (withShapes (twoModes (contraction doms sp p)) (shapesOf doms)
      (((List.range doms.length).filter fun i => !sp.contains i).map fun i => (doms.getD i ⟨[], .scalar 1⟩).shape))
  | "WeightApplier" =>
    let doms ← parseDoms j
    let spo ← optSpaces j "spaces"
    let sp ← parseSpacesI spo doms.length
    let p ← req (fInt? j "power")
    pure (withShapes (fourModes (weightApplier doms sp p) (weightApplier doms sp (-p))) (shapesOf doms) (shapesOf doms))
  | "DOFDistributor" =>
    let doms ← parseDoms j
    let space ← inferSpace j doms.length
    let dofdex ← req (fNatList? j "dofdex")
    let (pre, n, post) := prePost doms space
    if dofdex.length != n then throw "ValueError"
    let nbin := (dofdex.foldl max 0) + 1
    let d ← req doms[space]?
    let wgt := binWeights nbin dofdex (fun p => d.w p)
    if wgt.any CQ.isZero then throw "ValueError"
    pure (withShapes { twoModes (distributor pre post nbin dofdex) with extra := [("wgt", jList jCQ wgt)] }
      ((shapesOf doms).set space [nbin]) (shapesOf doms))
  | "MaskOperator" =>
    let flags ← req ((field? j "flags").bind boolList?)
    pure (twoModes (mask flags))
  | "ValueInserter" =>
    let shape ← req (fNatList? j "shape")
    let index ← req (fIntList? j "index")
    if index.length > shape.length then throw "IndexError"
    if (index.zip shape).any (fun p => p.1 < 0 || p.1 ≥ (p.2 : Int)) then throw "TypeError"
    if index.length != shape.length then throw "ValueError"
    pure (twoModes (valueInserter shape (index.map Int.toNat)))
  | "DomainTupleFieldInserter" =>
    let doms ← parseDoms j
    let space ← req (fInt? j "space")
    let index ← req (fIntList? j "index")
    if space > doms.length || space < 0 then throw "ValueError"
    if space == doms.length then throw "IndexError"
    let d ← req doms[space.toNat]?
    if index.length != d.shape.length then throw "ValueError"
    if (index.zip d.shape).any (fun p => p.1 < 0 || p.1 ≥ (p.2 : Int)) then throw "ValueError"
    let (pre, n, post) := prePost doms space.toNat
    pure (withShapes (twoModes (fieldInserter pre n post (ravel d.shape (index.map Int.toNat))))
      ((shapesOf doms).eraseIdx space.toNat) (shapesOf doms))
  | "TransposeOperator" =>
    let doms ← parseDoms j
    let perm ← req (fNatList? j "indices")
    if perm.length != doms.length then throw "IndexError"
    if perm.any (· ≥ doms.length) then throw "IndexError"
    let sizes := doms.map SubDom.size
    if prodL (perm.map fun k => sizes.getD k 1) != prodL sizes then throw "ValueError"
    let M : Coo CQ := transpose sizes perm
    pure (withShapes (fourModes M (adj CQ.conj M)) (shapesOf doms) (perm.map fun k => (doms.getD k ⟨[], .scalar 1⟩).shape))
  | "SqueezeOperator" =>
    -- doms carry "kind": "RG" | "U" | other; returns the target shapes as an extra
    let dj ← req ((field? j "doms").bind getArr?)
    let aggressive := (fBool? j "aggressive").getD false
    let mut tshapes : List (List Nat) := []
    let mut n := 1
    let mut found := false
    for d in dj do
      let sh ← req (fNatList? d "shape")
      let kind := (fStr? d "kind").getD "other"
      n := n * prodL sh
      if sh == [1] then found := true
      else if aggressive && (kind == "RG" || kind == "U") then
        if sh.any (· == 1) then found := true
        -- an RGSpace cannot have zero axes: the constructor of the squeezed space raises
        if kind == "RG" && sh.all (· == 1) then throw "ValueError"
        tshapes := tshapes ++ [sh.filter (· != 1)]
      else tshapes := tshapes ++ [sh]
    if !found then throw "RuntimeError"
    let M : Coo CQ := ident n
    pure { fourModes M M with extra := [("tshapes", jList jNats tshapes)] }
  | "Identity" =>   -- GeometryRemover, DomainChangerAndReshaper, FieldAdapter, Multifield2Vector, PrependKey
    let n ← req (fNat? j "n")
    pure (twoModes (ident n))
  | "BlockSelect" => -- _SlowFieldAdapter, PartialExtractor, PrependKey, Multifield2Vector with explicit keys
    let dom ← req ((field? j "dom").bind (listOf? fun kv => do
      let a ← getArr? kv
      let k ← (a[0]?).bind getStr?
      let n ← (a[1]?).bind getNat?
      pure (k, n)))
    let tgt ← req ((field? j "tgt").bind (listOf? fun kv => do
      let a ← getArr? kv
      let k ← (a[0]?).bind getStr?
      let k2 ← (a[1]?).bind getStr?
      pure (k, k2)))
    if tgt.any (fun kk => !(dom.any fun kv => kv.1 == kk.2)) then throw "KeyError"
    pure (twoModes (blockSelect dom tgt))
  | "OuterProduct" =>
    let n ← req (fNat? j "n")
    let f ← req ((field? j "f").bind cqList?)
    pure (twoModes (outerProduct n f))
  | "VdotOperator" =>
    let f ← req ((field? j "f").bind cqList?)
    pure (twoModes (vdot CQ.conj f))
  | "FieldZeroPadder" =>
    let doms ← parseDoms j
    let space ← inferSpace j doms.length
    let ns ← req (fNatList? j "new_shape")
    let central := (fBool? j "central").getD false
    let d ← req doms[space]?
    if ns.length != d.shape.length then throw "ValueError"
    if (ns.zip d.shape).any (fun p => p.1 < p.2) then throw "ValueError"
    pure (withShapes (twoModes (padder (fullShape doms) (axis0 doms space) ns central)) (shapesOf doms)
      ((shapesOf doms).set space ns))
  | "RegriddingOperator" =>
    let doms ← parseDoms j
    let space ← inferSpace j doms.length
    let ns ← req (fIntList? j "new_shape")
    let d ← req doms[space]?
    if ns.length != d.shape.length then throw "ValueError"
    if (ns.zip d.shape).any (fun p => p.1 > (p.2 : Int)) then throw "ValueError"
    if ns.any (· ≤ 0) then throw "ValueError"
    pure (withShapes (twoModes (regridding qCQ (fullShape doms) (axis0 doms space) (ns.map Int.toNat))) (shapesOf doms)
      ((shapesOf doms).set space (ns.map Int.toNat)))
  | "SliceOperator" =>
    -- new_shape: per sub-domain null | [n_pix per axis]
    let doms ← parseDoms j
    let nsj ← req ((field? j "new_shape").bind getArr?)
    let center := (fBool? j "center").getD false
    if nsj.length != doms.length then throw "ValueError"
    -- first loop of the constructor: dimension check of every entry (None counts as one axis)
    for (d, nj) in doms.zip nsj do
      match nj with
      | Json.null => if d.shape.length != 1 then throw "ValueError"
      | _ =>
        let ns ← req (natList? nj)
        if ns.length != d.shape.length then throw "ValueError"
    -- second loop: target / slices per sub-domain, in order
    let mut sel : List (List Nat) := []
    for (d, nj) in doms.zip nsj do
      match nj with
      | Json.null =>
        -- with `center` the code computes `d.shape[j] - None`
        if center then throw "TypeError"
        sel := sel ++ d.shape.map List.range
      | _ =>
        let ns ← req (natList? nj)
        if (ns.zip d.shape).any (fun p => p.1 > p.2) then throw "ValueError"
        for (npix, n) in ns.zip d.shape do
          sel := sel ++ [sliceSel n npix center]
    let tsh := (doms.zip nsj).map fun dn => match natList? dn.2 with
      | some ns => ns
      | none => dn.1.shape
    pure (withShapes (twoModes (axisSelect (fullShape doms) sel)) (shapesOf doms) tsh)
  | "SplitOperator" =>
    -- sizes: 1-D sub-domain sizes; slices: [[key, [spec per sub-domain (may be shorter)]], …]
    let sizes ← req (fNatList? j "sizes")
    let sl ← req ((field? j "slices").bind getArr?)
    let mut blocks : List (String × Coo CQ) := []
    for kv in sl do
      let a ← req (getArr? kv)
      let key ← req ((a[0]?).bind getStr?)
      let specs ← req ((a[1]?).bind getArr?)
      if specs.length > sizes.length then throw "ValueError"
      let mut sel : List (List Nat) := []
      for (n, i) in sizes.zip (List.range sizes.length) do
        let (ix, _) ← parseSel n (specs.getD i Json.null)
        sel := sel ++ [ix]
      blocks := blocks ++ [(key, (axisSelect sizes sel : Coo CQ))]
    let sorted := blocks.mergeSort fun a b => !(b.1 < a.1)
    let cols := prodL sizes
    let (rows, ents) := sorted.foldl (fun (acc : Nat × List (Nat × Nat × CQ)) kb =>
      (acc.1 + kb.2.rows, acc.2 ++ (place 0 0 acc.1 0 kb.2).ent)) (0, [])
    pure { twoModes ⟨rows, cols, ents⟩ with extra := [("tsizes", jNats (sorted.map (·.2.rows)))] }
  | "ExtractAtIndices" =>
    let doms ← parseDoms j
    let space ← req (fNat? j "space")
    let d ← req doms[space]? "IndexError"
    let idx ← req ((field? j "indices").bind (listOf? natList?))
    if idx.length != d.shape.length then throw "ValueError"
    let L := (idx.headD []).length
    let flat := (List.range L).map fun k => ravel d.shape (idx.map fun ax => ax.getD k 0)
    let (pre, n, post) := prePost doms space
    pure (withShapes (twoModes (extractAt pre n post flat)) (shapesOf doms) ((shapesOf doms).set space [L]))
  | "FFTShiftOperator" =>
    let doms ← parseDoms j
    let sp ← parseSpacesI (← optSpaces j "spaces") doms.length
    let axes := (sp.map fun s => (List.range ((doms.getD s ⟨[], .scalar 1⟩).shape.length)).map (axis0 doms s + ·)).flatten
    let sh := fullShape doms
    let M : Coo CQ := fftshift sh axes false
    let Mi : Coo CQ := fftshift sh axes true
    pure (withShapes { modes := [(1, M), (2, Mi), (4, Mi), (8, M)] } (shapesOf doms) (shapesOf doms))
  | "MatrixProductSpaces" =>
    let sizes ← req (fNatList? j "sizes")
    let sp ← req (fNatList? j "spaces")
    let m ← req ((field? j "m").bind cqList?)
    let n := prodL (sp.map fun s => sizes.getD s 1)
    if m.length != n * n then throw "ValueError"
    pure (twoModes (matrixProductSp sizes sp m))
  | "MatrixProductOperator" =>
    let pre ← req (fNat? j "pre")
    let n ← req (fNat? j "n")
    let post ← req (fNat? j "post")
    let m ← req ((field? j "m").bind cqList?)
    if m.length != n * n then throw "ValueError"
    pure (twoModes (matrixProduct pre n post m))
  | "ConjugationOperator" =>
    let n ← req (fNat? j "n")
    let M : Coo CQ := conjugation n
    pure { modes := [(1, M), (2, M), (4, M), (8, M)], doubled := true }
  | "PartialConjugate" =>
    let n ← req (fNat? j "n")
    let rg ← req ((field? j "ranges").bind (listOf? fun kv => do
      let a ← natList? kv
      pure (a.getD 0 0, a.getD 1 0)))
    let M : Coo CQ := partialConj n rg
    pure { modes := [(1, M), (2, M), (4, M), (8, M)], doubled := true }
  | "Realizer" =>
    let n ← req (fNat? j "n")
    let M : Coo CQ := realizer n
    pure { modes := [(1, M), (2, M)], doubled := true }
  | "Imaginizer" =>
    let n ← req (fNat? j "n")
    let M : Coo CQ := imaginizer n
    pure { modes := [(1, M), (2, adj CQ.conj M)], doubled := true }
  | "LinearEinsum" =>
    -- {"subs":[["ij",[data…]],…], "x":"j…", "out":"i…", "sizes":[["i",2],…]}; validation as in the constructor
    let sizes ← req ((field? j "sizes").bind (listOf? fun kv => do
      let a ← getArr? kv
      let k ← (a[0]?).bind getStr?
      let n ← (a[1]?).bind getNat?
      pure (k.toList.headD 'a', n)))
    let ops ← req ((field? j "subs").bind (listOf? fun kv => do
      let a ← getArr? kv
      let k ← (a[0]?).bind getStr?
      let d ← (a[1]?).bind cqList?
      pure (k.toList, d)))
    let xs ← req (fStr? j "xsub")
    let os ← req (fStr? j "out")
    let present := (ops.map (·.1)).flatten ++ xs.toList
    if os.toList.any (fun c => !present.contains c) then throw "ValueError"
    let letters := present.eraseDups
    let sz := fun c => ((sizes.find? fun kv => kv.1 == c).map Prod.snd).getD 1
    pure (twoModes (einsum letters sz ops xs.toList os.toList))
  | "DiagonalOperator" =>
    -- {"doms":…, "spaces": null | [..], "ddoms": sizes of the diagonal's sub-domains, "d": values, "dinv": 1/values}
    let doms ← parseDoms j
    let spo ← optSpaces j "spaces"
    let d ← req ((field? j "d").bind cqList?)
    let dinv ← req ((field? j "dinv").bind cqList?)
    let dsz ← req (fNatList? j "dsizes")
    let sizes := doms.map SubDom.size
    let sp ← match spo with
      | none => if dsz != sizes then throw "ValueError" else pure (List.range doms.length)
      | some _ => do
        let sp ← parseSpacesI spo doms.length
        if sp.length != dsz.length then throw "ValueError"
        if (sp.zip dsz).any (fun p => sizes.getD p.1 0 != p.2) then throw "ValueError"
        pure sp
    let M : Coo CQ := diagonalOp sizes sp d
    let Mi : Coo CQ := diagonalOp sizes sp dinv
    pure (withShapes (fourModes M Mi) (shapesOf doms) (shapesOf doms))
  | "ScalingOperator" =>
    let n ← req (fNat? j "n")
    let f ← req ((field? j "f").bind getCQ?)
    let fi ← req ((field? j "finv").bind getCQ?)
    let M : Coo CQ := diag n fun _ => f
    let Mi : Coo CQ := diag n fun _ => fi
    pure (fourModes M Mi)
  | "Reject" => throw ((fStr? j "kind").getD "bad-args")
  | "NullOperator" =>
    let r ← req (fNat? j "rows")
    let c ← req (fNat? j "cols")
    pure (twoModes (null r c))
  | _ => throw "bad-op"

def jEnt (M : Coo CQ) : Json :=
  jList (fun (e : Nat × Nat × CQ) => Json.arr #[jNat e.1, jNat e.2.1, jRat e.2.2.re, jRat e.2.2.im]) M.ent

/-- render an operator model (all modes) plus the optional probes `x` (→ `Ax`) and `y` (→ `AHy`) -/
def render (j : Json) (out : Out) : Json :=
  match out.modes with
  | [] => jErr "bad-op"
  | (_, M) :: _ =>
    let ap := match (field? j "x").bind cqList? with
      | some x => [("Ax", jList jCQ (toList M.rows (apply M (vecOf x))))]
      | none => []
    let aa := match (field? j "y").bind cqList? with
      | some y => [("AHy", jList jCQ (toList M.cols (applyAdj CQ.conj M (vecOf y))))]
      | none => []
    jObj ([("rows", jNat M.rows), ("cols", jNat M.cols), ("wf", Json.bool (out.modes.all fun m => m.2.wf)),
           ("doubled", Json.bool out.doubled),
           ("modes", jObj (out.modes.map fun m => (toString m.1, jEnt m.2)))] ++ ap ++ aa ++ out.extra)

def handle (j : Json) : Json :=
  match fStr? j "cls" with
  | none => jErr "bad-op"
  | some cls =>
    match handleCls cls j with
    | .error e => jErr e
    | .ok out => render j out

end NiftyVerif.LinOpsProto
