/-
  C36 — fit-quality diagnostics: the statistics part of `nifty/cl/extra.py: minisanity` (per key, per sample) and of
  `nifty/re/minisanity.py: _residual_params / reduced_residual_stats`.   Core imports only; polymorphic in the scalar `K`.

  A normalised-residual array is a list of entries; `none` is NaN; an entry is a complex number `(re, im)` (real arrays have
  `im = 0`).  Classic, per sample and key (transcribed):
      n_isnan = sum(isnan(r)); n_iszero = sum(r == 0); lsize = r.size - n_isnan - n_iszero
      tmp = nansum(abs(r)**2);  redchisq_s = tmp        if tmp == 0 and lsize == 0  else tmp / lsize
      tmp = nansum(r);          scmean_s   = tmp        if tmp == 0 and lsize == 0  else tmp / lsize
      ndof[key] = lsize;  nigndof[key] = n_isnan + n_iszero            (overwritten by every sample: the LAST one stays)
      reported: StatCalculator mean over samples of redchisq_s, scmean_s   (StatCalculator = Welford, see C26; here: sum/len)
  JAX, per sample and leaf (no NaN handling):
      ndof = size (2*size if complex); mean = sum(r)/size; rchisq = vdot(r,r).real/ndof
      reported: jnp.mean over samples of mean, rchisq; ndof of the first sample
-/
namespace NiftyVerif.Minisanity

structure Entry (K : Type) where
  re : K
  im : K

/-- one residual array (flattened); `none` = NaN -/
abbrev Res (K : Type) := List (Option (Entry K))

section
variable {K : Type} [Add K] [Sub K] [Mul K] [Div K] [OfNat K 0] [NatCast K] [DecidableEq K]

def Entry.isZero (e : Entry K) : Bool := e.re = 0 ∧ e.im = 0
def Entry.abs2 (e : Entry K) : K := e.re * e.re + e.im * e.im

def nNan (r : Res K) : Nat := (r.filter Option.isNone).length
def nZero (r : Res K) : Nat := (r.filter (fun x => match x with | some e => e.isZero | none => false)).length
def lsize (r : Res K) : Nat := r.length - nNan r - nZero r

def sumK (l : List K) : K := l.foldr (· + ·) 0

/-- nansum(abs(r)**2) -/
def sumSq (r : Res K) : K := sumK (r.filterMap (fun x => x.map Entry.abs2))
/-- nansum(r), real and imaginary part -/
def sumRe (r : Res K) : K := sumK (r.filterMap (fun x => x.map Entry.re))
def sumIm (r : Res K) : K := sumK (r.filterMap (fun x => x.map Entry.im))

/-- `tmp if tmp == 0 and lsize == 0 else tmp / lsize` -/
def guardedDiv (tmp : K) (n : Nat) : K := if tmp = 0 ∧ n = 0 then tmp else tmp / (n : K)

def clRedchisq (r : Res K) : K := guardedDiv (sumSq r) (lsize r)
def clMeanRe (r : Res K) : K := guardedDiv (sumRe r) (lsize r)
def clMeanIm (r : Res K) : K := guardedDiv (sumIm r) (lsize r)

/-- mean over samples -/
def average (xs : List K) : K := sumK xs / (xs.length : K)

/-- variance over samples with `ddof` delta degrees of freedom: classic StatCalculator.var is the unbiased one (ddof = 1;
    as two-pass formula — that Welford's recursion computes it is C26's subject), `jnp.std` the population one (ddof = 0) -/
def variance (ddof : Nat) (xs : List K) : K :=
  sumK (xs.map (fun x => (x - average xs) * (x - average xs))) / ((xs.length - ddof : Nat) : K)

structure ClReport (K : Type) where
  redchisq : K
  meanRe : K
  meanIm : K
  ndof : Nat
  nigndof : Nat
  redchisqVar : Option K      -- std² of the reduced χ² over samples; none with fewer than 2 samples (RuntimeError -> None)
  meanReVar : Option K

def clReport (samples : List (Res K)) : ClReport K :=
  { redchisq := average (samples.map clRedchisq)
    meanRe := average (samples.map clMeanRe)
    meanIm := average (samples.map clMeanIm)
    ndof := match samples.getLast? with | some r => lsize r | none => 0
    nigndof := match samples.getLast? with | some r => nNan r + nZero r | none => 0
    redchisqVar := if samples.length < 2 then none else some (variance 1 (samples.map clRedchisq))
    meanReVar := if samples.length < 2 then none else some (variance 1 (samples.map clMeanRe)) }

/-! JAX: arrays without NaN -/
abbrev ResRe (K : Type) := List (Entry K)

def reNdof (cplx : Bool) (r : ResRe K) : Nat := if cplx then 2 * r.length else r.length
def reSumSq (r : ResRe K) : K := sumK (r.map Entry.abs2)
def reRchisq (cplx : Bool) (r : ResRe K) : K := reSumSq r / (reNdof cplx r : K)
def reMeanRe (r : ResRe K) : K := sumK (r.map Entry.re) / (r.length : K)
def reMeanIm (r : ResRe K) : K := sumK (r.map Entry.im) / (r.length : K)

structure ReReport (K : Type) where
  rchisq : K
  meanRe : K
  meanIm : K
  ndof : Nat
  rchisqVar : K               -- jnp.std(...)²
  meanReVar : K

def reReport (cplx : Bool) (samples : List (ResRe K)) : ReReport K :=
  { rchisq := average (samples.map (reRchisq cplx))
    meanRe := average (samples.map reMeanRe)
    meanIm := average (samples.map reMeanIm)
    ndof := match samples.head? with | some r => reNdof cplx r | none => 0
    rchisqVar := variance 0 (samples.map (reRchisq cplx))
    meanReVar := variance 0 (samples.map reMeanRe) }

end
end NiftyVerif.Minisanity
