/-
  Non-uniform Fourier operators of `nifty/cl/library/nft.py` (Nufft, Gridder, VariablePositionNufft) as explicit
  Fourier sums, for point positions on a rational lattice.   Core imports only.

  Real code (documented quantity; conventions confirmed numerically by `harness/props/_c35_nft.py`):
    grid   : RGSpace of shape `N = (N_0..N_{D-1})`, distances `dst_d`; pixel multi-index `k`, flat index `ravel N k`,
             centred index `κ_d = k_d − N_d // 2`;
    points : `j = 0..P-1` at `pos_{j,d}`;   phase `θ_kj = Σ_d κ_d · 2π · pos_{j,d} · dst_d`;
    Nufft.times            : `res[k] = Re Σ_j x_j e^{+iθ_kj}`            (complex points → real grid)
    Nufft.adjoint_times    : `res[j] = Σ_k y_k e^{−iθ_kj}`               (real grid → complex points)
    Gridder                : the same with `pos = (u, v)` (2-D, even shape)
    VariablePositionNufft  : `res[j] = Σ_k grid_k e^{−iθ_kj}`            (complex grid, the adjoint matrix, no conjugation of grid)
  So there is ONE matrix `E[k, j] = e^{iθ_kj}` (rows = grid pixels, columns = points) and its conjugate transpose.

  Rational lattice: if `pos_{j,d}·dst_d = a_{j,d} / M` (integers `a_{j,d}`, `M > 0`) then `E[k,j] = ω^{m_kj}` with
  `ω = e^{2πi/M}` and `m_kj = Σ_d κ_d · a_{j,d}`, an integer that is reduced to `[0, M)`.
  The model never needs `ω` itself: `monoApply` returns, per output component, the coefficient list `c` (length `M`) of the
  polynomial `Σ_m c[m] ω^m`; `Lemmas/Nft.lean` proves that evaluating it at any `M`-th root of unity gives the
  matrix-vector product (`nft_mono_apply`, `nft_mono_applyAdj`).

  Convention for the adjoint (one convention, used everywhere): `monoApplyAdj … y j` is the coefficient list of
  `(Eᴴ y)_j = Σ_k conj(E[k,j]) · y_k = Σ_k ω^{(M − m_kj) mod M} · y_k`; `y` is NOT conjugated (it is the plain matrix-vector
  product with the conjugate-transposed matrix, exactly `Coo.applyAdj`), which is what `Nufft.adjoint_times`,
  `Gridder.adjoint_times` and `VariablePositionNufft` compute.
-/
import NiftyVerif.Model.Coo

namespace NiftyVerif.Nft
open NiftyVerif NiftyVerif.Coo

/-- `w ^ n` by plain recursion (keeps the model core-only and polymorphic) -/
def npow {K : Type} [Mul K] [OfNat K 1] (w : K) : Nat → K
  | 0 => 1
  | n + 1 => npow w n * w

/-- integer phase numerator `Σ_d (k_d − N_d / 2) · a_d` of pixel multi-index `k` and lattice point `a` -/
def phase : List Nat → List Nat → List Int → Int
  | n :: sh, k :: ks, a :: as => ((k : Int) - ((n / 2 : Nat) : Int)) * a + phase sh ks as
  | _, _, _ => 0

/-- exponent of `ω = e^{2πi/M}` in `E[r, j]`, reduced to `[0, M)`; `r` is the flat (row-major) pixel index -/
def nftExpAt (M : Nat) (shape : List Nat) (a : List (List Int)) (r j : Nat) : Nat :=
  (phase shape (unravel shape r) (a.getD j []) % (M : Int)).toNat

/-- the exponent table `(row, col, exponent)`: all grid pixels × all points, row-major -/
def nftExp (M : Nat) (shape : List Nat) (a : List (List Int)) : List (Nat × Nat × Nat) :=
  (List.range (prodL shape)).flatMap fun r =>
    (List.range a.length).map fun j => (r, j, nftExpAt M shape a r j)

/-- the dense matrix `E[k, j] = ω ^ m_kj` (rows = grid pixels, columns = points) -/
def nftCoo {K : Type} [Mul K] [OfNat K 1] (w : K) (M : Nat) (shape : List Nat) (a : List (List Int)) : Coo K :=
  ⟨prodL shape, a.length, (nftExp M shape a).map fun e => (e.1, e.2.1, npow w e.2.2)⟩

/-- `Σ_m c[m] · ω^m` -/
def evalPoly {K : Type} [Add K] [Mul K] [OfNat K 0] [OfNat K 1] (w : K) (c : List K) : K :=
  sumN c.length fun m => c.getD m 0 * npow w m

/-- `(E x)_r` as a coefficient list: `c[m] = Σ_{j : m_rj = m} x_j` -/
def monoApply {K : Type} [Add K] [OfNat K 0] (M : Nat) (shape : List Nat) (a : List (List Int))
    (x : Nat → K) (r : Nat) : List K :=
  (List.range M).map fun m => sumN a.length fun j => if nftExpAt M shape a r j = m then x j else 0

/-- `(Eᴴ y)_j` as a coefficient list: `c[m] = Σ_{k : (M − m_kj) mod M = m} y_k` (`y` not conjugated) -/
def monoApplyAdj {K : Type} [Add K] [OfNat K 0] (M : Nat) (shape : List Nat) (a : List (List Int))
    (y : Nat → K) (j : Nat) : List K :=
  (List.range M).map fun m => sumN (prodL shape) fun r => if (M - nftExpAt M shape a r j) % M = m then y r else 0

/-- positions on the FFT grid, 1-D: `a_j = j` (i.e. `pos_j · dst = j / N`) -/
def dftPos (N : Nat) : List (List Int) := (List.range N).map fun (j : Nat) => [(j : Int)]

/-- positions on the FFT grid, D-dim: point `j ↔ (j_0..j_{D-1})` (row-major), `a_{j,d} = j_d · (M / N_d)` -/
def gridPos (M : Nat) (shape : List Nat) : List (List Int) :=
  (List.range (prodL shape)).map fun j =>
    List.zipWith (fun (n jd : Nat) => ((jd * (M / n) : Nat) : Int)) shape (unravel shape j)

/-- add whole periods to the lattice coordinates: `a_{j,d} ↦ a_{j,d} + M · z j d` (i.e. `pos_{j,d} ↦ pos_{j,d} + z/dst_d`) -/
def shiftPos (M : Nat) (z : Nat → Nat → Int) (a : List (List Int)) : List (List Int) :=
  a.mapIdx fun j aj => aj.mapIdx fun d v => v + (M : Int) * z j d

end NiftyVerif.Nft
