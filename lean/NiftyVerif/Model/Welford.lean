/-
  Model of `nifty/cl/probing.py::StatCalculator` (streaming mean / unbiased variance) and of the mean/variance part of
  `SampleListBase.sample_stat`.  Core imports only; polymorphic in the scalar type (driver: `Rat`; theorems: any field of
  characteristic 0).  Fields/MultiFields are handled point-wise by the code, so the scalar model is per entry.

      self._count += 1
      if self._count == 1:  self._mean = 1.*value;  self._M2 = 0.*value
      else:
          delta = value - self._mean
          self._mean = self.mean + delta*(1./self._count)        # self.mean = 1.*self._mean
          delta2 = value - self._mean
          self._M2 = self._M2 + delta*delta2
      mean -> RuntimeError if count == 0 else 1.*_mean ;  var -> RuntimeError if count < 2 else _M2 * (1./(count-1))
-/
namespace NiftyVerif.Welford

structure WState (K : Type) where
  count : Nat
  mean : K
  m2 : K

variable {K : Type} [Add K] [Sub K] [Mul K] [Div K] [NatCast K] [OfNat K 0] [OfNat K 1]

def wInit : WState K := ⟨0, 0, 0⟩

def wAdd (s : WState K) (x : K) : WState K :=
  if s.count = 0 then ⟨1, 1 * x, 0 * x⟩
  else
    let c := s.count + 1
    let delta := x - s.mean
    let mean := 1 * s.mean + delta * (1 / (c : K))
    let delta2 := x - mean
    ⟨c, mean, s.m2 + delta * delta2⟩

def wRun (xs : List K) : WState K := xs.foldl wAdd wInit

/-- `StatCalculator.mean` (`none` = RuntimeError) -/
def wMean (s : WState K) : Option K := if s.count = 0 then none else some (1 * s.mean)

/-- `StatCalculator.var` (`none` = RuntimeError) -/
def wVar (s : WState K) : Option K :=
  if s.count < 2 then none else some (s.m2 * (1 / ((s.count - 1 : Nat) : K)))

def sum (xs : List K) : K := xs.foldl (· + ·) 0

/-- `sample_stat`: `if n_samples == 1: res = average; return res, 0*res`, else the StatCalculator over the iterator -/
def sampleStat (xs : List K) : Option (K × K) :=
  if xs.length = 1 then
    let res := sum xs / ((xs.length : Nat) : K)
    some (res, 0 * res)
  else
    match wMean (wRun xs), wVar (wRun xs) with
    | some m, some v => some (m, v)
    | _, _ => none

end NiftyVerif.Welford

namespace NiftyVerif.Welford

variable {K : Type} [Add K] [Sub K] [Mul K] [Div K] [NatCast K]

/-- parallel combination of two non-empty Welford states (Chan et al.); no counterpart in nifty.cl.probing — stated for
    users of the streaming statistics that combine partial results -/
def wMerge (a b : WState K) : WState K :=
  let n := a.count + b.count
  let delta := b.mean - a.mean
  ⟨n, a.mean + delta * ((b.count : K) / (n : K)),
   a.m2 + b.m2 + delta * delta * ((a.count : K) * (b.count : K) / (n : K))⟩

end NiftyVerif.Welford
