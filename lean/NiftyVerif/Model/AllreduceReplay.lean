/-
  Executable replay of an OBSERVED global order of communicator events (as recorded by the fake MPI hub during a real
  run of `allreduce_sum`) in the transition system of Model/AllreduceFull.lean: each observed rendezvous / collective
  must be an enabled transition of the model (local additions are invisible to the communicator and are performed
  silently when a rank's turn comes).  Core imports only.
-/
import NiftyVerif.Model.AllreduceFull

namespace NiftyVerif.Allreduce

/-- executable state: rank `r`'s remaining program at index `r` -/
structure XSt where
  progs : List (List FAct)
  store : Store

def XSt.toF (x : XSt) : FSt := ⟨fun r => x.progs.getD r [], x.store⟩

/-- what the hub observes -/
inductive Obs where
  | p2p (sender receiver : Nat)
  | coll (tag : Nat)
deriving Repr

/-- perform the local additions at the head of rank `r`'s program -/
def flushLoc : Nat → XSt → Nat → XSt
  | 0, x, _ => x
  | f + 1, x, r =>
    match x.progs.getD r [] with
    | .p2p (.loc e) :: rest => flushLoc f ⟨x.progs.set r rest, exec e x.store⟩ r
    | _ => x

def flushAll (fuel : Nat) (x : XSt) : List Nat → XSt
  | [] => x
  | r :: rs => flushAll fuel (flushLoc fuel x r) rs

def xstep (p fuel : Nat) (x : XSt) : Obs → Option XSt
  | .p2p b a =>
    let x2 := flushLoc fuel (flushLoc fuel x a) b
    match x2.progs.getD a [], x2.progs.getD b [] with
    | .p2p (.recv b' e) :: ra, .p2p (.send a' e') :: rb =>
      if b' = b ∧ a' = a ∧ a ≠ b then some ⟨(x2.progs.set a ra).set b rb, execRdv e e' x2.store⟩ else none
    | _, _ => none
  | .coll t =>
    let x2 := flushAll fuel x (List.range p)
    if (List.range p).all (fun r => match x2.progs.getD r [] with | .coll t' :: _ => t' == t | _ => false)
    then some ⟨x2.progs.map List.tail, x2.store⟩ else none

def replay (p fuel : Nat) : XSt → List Obs → Option XSt
  | x, [] => some (flushAll fuel x (List.range p))
  | x, o :: os => match xstep p fuel x o with
    | none => none
    | some x' => replay p fuel x' os

def xInit (p : Nat) (who : Nat → Nat) (pre post : List Nat) (E : List Ev) (init : Store) : XSt :=
  ⟨(List.range p).map (fullProg p who pre post E), init⟩

end NiftyVerif.Allreduce
