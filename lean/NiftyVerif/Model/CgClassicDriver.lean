/-
  C14 line-protocol handler (kept in the library so that `lean --run Driver/C14.lean` does not re-elaborate it on every
  start).  Core imports only.
-/
import NiftyVerif.Core.Proto
import NiftyVerif.Model.RVec
import NiftyVerif.Model.CgClassic
open Lean NiftyVerif NiftyVerif.Proto NiftyVerif.Ctrl NiftyVerif.CgClassic

namespace NiftyVerif.C14Driver

/-!
  C14 model driver.  Vectors are exact rationals; a complex system of size n arrives as real/imaginary parts and is run
  as the real system of size 2n  `[[R, -I], [I, R]]`, `[re; im]`  with `ip` = Euclidean dot product
  (= real part of the Hermitian product).

  ops
  * `{"op":"qe", n, cplx, A, Ai?, b|null, bi?, x, xi?, g|null, gi?}` -> `{"value","grad"}` (exact)
  * `{"op":"cg", n, cplx, A, Ai?, b|null, bi?, x, xi?, P|null, Pi?, ctrl, nreset, fuel, exact}` -> run record
  * `{"op":"ctrl", ctrl, obs:[[gnsq, ginfsq, value], ...]}` -> `{"res":[[status,itcount,ccount],...]}` / raised index
  * `{"op":"ie", n, cplx, op:{mat,mati?,inv,invi?,cap}, approx:null|{...}, x, xi?, mode, ctrl, fuel, exact}`
  numbers out: exact `"p/q"` strings if `exact`, else `[m, e]` meaning `m * 2^e` with a 64-bit mantissa.
-/

def ratMat? (j : Json) (k : String) : Option (List (List Rat)) := (field? j k).bind (listOf? ratList?)

def isNull (j : Json) (k : String) : Bool :=
  match field? j k with
  | none => true
  | some Json.null => true
  | _ => false

/-- `[m, e]` with `m * 2^e ≈ r`, relative error < 2^-62 -/
def approx (r : Rat) : Json :=
  if r.num == 0 then Json.arr #[jInt 0, jInt 0] else
  let nb : Int := (r.num.natAbs.log2 : Int)
  let db : Int := (r.den.log2 : Int)
  let s : Int := 64 - (nb - db)
  let m : Int := if s ≥ 0 then (r.num * (2 ^ s.toNat : Nat)) / (r.den : Int)
                 else r.num / ((r.den : Int) * (2 ^ (-s).toNat : Nat))
  Json.arr #[jInt m, jInt (-s)]

def jNum (exact : Bool) (r : Rat) : Json := if exact then jRat r else approx r
def jVec (exact : Bool) {n : Nat} (v : RVec n) : Json := Json.arr (v.toList.map (jNum exact)).toArray

def embedMat (re : List (List Rat)) (im : Option (List (List Rat))) : List (List Rat) :=
  match im with
  | none => re
  | some im =>
    (List.zipWith (fun r i => r ++ i.map (fun x => -x)) re im) ++ (List.zipWith (fun r i => i ++ r) re im)

def embedVec (re : List Rat) (im : Option (List Rat)) : List Rat :=
  match im with
  | none => re
  | some im => re ++ im

def transposeL (N : Nat) (m : List (List Rat)) : List (List Rat) :=
  (List.range N).map fun j => m.map fun row => row.getD j 0

/-- `norm(inf)**2`: real `max v_i²`, complex `max (re_i² + im_i²)` -/
def ninfsq (cplx : Bool) {N : Nat} (v : RVec N) : Rat :=
  let l := v.toList
  let sq : List Rat :=
    if cplx then List.zipWith (fun a b => a * a + b * b) (l.take (N / 2)) (l.drop (N / 2))
    else l.map fun a => a * a
  sq.foldl (fun a b => if a < b then b else a) 0

def dims (j : Json) : Option (Nat × Bool × Nat) := do
  let n ← fNat? j "n"
  let cplx := (fBool? j "cplx").getD false
  pure (n, cplx, if cplx then 2 * n else n)

/-- parse a (possibly complex) vector stored under keys `k`, `k ++ "i"` -/
def vec? (j : Json) (k : String) (cplx : Bool) (N : Nat) : Option (RVec N) := do
  let re ← fRatList? j k
  let im ← if cplx then (fRatList? j (k ++ "i")).map some else pure none
  RVec.ofList? N (embedVec re im)

def mat? (j : Json) (k : String) (cplx : Bool) (N : Nat) : Option (RVec.Mat N N) := do
  let re ← ratMat? j k
  let im ← if cplx then (ratMat? j (k ++ "i")).map some else pure none
  RVec.matOfLists? N N (embedMat re im)

def matT? (j : Json) (k : String) (cplx : Bool) (N : Nat) : Option (RVec.Mat N N) := do
  let re ← ratMat? j k
  let im ← if cplx then (ratMat? j (k ++ "i")).map some else pure none
  RVec.matOfLists? N N (transposeL N (embedMat re im))

def optRat? (j : Json) (k : String) : Option (Option Rat) :=
  if isNull j k then some none else (fRat? j k).map some
def optInt? (j : Json) (k : String) : Option (Option Int) :=
  if isNull j k then some none else (fInt? j k).map some

def sysOf (cplx : Bool) {N : Nat} (A : RVec.Mat N N) (b : Option (RVec N)) (P : Option (RVec.Mat N N)) :
    Sys (RVec N) Rat :=
  { A := fun v => RVec.matVec A v, b := b, P := P.map fun p => fun v => RVec.matVec p v,
    ip := RVec.dot, ninfsq := ninfsq cplx }

def jStatus (s : Status) : Json := jNat s.code

def jIter (ex : Bool) (it : Iter Rat) : Json :=
  jObj [("curv", jNum ex it.curv), ("alpha", jNum ex it.alpha), ("reset", Json.bool it.reset),
        ("gamma", jNum ex it.gamma), ("value", jNum ex it.value), ("gnsq", jNum ex it.gnsq),
        ("status", match it.status with | none => Json.null | some s => jStatus s), ("ccount", jInt it.ccount)]

def reasonStr : Reason → String
  | .ctrlStart => "ctrlStart" | .gammaZero0 => "gammaZero0" | .curvZero => "curvZero" | .alphaNeg => "alphaNeg"
  | .gammaNeg => "gammaNeg" | .gammaZero => "gammaZero" | .ctrlCheck => "ctrlCheck" | .raised => "raised"
  | .fuel => "fuel"

def jOut (ex : Bool) {N : Nat} {τ : Type} (o : Out (RVec N) Rat τ) : Json :=
  if o.reason == .raised then jErr "ZeroDivisionError" else
  if o.reason == .fuel then jErr "fuel" else
  jObj [("status", jStatus o.status), ("reason", Json.str (reasonStr o.reason)),
        ("pos", jVec ex o.energy.pos), ("grad", jVec ex o.energy.grad), ("value", jNum ex o.energy.value),
        ("itcount", match o.ctrl with | none => Json.null | some s => jInt s.itcount),
        ("ccount", match o.ctrl with | none => Json.null | some s => jInt s.ccount),
        ("nchecked", jNat o.checked.length),
        ("iters", Json.arr (o.iters.map (jIter ex)).toArray)]

/-- run `k` with the controller described by the JSON object `cj` -/
def withCtrl (cj : Json) (k : {τ : Type} → Ctrl Rat τ → Json) : Json :=
  match fStr? cj "type", fInt? cj "level", optInt? cj "limit" with
  | some ty, some level, some limit =>
    match ty with
    | "gradnorm" =>
      match optRat? cj "tol_abs", optRat? cj "tol_rel" with
      | some ta, some tr => k (gradNorm ta tr level limit)
      | _, _ => jErr "bad-ctrl"
    | "gradinf" =>
      match optRat? cj "tol" with
      | some t => k (gradInf t level limit)
      | none => jErr "bad-ctrl"
    | "deltae" =>
      match fRat? cj "tol" with
      | some t => k (deltaE t level limit)
      | none => jErr "bad-ctrl"
    | "absdeltae" =>
      match fRat? cj "tol" with
      | some t => k (absDeltaE t level limit)
      | none => jErr "bad-ctrl"
    | "stochastic" =>
      match fRat? cj "tol", fInt? cj "memlen" with
      | some t, some ml => k (stochastic t level limit ml)
      | _, _ => jErr "bad-ctrl"
    | _ => jErr "bad-ctrl"
  | _, _, _ => jErr "bad-ctrl"

def obsOf? (j : Json) : Option (Obs Rat) :=
  match ratList? j with
  | some [a, b, c] => some { gnsq := a, ginfsq := b, value := c }
  | _ => none

/-- replay a controller on a list of observations: one `[status,itcount,ccount]` per call, stops where it raises -/
def replayCtrl {τ : Type} (c : Ctrl Rat τ) (os : List (Obs Rat)) : Json :=
  match os with
  | [] => jObj [("res", Json.arr #[])]
  | o :: rest =>
    let rec go (s : St τ) (l : List (Obs Rat)) (acc : Array Json) : Array Json × Bool :=
      match l with
      | [] => (acc, false)
      | o :: l' =>
        match c.check s o with
        | none => (acc, true)
        | some (s', st) => go s' l' (acc.push (Json.arr #[jStatus st, jInt s'.itcount, jInt s'.ccount]))
    match c.start o with
    | none => jObj [("res", Json.arr #[]), ("raised", Json.bool true)]
    | some (s, st) =>
      let (acc, raised) := go s rest #[Json.arr #[jStatus st, jInt s.itcount, jInt s.ccount]]
      jObj [("res", Json.arr acc), ("raised", Json.bool raised)]

def linOp? (j : Json) (cplx : Bool) (N : Nat) : Option (LinOp (RVec N)) := do
  let cap ← fNat? j "cap"
  let m ← mat? j "mat" cplx N
  let mt ← matT? j "mat" cplx N
  let mi ← mat? j "inv" cplx N
  let mit ← matT? j "inv" cplx N
  pure { capability := cap,
         apply := fun x mode =>
           if mode == 1 then RVec.matVec m x else if mode == 2 then RVec.matVec mt x
           else if mode == 4 then RVec.matVec mi x else RVec.matVec mit x }

def handle (j : Json) : Json :=
  match fStr? j "op", dims j with
  | some "ctrl", _ =>
    match field? j "ctrl", (field? j "obs").bind (listOf? obsOf?) with
    | some cj, some os => withCtrl cj fun c => replayCtrl c os
    | _, _ => jErr "bad-args"
  | some "qe", some (_, cplx, N) =>
    match mat? j "A" cplx N, vec? j "x" cplx N with
    | some A, some x =>
      let b := if isNull j "b" then some none else (vec? j "b" cplx N).map some
      let g := if isNull j "g" then some none else (vec? j "g" cplx N).map some
      match b, g with
      | some b, some g =>
        let S := sysOf cplx A b none
        let E := QE.make S x g
        jObj [("value", jRat E.value), ("grad", jVec true E.grad)]
      | _, _ => jErr "bad-args"
    | _, _ => jErr "bad-args"
  | some "cg", some (_, cplx, N) =>
    let ex := (fBool? j "exact").getD false
    match mat? j "A" cplx N, vec? j "x" cplx N, fInt? j "nreset", fNat? j "fuel", field? j "ctrl" with
    | some A, some x, some nreset, some fuel, some cj =>
      let b := if isNull j "b" then some none else (vec? j "b" cplx N).map some
      let P := if isNull j "P" then some none else (mat? j "P" cplx N).map some
      match b, P with
      | some b, some P =>
        let S := sysOf cplx A b P
        withCtrl cj fun c => jOut ex (cg S c nreset fuel (QE.make S x none))
      | _, _ => jErr "bad-args"
    | _, _, _, _, _ => jErr "bad-args"
  | some "ie", some (_, cplx, N) =>
    let ex := (fBool? j "exact").getD false
    match (field? j "opm").bind (linOp? · cplx N), vec? j "x" cplx N, fNat? j "mode", fNat? j "fuel",
          field? j "ctrl" with
    | some op, some x, some mode, some fuel, some cj =>
      let ap := if isNull j "approx" then some none else ((field? j "approx").bind (linOp? · cplx N)).map some
      match ap with
      | some ap =>
        withCtrl cj fun c =>
          match inversionEnabler op ap c RVec.dot (ninfsq cplx) (0 : RVec N) fuel x mode with
          | .notImplemented => jErr "NotImplementedError"
          | .raised => jErr "ZeroDivisionError"
          | .direct y => jObj [("kind", Json.str "direct"), ("y", jVec ex y)]
          | .solved y run =>
            if run.reason == .raised then jErr "ZeroDivisionError" else
            if run.reason == .fuel then jErr "fuel" else
            -- modes in which the underlying operator / approximation are finally applied (same `flip` code path,
            -- on probe operators that return the mode they receive)
            let lm := (ilog mode).getD 0
            let probe : LinOp Nat := { capability := op.capability, apply := fun _ m => m }
            let opmode := (probe.flip ((ilog (modeTable INVERSE_BIT lm)).getD 0)).apply 0 TIMES
            let apmode := (probe.flip lm).apply 0 TIMES
            jObj [("kind", Json.str "solved"), ("y", jVec ex y), ("run", jOut ex run),
                  ("opmode", jNat opmode), ("apmode", jNat apmode)]
      | none => jErr "bad-args"
    | _, _, _, _, _ => jErr "bad-args"
  | _, _ => jErr "bad-op"


end NiftyVerif.C14Driver
