/-
  Model of how the classic VI code distributes per-sample work over MPI tasks
  (`nifty/cl/minimization/kl_energies.py::draw_samples`, `sample_list.py::_compute_local_indices`,
  `SampleListBase._prepare_average/average`).  Core imports only.

  draw_samples (non-geometric and geometric alike):

      sseq = random.spawn_sseq(n_samples)
      if mirror_samples: sseq = reduce(lambda a, b: a+b, [[ss]*2 for ss in sseq])     # sseq[i] = orig[i // 2]
      y = None
      for i in range(*shareRange(len(sseq), ntask, rank)):
          with random.Context(sseq[i]):
              neg = mirror_samples and (i % 2 != 0)
              if not neg or y is None:
                  y, yi = met.special_draw_sample(True)        # a function of sseq[i] only (C21)
              local_samples.append(yi); local_neg.append(neg)   # (geometric: a deterministic function of (y, neg))

  A draw inside `Context(s)` is a function of the seed sequence `s` alone (property C21, theorem
  `draws_depend_only_on_seed`); here it is the uninterpreted `draw : seed index → Y`.
-/
import NiftyVerif.Gen.ShareRange

namespace NiftyVerif.Distributed
open NiftyVerif.Gen

/-- index into the ORIGINAL spawned list of the seed sequence used for global sample `i` -/
def seedIdx (mirror : Bool) (i : Nat) : Nat := if mirror then i / 2 else i

/-- `neg = mirror_samples and i % 2 != 0` -/
def isNeg (mirror : Bool) (i : Nat) : Bool := mirror && (i % 2 != 0)

/-- number of work items: `len(sseq)` -/
def nWork (mirror : Bool) (nSamples : Nat) : Nat := if mirror then 2 * nSamples else nSamples

/-- `if not neg or y is None: y = draw()` — the value of `y` after the body for index `i` -/
def nextY {Y} (draw : Nat → Y) (mirror : Bool) (i : Nat) : Option Y → Y
  | none => draw (seedIdx mirror i)
  | some y0 => if !isNeg mirror i then draw (seedIdx mirror i) else y0

/-- the loop body over a list of global indices, threading the variable `y` -/
def localLoop {Y} (draw : Nat → Y) (mirror : Bool) : List Nat → Option Y → List (Y × Bool)
  | [], _ => []
  | i :: rest, y => (nextY draw mirror i y, isNeg mirror i) :: localLoop draw mirror rest (some (nextY draw mirror i y))

/-- the global indices task `r` of `p` processes: `range(*shareRange(n, p, r))` -/
def localIndices (n p r : Nat) : List Nat :=
  let (lo, hi) := shareRange n p r
  List.range' lo (hi - lo)

/-- the `(y, neg)` pairs task `r` of `p` produces -/
def localSamples {Y} (draw : Nat → Y) (mirror : Bool) (nSamples p r : Nat) : List (Y × Bool) :=
  localLoop draw mirror (localIndices (nWork mirror nSamples) p r) none

/-- all tasks' results in rank order (what `iterator()` / the ordered partition of `allreduce_sum` sees) -/
def allSamples {Y} (draw : Nat → Y) (mirror : Bool) (nSamples p : Nat) : List (Y × Bool) :=
  (List.range p).flatMap (localSamples draw mirror nSamples p)

/-- `_compute_local_indices`: `start = sum(n_locals[:rank]); range(start, start+n_local)` -/
def computeLocalIndices (nLocals : List Nat) (rank : Nat) : List Nat :=
  List.range' ((nLocals.take rank).foldl (· + ·) 0) (nLocals.getD rank 0)

end NiftyVerif.Distributed

/-!
### The MAP path (`n_samples == 0`), `_single_value_sample_list` and the sync checks of `optimize_kl`

    check_MPI_synced_random_state(comm); check_MPI_equality(lh.domain, comm); check_MPI_equality(mean.domain, comm)
    check_MPI_equality(mean, comm, hash=True)                # len(set(comm.allgather(blake2b(pickle.dumps(obj))))) == 1
    if n_samples == 0:
        if comm is None:  e, _ = minimizer(e); mean = union(mean, e.position); sl = SampleList([mean])
        else:
            if master:  e, _ = minimizer(e); mean = union(mean, e.position)
            else:       mean = None
            _barrier(comm); mean = comm.bcast(mean, root=0); sl = _single_value_sample_list(mean, comm)
    else:
        e = SampledKLEnergy(..., comm=comm); e, _ = minimizer(e); mean = union(mean, e.position); sl = e.samples.at(mean)

`check_MPI_equality` compares PICKLES.  The pickle of a NIFTy Field is not a fixed point of a pickle round trip
(observed on the real code: 584 bytes for a freshly built Field, 618 for its unpickled copy, stable afterwards), so an
object carries, besides its value, whether it has been through a round trip.  `comm.bcast` (mpi4py `PyMPI_bcast`:
`dosend = dorecv = 1` on the root; `mpi4py.util.pkl5._bcast_intra` likewise) unpickles on EVERY rank, the root included.
-/
namespace NiftyVerif.Distributed

/-- has the object been through `pickle.loads(pickle.dumps(·))`? -/
inductive Rep where
  | fresh | copied
deriving DecidableEq, Repr

structure Obj (V : Type) where
  val : V
  rep : Rep
deriving DecidableEq, Repr

/-- what `pickle.dumps` distinguishes -/
def pickleForm {V} (o : Obj V) : V × Rep := (o.val, o.rep)

def roundTrip {V} (o : Obj V) : Obj V := ⟨o.val, .copied⟩

/-- `comm.bcast(obj, root=0)` as mpi4py implements it: every rank, the root too, unpickles the root's bytes.
    Result: (what the root holds afterwards, what every other task holds afterwards) -/
def bcastCopy {V} (o : Obj V) : Obj V × Obj V := (roundTrip o, roundTrip o)

/-- a DIFFERENT communicator semantics (not mpi4py's): the root keeps its own object, the others get copies -/
def bcastRootKeeps {V} (o : Obj V) : Obj V × Obj V := (o, roundTrip o)

/-- per-task state of the driver between iterations: the current mean and the top-level RNG state -/
structure RankSt (V R : Type) where
  mean : Obj V
  rng : R

/-- all tasks of a communicator: the master (rank 0) and the others — any number of them, also none -/
structure World (V R : Type) where
  master : RankSt V R
  others : List (RankSt V R)

/-- `check_MPI_equality(mean, comm, hash=True)` and `check_MPI_synced_random_state(comm)`:
    `len(set(comm.allgather(pickle)))) == 1` for the mean and for the RNG state -/
def synced {V R} [DecidableEq V] [DecidableEq R] (w : World V R) : Bool :=
  w.others.all (fun s => decide (pickleForm s.mean = pickleForm w.master.mean) && decide (s.rng = w.master.rng))

/-- iteration kinds: MAP (`n_samples == 0`) or sampled -/
inductive Mode where
  | map | sampled
deriving DecidableEq, Repr

/-- one iteration on all tasks.  `mapStep` / `klStep` are the (deterministic) minimisation results as functions of the
    current mean value (for the sampled case the value is the same on every task by the partition-independence
    theorems of C22); sampling happens inside `Context(sseq[i])`, which restores the generator (C21), and the
    minimisers do not draw, so the top-level RNG state advances by the same `tick` on every task.
    `bc` is the broadcast of the MAP branch.  Returns the new world and whether the check inside
    `_single_value_sample_list` (MAP branch only) passed. -/
def iterate {V R} [DecidableEq V] [DecidableEq R] (bc : Obj V → Obj V × Obj V) (mapStep klStep : V → V)
    (tick : R → R) : Mode → World V R → World V R × Bool
  | .sampled, w =>
    let upd := fun (s : RankSt V R) => (⟨⟨klStep s.mean.val, .fresh⟩, tick s.rng⟩ : RankSt V R)
    (⟨upd w.master, w.others.map upd⟩, true)
  | .map, w =>
    -- master: `mean = union(mean, minimizer(e).position)`, a freshly built object; then `comm.bcast(mean, root=0)`
    let r := bc ⟨mapStep w.master.mean.val, .fresh⟩
    let w' : World V R := ⟨⟨r.1, tick w.master.rng⟩, w.others.map (fun s => ⟨r.2, tick s.rng⟩)⟩
    (w', synced w')

/-- the driver loop: before every iteration the sync checks, in the MAP branch the check of
    `_single_value_sample_list`; `true` iff no check ever raises "MPI tasks are not in sync" -/
def checksPass {V R} [DecidableEq V] [DecidableEq R] (bc : Obj V → Obj V × Obj V) (mapStep klStep : V → V)
    (tick : R → R) : List Mode → World V R → Bool
  | [], _ => true
  | m :: ms, w =>
    let r := iterate bc mapStep klStep tick m w
    synced w && r.2 && checksPass bc mapStep klStep tick ms r.1

/-- `_single_value_sample_list(mean, comm)`: the master holds the one sample, every other task an empty list -/
def singleValueCounts (p : Nat) : List Nat := (List.range p).map (fun r => if r = 0 then 1 else 0)

end NiftyVerif.Distributed
