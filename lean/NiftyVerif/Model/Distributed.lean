/-
  Model of how the classic VI code distributes per-sample work over MPI tasks
  (`nifty/cl/minimization/kl_energies.py::draw_samples`, `sample_list.py::_compute_local_indices`,
  `SampleListBase._prepare_average/average`).  Core imports only.

  draw_samples (non-geometric and geometric alike):

      sseq = random.spawn_sseq(n_samples)
      if mirror_samples: sseq = reduce(lambda a, b: a+b, [[ss]*2 for ss in sseq])     # sseq[i] = orig[i // 2]
      y = None
      for i in range(*shareRange(len(sseq), ntask, rank)):
          with random.Context(sseq[i]):
              neg = mirror_samples and (i % 2 != 0)
              if not neg or y is None:
                  y, yi = met.special_draw_sample(True)        # a function of sseq[i] only (C21)
              local_samples.append(yi); local_neg.append(neg)   # (geometric: a deterministic function of (y, neg))

  A draw inside `Context(s)` is a function of the seed sequence `s` alone (property C21, theorem
  `draws_depend_only_on_seed`); here it is the uninterpreted `draw : seed index → Y`.
-/
import NiftyVerif.Gen.ShareRange

namespace NiftyVerif.Distributed
open NiftyVerif.Gen

/-- index into the ORIGINAL spawned list of the seed sequence used for global sample `i` -/
def seedIdx (mirror : Bool) (i : Nat) : Nat := if mirror then i / 2 else i

/-- `neg = mirror_samples and i % 2 != 0` -/
def isNeg (mirror : Bool) (i : Nat) : Bool := mirror && (i % 2 != 0)

/-- number of work items: `len(sseq)` -/
def nWork (mirror : Bool) (nSamples : Nat) : Nat := if mirror then 2 * nSamples else nSamples

/-- `if not neg or y is None: y = draw()` — the value of `y` after the body for index `i` -/
def nextY {Y} (draw : Nat → Y) (mirror : Bool) (i : Nat) : Option Y → Y
  | none => draw (seedIdx mirror i)
  | some y0 => if !isNeg mirror i then draw (seedIdx mirror i) else y0

/-- the loop body over a list of global indices, threading the variable `y` -/
def localLoop {Y} (draw : Nat → Y) (mirror : Bool) : List Nat → Option Y → List (Y × Bool)
  | [], _ => []
  | i :: rest, y => (nextY draw mirror i y, isNeg mirror i) :: localLoop draw mirror rest (some (nextY draw mirror i y))

/-- the global indices task `r` of `p` processes: `range(*shareRange(n, p, r))` -/
def localIndices (n p r : Nat) : List Nat :=
  let (lo, hi) := shareRange n p r
  List.range' lo (hi - lo)

/-- the `(y, neg)` pairs task `r` of `p` produces -/
def localSamples {Y} (draw : Nat → Y) (mirror : Bool) (nSamples p r : Nat) : List (Y × Bool) :=
  localLoop draw mirror (localIndices (nWork mirror nSamples) p r) none

/-- all tasks' results in rank order (what `iterator()` / the ordered partition of `allreduce_sum` sees) -/
def allSamples {Y} (draw : Nat → Y) (mirror : Bool) (nSamples p : Nat) : List (Y × Bool) :=
  (List.range p).flatMap (localSamples draw mirror nSamples p)

/-- `_compute_local_indices`: `start = sum(n_locals[:rank]); range(start, start+n_local)` -/
def computeLocalIndices (nLocals : List Nat) (rank : Nat) : List Nat :=
  List.range' ((nLocals.take rank).foldl (· + ·) 0) (nLocals.getD rank 0)

end NiftyVerif.Distributed
