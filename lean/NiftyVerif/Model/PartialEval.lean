/-
  C04 — `Operator.simplify_for_constant_input` as partial evaluation on the expression model (Model/Expr.lean),
  `Linearization.make_partial_var`, and `EnergyAdapter(constants=…)`.   Core only.

  `pe ck cs e` transcribes the generic rule (`operator.py: simplify_for_constant_input`) and the per-class
  `_simplify_for_constant_input_nontrivial` of `_OpChain` (innermost operator only), `_OpProd`, `_OpSum`
  (both operands, each with `c_inp.extract_part(op.domain)`):
     * an operand none of whose keys is constant is returned unchanged (`c_inp` empty),
     * an operand all of whose keys are constant becomes `ConstantOperator(op(c_inp))`
       (`ConstantEnergyOperator` for energies),
     * otherwise the class-specific rule recurses.
  The "constant part of the output" (`c_out`, `ConstCollector`) is `None` for every operator of the library
  (all base cases return `None`, so `ConstCollector._const` is never set): the model has no `c_out`.
-/
import NiftyVerif.Model.Expr

namespace NiftyVerif.Expr

section defs
variable {K : Type} [Zero K] [Add K] [Sub K] [Mul K] [Div K] [Neg K] [OfScientific K]
  [LT K] [DecidableLT K] [LE K] [DecidableLE K] [Transc K] [Conj K]

def allConst (ck : List String) (d : Dom) : Bool := d.all (fun kn => ck.contains kn.1)
def noneConst (ck : List String) (d : Dom) : Bool := d.all (fun kn => !ck.contains kn.1)

/-- the full input: constants `cs` on the keys `ck`, the variable input `ρ` elsewhere (`x.unite(c_inp)`) -/
def insertC (ck : List String) (cs ρ : MVal K) : MVal K := fun k => if ck.contains k then cs k else ρ k
/-- a tangent / cotangent with the constant keys zeroed -/
def zeroC (ck : List String) (h : MVal K) : MVal K := fun k i => if ck.contains k then 0 else h k i

/-- is the real operator a (likelihood) `EnergyOperator` instance (decides Constant*Energy*Operator) -/
def Ex.isLH : Ex K → Bool
  | .gauss _ _ _ => true
  | .varcov _ _ _ => true
  | .scale _ a => a.isLH
  | .add a b => a.isLH && b.isLH
  | .chain f _ => f.isLH
  | .const en _ _ => en
  | _ => false

/-- the generic rule of `simplify_for_constant_input` around the class-specific result `e'` -/
def collapse (ck : List String) (cs : MVal K) (e e' : Ex K) : Ex K :=
  if e.inDom.isEmpty then e
  else if allConst ck e.inDom then .const e.isLH e.dom (eval e cs)
  else if noneConst ck e.inDom then e
  else e'

/-- partial evaluation for the constant keys `ck` with values `cs` -/
def pe (ck : List String) (cs : MVal K) : Ex K → Ex K
  | .var k n => collapse ck cs (.var k n) (.var k n)
  | .add a b => collapse ck cs (.add a b) (.add (pe ck cs a) (pe ck cs b))
  | .sub a b => collapse ck cs (.sub a b) (.sub (pe ck cs a) (pe ck cs b))
  | .mul a b => collapse ck cs (.mul a b) (.mul (pe ck cs a) (pe ck cs b))
  | .scale c a => collapse ck cs (.scale c a) (.scale c (pe ck cs a))
  | .addc c neg a => collapse ck cs (.addc c neg a) (.addc c neg (pe ck cs a))
  | .mulc d a => collapse ck cs (.mulc d a) (.mulc d (pe ck cs a))
  | .ptw f p a => collapse ck cs (.ptw f p a) (.ptw f p (pe ck cs a))
  | .lin m n rows a => collapse ck cs (.lin m n rows a) (.lin m n rows (pe ck cs a))
  | .sum a => collapse ck cs (.sum a) (.sum (pe ck cs a))
  | .vdot a b => collapse ck cs (.vdot a b) (.vdot (pe ck cs a) (pe ck cs b))
  | .getKey k a => collapse ck cs (.getKey k a) (.getKey k (pe ck cs a))
  | .putKey k a => collapse ck cs (.putKey k a) (.putKey k (pe ck cs a))
  | .chain f g => collapse ck cs (.chain f g) (.chain f (pe ck cs g))
  | .sqnorm a => collapse ck cs (.sqnorm a) (.sqnorm (pe ck cs a))
  | .quad d a => collapse ck cs (.quad d a) (.quad d (pe ck cs a))
  | .gauss data icov a => collapse ck cs (.gauss data icov a) (.gauss data icov (pe ck cs a))
  | .const en d v => .const en d v
  | .bil m na nb T a b => collapse ck cs (.bil m na nb T a b) (.bil m na nb T (pe ck cs a) (pe ck cs b))
  | .varcov n a b => collapse ck cs (.varcov n a b) (.varcov n (pe ck cs a) (pe ck cs b))

/-! ### the constant part of the output (`c_out`, `ConstCollector`) -/

/-- a constant multi-field: keys with their entries -/
abbrev CField (K : Type) := List (String × (Nat → K))

def CField.get (f : CField K) (k : String) : Nat → K :=
  match f.find? (·.1 == k) with
  | some kv => kv.2
  | none => fun _ => 0

/-- `ConstCollector`: the accumulated constant field and the keys known to be non-constant -/
structure CC (K : Type) where
  const : Option (CField K)
  nc : List String

def CC.empty : CC K := ⟨none, []⟩

/-- `ConstCollector.mult(const, fulldom)` -/
def CC.mult (cc : CC K) (c : Option (CField K)) (tgt : List String) : CC K :=
  match c with
  | none => ⟨cc.const, cc.nc ++ tgt⟩
  | some f =>
    let nc := cc.nc ++ tgt.filter (fun k => !(f.any (·.1 == k)))
    let keep := f.filter (fun kv => !nc.contains kv.1)
    match cc.const with
    | none => ⟨some keep, nc⟩
    | some g => ⟨some (keep.map (fun kv => (kv.1, fun i => g.get kv.1 i * kv.2 i))), nc⟩

/-- `ConstCollector.add(const, fulldom)` AS CODED: `self._const = const if self._const is None else self._const.unite(const)`
    is immediately overwritten by `MultiField.from_dict({key: const[key] …})` — the accumulated field is lost
    (DESIGN.md §6 #10).  `cout_none` below shows the branch is unreachable: no operator produces a constant output. -/
def CC.add (cc : CC K) (c : Option (CField K)) (tgt : List String) : CC K :=
  match c with
  | none => ⟨cc.const, cc.nc ++ tgt⟩
  | some f =>
    let nc := cc.nc ++ tgt.filter (fun k => !(f.any (·.1 == k)))
    ⟨some (f.filter (fun kv => !nc.contains kv.1)), nc⟩

def Dom.keys (d : Dom) : List String := d.map (·.1)
def Dom.isMulti (d : Dom) : Bool := !(d.all (fun kn => kn.1 == ""))

/-- the constant output part returned next to the simplified operator.  Generic rule: `None` in every branch
    (unchanged / collapsed to a constant / fallback); `_OpSum`, `SumOperator`: `ConstCollector.add` over the operands for
    multi-domain targets; `_OpProd`: `ConstCollector.mult`; chains hand the inner result on. -/
def cout (ck : List String) (cs : MVal K) : Ex K → Option (CField K)
  | .var _ _ => none
  | .const _ _ _ => none
  | .add a b => if (Ex.add a b).dom.isMulti then
      ((CC.empty.add (cout ck cs a) a.dom.keys).add (cout ck cs b) b.dom.keys).const else none
  | .sub a b => if (Ex.sub a b).dom.isMulti then
      ((CC.empty.add (cout ck cs a) a.dom.keys).add (cout ck cs b) b.dom.keys).const else none
  | .mul a b => if (Ex.mul a b).dom.isMulti then
      ((CC.empty.mult (cout ck cs a) a.dom.keys).mult (cout ck cs b) b.dom.keys).const else none
  | .scale _ a => cout ck cs a
  | .addc _ _ a => cout ck cs a
  | .mulc _ a => cout ck cs a
  | .ptw _ _ a => cout ck cs a
  | .lin _ _ _ a => cout ck cs a
  | .sum a => cout ck cs a
  | .vdot a b => ((CC.empty.mult (cout ck cs a) a.dom.keys).mult (cout ck cs b) b.dom.keys).const
  | .getKey _ a => cout ck cs a
  | .putKey _ a => cout ck cs a
  | .chain _ g => cout ck cs g
  | .sqnorm a => cout ck cs a
  | .quad _ a => cout ck cs a
  | .gauss _ _ a => cout ck cs a
  | .bil _ _ _ _ a b => ((CC.empty.mult (cout ck cs a) a.dom.keys).mult (cout ck cs b) b.dom.keys).const
  | .varcov _ a b => ((CC.empty.add (cout ck cs a) a.dom.keys).add (cout ck cs b) b.dom.keys).const

/-- `op(Linearization.make_partial_var(ρ, ck, wm))`: `Operator.__call__` prepends the block-diagonal 0/1 Jacobian -/
def linPartial (e : Ex K) (ρ : MVal K) (ck : List String) (wm : Bool) : Lz K :=
  let l := lin e ρ wm
  { val := l.val, jac := fun h => l.jac (zeroC ck h), adj := fun y => zeroC ck (l.adj y),
    metric := l.metric.map (fun M h => zeroC ck (M (zeroC ck h))) }

end defs
end NiftyVerif.Expr
