/-
  Model of `nifty/cl/random.py`: the two parallel stacks `_sseq` / `_rng`, `push_sseq`, `push_sseq_from_seed`, `pop_sseq`,
  `spawn_sseq`, `current_rng()` draws, and `Context.__enter__/__exit__` including exceptions.  Core imports only.

      def push_sseq(sseq):   _sseq.append(sseq); _rng.append(np.random.default_rng(_sseq[-1]))
      def pop_sseq():        _sseq.pop(); _rng.pop()
      def spawn_sseq(n, parent=None):  parent = _sseq[-1] if parent is None; return parent.spawn(n)
      class Context:
          def __init__(self, inp):  self._sseq = inp if isinstance(inp, SeedSequence) else SeedSequence(inp)
          def __enter__(self):      self._depth = len(_sseq); push_sseq(self._sseq)
          def __exit__(self, exc_type, exc_value, tb):
              pop_sseq()
              if self._depth != len(_sseq): raise RuntimeError("inconsistent RNG usage detected")
              return exc_type is None

  * NumPy `SeedSequence` objects are mutable and shared by reference (`spawn` advances `n_children_spawned`): they live
    in a heap, stack frames hold references.  `SeedSequence.spawn(n)` gives the children the spawn keys
    `parent.spawn_key + (n_children_spawned + i,)`.
  * `default_rng(sseq)` is a fresh generator determined by `(entropy, spawn_key)`; the value of a draw is an
    uninterpreted function of `(entropy, spawn_key, all requests made on this generator so far)` — the model's token.
  * programs are written in continuation style so that `with Context(...): body` nests structurally.
-/
namespace NiftyVerif.Rng

structure SeqObj where
  entropy : Nat
  key : List Nat
  nSpawned : Nat
deriving DecidableEq, Repr

/-- generator state = what determines its future output: the seed it was made from and the requests served so far -/
structure Gen where
  entropy : Nat
  key : List Nat
  hist : List Nat
deriving DecidableEq, Repr

structure Frame where
  ref : Nat
  gen : Gen
deriving DecidableEq, Repr

structure St where
  heap : List SeqObj
  stack : List Frame          -- head = top (`_sseq[-1]`, `_rng[-1]`)
  lastSpawn : List Nat        -- references returned by the most recent `spawn_sseq`
  out : List Gen              -- log of draw tokens, in program order
deriving Repr

inductive Exc where
  | indexError | runtimeError | user (tag : Nat)
deriving DecidableEq, Repr

inductive Outcome where
  | ok | exc (e : Exc)
deriving DecidableEq, Repr

/-- where a seed sequence comes from: a fresh `SeedSequence(seed)`, or element `i` of the last spawn result -/
inductive SeedSpec where
  | seed (n : Nat)
  | last (i : Nat)
deriving DecidableEq, Repr

inductive Prog where
  | done
  | raise (tag : Nat)
  | push (s : SeedSpec) (k : Prog)
  | pop (k : Prog)
  | draw (req : Nat) (k : Prog)
  | spawn (n : Nat) (k : Prog)
  | ctx (s : SeedSpec) (body : Prog) (k : Prog)
deriving Repr

def depth (st : St) : Nat := st.stack.length

/-- evaluate a seed spec to a heap reference (allocating for `seed n`); `none` = IndexError of `sseq[i]` -/
def resolve (st : St) : SeedSpec → Option (St × Nat)
  | .seed n => some ({ st with heap := st.heap ++ [⟨n, [], 0⟩] }, st.heap.length)
  | .last i => (st.lastSpawn[i]?).map (fun r => (st, r))

def mkGen (o : SeqObj) : Gen := ⟨o.entropy, o.key, []⟩

/-- `push_sseq(obj)` -/
def pushRef (st : St) (r : Nat) : St :=
  { st with stack := ⟨r, mkGen (st.heap.getD r ⟨0, [], 0⟩)⟩ :: st.stack }

/-- children of `SeedSequence.spawn(n)` -/
def children (o : SeqObj) (n : Nat) : List SeqObj :=
  (List.range n).map (fun i => ⟨o.entropy, o.key ++ [o.nSpawned + i], 0⟩)

def setStack (st : St) (l : List Frame) : St := { st with stack := l }

/-- state after `current_rng().<draw>(req)` when the top frame is `f` -/
def drawSt (st : St) (f : Frame) (rest : List Frame) (req : Nat) : St :=
  { st with stack := { f with gen := { f.gen with hist := f.gen.hist ++ [req] } } :: rest,
            out := st.out ++ [{ f.gen with hist := f.gen.hist ++ [req] }] }

/-- state after `spawn_sseq(n)` when the top frame is `f`: the parent's counter advances, the children are new objects -/
def spawnSt (st : St) (f : Frame) (n : Nat) : St :=
  let o := st.heap.getD f.ref ⟨0, [], 0⟩
  let heap1 := st.heap.set f.ref { o with nSpawned := o.nSpawned + n }
  { st with heap := heap1 ++ children o n, lastSpawn := (List.range n).map (fun i => heap1.length + i) }

structure Res where
  st : St
  out : Outcome
  low : Nat       -- the minimal stack depth reached during the execution (ghost, for stating "never pops below")

def exec : Prog → St → Res
  | .done, st => ⟨st, .ok, depth st⟩
  | .raise t, st => ⟨st, .exc (.user t), depth st⟩
  | .push s k, st =>
    match resolve st s with
    | none => ⟨st, .exc .indexError, depth st⟩
    | some (st1, r) =>
      let res := exec k (pushRef st1 r)
      ⟨res.st, res.out, min (depth st) res.low⟩
  | .pop k, st =>
    match st.stack with
    | [] => ⟨st, .exc .indexError, depth st⟩
    | _ :: rest =>
      let res := exec k (setStack st rest)
      ⟨res.st, res.out, min (depth st) res.low⟩
  | .draw req k, st =>
    match st.stack with
    | [] => ⟨st, .exc .indexError, depth st⟩
    | f :: rest => exec k (drawSt st f rest req)
  | .spawn n k, st =>
    match st.stack with
    | [] => ⟨st, .exc .indexError, depth st⟩
    | f :: _ => exec k (spawnSt st f n)
  | .ctx s body k, st =>
    match resolve st s with
    | none => ⟨st, .exc .indexError, depth st⟩
    | some (st1, r) =>
      let d := depth st1                        -- __enter__: self._depth = len(_sseq)
      let rb := exec body (pushRef st1 r)       -- push_sseq; body
      match rb.st.stack with                    -- __exit__: pop_sseq()
      | [] => ⟨rb.st, .exc .indexError, 0⟩
      | _ :: rest =>
        let st4 : St := setStack rb.st rest
        if rest.length ≠ d then ⟨st4, .exc .runtimeError, min (min (depth st) rb.low) rest.length⟩
        else match rb.out with
          | .exc e => ⟨st4, .exc e, min (min (depth st) rb.low) rest.length⟩
          | .ok =>
            let rk := exec k st4
            ⟨rk.st, rk.out, min (min (min (depth st) rb.low) rest.length) rk.low⟩

def initSt : St := ⟨[⟨42, [], 0⟩], [⟨0, ⟨42, [], []⟩⟩], [], []⟩

/-- programs that manage the stack through `Context` only (no raw push/pop) -/
def ctxOnly : Prog → Bool
  | .done => true
  | .raise _ => true
  | .push _ _ => false
  | .pop _ => false
  | .draw _ k => ctxOnly k
  | .spawn _ k => ctxOnly k
  | .ctx _ body k => ctxOnly body && ctxOnly k

/-- a body that only draws -/
def draws : List Nat → Prog
  | [] => .done
  | r :: rs => .draw r (draws rs)

/-- the tokens a fresh generator for `(e, k)` produces for the requests `rs` -/
def tokens (e : Nat) (k : List Nat) : List Nat → List Nat → List Gen
  | _, [] => []
  | pre, r :: rs => ⟨e, k, pre ++ [r]⟩ :: tokens e k (pre ++ [r]) rs

end NiftyVerif.Rng

namespace NiftyVerif.Rng

/-- JAX side, `OptimizeVI.update`: `key, sk = random.split(key, 2)` once per update, before and independently of the
    sampling decision; `split` is uninterpreted -/
def keyAt {Key} (split : Key → Key × Key) (k0 : Key) : Nat → Key
  | 0 => k0
  | i + 1 => (split (keyAt split k0 i)).1

/-- one update: returns (new state key, the key handed to draw_samples); `mode` (sample mode of this iteration) is
    deliberately not used -/
def updateKey {Key Mode} (split : Key → Key × Key) (key : Key) (_mode : Mode) : Key × Key := split key

def runKeys {Key Mode} (split : Key → Key × Key) : Key → List Mode → Key × List Key
  | k, [] => (k, [])
  | k, m :: ms =>
    let r := updateKey split k m
    let rest := runKeys split r.1 ms
    (rest.1, r.2 :: rest.2)

end NiftyVerif.Rng
