/-
  Gaussian rationals and small dense matrices over them (driver instantiation of the operator-algebra model, C01/C13).
  Core imports only. Everything is exact.
-/
namespace NiftyVerif.GaussMat

/-- a Gaussian rational `re + i·im` -/
structure GR where
  re : Rat
  im : Rat
deriving BEq, Repr, Inhabited

namespace GR
def zero : GR := ⟨0, 0⟩
def one : GR := ⟨1, 0⟩
def ofRat (q : Rat) : GR := ⟨q, 0⟩
def add (a b : GR) : GR := ⟨a.re + b.re, a.im + b.im⟩
def neg (a : GR) : GR := ⟨-a.re, -a.im⟩
def sub (a b : GR) : GR := ⟨a.re - b.re, a.im - b.im⟩
def mul (a b : GR) : GR := ⟨a.re * b.re - a.im * b.im, a.re * b.im + a.im * b.re⟩
def conj (a : GR) : GR := ⟨a.re, -a.im⟩
def abs2 (a : GR) : Rat := a.re * a.re + a.im * a.im
/-- reciprocal with the convention `inv 0 = 0` (as in a Mathlib field) -/
def inv (a : GR) : GR :=
  let n := abs2 a
  if n == 0 then zero else ⟨a.re / n, -a.im / n⟩
def isZero (a : GR) : Bool := a.re == 0 && a.im == 0
def isReal (a : GR) : Bool := a.im == 0
instance : Add GR := ⟨add⟩
instance : Mul GR := ⟨mul⟩
instance : Neg GR := ⟨neg⟩
instance : Sub GR := ⟨sub⟩
end GR

/-- dense `r × c` matrix, row-major -/
structure Mat where
  r : Nat
  c : Nat
  a : Array (Array GR)
deriving BEq, Repr, Inhabited

namespace Mat
def get (m : Mat) (i j : Nat) : GR := (m.a.getD i #[]).getD j GR.zero
def ofFn (r c : Nat) (f : Nat → Nat → GR) : Mat :=
  ⟨r, c, Array.ofFn (n := r) fun i => Array.ofFn (n := c) fun j => f i.val j.val⟩
def zero (r c : Nat) : Mat := ofFn r c fun _ _ => GR.zero
def one (n : Nat) : Mat := ofFn n n fun i j => if i == j then GR.one else GR.zero
def add (x y : Mat) : Mat := ofFn x.r x.c fun i j => x.get i j + y.get i j
def neg (x : Mat) : Mat := ofFn x.r x.c fun i j => - x.get i j
def sub (x y : Mat) : Mat := ofFn x.r x.c fun i j => x.get i j - y.get i j
def smul (k : GR) (x : Mat) : Mat := ofFn x.r x.c fun i j => k * x.get i j
def mul (x y : Mat) : Mat :=
  ofFn x.r y.c fun i j => (List.range x.c).foldl (fun s k => s + x.get i k * y.get k j) GR.zero
def conjT (x : Mat) : Mat := ofFn x.c x.r fun i j => (x.get j i).conj
def ofDiag (v : Array GR) : Mat := ofFn v.size v.size fun i j => if i == j then v.getD i GR.zero else GR.zero
/-- direct sum (block diagonal) -/
def blocks (ms : List Mat) : Mat :=
  let n := ms.foldl (fun s m => s + m.r) 0
  let k := ms.foldl (fun s m => s + m.c) 0
  -- offsets
  let rec go (ms : List Mat) (ro co : Nat) (acc : List (Nat × Nat × Mat)) : List (Nat × Nat × Mat) :=
    match ms with
    | [] => acc
    | m :: rest => go rest (ro + m.r) (co + m.c) ((ro, co, m) :: acc)
  let placed := go ms 0 0 []
  ofFn n k fun i j =>
    match placed.find? (fun (ro, co, m) => ro ≤ i && i < ro + m.r && co ≤ j && j < co + m.c) with
    | some (ro, co, m) => m.get (i - ro) (j - co)
    | none => GR.zero

/-- Gauss–Jordan inverse of a square matrix; `none` when singular -/
def inv? (x : Mat) : Option Mat := Id.run do
  let n := x.r
  if x.c != n then return none
  -- augmented rows
  let mut rows : Array (Array GR) := Array.ofFn (n := n) fun i =>
    Array.ofFn (n := 2 * n) fun j => if j.val < n then x.get i.val j.val else (if j.val - n == i.val then GR.one else GR.zero)
  for col in [0:n] do
    -- find pivot
    let mut piv := n
    for r in [col:n] do
      if piv == n && !((rows.getD r #[]).getD col GR.zero).isZero then piv := r
    if piv == n then return none
    let prow := rows.getD piv #[]
    let crow := rows.getD col #[]
    rows := (rows.setIfInBounds piv crow).setIfInBounds col prow
    let p := (prow.getD col GR.zero).inv
    let nrow := prow.map (fun e => p * e)
    rows := rows.setIfInBounds col nrow
    for r in [0:n] do
      if r != col then
        let row := rows.getD r #[]
        let f := row.getD col GR.zero
        if !f.isZero then
          rows := rows.setIfInBounds r (Array.ofFn (n := 2 * n) fun j => row.getD j.val GR.zero - f * nrow.getD j.val GR.zero)
  return some (ofFn n n fun i j => (rows.getD i #[]).getD (j + n) GR.zero)
end Mat

end NiftyVerif.GaussMat
