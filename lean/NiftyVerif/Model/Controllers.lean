/-
  Model of nifty/cl/minimization/iteration_controllers.py (the five controllers used by the classic minimisers).

  Each controller is a state machine `start`/`check` over what it *reads* from an energy object (`Obs`):
  `energy.gradient_norm`, `energy.gradient.norm(inf)`, `energy.value`.  Norms enter squared, so that the model stays
  inside an ordered field (exact rationals in the driver):  for `a ≥ 0`
      `sqrt a ≤ t`  ⇔  `0 ≤ t ∧ a ≤ t*t`         `sqrt a < t`  ⇔  `0 < t ∧ a < t*t`
  (proved over ℝ in Lemmas/ControllersSqrt.lean: `sqrt_le_iff_sq`, `sqrt_lt_iff_sq`).

  All five Python classes end with the same three statements (counter update, iteration limit, convergence level);
  they are transcribed once (`bump`, `verdict`) and each class contributes its criterion `crit` (the `inclvl` decision
  and the update of its private memory).  Python ints are `Int` (`_itcount` starts at -1), `None` is `Option`.
  Core imports only.
-/
namespace NiftyVerif.Ctrl

/-- `IterationController.CONVERGED, CONTINUE, ERROR = 0, 1, 2` -/
inductive Status where
  | converged | continue_ | error
deriving DecidableEq, Repr, Inhabited

def Status.code : Status → Nat
  | .converged => 0 | .continue_ => 1 | .error => 2

/-- what a controller reads from an energy object -/
structure Obs (K : Type) where
  /-- `energy.gradient_norm ** 2` = ⟨g, g⟩ -/
  gnsq : K
  /-- `energy.gradient.norm(inf) ** 2` -/
  ginfsq : K
  /-- `energy.value` -/
  value : K
deriving Repr

/-- `if inclvl: ccount += 1  else: ccount = max(0, ccount-1)` -/
def bump (inclvl : Bool) (ccount : Int) : Int :=
  if inclvl then ccount + 1 else max 0 (ccount - 1)

/-- `if limit is not None and itcount >= limit: CONVERGED; if ccount >= level: CONVERGED; CONTINUE` -/
def verdict (limit : Option Int) (level itcount ccount : Int) : Status :=
  match limit with
  | some l => if l ≤ itcount then .converged else if level ≤ ccount then .converged else .continue_
  | none => if level ≤ ccount then .converged else .continue_

/-- state shared by all controllers: `_itcount`, `_ccount` and the class-specific memory `aux` -/
structure St (τ : Type) where
  itcount : Int
  ccount : Int
  aux : τ
deriving Repr

/-- a controller class instance: constructor arguments common to all five + its criterion.
    `crit aux itcount obs` (with `itcount` already incremented) returns `none` when the Python code raises
    (none of the five classes does, after the repair of `DeltaEnergyController`), else the `inclvl` decision and the
    updated memory. -/
structure Ctrl (K τ : Type) where
  level : Int
  limit : Option Int
  init : Obs K → τ
  crit : τ → Int → Obs K → Option (Bool × τ)

variable {K τ : Type}

/-- `check(energy)` -/
def Ctrl.check (c : Ctrl K τ) (s : St τ) (o : Obs K) : Option (St τ × Status) :=
  let it := s.itcount + 1
  match c.crit s.aux it o with
  | none => none
  | some (inc, aux) =>
    let cc := bump inc s.ccount
    some ({ itcount := it, ccount := cc, aux := aux }, verdict c.limit c.level it cc)

/-- `start(energy)`: `_itcount = -1; _ccount = 0;` class-specific initialisation; `return self.check(energy)` -/
def Ctrl.start (c : Ctrl K τ) (o : Obs K) : Option (St τ × Status) :=
  c.check { itcount := -1, ccount := 0, aux := c.init o } o

/-- feed further observations to a started controller (verdicts of earlier checks are not consulted) -/
def Ctrl.feedFrom (c : Ctrl K τ) (s : St τ) (st : Status) : List (Obs K) → Option (St τ × Status)
  | [] => some (s, st)
  | o :: os =>
    match c.check s o with
    | none => none
    | some (s', st') => c.feedFrom s' st' os

/-- `start` on the first observation, `check` on every further one; result of the last call -/
def Ctrl.feed (c : Ctrl K τ) : List (Obs K) → Option (St τ × Status)
  | [] => none
  | o :: os =>
    match c.start o with
    | none => none
    | some (s, st) => c.feedFrom s st os

section criteria
variable [Add K] [Sub K] [Mul K] [Div K] [Neg K] [OfNat K 0] [NatCast K]
  [LT K] [DecidableLT K] [LE K] [DecidableLE K] [DecidableEq K]

/-- Python `abs` -/
def absK (x : K) : K := if x < 0 then -x else x
/-- Python `max(a, b)`: `b` if `b > a` else `a` -/
def maxK (a b : K) : K := if a < b then b else a

/-- `sqrt gnsq <= t` -/
def normLe (gnsq t : K) : Bool := decide (0 ≤ t) && decide (gnsq ≤ t * t)
/-- `sqrt gnsq <= trel * sqrt ref`   (`_tol_rel_gradnorm_now = _tol_rel_gradnorm * gradient_norm(start)`) -/
def normLeRel (gnsq trel ref : K) : Bool :=
  (decide (0 ≤ trel) || decide (ref = 0)) && decide (gnsq ≤ trel * trel * ref)

/-- GradientNormController(tol_abs_gradnorm, tol_rel_gradnorm, convergence_level, iteration_limit);
    memory: squared gradient norm of the start energy (the relative tolerance is fixed in `start`) -/
def gradNorm (tolAbs tolRel : Option K) (level : Int) (limit : Option Int) : Ctrl K K where
  level := level
  limit := limit
  init := fun o => o.gnsq
  crit := fun ref _ o =>
    let a := match tolAbs with
      | some t => normLe o.gnsq t
      | none => false
    let r := match tolRel with
      | some t => normLeRel o.gnsq t ref
      | none => false
    some (a || r, ref)

/-- GradInfNormController(tol, ...): `crit = gradient.norm(inf)/abs(value)`; `tol is not None and crit <= tol`.
    `value == 0` gives `inf`/`nan` in numpy (never `<= tol` for finite `tol`). -/
def gradInf (tol : Option K) (level : Int) (limit : Option Int) : Ctrl K Unit where
  level := level
  limit := limit
  init := fun _ => ()
  crit := fun _ _ o =>
    let inc := match tol with
      | some t => decide (o.value ≠ 0) && decide (0 ≤ t) && decide (o.ginfsq ≤ t * t * (o.value * o.value))
      | none => false
    some (inc, ())

/-- DeltaEnergyController(tol_rel_deltaE, ...): memory `_Eold` (0.0 at start).  Models the code **as repaired by
    fixes/C14_deltae_zero_energy.diff**:
    ```
    scale = max(abs(self._Eold), abs(Eval))
    rel = abs(self._Eold-Eval)/scale if scale != 0 else float("nan")      # nan < tol is False
    if self._itcount > 0 and rel < self._tol_rel_deltaE: inclvl = True
    ```
    (the unrepaired code divides unconditionally and raises `ZeroDivisionError` on two vanishing energies, because
    `energy.value` is a Python float — e.g. every `InversionEnabler` run, which starts at `x = 0`). -/
def deltaE (tol : K) (level : Int) (limit : Option Int) : Ctrl K K where
  level := level
  limit := limit
  init := fun _ => 0
  crit := fun eold it o =>
    let den := maxK (absK eold) (absK o.value)
    if den = 0 then some (false, o.value) else
    let rel := absK (eold - o.value) / den
    some (decide (0 < it) && decide (rel < tol), o.value)

/-- AbsDeltaEnergyController(deltaE, ...) -/
def absDeltaE (dE : K) (level : Int) (limit : Option Int) : Ctrl K K where
  level := level
  limit := limit
  init := fun _ => 0
  crit := fun eold it o =>
    let diff := absK (eold - o.value)
    some (decide (0 < it) && decide (diff < dE), o.value)

def sumK (l : List K) : K := l.foldl (· + ·) 0
/-- `np.std(l)**2` (population variance) -/
def varK (l : List K) : K :=
  let n : K := (l.length : K)
  let m := sumK l / n
  sumK (l.map fun x => (x - m) * (x - m)) / n

/-- StochasticAbsDeltaEnergyController(deltaE, ..., memory_length): memory = list of the last energies.
    `np.std([])` is `nan` (never `< deltaE`). -/
def stochastic (dE : K) (level : Int) (limit : Option Int) (memLen : Int) : Ctrl K (List K) where
  level := level
  limit := limit
  init := fun _ => []
  crit := fun mem it o =>
    let mem1 := mem ++ [o.value]
    let mem2 := if memLen < (mem1.length : Int) then mem1.drop 1 else mem1
    let small := !mem2.isEmpty && decide (0 < dE) && decide (varK mem2 < dE * dE)
    some (decide (0 < it) && small, mem2)

end criteria
end NiftyVerif.Ctrl
