/-
  C25 — persistence protocol of the classic VI driver `nifty/cl/minimization/optimize_kl.py: optimize_kl(...,
  output_directory=, save_strategy=, resume=)` together with `sample_list.py: ResidualSampleList.save / load`,
  `_save_to_disk`, `_pickle_save_values`, `_save_random_state`.   Core imports only.

  Transcribed (file operations and everything the resume branch reads); one global iteration is an abstract function
  `step iglobal` of the state (sample list, mean) — the per-iteration seed sequences are re-derived from the saved random
  state, so the iteration index is the only other input.

      makedirs(output_directory), makedirs(pickle) …
      lfile = output_directory/last_finished_iteration
      if resume and isfile(lfile):   i = int(read(lfile));  base = iteration_<i> | latest
          mean = load(base.mean.pickle); sl = load(base.<k>.pickle for k < consecutive count)        -- `loadState`
          if i+1 == total: return;   _load_random_state();  energy_history = load(energy_history_<base>)
      else: _save_random_state()
      for j in range(i+1 | 0, total):
          (sl, mean) = iteration j
          sl.save(pickle/base_j, overwrite=True)      unlink base.<N>.pickle; per sample k: save; mean: save
          <marker / energy history / minisanity / minisanity history>     order depends on the protocol, see `iterOps`
          counting report (append)

  Two protocols:
   `asFound`  — the code in /repo: `_save_to_disk` = remove + open("wb") + dump (in place); marker written in place right
                after sl.save, BEFORE energy_history_<base> and minisanity_history_<base>; histories written in place.
   `atomicOnly` — fixes/C25_atomic_marker_and_files.diff: every file via temp + os.replace; marker written last.
                (crash safe for strategy `all`; strategy `latest` still has a window, see Props/C25.lean)
   `repaired` — additionally fixes/C25_latest_invalidate_marker.diff: with strategy `latest` the marker is REMOVED before the
                files latest.* are overwritten (a crash in between makes the resumed run start from scratch), and written
                again when everything of the iteration is in place.
-/
import NiftyVerif.Model.CrashFS
namespace NiftyVerif.CrashCl
open NiftyVerif.CrashFS

inductive Strategy where
  | all | latest
  deriving DecidableEq, Repr

/-- base name of the per-iteration files: `iteration_<i>` or `latest` (`_file_name_by_strategy`) -/
inductive Base where
  | iter (i : Nat) | latest
  deriving DecidableEq, Repr

def baseOf : Strategy → Nat → Base
  | .all, i => .iter i
  | .latest, _ => .latest

inductive Path where
  | odir | pickleDir
  | marker | markerTmp                          -- last_finished_iteration(.tmp)
  | rstate                                      -- pickle/nifty_random_state
  | sample (b : Base) (k : Nat) | sampleTmp (b : Base) (k : Nat)      -- pickle/<base>.<k>.pickle, pickle/.<base>.<k>.pickle.tmp
  | mean (b : Base) | meanTmp (b : Base)        -- pickle/<base>.mean.pickle
  | ehist (b : Base) | ehistTmp (b : Base)      -- pickle/energy_history_<base>
  | mhist (b : Base) | mhistTmp (b : Base)      -- pickle/minisanity_history_<base>
  | sanity | counting                           -- minisanity.txt, counting_report.txt (append only, never read)
  deriving DecidableEq, Repr

inductive Proto where
  | asFound | atomicOnly | repaired
  deriving DecidableEq, Repr

inductive Err where
  | markerParse      -- int(f.read()) raised ValueError
  | noMean           -- <base>.mean.pickle missing and not exactly one sample file: the SampleList branch's myassert fails
  | noSamples        -- _list_local_sample_files / _consecutive_length raised
  | unpickle         -- a pickle.load raised (truncated file / inconsistent set)
  | missing          -- FileNotFoundError (random state, energy history, minisanity history)
  deriving DecidableEq, Repr

structure Sys (S : Type) where
  step : Nat → S → S                            -- global iteration `iglobal` on (sample list, mean)
  nsamp : Nat                                   -- number of sample files written per iteration
  encSample : S → Nat → Bytes                   -- pickle of [residual_k, neg_k]
  encMean : S → Option Bytes                    -- pickle of the mean; none: a MAP iteration (SampleList: no mean file)
  decState : Option Bytes → List Bytes → Option S  -- (Residual)SampleList.load(mean file if present, sample files); none = raises
  encE : Nat → Bytes                            -- pickle of the energy history after iteration i
  okE : Bytes → Bool                            -- pickle.load of an energy-history file succeeds
  encM : Nat → Bytes                            -- pickle of the minisanity history after iteration i
  okM : Bytes → Bool
  rs : Bytes                                    -- nifty.cl.random.getState() at start
  okR : Bytes → Bool                            -- setState(read()) succeeds
  digits : Nat → Bytes                          -- str(i)
  parse : Bytes → Option Nat                    -- int(text); none = ValueError
  msgS : Nat → Bytes                            -- minisanity report of iteration i
  msgC : Nat → Bytes                            -- counting report of iteration i

/-- temp + os.replace -/
def atomicWrite (p t : Path) (c : Bytes) : List (Op Path) := writeFile t c ++ [Op.replace t p]

/-- `_save_to_disk(file, obj, overwrite=True)` as found: `if isfile: os.remove`; open("wb"); dump.
    (`existed` is what isfile returned; the recording injector shows a remove only then) -/
def inplaceSave (p : Path) (c : Bytes) : List (Op Path) := Op.remove p :: writeFile p c

def saveOne (proto : Proto) (p t : Path) (c : Bytes) : List (Op Path) :=
  match proto with
  | .asFound => inplaceSave p c
  | .atomicOnly => atomicWrite p t c
  | .repaired => atomicWrite p t c

/-- `_pickle_save_values`: in place as found, temp + replace when repaired -/
def saveValues (proto : Proto) (p t : Path) (c : Bytes) : List (Op Path) :=
  match proto with
  | .asFound => writeFile p c
  | .atomicOnly => atomicWrite p t c
  | .repaired => atomicWrite p t c

/-- MAP iteration, repaired protocol (fixes/C25_map_stale_mean.diff): `SampleList.save(overwrite=True)` unlinks a mean file
    left over under the same base name -/
def unlinkMean {S : Type} (sys : Sys S) (proto : Proto) (b : Base) (s : S) : List (Op Path) :=
  match sys.encMean s, proto with
  | none, .repaired => [Op.remove (.mean b)]
  | _, _ => []

/-- VI iteration: the mean is saved last -/
def saveMean {S : Type} (sys : Sys S) (proto : Proto) (b : Base) (s : S) : List (Op Path) :=
  match sys.encMean s with
  | some c => saveOne proto (.mean b) (.meanTmp b) c
  | none => []

/-- `ResidualSampleList.save(base, overwrite=True)` / `SampleList.save`: unlink the "next" sample, (MAP: unlink a stale mean
    file,) the samples in order, (VI: then the mean) -/
def saveSamples {S : Type} (sys : Sys S) (proto : Proto) (b : Base) (s : S) : List (Op Path) :=
  Op.remove (.sample b sys.nsamp) :: (unlinkMean sys proto b s ++
    ((List.range sys.nsamp).flatMap (fun k => saveOne proto (.sample b k) (.sampleTmp b k) (sys.encSample s k))
      ++ saveMean sys proto b s))

def saveMarker (proto : Proto) (c : Bytes) : List (Op Path) :=
  match proto with
  | .asFound => writeFile .marker c
  | .atomicOnly => atomicWrite .marker .markerTmp c
  | .repaired => atomicWrite .marker .markerTmp c

/-- `_invalidate_last_finished_iteration()`: only in the repaired protocol and only for strategy `latest` -/
def invalidate (proto : Proto) (strat : Strategy) : List (Op Path) :=
  match proto, strat with
  | .repaired, .latest => [Op.remove .marker]
  | _, _ => []

/-- part of iteration `j` before `_minisanity` loads the previous minisanity history -/
def iterOpsA {S : Type} (sys : Sys S) (proto : Proto) (strat : Strategy) (j : Nat) (s' : S) : List (Op Path) :=
  let b := baseOf strat j
  invalidate proto strat ++ saveSamples sys proto b s' ++
    (match proto with | .asFound => saveMarker proto (sys.digits j) | _ => []) ++
    saveValues proto (.ehist b) (.ehistTmp b) (sys.encE j) ++
    appendFile .sanity (sys.msgS j)

/-- the rest of iteration `j` -/
def iterOpsB {S : Type} (sys : Sys S) (proto : Proto) (strat : Strategy) (j : Nat) : List (Op Path) :=
  let b := baseOf strat j
  saveValues proto (.mhist b) (.mhistTmp b) (sys.encM j) ++
    (match proto with | .asFound => [] | _ => saveMarker proto (sys.digits j)) ++
    appendFile .counting (sys.msgC j)

/-- the sample files `_list_local_sample_files` finds: `<base>.0 … <base>.(c-1)` for the consecutive count `c`
    (bounded by `fuel`; the driver unlinks `<base>.<nsamp>` on every save) -/
def listSamples (fs : FS Path) (b : Base) : Nat → Nat → List Bytes
  | 0, _ => []
  | fuel + 1, k =>
    match fs (.sample b k) with
    | none => []
    | some c => c :: listSamples fs b fuel (k + 1)

def loadable (fs : FS Path) (p : Path) (ok : Bytes → Bool) : Except Err Unit :=
  match fs p with
  | none => .error .missing
  | some c => if ok c then .ok () else .error .unpickle

/-- the resume branch: `(initial_index, state)` the loop starts from -/
def load {S : Type} (sys : Sys S) (strat : Strategy) (resume : Bool) (total : Nat) (s0 : S) (fs : FS Path) :
    Except Err (Nat × S × Bool) :=          -- Bool: fresh start (random state is saved, not loaded)
  if resume then
    match fs .marker with
    | none => .ok (0, s0, true)
    | some t =>
      match sys.parse t with
      | none => .error .markerParse
      | some i =>
        let b := baseOf strat i
        let files := listSamples fs b (sys.nsamp + 1) 0
        if files.isEmpty then .error .noSamples else
        -- isfile(<base>.mean.pickle) ? ResidualSampleList.load : SampleList.load followed by myassert(n_samples == 1)
        if (fs (.mean b)).isNone && files.length != 1 then .error .noMean else
          match sys.decState (fs (.mean b)) files with
          | none => .error .unpickle
          | some s =>
            if i + 1 = total then .ok (total, s, false)
            else
              match loadable fs .rstate sys.okR with
              | .error e => .error e
              | .ok _ =>
                match loadable fs (.ehist b) sys.okE with
                | .error e => .error e
                | .ok _ => .ok (i + 1, s, false)
  else .ok (0, s0, true)

/-- `for iglobal in range(initial_index, total)`: returns the operations performed and the outcome; the file system is
    threaded through because `_minisanity` of iteration j ≥ 1 loads the previous minisanity history in the middle -/
def loop {S : Type} (sys : Sys S) (proto : Proto) (strat : Strategy) :
    Nat → Nat → S → FS Path → List (Op Path) × Except Err S
  | 0, _, s, _ => ([], .ok s)
  | fuel + 1, j, s, fs =>
    let s' := sys.step j s
    let a := iterOpsA sys proto strat j s'
    let fs1 := execs fs a
    let chk := if j = 0 then Except.ok () else loadable fs1 (.mhist (baseOf strat (j - 1))) sys.okM
    match chk with
    | .error e => (a, .error e)
    | .ok _ =>
      let b := iterOpsB sys proto strat j
      let r := loop sys proto strat fuel (j + 1) s' (execs fs1 b)
      (a ++ b ++ r.1, r.2)

def preOps : List (Op Path) := [Op.mkdir .odir, Op.mkdir .pickleDir]

/-- one whole call of the driver started on directory content `fs`: operations performed (until it finishes or raises)
    and what it returns -/
def run {S : Type} (sys : Sys S) (proto : Proto) (strat : Strategy) (resume : Bool) (total : Nat) (s0 : S)
    (fs : FS Path) : List (Op Path) × Except Err S :=
  match load sys strat resume total s0 fs with
  | .error e => (preOps, .error e)
  | .ok (i0, s, fresh) =>
    let pre := preOps ++ (if fresh then writeFile .rstate sys.rs else [])
    let r := loop sys proto strat (total - i0) i0 s (execs fs pre)
    (pre ++ r.1, r.2)

/-- states of the uninterrupted run: `sAfter j` = (samples, mean) after iterations 0 … j-1 -/
def sAfter {S : Type} (sys : Sys S) (s0 : S) : Nat → S
  | 0 => s0
  | j + 1 => sys.step j (sAfter sys s0 j)

/-! concrete instance for the line-protocol driver and the `decide`d witnesses: state = list of iteration indices done;
    sample k of state s = [s, k, 255], mean = [s, 254] (VI; MAP: no mean file, one sample); a consistent set decodes, a
    mixed one does not. -/
def natSys (nsamp : Nat) (vi : Bool := true) : Sys Nat where
  step := fun j s => if s = j then j + 1 else 1000 + s      -- iteration j applied to the wrong state is visible
  nsamp := nsamp
  encSample := fun s k => [s, k, 255]
  encMean := fun s => if vi then some [s, 254] else none
  decState := fun m fl =>
    match m with
    | some [s, 254] => if fl = (List.range nsamp).map (fun k => [s, k, 255]) then some s else
                         if fl.all (fun f => f.length = 3 ∧ f.getLast? = some 255) then some (2000 + s) else none
    | none =>                                     -- SampleList branch: the single sample is the state
        match fl with
        | [[s, 0, 255]] => if vi then some (2000 + s) else some s
        | _ => none
    | _ => none
  encE := fun i => [i, 253]
  okE := fun b => b.getLast? = some 253
  encM := fun i => [i, 252]
  okM := fun b => b.getLast? = some 252
  rs := [7, 251]
  okR := fun b => b.getLast? = some 251
  digits := fun i => [48 + i]
  parse := fun b => match b with | [d] => if 48 ≤ d then some (d - 48) else none | _ => none
  msgS := fun i => [i, 10]
  msgC := fun i => [i, 10]

end NiftyVerif.CrashCl
