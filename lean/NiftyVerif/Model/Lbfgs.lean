/-
  C16 — the two L-BFGS direction rules of nifty/cl/minimization/descent_minimizers.py:
    * `L_BFGS.get_descent_direction` (two-loop recursion on vectors, lines 213-283),
    * `VL_BFGS.get_descent_direction` + `_InformationStore` (coefficients `delta` on the basis
      `b = [s_0..s_{m-1}, y_0..y_{m-1}, g]` from the `(2m+1)²` Gram matrix `b_dot_b`, lines 286-477),
  both with the circular-buffer indexing of the code (`idx = i % maxhist`, the persistent `ss/sy/yy` stores that are
  refreshed only in row/column `(k-1) % mmax`).
  Parametric in the scalar type `K`, the vector type `V` and the inner product `ip` (`s_vdot`); Python lists /
  NumPy arrays indexed by slot are functions `Nat → _` updated point-wise (`upd`). Core imports only.
-/

namespace NiftyVerif.Lbfgs

/-- `a[i] = v` -/
def upd {α : Type} (f : Nat → α) (i : Nat) (v : α) : Nat → α := fun j => if j = i then v else f j

/-- `a[i, j] = v` -/
def upd2 {α : Type} (f : Nat → Nat → α) (i j : Nat) (v : α) : Nat → Nat → α :=
  fun a b => if a = i ∧ b = j then v else f a b

variable {K V : Type} [Add K] [Sub K] [Mul K] [Div K] [Neg K] [OfNat K 0] [OfNat K 1]
  [Add V] [Sub V] [Neg V] [SMul K V]

/-- Python `sum([f 0, ..., f (n-1)])` -/
def sumK : Nat → (Nat → K) → K
  | 0, _ => 0
  | n + 1, f => sumK n f + f n

/-- `f 0 + f 1 + ... + f n` (left-associated, no zero) -/
def sumV : Nat → (Nat → V) → V
  | 0, f => f 0
  | n + 1, f => sumV n f + f (n + 1)

/-! ### L_BFGS -/

structure LState (V : Type) where
  k : Nat
  s : Nat → V
  y : Nat → V
  lastx : V
  lastgrad : V

/-- `for i in range(k-1, k-nhist-1, -1)` given as the list of slots `idx = i % maxhist` -/
def firstLoop (ip : V → V → K) (s y : Nat → V) : List Nat → V → (Nat → K) → V × (Nat → K)
  | [], p, al => (p, al)
  | idx :: r, p, al =>
    -- alpha[idx] = s[idx].s_vdot(p)/s[idx].s_vdot(y[idx]);  p = p - alpha[idx]*y[idx]
    let a := ip (s idx) p / ip (s idx) (y idx)
    firstLoop ip s y r (p - a • y idx) (upd al idx a)

/-- `for i in range(k-nhist, k)` -/
def secondLoop (ip : V → V → K) (s y : Nat → V) (al : Nat → K) : List Nat → V → V
  | [], p => p
  | idx :: r, p =>
    -- beta = y[idx].s_vdot(p) / s[idx].s_vdot(y[idx]);  p = p + (alpha[idx]-beta)*s[idx]
    let b := ip (y idx) p / ip (s idx) (y idx)
    secondLoop ip s y al r (p + (al idx - b) • s idx)

/-- slots visited by the first loop: `i = k-1, k-2, ..., k-nhist` -/
def slotsDown (k nhist maxhist : Nat) : List Nat := (List.range nhist).map (fun j => (k - 1 - j) % maxhist)
/-- slots visited by the second loop: `i = k-nhist, ..., k-1` -/
def slotsUp (k nhist maxhist : Nat) : List Nat := (List.range nhist).map (fun j => (k - nhist + j) % maxhist)

/-- `L_BFGS.get_descent_direction(energy)` with `x = energy.position`, `g = energy.gradient`; `al0` is the fresh
    `alpha = [None]*maxhist` (its content is never read before it is written) -/
def lbfgsDir (ip : V → V → K) (maxhist : Nat) (st : LState V) (x g : V) (al0 : Nat → K) : V × LState V :=
  let k := st.k
  let nhist := min k maxhist
  let p : V := -g
  -- if k > 0: idx = (k-1) % maxhist; s[idx] = x-self._lastx; y[idx] = gradient-self._lastgrad
  let s := if 0 < k then upd st.s ((k - 1) % maxhist) (x - st.lastx) else st.s
  let y := if 0 < k then upd st.y ((k - 1) % maxhist) (g - st.lastgrad) else st.y
  let p :=
    if 0 < nhist then
      let r := firstLoop ip s y (slotsDown k nhist maxhist) p al0
      let idx := (k - 1) % maxhist
      -- fact = s[idx].s_vdot(y[idx]) / y[idx].s_vdot(y[idx]);  p = p*fact
      let fact := ip (s idx) (y idx) / ip (y idx) (y idx)
      secondLoop ip s y r.2 (slotsUp k nhist maxhist) (fact • r.1)
    else p
  (p, { k := k + 1, s := s, y := y, lastx := x, lastgrad := g })

/-! ### VL_BFGS -/

structure VLState (K V : Type) where
  k : Nat
  s : Nat → V
  y : Nat → V
  lastx : V
  lastgrad : V
  ss : Nat → Nat → K
  sy : Nat → Nat → K
  yy : Nat → Nat → K

/-- `_InformationStore.add_new_point` -/
def addNewPoint (mmax : Nat) (st : VLState K V) (x g : V) : VLState K V :=
  { st with s := upd st.s (st.k % mmax) (x - st.lastx), y := upd st.y (st.k % mmax) (g - st.lastgrad),
            lastx := x, lastgrad := g, k := st.k + 1 }

/-- `history_length` -/
def histLen (mmax : Nat) (st : VLState K V) : Nat := min st.k mmax

/-- slot of the `i`-th live pair: `(k-m+i) % mmax` -/
def slot (mmax k m i : Nat) : Nat := (k - m + i) % mmax

/-- `_InformationStore.b` as a function of the position in the list (length `2m+1`) -/
def basis (mmax : Nat) (st : VLState K V) : Nat → V :=
  let m := histLen mmax st
  fun l => if l < m then st.s (slot mmax st.k m l)
           else if l < 2 * m then st.y (slot mmax st.k m (l - m))
           else st.lastgrad

/-- body of the first store-update loop of `b_dot_b` (`for i in range(m)`) -/
def storeStep1 (ip : V → V → K) (mmax : Nat) (st : VLState K V) (i : Nat) : VLState K V :=
  let m := histLen mmax st
  let k1 := (st.k - 1) % mmax
  let kmi := slot mmax st.k m i
  -- self.ss[kmi, k1] = self.ss[k1, kmi] = self.s[kmi].s_vdot(self.s[k1]);  same for yy;  self.sy[kmi, k1] = ...
  let vss := ip (st.s kmi) (st.s k1)
  let vyy := ip (st.y kmi) (st.y k1)
  let vsy := ip (st.s kmi) (st.y k1)
  { st with ss := upd2 (upd2 st.ss k1 kmi vss) kmi k1 vss,
            yy := upd2 (upd2 st.yy k1 kmi vyy) kmi k1 vyy,
            sy := upd2 st.sy kmi k1 vsy }

/-- first store-update loop of `b_dot_b`: `for i in range(m)` (the list holds the `i` still to do) -/
def storeLoop1 (ip : V → V → K) (mmax : Nat) (st : VLState K V) : List Nat → VLState K V
  | [] => st
  | i :: r => storeLoop1 ip mmax (storeStep1 ip mmax st i) r

/-- body of the second loop: `self.sy[k1, kmj] = self.s[k1].s_vdot(self.y[kmj])` -/
def storeStep2 (ip : V → V → K) (mmax : Nat) (st : VLState K V) (j : Nat) : VLState K V :=
  let m := histLen mmax st
  let k1 := (st.k - 1) % mmax
  let kmj := slot mmax st.k m j
  { st with sy := upd2 st.sy k1 kmj (ip (st.s k1) (st.y kmj)) }

/-- second store-update loop: `for j in range(m-1)` -/
def storeLoop2 (ip : V → V → K) (mmax : Nat) (st : VLState K V) : List Nat → VLState K V
  | [] => st
  | j :: r => storeLoop2 ip mmax (storeStep2 ip mmax st j) r

/-- `_InformationStore.b_dot_b`: refresh the stores, then assemble the `(2m+1)²` matrix.
    `gg` is what the code puts at `[2m, 2m]` (`self.last_gradient.norm()`, *not* squared; never read by `delta`
    except through the negative index `-1` when `m = 0`). -/
def bDotB (ip : V → V → K) (gg : V → K) (mmax : Nat) (st : VLState K V) : (Nat → Nat → K) × VLState K V :=
  let m := histLen mmax st
  let st1 := storeLoop1 ip mmax st (List.range m)
  let st2 := storeLoop2 ip mmax st1 (List.range (m - 1))
  let km := slot mmax st.k m
  let g := st.lastgrad
  let res : Nat → Nat → K := fun a b =>
    if a < m then
      if b < m then st2.ss (km a) (km b)                      -- result[i, j] = ss[kmi, kmj]
      else if b < 2 * m then st2.sy (km a) (km (b - m))       -- result[i, m+j] = sy[kmi, kmj]
      else ip (st.s (km a)) g                                 -- result[i, 2m] = sgrad_i
    else if a < 2 * m then
      if b < m then st2.sy (km b) (km (a - m))                -- result[m+j, i] = sy[kmi, kmj]
      else if b < 2 * m then st2.yy (km (a - m)) (km (b - m)) -- result[m+i, m+j] = yy[kmi, kmj]
      else ip (st.y (km (a - m))) g                           -- result[m+i, 2m] = ygrad_i
    else
      if b < m then ip (st.s (km b)) g                        -- result[2m, i] = sgrad_i
      else if b < 2 * m then ip (st.y (km (b - m))) g         -- result[2m, m+i] = ygrad_i
      else gg g                                               -- result[2m, 2m] = last_gradient.norm()
  (res, st2)

/-- first loop of `delta`: `for j in range(m-1, -1, -1)`; the argument counts `j+1` down -/
def deltaLoop1 (G : Nat → Nat → K) (m : Nat) : Nat → (Nat → K) → (Nat → K) → (Nat → K) × (Nat → K)
  | 0, δ, al => (δ, al)
  | j + 1, δ, al =>
    -- delta_b_b = sum([delta[l] * b_dot_b[l, j] for l in range(2*m+1)])
    let dbb := sumK (2 * m + 1) (fun l => δ l * G l j)
    -- alpha[j] = delta_b_b / b_dot_b[j, m+j];  delta[m+j] -= alpha[j]
    let a := dbb / G j (m + j)
    deltaLoop1 G m j (upd δ (m + j) (δ (m + j) - a)) (upd al j a)

/-- last loop of `delta`: `for j in range(m)`; the list holds the `j` still to do -/
def deltaLoop2 (G : Nat → Nat → K) (m : Nat) (al : Nat → K) : List Nat → (Nat → K) → (Nat → K)
  | [], δ => δ
  | j :: r, δ =>
    -- delta_b_b = sum([delta[l]*b_dot_b[m+j, l] for l in range(2*m+1)]);  beta = delta_b_b / b_dot_b[j, m+j]
    let dbb := sumK (2 * m + 1) (fun l => δ l * G (m + j) l)
    let beta := dbb / G j (m + j)
    -- delta[j] += alpha[j] - beta
    deltaLoop2 G m al r (upd δ j (δ j + (al j - beta)))

/-- `_InformationStore.delta` from the assembled matrix `G`; `al0` = `np.empty(m)` -/
def delta (G : Nat → Nat → K) (m : Nat) (al0 : Nat → K) : Nat → K :=
  -- delta = np.zeros(2*m+1); delta[2*m] = -1
  let δ0 : Nat → K := fun l => if l = 2 * m then -1 else 0
  let r := deltaLoop1 G m m δ0 al0
  -- for i in range(2*m+1): delta[i] *= b_dot_b[m-1, 2*m-1] / b_dot_b[2*m-1, 2*m-1]
  -- (for m = 0 both indices are -1, i.e. the last row/column 2m)
  let i1 := if m = 0 then 2 * m else m - 1
  let i2 := if m = 0 then 2 * m else 2 * m - 1
  let fact := G i1 i2 / G i2 i2
  let δ1 : Nat → K := fun l => r.1 l * fact
  deltaLoop2 G m r.2 (List.range m) δ1

/-- `VL_BFGS.get_descent_direction` on an existing store (`add_new_point` succeeded) or a fresh one (`st = none`);
    `fresh x g` is `_InformationStore(max_history_length, x0=x, gradient=gradient)` -/
def vlDir (ip : V → V → K) (gg : V → K) (mmax : Nat) (st : VLState K V) (al0 : Nat → K) : V × VLState K V :=
  let b := basis mmax st
  let m := histLen mmax st
  let r := bDotB ip gg mmax st
  let δ := delta r.1 m al0
  -- descent_direction = delta[0]*b[0]; for i in range(1, len(delta)): descent_direction += delta[i]*b[i]
  (sumV (2 * m) (fun l => δ l • b l), r.2)

/-! ### sequences of calls (one per minimiser iteration; `reset` = the line search failed before this call) -/

structure Point (V : Type) where
  x : V
  g : V
  reset : Bool

/-- `L_BFGS.reset()`: `_k = 0`, fresh `[None]*maxhist` lists (`s0`, `y0` stand for the never-read `None`s);
    `_lastx`/`_lastgrad` survive but are not read while `_k = 0` -/
def resetL (s0 y0 : Nat → V) (st : LState V) : LState V := { st with k := 0, s := s0, y := y0 }

/-- directions `L_BFGS` returns along a sequence of points -/
def runL (ip : V → V → K) (maxhist : Nat) (al0 : Nat → K) (s0 y0 : Nat → V) : List (Point V) → LState V → List V
  | [], _ => []
  | p :: r, st =>
    let st := if p.reset then resetL s0 y0 st else st
    let d := lbfgsDir ip maxhist st p.x p.g al0
    d.1 :: runL ip maxhist al0 s0 y0 r d.2

/-- `_InformationStore(max_history_length, x0=x, gradient=gradient)`; `e0` = the `np.empty` stores -/
def freshVL (x g : V) (s0 y0 : Nat → V) (e0 : Nat → Nat → K) : VLState K V :=
  { k := 0, s := s0, y := y0, lastx := x, lastgrad := g, ss := e0, sy := e0, yy := e0 }

/-- the store `VL_BFGS.get_descent_direction` works on:
    `try: self._information_store.add_new_point(x, gradient)  except AttributeError: fresh store` -/
def vlPrep (mmax : Nat) (s0 y0 : Nat → V) (e0 : Nat → Nat → K) (st : Option (VLState K V)) (p : Point V) :
    VLState K V :=
  match (if p.reset then none else st) with
  | some s => addNewPoint mmax s p.x p.g
  | none => freshVL p.x p.g s0 y0 e0

/-- directions `VL_BFGS` returns along a sequence of points (`none` = `_information_store is None`) -/
def runVL (ip : V → V → K) (gg : V → K) (mmax : Nat) (al0 : Nat → K) (s0 y0 : Nat → V) (e0 : Nat → Nat → K) :
    List (Point V) → Option (VLState K V) → List V
  | [], _ => []
  | p :: r, st =>
    let d := vlDir ip gg mmax (vlPrep mmax s0 y0 e0 st p) al0
    d.1 :: runVL ip gg mmax al0 s0 y0 e0 r (some d.2)

end NiftyVerif.Lbfgs
