import NiftyVerif.Core.Proto
import NiftyVerif.Model.TreeShare
open Lean NiftyVerif.Proto NiftyVerif.TreeShare

/-!
  C05 handler.  Request {"orig": E, "opt": E, "env": [[key, "p/q"]..]} with
    E ::= {"v":k} | {"l":id,"a":E} | {"+":[E,E]} | {"*":[E,E]} | {"pair":[E,E]} | {"let":k,"b":E,"in":E}
  Answer: verdict of the verified checker, its three conjuncts, the key sets, and the exact value of both trees at `env`
  under the harness' leaf library (leaf id i: kind i % 5 — 0: x²+x, 1: x³, 2: x+x, 3: x²−x, 4: 3x).
-/

partial def parseEx (j : Json) : Option Ex :=
  match fNat? j "v" with
  | some k => some (.var k)
  | none =>
  match fNat? j "l", field? j "a" with
  | some i, some a => (parseEx a).map (Ex.leaf i)
  | _, _ =>
  match (field? j "+").bind getArr? with
  | some [a, b] => do some (.add (← parseEx a) (← parseEx b))
  | _ =>
  match (field? j "*").bind getArr? with
  | some [a, b] => do some (.mul (← parseEx a) (← parseEx b))
  | _ =>
  match (field? j "pair").bind getArr? with
  | some [a, b] => do some (.pair (← parseEx a) (← parseEx b))
  | _ =>
  match fNat? j "let", field? j "b", field? j "in" with
  | some k, some b, some body => do some (.letE k (← parseEx b) (← parseEx body))
  | _, _, _ => none

def leafFn (i : Nat) (x : Rat) : Rat :=
  match i % 5 with
  | 0 => x * x + x
  | 1 => x * x * x
  | 2 => x + x
  | 3 => x * x - x
  | _ => 3 * x

def dedupSort (l : List Nat) : List Nat := (l.eraseDups.toArray.qsort (· < ·)).toList

def handleC05 (j : Json) : Json :=
  match (field? j "orig").bind parseEx, (field? j "opt").bind parseEx with
  | some e, some e' =>
    let env : List (Nat × Rat) := ((field? j "env").bind getArr?).getD [] |>.filterMap fun p =>
      match getArr? p with
      | some [k, v] => do some (← getNat? k, ← getRat? v)
      | _ => none
    let ρ : Nat → Rat := fun k => match env.find? (·.1 == k) with | some p => p.2 | none => 0
    jObj [("sharing", Json.bool (isSharingOf e e')),
          ("inlined_equal", Json.bool (decide (Ex.inlineAll e' = e))),
          ("lets_used", Json.bool (Ex.letsUsed e')),
          ("orig_letfree", Json.bool (Ex.letFree e)),
          ("lets", jNat (Ex.numLets e')),
          ("keys_orig", jNats (dedupSort (Ex.keys e))),
          ("keys_opt", jNats (dedupSort (Ex.keys e'))),
          ("size_orig", jNat (Ex.size e)), ("size_opt", jNat (Ex.size e')),
          ("maximal", Json.bool (Ex.maximal e')),
          ("val_orig", jRat (Ex.eval (· + ·) (· * ·) (· + ·) leafFn e ρ)),
          ("val_opt", jRat (Ex.eval (· + ·) (· * ·) (· + ·) leafFn e' ρ))]
  | _, _ => jErr "bad-args"
