/-
  Model of the sample-list persistence in `nifty/cl/minimization/sample_list.py`
  (`SampleList.save/load`, `ResidualSampleList.save/load`, `_list_local_sample_files`, `_consecutive_length`,
  `_ensure_proper_sample_list_ending`, `_save_to_disk`, `_compute_local_indices`).  Core imports only.

  One file-name base is modelled (files `<base>.<i>.pickle` and `<base>.mean.pickle`); with the repaired file filter
  (`re.fullmatch(re.escape(base) + r"\.[0-9]+\.pickle")`, fixes/C26_regex_escape.diff) different bases do not interact.
  `save` includes the up-front existence check of fixes/C26_refused_save_side_effects.diff.
  A sample's pickled content is an abstract tag.
-/
import NiftyVerif.Model.Distributed

namespace NiftyVerif.SampleFiles
open NiftyVerif.Distributed

abbrev Tag := Nat

/-- directory contents for one base: file `i` present with content `t` iff `files i = some t`; `os.listdir` shows the
    present indices below `hi` (every write raises `hi` above the written index) -/
structure Dir where
  files : Nat → Option Tag
  hi : Nat
  mean : Option Tag

inductive Err where
  | fileExists | noFiles | noZero | notFound | meanMissing
deriving DecidableEq, Repr

def listing (d : Dir) : List Nat := (List.range d.hi).filter (fun i => (d.files i).isSome)

/-- `res = r; while True: if res+1 not in lst: return res+1; res += 1`, with fuel -/
def consGo (lst : List Nat) : Nat → Nat → Nat
  | res, 0 => res + 1
  | res, f + 1 => if (res + 1) ∈ lst then consGo lst (res + 1) f else res + 1

/-- `_consecutive_length` (`ValueError` if 0 is missing) -/
def consecutiveLength (lst : List Nat) : Except Err Nat :=
  if 0 ∈ lst then .ok (consGo lst 0 lst.length) else .error .noZero

/-- `_save_to_disk(fname, obj, overwrite)`: `none` = RuntimeError "already exists" -/
def writeOne (ow : Bool) (d : Dir) (i : Nat) (t : Tag) : Option Dir :=
  if !ow && (d.files i).isSome then none
  else some { d with files := fun j => if j = i then some t else d.files j, hi := max d.hi (i + 1) }

/-- one task's loop over its local samples: stops at its first failure (exception inside `ensure_all_tasks_succeed`) -/
def writeSeq (ow : Bool) : Dir → List (Nat × Tag) → Dir × Bool
  | d, [] => (d, true)
  | d, (i, t) :: rest =>
    match writeOne ow d i t with
    | none => (d, false)
    | some d' => writeSeq ow d' rest

/-- (global index, content) pairs per task: `_compute_local_indices` = running offset over the local counts -/
def allItems (xs : List Tag) : Nat → List Nat → List (List (Nat × Tag))
  | _, [] => []
  | off, c :: cs => ((List.range' off c).map (fun i => (i, xs.getD i 0))) :: allItems xs (off + c) cs

/-- all tasks write (they touch disjoint indices, so the order between tasks does not matter); a failing task does
    not stop the others -/
def writeRanks (ow : Bool) : Dir → List (List (Nat × Tag)) → Dir × Bool
  | d, [] => (d, true)
  | d, items :: rest =>
    let r1 := writeSeq ow d items
    let r2 := writeRanks ow r1.1 rest
    (r2.1, r1.2 && r2.2)

/-- `_ensure_no_existing_files` (fixes/C26_refused_save_side_effects.diff): without `overwrite`, every task checks all
    its target files — the master also the mean file — before anybody writes -/
def preCheck (d : Dir) (items : List (List (Nat × Tag))) (mean : Option Tag) : Bool :=
  items.all (fun l => l.all (fun p => (d.files p.1).isNone)) && (mean.isNone || d.mean.isNone)

/-- `save(file_name_base, overwrite)`; `mean = some m` for a ResidualSampleList -/
def save (d : Dir) (xs : List Tag) (counts : List Nat) (ow : Bool) (mean : Option Tag) : Dir × Except Err Unit :=
  let n := xs.length
  if !ow && (d.files n).isSome then (d, .error .fileExists) else
  if !ow && !preCheck d (allItems xs 0 counts) mean then (d, .error .fileExists) else
  let d0 : Dir := if ow then { d with files := fun j => if j = n then none else d.files j } else d
  let r := writeRanks ow d0 (allItems xs 0 counts)
  if !r.2 then (r.1, .error .fileExists) else
  match mean with
  | none => (r.1, .ok ())
  | some m => if !ow && r.1.mean.isSome then (r.1, .error .fileExists) else ({ r.1 with mean := some m }, .ok ())

/-- `load(file_name_base, comm)` with `q` tasks: per task the contents it loads -/
def load (d : Dir) (q : Nat) (residual : Bool) : Except Err (List (List Tag)) :=
  if residual && d.mean.isNone then .error .meanMissing else
  let l := listing d
  if l.isEmpty then .error .noFiles else
  match consecutiveLength l with
  | .error e => .error e
  | .ok n =>
    let per := (List.range q).map (fun r => (localIndices n q r).map d.files)
    if per.all (fun row => row.all Option.isSome) then .ok (per.map (fun row => row.filterMap id))
    else .error .notFound

end NiftyVerif.SampleFiles
