/-
  C01 — executable model of the nifty.cl linear-operator algebra.

  Transcribes (statement by statement where it is decision logic):
    LinearOperator (_dom/_tgt, __matmul__, _myadd, adjoint/inverse, _flip_modes), Operator.scale/__neg__,
    OperatorAdapter, ScalingOperator (apply, _flip_modes, isIdentity), DiagonalOperator (apply, _get_actual_diag,
    _scale, _add, _combine_prod, _combine_sum, _flip_modes), ChainOperator (make, simplify, _flip_modes, apply),
    SumOperator (make, simplify, adjoint, apply), SandwichOperator.make, BlockDiagonalOperator (__init__ capability,
    apply, _combine_chain, _combine_sum — the *repaired* versions, see fixes/C01_blockdiag_combine.diff),
    NullOperator, InversionEnabler (capability, delegation; the CG solve is modelled as an exact inverse).
  Mode tables / masks / remapping expressions come from Gen/ModeTables.lean (translator T1).

  The model is generic in scalars `K`, diagonal data `D` and matrices `R` through the record `Sem`:
  the driver instantiates Gaussian rationals / dense matrices, the theorems Mathlib matrices.
  Domains are opaque identifiers (`Nat`); sampling dtypes are `0 = None, 1 = float64, 2 = complex128`.
  Core imports only.
-/
import NiftyVerif.Gen.ModeTables

namespace NiftyVerif.OpAlgebra
open NiftyVerif.Gen.ModeTables

/-- operations on scalars `K`, diagonal data `D` (an `ldiag` array broadcast to the full domain), matrices `R` -/
structure Sem (K D R : Type) where
  kzero : K
  kone : K
  kadd : K → K → K
  kmul : K → K → K
  kneg : K → K
  kconj : K → K
  kinv : K → K
  /-- `c.real` -/
  kre : K → K
  /-- `c.imag == 0` -/
  kIsReal : K → Bool
  /-- `abs(c)**2` -/
  kabs2 : K → K
  keq : K → K → Bool
  dmul : D → D → D
  dadd : D → D → D
  dneg : D → D
  dconj : D → D
  /-- entrywise reciprocal -/
  dinv : D → D
  /-- `ldiag * fct` -/
  dscale : D → K → D
  /-- `ldiag + scalar` -/
  dshift : D → K → D
  /-- zero map from domain id to target id -/
  zero : Nat → Nat → R
  /-- identity on a domain id -/
  one : Nat → R
  mul : R → R → R
  add : R → R → R
  neg : R → R
  smul : K → R → R
  /-- exact inverse (only used for the numerically inverted modes of `InversionEnabler`) -/
  inv : R → R
  ofDiag : Nat → D → R
  /-- block-diagonal assembly on a multi-domain id -/
  blocks : Nat → List R → R
  /-- dense action of leaf `id` in mode `m` (supplied by the leaf library) -/
  leaf : Nat → Nat → R

/-- operator expressions after construction (what the Python objects are) -/
inductive Op (K D : Type) where
  /-- library leaf with known matrices: id, capability, domain id, target id -/
  | leaf (id cap dom tgt : Nat)
  | scaling (dom : Nat) (c : K) (dt : Nat)
  | diag (dom : Nat) (d : D) (trafo : Nat) (dt : Nat)
  /-- `ents` in key order; a missing key ("unity") is `idEntry subdomain` -/
  | blockdiag (dom : Nat) (ents : List (Op K D))
  /-- placeholder for a `None` entry of a block-diagonal operator (never a free-standing operator) -/
  | idEntry (dom : Nat)
  | null (dom tgt : Nat)
  | adapter (op : Op K D) (trafo : Nat)
  | chain (ops : List (Op K D))
  | sum (ops : List (Op K D)) (neg : List Bool)
  | sandwich (bun cheese op : Op K D)
  | invEnabler (op : Op K D)
deriving Inhabited

variable {K D R : Type}

/-- `.target`, defined together with a total `.domain` (adapters swap them when `1 << trafo` selects the target) -/
def domTgt : Op K D → Nat × Nat
  | .leaf _ _ d t => (d, t)
  | .scaling d _ _ => (d, d)
  | .diag d _ _ _ => (d, d)
  | .blockdiag d _ => (d, d)
  | .idEntry d => (d, d)
  | .null d t => (d, t)
  | .adapter o tr =>
      let (d, t) := domTgt o
      -- OperatorAdapter.__init__: domain = op._dom(1 << trafo), target = op._tgt(1 << trafo)
      ((if (adapterDomMode tr &&& domMask) != 0 then d else t),
       (if (adapterTgtMode tr &&& tgtMask) != 0 then d else t))
  | .chain ops =>
      -- ChainOperator.__init__: domain = ops[-1].domain, target = ops[0].target
      let dts := ops.map domTgt
      ((match dts.getLast? with | some x => x.1 | none => 0),
       (match dts.head? with | some x => x.2 | none => 0))
  | .sum ops _ =>
      -- domain_union of identical DomainTuples: the first
      (match (ops.map domTgt).head? with | some x => x | none => (0, 0))
  | .sandwich _ _ op => ((domTgt op).1, (domTgt op).1)
  | .invEnabler o => ((domTgt o).1, (domTgt o).1)

def dom (o : Op K D) : Nat := (domTgt o).1
def tgt (o : Op K D) : Nat := (domTgt o).2

/-- `LinearOperator._dom(mode)` / `_tgt(mode)` -/
def domM (o : Op K D) (mode : Nat) : Nat := if (mode &&& domMask) != 0 then dom o else tgt o
def tgtM (o : Op K D) (mode : Nat) : Nat := if (mode &&& tgtMask) != 0 then dom o else tgt o

/-- `.capability` -/
def cap : Op K D → Nat
  | .leaf _ c _ _ => c
  | .scaling _ _ _ => allOps
  | .diag _ _ _ _ => allOps
  | .idEntry _ => allOps
  | .blockdiag _ ents => (ents.map cap).foldl (· &&& ·) allOps
  | .null _ _ => nullCap
  | .adapter o t => adapterCap t (cap o)
  | .chain ops => (ops.map cap).foldl (· &&& ·) chainCap
  | .sum ops _ => (ops.map cap).foldl (· &&& ·) sumCap
  | .sandwich _ _ op => cap op
  | .invEnabler o => invEnablerCap (cap o)

section den
variable (S : Sem K D R)

/-- product `x₁ * x₂ * … * xₙ` of a non-empty list (empty: never occurs, zero map on domain 0) -/
def prodR : List R → R
  | [] => S.zero 0 0
  | x :: xs => xs.foldl S.mul x

/-- `res = ±t₀; res = res ± tᵢ` (SumOperator.apply) -/
def sumR : List (R × Bool) → R
  | [] => S.zero 0 0
  | (x, n) :: xs => xs.foldl (fun acc (y, ny) => if ny then S.add acc (S.neg y) else S.add acc y) (if n then S.neg x else x)

/-- ScalingOperator.apply's factor for a mode -/
def scalingFactor (c : K) (mode : Nat) : K :=
  let c1 := if (mode &&& scalingAdjMask) != 0 then S.kconj c else c
  if (mode &&& scalingInvMask) != 0 then S.kinv c1 else c1

/-- the array DiagonalOperator.apply multiplies with, for branch `trafo` (`x / conj d` is `x * (conj d)⁻¹`) -/
def diagBranch (d : D) (trafo : Nat) : D :=
  let (cj, dv) := diagApplyKind.getD trafo (diagApplyKind.getD 3 (false, false))
  let d1 := if cj then S.dconj d else d
  if dv then S.dinv d1 else d1

/-- dense action of an operator in a mode (mode is the bit mask 1, 2, 4, 8) -/
def den : Op K D → Nat → R
  | .leaf id _ _ _, m => S.leaf id m
  | .scaling d c _, m =>
      if S.keq c S.kone then S.one d
      else if S.keq c S.kzero then S.zero d d
      else S.smul (scalingFactor S c m) (S.one d)
  | .diag dm d t _, m => S.ofDiag dm (diagBranch S d (diagTrafo t m))
  | .idEntry d, _ => S.one d
  | .blockdiag dm ents, m => S.blocks dm (ents.map (den · m))
  | .null d t, m => if (m &&& domMask) != 0 then S.zero d t else S.zero t d
  | .adapter o t, m => den o (adapterApplyMode t m)
  | .chain ops, m =>
      let ms := ops.map (den · m)
      -- t_ops = ops if mode & _backwards else reversed(ops); the op applied first is the rightmost matrix factor
      prodR S (if chainAppliesListOrder m then ms.reverse else ms)
  | .sum ops neg, m => sumR S ((ops.map (den · m)).zip neg)
  | .sandwich _ _ op, m => den op m
  | .invEnabler o, m =>
      if invEnablerDelegates (cap o) m then den o m
      else S.inv (den o (invEnablerInvMode m))   -- CG solves  op(invmode) · r = x  exactly in the model

end den

/-! ### constructors (`make`, `simplify`, `_flip_modes`, arithmetic sugar) -/

section build
variable (S : Sem K D R)

def isIdentity : Op K D → Bool
  | .scaling _ c _ => S.keq c S.kone
  | _ => false

def isDiag : Op K D → Bool | .diag .. => true | _ => false
def isBlock : Op K D → Bool | .blockdiag .. => true | _ => false
def isNull : Op K D → Bool | .null .. => true | _ => false
def isScaling : Op K D → Bool | .scaling .. => true | _ => false
def isRealScaling : Op K D → Bool
  | .scaling _ c _ => S.kIsReal c
  | _ => false
def dtOf : Op K D → Nat
  | .scaling _ _ dt => dt
  | .diag _ _ _ dt => dt
  | _ => 0

/-- DiagonalOperator._get_actual_diag -/
def actualDiag (d : D) (trafo : Nat) : D :=
  let (cj, iv) := diagActualKind.getD trafo (false, false)
  let d1 := if iv then S.dinv d else d
  if cj then S.dconj d1 else d1

/-- DiagonalOperator._scale -/
def diagScale (o : Op K D) (f : K) : Op K D :=
  match o with
  | .diag dm d t dt => .diag dm (S.dscale (actualDiag S d t) f) 0 dt
  | o => o
/-- DiagonalOperator._add -/
def diagAdd (o : Op K D) (s : K) : Op K D :=
  match o with
  | .diag dm d t dt => .diag dm (S.dshift (actualDiag S d t) s) 0 dt
  | o => o
/-- DiagonalOperator._combine_prod -/
def diagCombineProd (a b : Op K D) : Op K D :=
  match a, b with
  | .diag dm d1 t1 dt1, .diag _ d2 t2 dt2 =>
      .diag dm (S.dmul (actualDiag S d1 t1) (actualDiag S d2 t2)) 0 (if dt1 == dt2 then dt1 else 0)
  | a, _ => a
/-- DiagonalOperator._combine_sum -/
def diagCombineSum (a b : Op K D) (aneg bneg : Bool) : Op K D :=
  match a, b with
  | .diag dm d1 t1 dt1, .diag _ d2 t2 dt2 =>
      let x := if aneg then S.dneg (actualDiag S d1 t1) else actualDiag S d1 t1
      let y := if bneg then S.dneg (actualDiag S d2 t2) else actualDiag S d2 t2
      .diag dm (S.dadd x y) 0 (if dt1 == dt2 then dt1 else 0)
  | a, _ => a

/-- the scalar of ScalingOperator._flip_modes -/
def scalingFlipFactor (c : K) (trafo : Nat) : K :=
  let c1 := if scalingFlipConj trafo then S.kconj c else c
  if scalingFlipInv trafo then S.kinv c1 else c1

/-- first diagonal of a chain absorbs the collected real factor; returns the remaining factor -/
def chainAbsorb (f : K) : List (Op K D) → List (Op K D) × K
  | [] => ([], f)
  | o :: os => if isDiag o then (diagScale S o f :: os, S.kone) else
      let (os', f') := chainAbsorb f os
      (o :: os', f')

/-- merge adjacent diagonal operators of a chain (`opsnew[-1]._combine_prod(op)`) -/
def chainMergeDiag : List (Op K D) → List (Op K D)
  | a :: b :: rest =>
      if isDiag a && isDiag b then chainMergeDiag (diagCombineProd S a b :: rest)
      else a :: chainMergeDiag (b :: rest)
  | l => l
termination_by l => l.length

/-- first-occurrence grouping keys `(domain, target)` -/
def groupKeys (l : List (Op K D × Bool)) : List (Nat × Nat) :=
  l.foldl (fun ks x => if ks.contains (domTgt x.1) then ks else ks ++ [domTgt x.1]) []

/-- absorb the summed scalings into the first diagonal operator with the same sampling dtype -/
def sumAbsorb (s : K) (dt : Nat) : List (Op K D × Bool) → List (Op K D × Bool) × K
  | [] => ([], s)
  | (o, n) :: os =>
      if isDiag o && dtOf o == dt then ((diagAdd S o (if n then S.kneg s else s), n) :: os, S.kzero) else
      let (os', s') := sumAbsorb s dt os
      ((o, n) :: os', s')

/-- inner loop of the diagonal merge of SumOperator.simplify: absorb all later diagonals with dtype `dt0` -/
def sumAbsorbDiags (dt0 : Nat) (acc : Op K D) (accneg : Bool) :
    List (Op K D × Bool) → Op K D × Bool × List (Op K D × Bool)
  | [] => (acc, accneg, [])
  | (p, pn) :: r =>
      if isDiag p && dtOf p == dt0 then sumAbsorbDiags dt0 (diagCombineSum S acc p accneg pn) false r
      else
        let (a, an, r') := sumAbsorbDiags dt0 acc accneg r
        (a, an, (p, pn) :: r')

theorem sumAbsorbDiags_length (dt0 : Nat) (acc : Op K D) (accneg : Bool) (l : List (Op K D × Bool)) :
    (sumAbsorbDiags S dt0 acc accneg l).2.2.length ≤ l.length := by
  induction l generalizing acc accneg with
  | nil => simp [sumAbsorbDiags]
  | cons x xs ih =>
    obtain ⟨p, pn⟩ := x
    simp only [sumAbsorbDiags]
    split
    · exact Nat.le_trans (ih _ _) (Nat.le_succ _)
    · simp only [List.length_cons]; exact Nat.succ_le_succ (ih _ _)

/-- outer loop of the diagonal merge of SumOperator.simplify -/
def sumMergeDiags : List (Op K D × Bool) → List (Op K D × Bool)
  | [] => []
  | (o, n) :: rest =>
      if isDiag o then
        let r := sumAbsorbDiags S (dtOf o) o n rest
        (r.1, r.2.1) :: sumMergeDiags r.2.2
      else (o, n) :: sumMergeDiags rest
termination_by l => l.length
decreasing_by
  · simp only [List.length_cons]
    exact Nat.lt_succ_of_le (sumAbsorbDiags_length S _ _ _ _)
  · simp

/-- one entry of `_combine_chain` (repaired): None ∘ v = v, v ∘ None = v, else v1(v2) (identity scalings dropped) -/
def combineChainEntry (mk : List (Op K D) → Op K D) (v1 v2 : Op K D) : Op K D :=
  match v1, v2 with
  | .idEntry _, v2 => v2
  | v1, .idEntry _ => v1
  | v1, v2 => if isIdentity S v1 then v2 else if isIdentity S v2 then v1 else mk [v1, v2]

/-- `BlockDiagonalOperator._combine_chain` -/
def combineChain (mk : List (Op K D) → Op K D) (dm : Nat) (e1 e2 : List (Op K D)) : Op K D :=
  Op.blockdiag dm ((e1.zip e2).map fun p => combineChainEntry S mk p.1 p.2)

/-- merge adjacent block-diagonal operators (`opsnew[-1]._combine_chain(op)`); `mk` is ChainOperator.make for the entries -/
def chainMergeBlockStep (mk : List (Op K D) → Op K D) (acc : List (Op K D)) (op : Op K D) : List (Op K D) :=
  match acc, op with
  | .blockdiag dm e1 :: accs, .blockdiag _ e2 => combineChain S mk dm e1 e2 :: accs
  | acc, op => op :: acc

def chainMergeBlock (mk : List (Op K D) → Op K D) (l : List (Op K D)) : List (Op K D) :=
  (l.foldl (chainMergeBlockStep S mk) []).reverse

/-- nested chains unpacked (`opsnew += op._ops if isinstance(op, ChainOperator) else [op]`) -/
def chainFlatten (ops : List (Op K D)) : List (Op K D) :=
  ops.flatMap (fun o => match o with | .chain l => l | o => [o])

/-- a NullOperator anywhere: the whole chain is a NullOperator -/
def chainNullCollapse (ops1 : List (Op K D)) : List (Op K D) :=
  if ops1.any isNull then
    [Op.null (match ops1.getLast? with | some o => dom o | none => 0) (match ops1.head? with | some o => tgt o | none => 0)]
  else ops1

/-- `ops[-1].domain` -/
def lastDom (l : List (Op K D)) : Nat := match l.getLast? with | some o => dom o | none => 0

/-- one step of `fct *= op._factor.real` over the real ScalingOperators of a chain -/
def chainCollectStep (f : K) (o : Op K D) : K :=
  match o with
  | .scaling _ c _ => if S.kIsReal c then S.kmul f (S.kre c) else f
  | _ => f

/-- the rest of ChainOperator.simplify: collect the real scalings, absorb, merge diagonals and block-diagonals -/
def chainPost (mk : List (Op K D) → Op K D) (ops2 : List (Op K D)) : List (Op K D) :=
  let fct := ops2.foldl (chainCollectStep S) S.kone
  let opsnew := ops2.filter (fun o => !isRealScaling S o)
  let lastdom := lastDom ops2
  let r := if !S.keq fct S.kone then chainAbsorb S fct opsnew else (opsnew, fct)
  let ops3 := if !S.keq r.2 S.kone || r.1.isEmpty then r.1 ++ [Op.scaling lastdom r.2 0] else r.1
  let ops4 := chainMergeDiag S ops3
  chainMergeBlock S mk ops4

def chainSimplifyCore (mk : List (Op K D) → Op K D) (ops : List (Op K D)) : List (Op K D) :=
  chainPost S mk (chainNullCollapse (chainFlatten ops))

/-- ChainOperator.simplify (after the domain check) -/
def chainSimplify (mk : List (Op K D) → Op K D) (ops : List (Op K D)) : List (Op K D) :=
  match ops with
  | [o] => [o]
  | [a, b] => if isIdentity S a then [b] else if isIdentity S b then [a] else chainSimplifyCore S mk ops
  | _ => chainSimplifyCore S mk ops

/-- ChainOperator.make after the checks; the `Nat` bounds the recursion through block-diagonal entries -/
def mkChainU : Nat → List (Op K D) → Op K D
  | 0, ops => Op.chain ops
  | fuel + 1, ops =>
    match chainSimplify S (mkChainU fuel) ops with
    | [o] => o
    | l => Op.chain l

/-- recursion bound handed to the simplifiers by the public constructors (deeper block nesting is left unmerged) -/
def FUEL : Nat := 64

/-- ChainOperator.make -/
def mkChain (ops : List (Op K D)) : Except String (Op K D) :=
  if ops.isEmpty then .error "ValueError" else
  if ops.length == 1 then .ok (mkChainU S FUEL ops) else
  -- check_object_identity(ops[i + 1].target, ops[i].domain)
  if (ops.zip (ops.drop 1)).all (fun (a, b) => tgt b == dom a) then .ok (mkChainU S FUEL ops)
  else .error "ValueError"

/-- LinearOperator.__matmul__ -/
def matmul (a b : Op K D) : Except String (Op K D) :=
  if isIdentity S b then .ok a else mkChain S [a, b]

/-- LinearOperator.__call__ on an operator argument -/
def callOp (a b : Op K D) : Except String (Op K D) :=
  if isIdentity S a then .ok b else matmul S a b

/-- Operator.scale -/
def scale (o : Op K D) (f : K) : Except String (Op K D) :=
  if S.keq f S.kone then .ok o else callOp S (Op.scaling (tgt o) f 0) o

/-- total version of `-op` for well-formed `op` (a scaling chained with an operator on its own target never fails) -/
def negU (fuel : Nat) (o : Op K D) : Op K D :=
  mkChainU S fuel [Op.scaling (tgt o) (S.kneg S.kone) 0, o]

/-- `_combine_sum` (repaired): a missing entry is the identity `ScalingOperator(domain[key], 1.)` — in particular a key missing
    in BOTH operands becomes `1 ± 1` (twice the identity, or zero), never "still missing" -/
def unitEntry (v : Op K D) : Op K D := match v with | .idEntry d => Op.scaling d S.kone 0 | v => v

/-- `BlockDiagonalOperator._combine_sum`: entry-wise `SumOperator.make([v1, v2], [selfneg, opneg])` -/
def combineSum (mk : List (Op K D) → List Bool → Op K D) (dm : Nat) (e1 e2 : List (Op K D)) (n1 n2 : Bool) : Op K D :=
  Op.blockdiag dm ((e1.zip e2).map fun p => mk [unitEntry S p.1, unitEntry S p.2] [n1, n2])

def sumMergeBlocksInner (fuel : Nat) (mk : List (Op K D) → List Bool → Op K D) (acc : Op K D) (accneg : Bool) :
    List (Op K D × Bool) → Op K D × Bool × List (Op K D × Bool)
  | [] => (acc, accneg, [])
  | (p, pn) :: r =>
      match acc, p with
      | .blockdiag dm e1, .blockdiag _ e2 =>
          sumMergeBlocksInner fuel mk (combineSum S mk dm e1 e2 accneg pn) false r
      | _, _ =>
        let (a, an, r') := sumMergeBlocksInner fuel mk acc accneg r
        (a, an, (p, pn) :: r')

theorem sumMergeBlocksInner_length (fuel : Nat) (mk : List (Op K D) → List Bool → Op K D) (acc : Op K D) (accneg : Bool)
    (l : List (Op K D × Bool)) : (sumMergeBlocksInner S fuel mk acc accneg l).2.2.length ≤ l.length := by
  induction l generalizing acc accneg with
  | nil => simp [sumMergeBlocksInner]
  | cons x xs ih =>
    obtain ⟨p, pn⟩ := x
    unfold sumMergeBlocksInner
    split
    · exact Nat.le_trans (ih _ _) (Nat.le_succ _)
    · simp only [List.length_cons]; exact Nat.succ_le_succ (ih _ _)

def sumMergeBlocks (fuel : Nat) (mk : List (Op K D) → List Bool → Op K D) : List (Op K D × Bool) → List (Op K D × Bool)
  | [] => []
  | (o, n) :: rest =>
      if isBlock o then
        let r := sumMergeBlocksInner S fuel mk o n rest
        (r.1, r.2.1) :: sumMergeBlocks fuel mk r.2.2
      else (o, n) :: sumMergeBlocks fuel mk rest
termination_by l => l.length
decreasing_by
  · simp only [List.length_cons]
    exact Nat.lt_succ_of_le (sumMergeBlocksInner_length S _ _ _ _ _)
  · simp

/-- one step of `sum += op._factor * (-1 if ng else 1)` over the ScalingOperators of a group -/
def sumScalStep (s : K) (x : Op K D × Bool) : K :=
  match x.1 with
  | .scaling _ c _ => S.kadd s (if x.2 then S.kneg c else c)
  | _ => s

/-- the common sampling dtype of the scalings of a group (`dtype[0]` if all are equal, else `None`) -/
def commonDtype : List Nat → Nat
  | [] => 0
  | d :: ds => if ds.all (· == d) then d else 0

/-- `opset[0][0].domain` -/
def firstDom (l : List (Op K D × Bool)) : Nat := match l.head? with | some x => dom x.1 | none => 0

/-- one `(domain, target)` group of SumOperator.simplify -/
def sumProcessGroup (fuel : Nat) (mk : List (Op K D) → List Bool → Op K D) (opset : List (Op K D × Bool)) :
    List (Op K D × Bool) :=
  let scal := opset.filter (fun x => isScaling x.1)
  let s := scal.foldl (sumScalStep S) S.kzero
  let dts := scal.map (fun x => dtOf x.1)
  let dtype := commonDtype dts
  let others := opset.filter (fun x => !isScaling x.1)
  let lastdom := firstDom opset
  let r := if !S.keq s S.kzero then sumAbsorb S s dtype others else (others, s)
  let ops3 := if !S.keq r.2 S.kzero || r.1.isEmpty then r.1 ++ [(Op.scaling lastdom r.2 dtype, false)] else r.1
  sumMergeBlocks S fuel mk (sumMergeDiags S ops3)

/-- nested sums unpacked with their signs (`negnew += [not n for n in op._neg]` for a subtracted sum) -/
def sumFlatten (ops : List (Op K D)) (neg : List Bool) : List (Op K D × Bool) :=
  (ops.zip neg).flatMap (fun x => match x.1 with
      | .sum l ns => l.zip (if x.2 then ns.map (!·) else ns)
      | o => [(o, x.2)])

/-- SumOperator.simplify -/
def sumSimplify (fuel : Nat) (mk : List (Op K D) → List Bool → Op K D) (ops : List (Op K D)) (neg : List Bool) :
    List (Op K D × Bool) :=
  let flat := sumFlatten ops neg
  let keys := groupKeys flat
  keys.flatMap (fun k => sumProcessGroup S fuel mk (flat.filter (fun x => domTgt x.1 == k)))

/-- SumOperator.make after the argument checks -/
def mkSumU : Nat → List (Op K D) → List Bool → Op K D
  | 0, ops, neg => Op.sum ops neg
  | fuel + 1, ops, neg =>
    match sumSimplify S fuel (mkSumU fuel) ops neg with
    | [(o, n)] => if n then negU S FUEL o else o
    | l => Op.sum (l.map (·.1)) (l.map (·.2))

/-- SumOperator.make -/
def mkSum (ops : List (Op K D)) (neg : List Bool) : Except String (Op K D) :=
  if ops.isEmpty then .error "ValueError" else
  if ops.length != neg.length then .error "ValueError" else
  -- domain_union of DomainTuples: all domains (targets) identical
  match ops.head? with
  | none => .error "ValueError"
  | some o0 => if ops.all (fun o => domTgt o == domTgt o0) then .ok (mkSumU S FUEL ops neg) else .error "ValueError"

/-- `_flip_modes(trafo)`, `trafo ∈ {0,1,2,3}` -/
def flip : Op K D → Nat → Op K D
  | .adapter o t0, t =>
      let nt := adapterFlip t0 t
      if nt == 0 then o else .adapter o nt
  | .scaling d c dt, t => .scaling d (scalingFlipFactor S c t) dt
  | .diag dm d t0 dt, t => .diag dm d (diagFlip t0 t) dt
  | .chain ops, t =>
      if t == 0 then .chain ops else
      match chainFlipReversed.getD (t - 1) false with
      | true => mkChainU S FUEL (ops.reverse.map (flip · t))
      | false => mkChainU S FUEL (ops.map (flip · t))
  | o, t => if t == 0 then o else .adapter o t

/-- `_flip_modes(trafo)` raises ZeroDivisionError: a ScalingOperator with factor 0 is asked for `1.0 / fct`
    (directly or as a member of a chain, whose members are flipped before `make`) -/
def flipRaises : Op K D → Nat → Bool
  | .scaling _ c _, t => scalingFlipInv t && S.keq c S.kzero
  | .chain ops, t => t != 0 && (ops.map (flipRaises · t)).any id
  | _, _ => false

/-- the `.adjoint` property (SumOperator overrides it, everything else is `_flip_modes(ADJOINT_BIT)`) -/
def adjointOf : Op K D → Op K D
  | .sum ops neg => mkSumU S FUEL (ops.map adjointOf) neg
  | o => flip S o ADJOINT_BIT

/-- the `.inverse` property -/
def inverseOf (o : Op K D) : Op K D := flip S o INVERSE_BIT

/-- SandwichOperator.make, first part: a SandwichOperator as cheese is unpacked (`bun = old_cheese._bun @ bun`), a missing cheese
    is the identity `ScalingOperator(bun.target, 1., sampling_dtype)` -/
def sandwichArgs (bun : Op K D) (cheese : Option (Op K D)) (dt : Nat) : Except String (Op K D × Op K D) :=
  match cheese with
  | some (.sandwich ob oc _) =>
      match matmul S ob bun with
      | .ok b => .ok (b, oc)
      | .error e => .error e
  | some c => .ok (bun, c)
  | none => .ok (bun, Op.scaling (tgt bun) S.kone dt)

/-- SandwichOperator.make, second part: the scaling-bun shortcuts (`|g|² == 1`: the cheese itself; else `cheese.scale(|g|²)`)
    or the chain `bun.adjoint @ cheese @ bun` -/
def sandwichCore (bun cheese : Op K D) : Except String (Op K D) :=
  match bun with
  | .scaling _ c _ =>
      if S.keq (S.kabs2 c) S.kone then .ok cheese else
      match scale S cheese (S.kabs2 c) with
      | .ok op => .ok (Op.sandwich bun cheese op)
      | .error e => .error e
  | _ =>
      match matmul S (adjointOf S bun) cheese with
      | .error e => .error e
      | .ok t =>
        match matmul S t bun with
        | .ok op => .ok (Op.sandwich bun cheese op)
        | .error e => .error e

/-- SandwichOperator.make(bun, cheese, sampling_dtype) -/
def mkSandwich (bun : Op K D) (cheese : Option (Op K D)) (dt : Nat) : Except String (Op K D) :=
  match sandwichArgs S bun cheese dt with
  | .ok (b, c) => sandwichCore S b c
  | .error e => .error e

/-- BlockDiagonalOperator(domain, operators): `subdoms` are the domain ids of the keys, `ents[i] = none` for a missing key -/
def mkBlock (dm : Nat) (subdoms : List Nat) (ents : List (Option (Op K D))) : Except String (Op K D) :=
  if subdoms.length != ents.length then .error "KeyError" else
  if ents.all (fun e => match e with | some o => dom o == tgt o | none => true) then
    .ok (Op.blockdiag dm ((subdoms.zip ents).map fun (d, e) => match e with | some o => o | none => Op.idEntry d))
  else .error "TypeError"

/-- InversionEnabler(op, ic) -/
def mkInvEnabler (o : Op K D) : Except String (Op K D) :=
  if dom o == tgt o then .ok (Op.invEnabler o) else .error "TypeError"

end build

/-! ### construction scripts: the expression trees of the property -/

/-- operator expressions as written by a user: leaves of the library and `+ - @ .adjoint .inverse -x x.scale(c)`,
    `SandwichOperator.make`, `InversionEnabler`, `BlockDiagonalOperator` (`missing` = an absent key) -/
inductive Expr (K D : Type) where
  | leaf (id cap dom tgt : Nat)
  | scaling (dom : Nat) (c : K) (dt : Nat)
  | diag (dom : Nat) (d : D) (dt : Nat)
  | null (dom tgt : Nat)
  | add (a b : Expr K D)
  | sub (a b : Expr K D)
  | matmul (a b : Expr K D)
  | adjoint (a : Expr K D)
  | inverse (a : Expr K D)
  | neg (a : Expr K D)
  | scale (a : Expr K D) (c : K)
  | sandwich (bun cheese : Expr K D) (dt : Nat)
  | sandwichNone (bun : Expr K D) (dt : Nat)
  | invEnabler (a : Expr K D)
  | block (dom : Nat) (subdoms : List Nat) (ents : List (Expr K D))
  | missing
deriving Inhabited

def isMissing : Expr K D → Bool | .missing => true | _ => false

/-- first error in list order, else all values -/
def seqExcept {α : Type} : List (Except String α) → Except String (List α)
  | [] => .ok []
  | .error e :: _ => .error e
  | .ok x :: rest => match seqExcept rest with
    | .ok xs => .ok (x :: xs)
    | .error e => .error e

section buildExpr
variable (S : Sem K D R)

/-- evaluate a construction script with the (modelled) NIFTy constructors and operator overloads -/
def build : Expr K D → Except String (Op K D)
  | .leaf id cap dom tgt => .ok (Op.leaf id cap dom tgt)
  | .scaling d c dt => .ok (Op.scaling d c dt)
  | .diag d v dt => .ok (Op.diag d v 0 dt)
  | .null d t => .ok (Op.null d t)
  | .add a b => match build a, build b with
    | .ok x, .ok y => mkSum S [x, y] [false, false]
    | .error e, _ => .error e
    | _, .error e => .error e
  | .sub a b => match build a, build b with
    | .ok x, .ok y => mkSum S [x, y] [false, true]
    | .error e, _ => .error e
    | _, .error e => .error e
  | .matmul a b => match build a, build b with
    | .ok x, .ok y => matmul S x y
    | .error e, _ => .error e
    | _, .error e => .error e
  | .adjoint a => match build a with
    | .ok x => .ok (adjointOf S x)
    | .error e => .error e
  | .inverse a => match build a with
    | .ok x => if flipRaises S x INVERSE_BIT then .error "ZeroDivisionError" else .ok (inverseOf S x)
    | .error e => .error e
  | .neg a => match build a with
    | .ok x => scale S x (S.kneg S.kone)
    | .error e => .error e
  | .scale a c => match build a with
    | .ok x => scale S x c
    | .error e => .error e
  | .sandwich bun cheese dt => match build bun, build cheese with
    | .ok b, .ok c => mkSandwich S b (some c) dt
    | .error e, _ => .error e
    | _, .error e => .error e
  | .sandwichNone bun dt => match build bun with
    | .ok b => mkSandwich S b none dt
    | .error e => .error e
  | .invEnabler a => match build a with
    | .ok x => mkInvEnabler x
    | .error e => .error e
  | .block dm sd ents =>
    match seqExcept (ents.map fun e =>
        if isMissing e then (.ok none : Except String (Option (Op K D))) else
        match build e with
        | .ok o => .ok (some o)
        | .error err => .error err) with
    | .ok es => mkBlock dm sd es
    | .error e => .error e
  | .missing => .error "bad-script"

end buildExpr


/-! ### which scripts the theorem `tree_sound` (Props/C01.lean) covers — computable, reported by the driver -/

def isSumOp : Op K D → Bool | .sum _ _ => true | _ => false
def isSandwichOp : Op K D → Bool | .sandwich _ _ _ => true | _ => false

/-- the script is a sum, possibly under `.adjoint` -/
def sumRooted : Expr K D → Bool
  | .add _ _ => true
  | .sub _ _ => true
  | .adjoint a => sumRooted a
  | _ => false

section covered
variable (S : Sem K D R)

/-- scripts covered by `tree_sound`: no block-diagonal operators, no InversionEnabler; `.adjoint` (and a sandwich bun) of an
    operator that *is* a SumOperator must syntactically be a sum; the cheese of a sandwich is not itself a SandwichOperator -/
def treeOK : Expr K D → Bool
  | .leaf _ _ _ _ => true
  | .scaling _ _ _ => true
  | .diag _ _ _ => true
  | .null _ _ => true
  | .add a b => treeOK a && treeOK b
  | .sub a b => treeOK a && treeOK b
  | .matmul a b => treeOK a && treeOK b
  | .adjoint a => treeOK a && (match build S a with | .ok x => !isSumOp x || sumRooted a | .error _ => true)
  | .inverse a => treeOK a
  | .neg a => treeOK a
  | .scale a _ => treeOK a
  | .sandwich bun ch _ => treeOK bun && treeOK ch &&
      (match build S bun with | .ok x => !isSumOp x || sumRooted bun | .error _ => true) &&
      (match build S ch with | .ok c => !isSandwichOp c | .error _ => true)
  | .sandwichNone bun _ => treeOK bun && (match build S bun with | .ok x => !isSumOp x || sumRooted bun | .error _ => true)
  | _ => false

end covered

end NiftyVerif.OpAlgebra
