/-
  File system below an output directory, as seen by a process that can be killed at any instant
  (shared by C24 `Model/CrashRe.lean` and C25 `Model/CrashCl.lean`).   Core imports only.

  * a file system is a map  path ↦ absent | content ; a *partially written* file is simply a file whose content
    is a proper prefix of what the code meant to write.  Python file objects are buffered: `write()` puts the data into
    the process' buffer (`Op.wbuf`, lost when the process is killed) and it reaches the file when the buffer is flushed at
    `close()`, modelled byte by byte (`Op.append`), so "killed in the middle of the flush" is "killed between two
    `append`s" and "killed between write() and close()" leaves the file as `open` left it (empty after "w");
  * `exec` is the effect of one operation, `execs` of a sequence; a process killed after `k` operations leaves
    `execs fs (ops.take k)`; nothing else of the process survives.
  Directories are not tracked (`mkdir` has no effect on the file map; the drivers create them with exist_ok=True
  before anything else on every start).  Power loss (unsynced data after `close`) is outside the model.
-/
namespace NiftyVerif.CrashFS

abbrev Bytes := List Nat

/-- path ↦ `none` (absent) | `some content`.  (A structure around the lookup function, so that file systems are values
    that are computed once, not partial applications re-evaluated at every lookup; `fs p` is `fs.get p`.) -/
structure FS (P : Type) where
  get : P → Option Bytes

instance {P : Type} : CoeFun (FS P) (fun _ => P → Option Bytes) := ⟨FS.get⟩

def FS.empty {P : Type} : FS P := ⟨fun _ => none⟩

def FS.set {P : Type} [DecidableEq P] (fs : FS P) (p : P) (v : Option Bytes) : FS P :=
  ⟨fun q => if q = p then v else fs.get q⟩

inductive Op (P : Type) where
  | mkdir (p : P)                 -- os.makedirs(p, exist_ok=True)
  | openW (p : P)                 -- open(p, "w"/"wb"): create or truncate
  | openA (p : P)                 -- open(p, "a"): create if absent, keep content
  | wbuf (p : P)                  -- write(): the data goes into the process' buffer; nothing reaches the file
  | append (p : P) (b : Nat)      -- flush at close(): one more byte of the buffered data has reached the file
  | close (p : P)                 -- end of close(): no further effect on the content
  | replace (src dst : P)         -- os.replace(src, dst): atomic
  | remove (p : P)                -- os.remove / Path.unlink(missing_ok=True)
  | opaque (p : P)                -- a file written by a library (HDF5, PNG) that nothing ever reads back
  deriving Repr, DecidableEq

def exec {P : Type} [DecidableEq P] (fs : FS P) : Op P → FS P
  | .mkdir _ => fs
  | .wbuf _ => fs
  | .openW p => fs.set p (some [])
  | .openA p => fs.set p (some ((fs p).getD []))
  | .append p b => fs.set p (some ((fs p).getD [] ++ [b]))
  | .close _ => fs
  | .replace s d => (fs.set d (fs s)).set s none
  | .remove p => fs.set p none
  | .opaque p => fs.set p (some [])

def execs {P : Type} [DecidableEq P] (fs : FS P) (ops : List (Op P)) : FS P := ops.foldl exec fs

/-- the operations of `with open(p, "wb") as f: f.write(c)`: open (truncate), write into the buffer, then at close() the
    buffered `c` reaches the file byte by byte (a process killed before the flush leaves the file EMPTY, killed during it a
    prefix) -/
def writeFile {P : Type} (p : P) (c : Bytes) : List (Op P) :=
  Op.openW p :: Op.wbuf p :: (c.map (Op.append p) ++ [Op.close p])

/-- the operations of `with open(p, "a") as f: f.write(c)` -/
def appendFile {P : Type} (p : P) (c : Bytes) : List (Op P) :=
  Op.openA p :: Op.wbuf p :: (c.map (Op.append p) ++ [Op.close p])

/-- does the operation (possibly) change the entry of path `q`? -/
def Op.touches {P : Type} [DecidableEq P] (q : P) : Op P → Bool
  | .mkdir _ => false
  | .wbuf _ => false
  | .openW p => p = q
  | .openA p => p = q
  | .append p _ => p = q
  | .close _ => false
  | .replace s d => s = q || d = q
  | .remove p => p = q
  | .opaque p => p = q

/-- the process is killed after its first `k` operations -/
def crash {P : Type} [DecidableEq P] (fs : FS P) (ops : List (Op P)) (k : Nat) : FS P := execs fs (ops.take k)

/-- coarse view of an op sequence (what the recording injector sees): consecutive appends to one path are one write -/
def coarse {P : Type} [DecidableEq P] (name : P → String) : List (Op P) → List String
  | [] => []
  | .append p _ :: rest =>
      let r := coarse name rest
      let s := "flush " ++ name p
      if r.head? = some s then r else s :: r
  | .wbuf p :: rest => ("write " ++ name p) :: coarse name rest
  | .mkdir p :: rest => ("mkdir " ++ name p) :: coarse name rest
  | .openW p :: rest => ("openw " ++ name p) :: coarse name rest
  | .openA p :: rest => ("opena " ++ name p) :: coarse name rest
  | .close p :: rest => ("close " ++ name p) :: coarse name rest
  | .replace s d :: rest => ("replace " ++ name s ++ " -> " ++ name d) :: coarse name rest
  | .remove p :: rest => ("remove " ++ name p) :: coarse name rest
  | .opaque p :: rest => ("opaque " ++ name p) :: coarse name rest

end NiftyVerif.CrashFS
