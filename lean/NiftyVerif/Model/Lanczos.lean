/-
  Model of nifty/re/num/lanczos.py (C34).  Core imports only.

  _lanczos_tridiag (one probe, exact arithmetic, no breakdown; re-orthogonalisation is a no-op in exact arithmetic):
      w = matvec(v_curr); a = dot(v_curr, w); w = w - a*v_curr - (i>0 ? beta[i-1]*v_prev : 0)
      b = norm(w); v_next = w / b; alpha[i] = a; beta[i] = b
  _welford_merge / _welford_from_samples / _welford_finalize
  _eigsh batch bookkeeping when resuming with precomputed eigenpairs
-/
namespace NiftyVerif.Lanczos

section lanczos
variable {K V : Type} [Add V] [Sub V] [SMul K V] [Div K] [OfNat K 1]

/-- state after step `i`: `(v_i, v_{i+1}, α_i, β_i)` -/
structure LState (K V : Type) where
  v : V
  vNext : V
  alpha : K
  beta : K

/-- step `0`: no previous vector -/
def step0 (A : V → V) (ip : V → V → K) (sqrt : K → K) (v : V) : LState K V :=
  let w := A v
  let a := ip v w
  let w := w - a • v
  let b := sqrt (ip w w)
  ⟨v, (1 / b) • w, a, b⟩

/-- step `i > 0` -/
def stepS (A : V → V) (ip : V → V → K) (sqrt : K → K) (s : LState K V) : LState K V :=
  let w := A s.vNext
  let a := ip s.vNext w
  let w := w - a • s.vNext - s.beta • s.v
  let b := sqrt (ip w w)
  ⟨s.vNext, (1 / b) • w, a, b⟩

def run (A : V → V) (ip : V → V → K) (sqrt : K → K) (v1 : V) : Nat → LState K V
  | 0 => step0 A ip sqrt v1
  | i + 1 => stepS A ip sqrt (run A ip sqrt v1 i)

/-- Lanczos vectors `v_0 = v1, v_1, …` -/
def basis (A : V → V) (ip : V → V → K) (sqrt : K → K) (v1 : V) : Nat → V
  | 0 => v1
  | i + 1 => (run A ip sqrt v1 i).vNext

def alphaAt (A : V → V) (ip : V → V → K) (sqrt : K → K) (v1 : V) (i : Nat) : K := (run A ip sqrt v1 i).alpha
def betaAt (A : V → V) (ip : V → V → K) (sqrt : K → K) (v1 : V) (i : Nat) : K := (run A ip sqrt v1 i).beta

end lanczos

/-! ### Welford summaries `(mean, m2, count)` -/
section welford
variable {K : Type} [Add K] [Sub K] [Mul K] [Div K] [OfNat K 0]

structure WState (K : Type) where
  mean : K
  m2 : K
  n : K

/-- `_welford_merge` (counts as field elements; the `n > 0` guards select these branches) -/
def welfordMerge (a b : WState K) : WState K :=
  let n := a.n + b.n
  let mean := (a.n * a.mean + b.n * b.mean) / n
  let delta := b.mean - a.mean
  let m2 := a.m2 + b.m2 + delta * delta * (a.n * b.n) / n
  ⟨mean, m2, n⟩

/-- `_welford_from_samples` in terms of the power sums `S1 = Σx`, `S2 = Σx²`:
    mean = S1/n, m2 = Σ(x-mean)² = S2 − S1²/n -/
def welfordOfSums (s1 s2 n : K) : WState K := ⟨s1 / n, s2 - s1 * s1 / n, n⟩

end welford

/-! ### `_eigsh` batch bookkeeping -/

/-- `full_batches = [base+1]*remainder + [base]*(n_batches-remainder)`, zero batches dropped -/
def fullBatches (nEig nBatches : Nat) : List Nat :=
  let base := nEig / nBatches
  let rem := nEig % nBatches
  ((List.replicate rem (base + 1)) ++ (List.replicate (nBatches - rem) base)).filter (· > 0)

/-- the `skip` loop: batches already covered by precomputed eigenpairs are dropped / shortened -/
def resumeBatches : List Nat → Nat → List Nat
  | [], _ => []
  | b :: bs, skip =>
    if skip ≥ b then resumeBatches bs (skip - b)
    else if skip > 0 then (b - skip) :: resumeBatches bs 0
    else b :: resumeBatches bs 0

end NiftyVerif.Lanczos
