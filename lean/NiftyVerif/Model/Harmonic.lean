/-
  Model/Harmonic.lean — executable model of NIFTy's harmonic transforms (C09).  Core imports only.

  Modelled code (statement by statement where it is decision logic):
    nifty/cl/operators/harmonic_operators.py   FFTOperator.apply, HartleyOperator.apply/_apply_cartesian,
                                               HarmonicTransformOperator (RGSpace branch), HarmonicSmoothingOperator
    nifty/cl/ducc_dispatch.py                  fftn, ifftn (ducc c2c, inorm=2 backward), _scipy_hartley / hartley
    nifty/re/correlated_field.py               hartley (same formula as _scipy_hartley)
    nifty/cl/domains/rg_space.py               scalar_dvol, distances of harmonic partner, k-length array (squared)

  Scalars: any type `K` with ring operations; for every transformed axis `a` an element `w_a` playing the
  role of e^{-2πi/n_a} and its conjugate/inverse `wb_a`; an element `I` (imaginary unit), `half` (1/2) and a
  conjugation `conj`.  Proof files instantiate `K` with a commutative domain and `IsPrimitiveRoot w_a n_a`;
  the driver instantiates `K` with ℚ[X]/(X^N-1)[I] (exact).

  Tensors: an array of a product domain is viewed as a function of the multi-index
  (p, j1, j2, j3, q): `p` = flattened index of all spaces before `space`, (j1,j2,j3) = index inside the
  transformed RGSpace (1-3 dimensions, padded with axes of length 1), `q` = flattened rest.
  Flattening (row-major) is done by the driver.
-/

namespace NiftyVerif.Harmonic

/-- Σ_{i<n} f i (own recursion: no instance mismatch between core and Mathlib) -/
def sumTo {K} [Add K] [OfNat K 0] : Nat → (Nat → K) → K
  | 0, _ => 0
  | n + 1, f => sumTo n f + f n

/-- x^k by recursion -/
def powN {K} [Mul K] [OfNat K 1] (x : K) : Nat → K
  | 0 => 1
  | k + 1 => powN x k * x

/-- the natural number `n` as an element of `K` -/
def natK {K} [Add K] [OfNat K 0] [OfNat K 1] : Nat → K
  | 0 => 0
  | n + 1 => natK n + 1

/-- multi-index of a tensor over a product domain, relative to the transformed space -/
structure Idx where
  p : Nat
  j1 : Nat
  j2 : Nat
  j3 : Nat
  q : Nat
deriving DecidableEq, Repr

abbrev Tensor (K : Type) := Idx → K

def Idx.set1 (i : Idx) (j : Nat) : Idx := { i with j1 := j }
def Idx.set2 (i : Idx) (j : Nat) : Idx := { i with j2 := j }
def Idx.set3 (i : Idx) (j : Nat) : Idx := { i with j3 := j }

section ops
variable {K : Type} [Add K] [Mul K] [OfNat K 0] [OfNat K 1]

/-- apply the matrix `A` (entries `A k j`) along axis 1 (length `n`) -/
def ax1 (n : Nat) (A : Nat → Nat → K) (x : Tensor K) : Tensor K :=
  fun i => sumTo n (fun j => A i.j1 j * x (i.set1 j))
def ax2 (n : Nat) (A : Nat → Nat → K) (x : Tensor K) : Tensor K :=
  fun i => sumTo n (fun j => A i.j2 j * x (i.set2 j))
def ax3 (n : Nat) (A : Nat → Nat → K) (x : Tensor K) : Tensor K :=
  fun i => sumTo n (fun j => A i.j3 j * x (i.set3 j))

/-- unnormalised DFT matrix for the root `w`: F_{kj} = w^(j k) -/
def dftMat (w : K) (k j : Nat) : K := powN w (j * k)

/-- The transformed RGSpace: axis lengths, roots of unity per axis, their conjugates, 1/ncells. -/
structure Grid (K : Type) where
  n1 : Nat
  n2 : Nat
  n3 : Nat
  w1 : K
  w2 : K
  w3 : K
  wb1 : K
  wb2 : K
  wb3 : K
  /-- 1 / (n1*n2*n3), the `inorm=2` normalisation of ducc's backward c2c / scipy.fft.ifftn -/
  nInv : K

def Grid.ncells (g : Grid K) : Nat := g.n1 * g.n2 * g.n3

/-- `ducc_dispatch.fftn(a, axes)` / `_scipy_fftn`: forward, unnormalised, over the axes of the space -/
def fftn3 (g : Grid K) (x : Tensor K) : Tensor K :=
  ax3 g.n3 (dftMat g.w3) (ax2 g.n2 (dftMat g.w2) (ax1 g.n1 (dftMat g.w1) x))

/-- `ducc_dispatch.ifftn(a, axes)` / `_scipy_ifftn`: backward (conjugate root), normalised by 1/ncells -/
def ifftn3 (g : Grid K) (x : Tensor K) : Tensor K :=
  fun i => g.nInv * ax3 g.n3 (dftMat g.wb3) (ax2 g.n2 (dftMat g.wb2) (ax1 g.n1 (dftMat g.wb1) x)) i

/-- `LinearOperator._dom(mode)` is `domain` iff `mode & 9`; the transformed space of the input is harmonic iff … -/
def inputHarmonic (domHarmonic : Bool) (mode : Nat) : Bool :=
  if mode &&& 9 != 0 then domHarmonic else !domHarmonic

/-- FFTOperator.apply, transcribed:
```
ncells = x.domain[space].size
if x.domain[space].harmonic: func = ifftn; fct = ncells
else:                        func = fftn;  fct = 1.
tmp = func(x.val, axes)
if mode & (TIMES|ADJOINT_TIMES): fct *= domain[space].scalar_dvol
else:                            fct *= target[space].scalar_dvol
return Tval if fct == 1 else Tval*fct
```
`dvolD`, `dvolT`: scalar_dvol of `domain[space]`, `target[space]`; `domHarmonic`: `domain[space].harmonic`. -/
def fftApply (g : Grid K) (domHarmonic : Bool) (dvolD dvolT : K) (mode : Nat) (x : Tensor K) : Tensor K :=
  let ncells : K := natK g.ncells
  let harm := inputHarmonic domHarmonic mode
  let fct0 : K := if harm then ncells else 1
  let tmp : Tensor K := if harm then ifftn3 g x else fftn3 g x
  let fct : K := if mode &&& 3 != 0 then fct0 * dvolD else fct0 * dvolT
  fun i => tmp i * fct

end ops

section hartley
variable {K : Type} [Add K] [Sub K] [Neg K] [Mul K] [OfNat K 0] [OfNat K 1]

/-- scalar context for real/imaginary parts -/
structure Scal (K : Type) where
  I : K
  half : K
  conj : K → K

def Scal.re (s : Scal K) (z : K) : K := s.half * (z + s.conj z)
/-- Im z = (z - conj z)/(2i) = -i (z - conj z)/2 -/
def Scal.im (s : Scal K) (z : K) : K := (-s.I) * (s.half * (z - s.conj z))

/-- `_scipy_hartley` / `nifty.re.correlated_field.hartley`:
```
tmp = fftn(a, axes)
add_or_sub = operator.add if c == "non_canonical_hartley" else operator.sub
return add_or_sub(tmp.real, tmp.imag)
```
(`ducc_dispatch.hartley` dispatches to ducc0 `genuine_hartley` = real+imag resp. `genuine_fht` = real-imag.) -/
def hartley3 (s : Scal K) (g : Grid K) (nonCanonical : Bool) (x : Tensor K) : Tensor K :=
  fun i =>
    let t := fftn3 g x i
    if nonCanonical then s.re t + s.im t else s.re t - s.im t

/-- HartleyOperator._apply_cartesian, transcribed:
```
tmp = hartley(x.val, axes)
if mode & (TIMES|ADJOINT_TIMES): fct = domain[space].scalar_dvol
else:                            fct = target[space].scalar_dvol
return Tval if fct == 1 else Tval*fct
``` -/
def hartleyCartesian (s : Scal K) (g : Grid K) (nonCanonical : Bool) (dvolD dvolT : K) (mode : Nat)
    (x : Tensor K) : Tensor K :=
  let tmp := hartley3 s g nonCanonical x
  let fct : K := if mode &&& 3 != 0 then dvolD else dvolT
  fun i => tmp i * fct

/-- HartleyOperator.apply on complex input `xr + i·xi` (both parts real tensors):
`self._apply_cartesian(x.real, mode) + 1j*self._apply_cartesian(x.imag, mode)` -/
def hartleyApplyComplex (s : Scal K) (g : Grid K) (nonCanonical : Bool) (dvolD dvolT : K) (mode : Nat)
    (xr xi : Tensor K) : Tensor K :=
  fun i => hartleyCartesian s g nonCanonical dvolD dvolT mode xr i
            + s.I * hartleyCartesian s g nonCanonical dvolD dvolT mode xi i

/-- the Hartley matrix the theorems talk about: H = ((1 - c i) F + (1 + c i) F̄)/2, c = +1 for the
non-canonical convention (Re F + Im F), c = -1 for the canonical one (Re F - Im F) -/
def hartleyMat (s : Scal K) (w wb : K) (nonCanonical : Bool) (k j : Nat) : K :=
  let c : K := if nonCanonical then 1 else -1
  s.half * ((1 - c * s.I) * dftMat w k j + (1 + c * s.I) * dftMat wb k j)

/-- HarmonicSmoothingOperator(domain, sigma, space), transcribed:
```
if sigma == 0.: return ScalingOperator(domain, 1.)
Hartley = HartleyOperator(domain, space=space)            # position -> harmonic (codomain)
kernel  = smoother(codomain.get_k_length_array())           # lives on codomain[space] only
diag    = DiagonalOperator(kernel, ddom, space)
return Hartley.inverse(diag(Hartley))
```
`kern i` depends on (j1,j2,j3) only (broadcast by DiagonalOperator); `dvolD`,`dvolT` as for HartleyOperator. -/
def smoothApply (s : Scal K) (g : Grid K) (nonCanonical : Bool) (dvolD dvolT : K) (sigmaIsZero : Bool)
    (kern : Tensor K) (x : Tensor K) : Tensor K :=
  if sigmaIsZero then x
  else
    let hx := hartleyCartesian s g nonCanonical dvolD dvolT 1 x
    let dx : Tensor K := fun i => kern i * hx i
    hartleyCartesian s g nonCanonical dvolD dvolT 4 dx

end hartley

/-! ### RGSpace volume logic over exact rationals (rg_space.py) -/

/-- `RGSpace.distances` for one axis: `rdist` on a position space, `1/(n*rdist)` on the harmonic partner -/
def rgDistance (harmonic : Bool) (n : Nat) (rdist : Rat) : Rat :=
  if harmonic then 1 / ((n : Rat) * rdist) else rdist

/-- `scalar_dvol` = product of the distances -/
def rgDvol (harmonic : Bool) : List (Nat × Rat) → Rat
  | [] => 1
  | (n, d) :: r => rgDistance harmonic n d * rgDvol harmonic r

/-- squared entry of `_get_dist_array` along one axis: (min(j, n-j)·dist)² -/
def kAxisSq (n : Nat) (dist : Rat) (j : Nat) : Rat :=
  let m : Nat := min j (n - j)
  ((m : Rat) * dist) * ((m : Rat) * dist)

/-- squared k-length of the harmonic partner at grid index (j1,j2,j3): `get_k_length_array()**2`;
    `h1 h2 h3` are the harmonic distances 1/(n·rdist) -/
def kSq (n1 n2 n3 : Nat) (h1 h2 h3 : Rat) (i : Idx) : Rat :=
  kAxisSq n1 h1 i.j1 + kAxisSq n2 h2 i.j2 + kAxisSq n3 h3 i.j3

end NiftyVerif.Harmonic
