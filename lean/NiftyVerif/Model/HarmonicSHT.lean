/-
  Model/HarmonicSHT.lean — SHTOperator's re-packing between NIFTy's real LMSpace layout and ducc's complex a_lm
  (nifty/cl/operators/harmonic_operators.py `_slice_h2p`, `_slice_p2h`), over abstract spherical-harmonic values.
  Core imports only.

  ducc's a_lm array (mmax ≤ lmax): first the L = lmax+1 coefficients with m = 0 (l = 0..lmax), then the M coefficients
  with m ≥ 1 (m-major).  NIFTy's LMSpace vector: the L real m=0 coefficients, then (real, imag) pairs.
  `yre k p`, `yim k p`: real and imaginary part of Y_{l(k) m(k)} at pixel p (trusted special functions; the harness
  compares the real operator with scipy's values).  `r2` = √2, `rh` = √½, `c` = 1/√(4π).
-/
import NiftyVerif.Model.Harmonic

namespace NiftyVerif.Harmonic

structure ShtCfg (K : Type) where
  L : Nat
  M : Nat
  npix : Nat
  yre : Nat → Nat → K
  yim : Nat → Nat → K
  r2 : K
  rh : K
  c : K

section
variable {K : Type} [Add K] [Sub K] [Neg K] [Mul K] [OfNat K 0]

/-- ducc0.sht.synthesis, spin 0, real map:  map_p = Σ_{m=0} a_k Y_k(p) + 2 Re Σ_{m≥1} a_k Y_k(p) -/
def synthesis (cfg : ShtCfg K) (are aim : Nat → K) (p : Nat) : K :=
  let t := sumTo cfg.M (fun k' => are (cfg.L + k') * cfg.yre (cfg.L + k') p - aim (cfg.L + k') * cfg.yim (cfg.L + k') p)
  sumTo cfg.L (fun k => are k * cfg.yre k p) + (t + t)

/-- ducc0.sht.adjoint_synthesis:  rr_k = Σ_p map_p · conj(Y_k(p)) -/
def adjSynthRe (cfg : ShtCfg K) (map : Nat → K) (k : Nat) : K := sumTo cfg.npix (fun p => map p * cfg.yre k p)
def adjSynthIm (cfg : ShtCfg K) (map : Nat → K) (k : Nat) : K := -(sumTo cfg.npix (fun p => map p * cfg.yim k p))

/-- `_slice_h2p`:
```
res[0:lmax+1] = inp[0:lmax+1]
res[lmax+1:]  = sqrt(0.5)*(inp[lmax+1::2] + 1j*inp[lmax+2::2])
res = synthesis(alm=res); return res/sqrt(4π)
``` -/
def sliceH2P (cfg : ShtCfg K) (inp : Nat → K) (p : Nat) : K :=
  let are : Nat → K := fun k => if k < cfg.L then inp k else cfg.rh * inp (cfg.L + 2 * (k - cfg.L))
  let aim : Nat → K := fun k => if k < cfg.L then 0 else cfg.rh * inp (cfg.L + 2 * (k - cfg.L) + 1)
  synthesis cfg are aim p * cfg.c

/-- `_slice_p2h`:
```
rr = adjoint_synthesis(map)
res[0:lmax+1]  = rr[0:lmax+1].real
res[lmax+1::2] = sqrt(2)*rr[lmax+1:].real
res[lmax+2::2] = sqrt(2)*rr[lmax+1:].imag
return res/sqrt(4π)
``` -/
def sliceP2H (cfg : ShtCfg K) (map : Nat → K) (idx : Nat) : K :=
  (if idx < cfg.L then adjSynthRe cfg map idx
   else if (idx - cfg.L) % 2 = 0 then cfg.r2 * adjSynthRe cfg map (cfg.L + (idx - cfg.L) / 2)
   else cfg.r2 * adjSynthIm cfg map (cfg.L + (idx - cfg.L) / 2)) * cfg.c

end
end NiftyVerif.Harmonic
