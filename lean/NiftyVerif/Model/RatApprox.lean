/-
  Rational approximations of sqrt / exp / log used by the model DRIVERS only (never by theorems): exact on rational
  squares, otherwise accurate to ~2^-99 relative.  Core imports only.  Everything here is compared in class T only.
-/
namespace NiftyVerif.RatApprox

def P : Nat := 100

/-- floor of the integer square root (Newton from above; `Nat.sqrt` is too slow under the interpreter) -/
def isqrt (n : Nat) : Nat :=
  if n < 2 then n else
  let rec go (x : Nat) (fuel : Nat) : Nat :=
    match fuel with
    | 0 => x
    | f + 1 => let y := (x + n / x) / 2; if y ≥ x then x else go y f
  go (2 ^ (Nat.log2 n / 2 + 1)) 200

/-- exact on squares of rationals, else `⌊√(n·d·4^P)⌋ / (d·2^P)` (relative error < 2^-99) -/
def sqrtRat (x : Rat) : Rat :=
  if x ≤ 0 then 0 else
  let n := x.num.toNat
  let d := x.den
  let sn := isqrt n
  let sd := isqrt d
  if sn * sn == n && sd * sd == d then mkRat sn sd else
  mkRat (isqrt (n * d * 4 ^ P)) (d * 2 ^ P)

def G : Nat := 140

/-- fixed-point (scale 2^G) Taylor sum of exp(y), |y| ≤ 1/16 -/
def taylorExpFix (y : Int) : Int := Id.run do
  let one : Int := (2 ^ G : Nat)
  let mut term : Int := one
  let mut s : Int := one
  for k in [1:30] do
    term := (term * y) / (one * (k : Nat))
    s := s + term
  return s

def expRat (x : Rat) : Rat :=
  if x == 0 then 1 else
  -- saturate: the callers only ever compare with 1 (acceptance) or with values of order 1
  if x > 200 then ((2 ^ 280 : Nat) : Rat) else
  if x < -200 then 0 else
  -- halve until |y| ≤ 1/16
  let m := Id.run do
    let mut m := 0
    let mut a := x.abs
    for _ in [0:80] do
      if a ≤ (1 : Rat) / 16 then break
      a := a / 2
      m := m + 1
    return m
  let one : Int := (2 ^ G : Nat)
  let yfix : Int := (x * ((2 ^ G : Nat) : Rat) / ((2 ^ m : Nat) : Rat)).floor
  Id.run do
    let mut r := taylorExpFix yfix
    for _ in [0:m] do
      r := (r * r) / one
    return mkRat r (2 ^ G)

/-- table of the values of `f` at the arguments that occur (the model asks for the same roots/exponentials at every
    index; the interpreter should compute each once) -/
def tabulate (f : Rat → Rat) (args : List Rat) : Rat → Rat :=
  let tab := args.eraseDups.map (fun a => (a, f a))
  fun x => match tab.lookup x with
    | some v => v
    | none => f x


/-- natural logarithm for x > 0 via `log x = 2·artanh((x-1)/(x+1))` after scaling x into [1/2, 2] by powers of two
    (`log 2` from the same series); fixed point 2^-G -/
def artanhFix (t : Int) : Int := Id.run do
  -- t scaled by 2^G, |t| ≤ 1/3·2^G ; Σ t^(2k+1)/(2k+1)
  let one : Int := (2 ^ G : Nat)
  let t2 := (t * t) / one
  let mut pw := t
  let mut s : Int := 0
  for k in [0:60] do
    s := s + pw / ((2 * k + 1 : Nat) : Int)
    pw := (pw * t2) / one
  return s

def log2Fix : Int :=
  -- log 2 = 2 artanh(1/3)
  2 * artanhFix (((2 ^ G : Nat) : Int) / 3)

def logRat (x : Rat) : Rat :=
  if x ≤ 0 then 0 else
  Id.run do
    let mut y := x
    let mut e : Int := 0
    for _ in [0:400] do
      if y > 3 / 2 then
        y := y / 2; e := e + 1
      else if y < 3 / 4 then
        y := y * 2; e := e - 1
      else break
    let t : Rat := (y - 1) / (y + 1)
    let tfix : Int := (t * ((2 ^ G : Nat) : Rat)).floor
    let r : Int := 2 * artanhFix tfix + e * log2Fix
    return mkRat r (2 ^ G)

end NiftyVerif.RatApprox
