/-
  C16 — acceptance loop of `DescentMinimizer.__call__` (nifty/cl/minimization/descent_minimizers.py:52-108),
  transcribed statement by statement, parametric in
    * the value type `K` (only `<` and `=` are used by the code),
    * an opaque energy type `E` with `value`, `gradient_norm == 0`,
    * an opaque state `σ` threaded through the three black boxes the loop calls:
      the controller (`start`, `check`), the direction + line search (`search` =
      `line_searcher.perform_line_search(energy, get_descent_direction(energy, f_k_minus_1), f_k_minus_1)`)
      and `reset()`.
  Nothing is assumed about the black boxes: the theorems in Props/C16.lean hold for every line searcher,
  every direction rule (steepest descent, Newton-CG, L-BFGS, VL-BFGS, ...) and every controller.
  Core imports only.
-/

namespace NiftyVerif.Descent

/-- `IterationController.CONVERGED, CONTINUE, ERROR = 0, 1, 2` -/
inductive Status where
  | converged | continue_ | error
deriving DecidableEq, Repr, Inhabited

def Status.toNat : Status → Nat
  | .converged => 0 | .continue_ => 1 | .error => 2

def Status.ofNat? : Nat → Option Status
  | 0 => some .converged | 1 => some .continue_ | 2 => some .error | _ => none

structure Oracles (K E σ : Type) where
  value : E → K
  /-- `energy.gradient_norm == 0` -/
  gradZero : E → Bool
  /-- `controller.start(energy)` -/
  start : σ → E → σ × Status
  /-- `controller.check(energy)` -/
  check : σ → E → σ × Status
  /-- direction + line search; gets `f_k_minus_1`; returns `(new_energy, success)` -/
  search : σ → E → Option K → σ × E × Bool
  /-- `self.reset()` -/
  reset : σ → σ

structure Result (E σ : Type) where
  energy : E
  status : Status
  /-- energies that went through `energy = new_energy`, in order -/
  accepted : List E
  state : σ

variable {K E σ : Type} [LT K] [DecidableLT K] [DecidableEq K]

/-- the `while True:` loop; `none` = fuel exhausted (the Python loop has no bound of its own) -/
def loop (o : Oracles K E σ) : Nat → σ → E → Option K → List E → Option (Result E σ)
  | 0, _, _, _, _ => none
  | fuel + 1, st, energy, fprev, acc =>
    -- if energy.gradient_norm == 0: return energy, controller.CONVERGED
    if o.gradZero energy then some ⟨energy, .converged, acc, st⟩ else
    -- new_energy, success = self.line_searcher.perform_line_search(...)
    let r := o.search st energy fprev
    let st1 := r.1
    let newEnergy := r.2.1
    let success := r.2.2
    -- if not success: self.reset()
    let st2 := if success then st1 else o.reset st1
    -- f_k_minus_1 = energy.value
    let fprev' := some (o.value energy)
    -- if new_energy.value > energy.value: return energy, controller.ERROR
    if o.value energy < o.value newEnergy then some ⟨energy, .error, acc, st2⟩
    -- if new_energy.value == energy.value: return new_energy, controller.CONVERGED
    else if o.value newEnergy = o.value energy then some ⟨newEnergy, .converged, acc, st2⟩
    else
      -- energy = new_energy; status = self._controller.check(energy)
      let c := o.check st2 newEnergy
      -- if status != controller.CONTINUE: return energy, status
      if c.2 = .continue_ then loop o fuel c.1 newEnergy fprev' (acc ++ [newEnergy])
      else some ⟨newEnergy, c.2, acc ++ [newEnergy], c.1⟩

/-- `DescentMinimizer.__call__` -/
def minimize (o : Oracles K E σ) (fuel : Nat) (st : σ) (energy : E) : Option (Result E σ) :=
  -- status = controller.start(energy); if status != controller.CONTINUE: return energy, status
  let s := o.start st energy
  if s.2 = .continue_ then loop o fuel s.1 energy none []
  else some ⟨energy, s.2, [], s.1⟩

end NiftyVerif.Descent
