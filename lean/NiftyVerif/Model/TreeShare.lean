/-
  C05 — expression language for operator trees and the verified sharing checker.

  The operator-tree optimiser (nifty/cl/operator_tree_optimiser.py) replaces repeated sub-expressions by fresh keys and
  pre-composes with `x ↦ x ∪ {key ↦ sub(x)}` (`partial_insert`).  Its algorithm (id()-keyed in-place surgery) is NOT
  transcribed; every output is serialised into `Ex` and validated by `isSharingOf`, whose soundness is proved in
  Props/C05.lean for all inputs and all interpretations of the leaves (values, and dual numbers = Jacobians).
  Core imports only.
-/
namespace NiftyVerif.TreeShare

/-- operator trees: `var k` = FieldAdapter / extraction of key `k`; `leaf id e` = an opaque unary operator applied to `e`;
    `add`/`mul` = `_OpSum`/`_OpProd`; `pair a b` = argument tuple of an operator that reads several keys; `letE k b body` = `body.partial_insert(FieldAdapter(k).adjoint(b))` -/
inductive Ex where
  | var (k : Nat)
  | leaf (id : Nat) (arg : Ex)
  | add (a b : Ex)
  | mul (a b : Ex)
  | pair (a b : Ex)
  | letE (k : Nat) (b body : Ex)
deriving DecidableEq, Repr, Inhabited

namespace Ex

/-- evaluation in any value domain `V` (fields, linearizations, dual numbers, …) -/
def eval {V : Type} (add mul pr : V → V → V) (F : Nat → V → V) : Ex → (Nat → V) → V
  | var k, ρ => ρ k
  | leaf i a, ρ => F i (eval add mul pr F a ρ)
  | .add a b, ρ => add (eval add mul pr F a ρ) (eval add mul pr F b ρ)
  | .mul a b, ρ => mul (eval add mul pr F a ρ) (eval add mul pr F b ρ)
  | .pair a b, ρ => pr (eval add mul pr F a ρ) (eval add mul pr F b ρ)
  | letE k b body, ρ => eval add mul pr F body (fun j => if j = k then eval add mul pr F b ρ else ρ j)

def letFree : Ex → Bool
  | var _ => true
  | leaf _ a => letFree a
  | .add a b => letFree a && letFree b
  | .mul a b => letFree a && letFree b
  | .pair a b => letFree a && letFree b
  | letE _ _ _ => false

/-- substitute `b` for `var k` (only used on let-free terms, where no capture can occur) -/
def subst (k : Nat) (b : Ex) : Ex → Ex
  | var j => if j = k then b else var j
  | leaf i a => leaf i (subst k b a)
  | .add x y => .add (subst k b x) (subst k b y)
  | .mul x y => .mul (subst k b x) (subst k b y)
  | .pair x y => .pair (subst k b x) (subst k b y)
  | letE j b2 body => letE j (subst k b b2) (if j = k then body else subst k b body)

/-- expand every inserted key, innermost first -/
def inlineAll : Ex → Ex
  | var k => var k
  | leaf i a => leaf i (inlineAll a)
  | .add a b => .add (inlineAll a) (inlineAll b)
  | .mul a b => .mul (inlineAll a) (inlineAll b)
  | .pair a b => .pair (inlineAll a) (inlineAll b)
  | letE k b body => subst k (inlineAll b) (inlineAll body)

/-- keys the operator reads (its MultiDomain), the way `partial_insert` computes it:
    `dom(letE k b body) = dom b ∪ (dom body − {k})` -/
def keys : Ex → List Nat
  | var k => [k]
  | leaf _ a => keys a
  | .add a b => keys a ++ keys b
  | .mul a b => keys a ++ keys b
  | .pair a b => keys a ++ keys b
  | letE k b body => keys b ++ (keys body).filter (· ≠ k)

/-- every inserted key is actually read by the body it is inserted into -/
def letsUsed : Ex → Bool
  | var _ => true
  | leaf _ a => letsUsed a
  | .add a b => letsUsed a && letsUsed b
  | .mul a b => letsUsed a && letsUsed b
  | .pair a b => letsUsed a && letsUsed b
  | letE k b body => letsUsed b && letsUsed body && (keys body).contains k

def size : Ex → Nat
  | var _ => 1
  | leaf _ a => size a + 1
  | .add a b => size a + size b + 1
  | .mul a b => size a + size b + 1
  | .pair a b => size a + size b + 1
  | letE _ b body => size b + size body + 1

def numLets : Ex → Nat
  | var _ => 0
  | leaf _ a => numLets a
  | .add a b => numLets a + numLets b
  | .mul a b => numLets a + numLets b
  | .pair a b => numLets a + numLets b
  | letE _ b body => numLets b + numLets body + 1

/-- does `sub` occur in the expression -/
def occurs (sub : Ex) : Ex → Bool
  | var j => decide (var j = sub)
  | leaf i a => decide (leaf i a = sub) || occurs sub a
  | .add a b => decide (Ex.add a b = sub) || occurs sub a || occurs sub b
  | .mul a b => decide (Ex.mul a b = sub) || occurs sub a || occurs sub b
  | .pair a b => decide (Ex.pair a b = sub) || occurs sub a || occurs sub b
  | letE j b body => decide (letE j b body = sub) || occurs sub b || occurs sub body

/-- the sharing decision, transcribed as its effect: replace every (outermost) occurrence of the sub-expression `sub` by the
    fresh key `k` -/
def shareAll (sub : Ex) (k : Nat) : Ex → Ex
  | var j => if var j = sub then var k else var j
  | leaf i a => if leaf i a = sub then var k else leaf i (shareAll sub k a)
  | .add a b => if Ex.add a b = sub then var k else .add (shareAll sub k a) (shareAll sub k b)
  | .mul a b => if Ex.mul a b = sub then var k else .mul (shareAll sub k a) (shareAll sub k b)
  | .pair a b => if Ex.pair a b = sub then var k else .pair (shareAll sub k a) (shareAll sub k b)
  | letE j b body => letE j b body

/-- every inserted key replaced ALL occurrences of its definition (the optimiser shared maximally) -/
def maximal : Ex → Bool
  | var _ => true
  | leaf _ a => maximal a
  | .add a b => maximal a && maximal b
  | .mul a b => maximal a && maximal b
  | .pair a b => maximal a && maximal b
  | letE _ b body => maximal b && maximal body && !occurs (inlineAll b) (inlineAll body)

end Ex

/-- the checker: `e'` is `e` with sub-expressions shared through inserted keys -/
def isSharingOf (e e' : Ex) : Bool := decide (Ex.inlineAll e' = e) && Ex.letsUsed e' && Ex.letFree e

end NiftyVerif.TreeShare
