/-
  Gaussian rationals `ℚ(i)`: the exact scalar type the C02/C35 drivers compute with (real data has `im = 0`).
  Core only.  `Lemmas/CQ.lean` shows it is a commutative ring and `conj` an involutive ring endomorphism,
  so the generic `Coo` theorems apply to what the driver runs.
-/
namespace NiftyVerif

structure CQ where
  re : Rat
  im : Rat
  deriving DecidableEq, Repr

namespace CQ
instance addI : Add CQ := ⟨fun a b => ⟨a.re + b.re, a.im + b.im⟩⟩
instance : Sub CQ := ⟨fun a b => ⟨a.re - b.re, a.im - b.im⟩⟩
instance : Neg CQ := ⟨fun a => ⟨-a.re, -a.im⟩⟩
instance mulI : Mul CQ := ⟨fun a b => ⟨a.re * b.re - a.im * b.im, a.re * b.im + a.im * b.re⟩⟩
instance zeroI : OfNat CQ 0 := ⟨⟨0, 0⟩⟩
instance oneI : OfNat CQ 1 := ⟨⟨1, 0⟩⟩
def conj (a : CQ) : CQ := ⟨a.re, -a.im⟩
def ofRat (r : Rat) : CQ := ⟨r, 0⟩
def I : CQ := ⟨0, 1⟩
def normSq (a : CQ) : Rat := a.re * a.re + a.im * a.im
instance : Inv CQ := ⟨fun a => ⟨a.re / a.normSq, -a.im / a.normSq⟩⟩
instance : Div CQ := ⟨fun a b => a * b⁻¹⟩
def isZero (a : CQ) : Bool := a.re == 0 && a.im == 0
end CQ
end NiftyVerif
