/-
  JSON <-> expression model (shared by Driver/C03.lean and Driver/C04.lean).  Core + Lean.Data.Json only.
  Every float travels exactly, as the unsigned integer of its IEEE-754 binary64 bit pattern (JSON number);
  sizes and indices are plain JSON numbers.
-/
import NiftyVerif.Core.Proto
import NiftyVerif.Model.Expr
open Lean NiftyVerif NiftyVerif.Proto NiftyVerif.Expr NiftyVerif.Gen.Ptw

namespace NiftyVerif.ExprIO

def getFloat? (j : Json) : Option Float := (getNat? j).map (fun n => Float.ofBits (UInt64.ofNat n))

def jFloat (x : Float) : Json := jNat x.toBits.toNat

def floatList? := listOf? getFloat?
def fFloatList? (j : Json) (k : String) : Option (List Float) := (field? j k).bind floatList?
def jFloats (l : List Float) : Json := Json.arr (l.map jFloat).toArray

def getDom? (j : Json) : Option Dom := do
  let a ← getArr? j
  a.mapM fun kn => do
    let p ← getArr? kn
    match p with
    | [k, n] => do some ((← getStr? k), (← getNat? n))
    | _ => none

partial def getExG {K : Type} (num : Json → Option K) (z : K) (j : Json) : Option (Ex K) := do
  let t ← fStr? j "t"
  let sub (k : String) : Option (Ex K) := (field? j k).bind (getExG num z)
  let nums (k : String) : Option (List K) := (field? j k).bind (listOf? num)
  match t with
  | "var" => some (.var (← fStr? j "k") (← fNat? j "n"))
  | "add" => some (.add (← sub "a") (← sub "b"))
  | "sub" => some (.sub (← sub "a") (← sub "b"))
  | "mul" => some (.mul (← sub "a") (← sub "b"))
  | "scale" => some (.scale (← (field? j "c").bind num) (← sub "a"))
  | "addc" => some (.addc (← nums "c") (← fBool? j "neg") (← sub "a"))
  | "mulc" => some (.mulc (← nums "d") (← sub "a"))
  | "ptw" => some (.ptw (← Fn.ofString (← fStr? j "f")) (← nums "p") (← sub "a"))
  | "lin" => do
      let rows ← (field? j "rows").bind (listOf? (listOf? num))
      some (.lin (← fNat? j "m") (← fNat? j "n") rows (← sub "a"))
  | "sum" => some (.sum (← sub "a"))
  | "vdot" => some (.vdot (← sub "a") (← sub "b"))
  | "getKey" => some (.getKey (← fStr? j "k") (← sub "a"))
  | "putKey" => some (.putKey (← fStr? j "k") (← sub "a"))
  | "chain" => some (.chain (← sub "f") (← sub "g"))
  | "sqnorm" => some (.sqnorm (← sub "a"))
  | "quad" => some (.quad (← nums "d") (← sub "a"))
  | "gauss" => some (.gauss (← nums "data") (← nums "icov") (← sub "a"))
  | "bil" => do
      let T ← (field? j "T").bind (listOf? (listOf? (listOf? num)))
      some (.bil (← fNat? j "m") (← fNat? j "na") (← fNat? j "nb") T (← sub "a") (← sub "b"))
  | "varcov" => some (.varcov (← fNat? j "n") (← sub "a") (← sub "b"))
  | "const" => do
      let parts ← (field? j "parts").bind getArr?
      let kv ← parts.mapM (fun p => do
        match (← getArr? p) with
        | [k, v] => some ((← getStr? k), (← (listOf? num) v))
        | _ => none)
      some (.const (← fBool? j "energy") (kv.map (fun p => (p.1, p.2.length)))
        (fun k i => match kv.find? (·.1 == k) with
          | some (_, l) => l.getD i z
          | none => z))
  | _ => none


def getEx? (j : Json) : Option (Ex Float) := getExG getFloat? 0.0 j

/-- same keys with the same sizes (as sets) -/
def domEq (a b : Dom) : Bool :=
  a.all (fun kn => b.any (fun kn' => kn'.1 == kn.1 && kn'.2 == kn.2)) &&
  b.all (fun kn => a.any (fun kn' => kn'.1 == kn.1 && kn'.2 == kn.2))

def domCompat (a b : Dom) : Bool :=
  a.all (fun kn => b.all (fun kn' => kn'.1 != kn.1 || kn'.2 == kn.2))

/-- well-formedness against the input domain: what the real constructors accept -/
def check {K : Type} : Ex K → Dom → Bool
  | .var k n, d => d.any (fun kn => kn.1 == k && kn.2 == n)
  | .add a b, d => check a d && check b d && domCompat a.dom b.dom
  | .sub a b, d => check a d && check b d && domCompat a.dom b.dom
  | .mul a b, d => check a d && check b d && domEq a.dom b.dom
  | .scale _ a, d => check a d
  | .addc c _ a, d => check a d && domEq a.dom [("", c.length)]
  | .mulc c a, d => check a d && domEq a.dom [("", c.length)]
  | .ptw f p a, d => check a d && p.length == f.arity
  | .lin m n rows a, d => check a d && domEq a.dom [("", n)] && rows.length == m && rows.all (·.length == n)
  | .sum a, d => check a d && (a.dom.length == 1)
  | .vdot a b, d => check a d && check b d && domEq a.dom b.dom
  | .getKey k a, d => check a d && a.dom.any (·.1 == k)
  | .putKey _ a, d => check a d && (a.dom.length == 1) && a.dom.any (·.1 == "")
  | .chain f g, d => check g d && check f g.dom
  | .sqnorm a, d => check a d
  | .quad c a, d => check a d && domEq a.dom [("", c.length)]
  | .gauss dt ic a, d => check a d && domEq a.dom [("", dt.length)] && ic.length == dt.length
  | .const _ _ _, _ => true
  | .bil m na nb T a b, d => check a d && check b d && domEq a.dom [("", na)] && domEq b.dom [("", nb)]
      && T.length == m && T.all (fun r => r.length == na && r.all (·.length == nb))
  | .varcov n a b, d => check a d && check b d && domEq a.dom [("", n)] && domEq b.dom [("", n)]

def flatG {K : Type} (d : Dom) (v : MVal K) : List K :=
  d.flatMap (fun kn => (List.range kn.2).map (v kn.1))

def unitsG {K : Type} (z o : K) (d : Dom) : List (MVal K) :=
  d.flatMap (fun kn => (List.range kn.2).map (fun i => fun k j => if k = kn.1 ∧ j = i then o else z))

def envOfG {K : Type} (num : Json → Option K) (z : K) (d : Dom) (x : Json) : Option (MVal K) := do
  let vs ← d.mapM (fun kn => do
    let l ← (field? x kn.1).bind (listOf? num)
    if l.length == kn.2 then some (kn.1, l) else none)
  some (fun k i => match vs.find? (·.1 == k) with
    | some (_, l) => l.getD i z
    | none => z)

def flat (d : Dom) (v : MVal Float) : List Float :=
  d.flatMap (fun kn => (List.range kn.2).map (v kn.1))

def units (d : Dom) : List (MVal Float) :=
  d.flatMap (fun kn => (List.range kn.2).map (fun i => fun k j => if k = kn.1 ∧ j = i then (1.0 : Float) else 0.0))

def sortDom (d : Dom) : Dom := (d.toArray.qsort (fun a b => a.1 < b.1)).toList

def envOf (d : Dom) (x : Json) : Option (MVal Float) := do
  let vs ← d.mapM (fun kn => do
    let l ← fFloatList? x kn.1
    if l.length == kn.2 then some (kn.1, l) else none)
  some (fun k i => match vs.find? (·.1 == k) with
    | some (_, l) => l.getD i 0.0
    | none => 0.0)


def jDom (d : Dom) : Json := Json.arr (d.map (fun kn => Json.arr #[Json.str kn.1, jNat kn.2])).toArray
def jMat (m : List (List Float)) : Json := Json.arr (m.map jFloats).toArray

end NiftyVerif.ExprIO
