/-
  Model/Smap.lean — `_generic_smap` / `_fun_reord` / `_lscan` of nifty/re/custom_map.py (property C33).

  Arrays are a shape and an index function; `slice`, `moveaxis`, `stack` are the NumPy operations of the same name.
  `smap` transcribes `_generic_smap` on the flattened argument leaves: partition into unmapped / mapped (moved to
  axis 0), scan over the leading axis calling `fun` on the re-assembled arguments (`_fun_reord`), stack the outputs,
  move axis 0 to the requested output axis.  `cfg.noneOutFromInput = true` is the code as found (an `out_axes=None`
  entry pops the next *unmapped input*), `false` the repaired code (first slice of the stacked, unbatched output).
  `vmapSpec` is the specification of `jax.vmap`.  Core imports only.
-/

namespace NiftyVerif.Smap

structure Arr (α : Type) where
  shape : List Nat
  get : List Nat → α

instance {α} [Inhabited α] : Inhabited (Arr α) := ⟨⟨[], fun _ => default⟩⟩

variable {α : Type} [Inhabited α]

/-- `np.take(a, t, axis=i)` -/
def slice (a : Arr α) (i t : Nat) : Arr α :=
  { shape := a.shape.eraseIdx i, get := fun idx => a.get (idx.insertIdx i t) }

/-- `jnp.moveaxis(a, src, dst)` -/
def moveaxis (a : Arr α) (src dst : Nat) : Arr α :=
  { shape := (a.shape.eraseIdx src).insertIdx dst (a.shape.getD src 0)
    get := fun idx => a.get ((idx.eraseIdx dst).insertIdx src (idx.getD dst 0)) }

/-- `_moveaxis`: no-op when source = destination -/
def moveaxis' (a : Arr α) (src dst : Nat) : Arr α := if src = dst then a else moveaxis a src dst

/-- `jnp.stack(ys, axis=o)` of equally shaped arrays -/
def stack (ys : List (Arr α)) (o : Nat) : Arr α :=
  { shape := ((ys.headD default).shape).insertIdx o ys.length
    get := fun idx => (ys.getD (idx.getD o 0) default).get (idx.eraseIdx o) }

/-- equality of arrays: same shape, same entries at every index vector of the right length -/
def Arr.Equiv (a b : Arr α) : Prop :=
  a.shape = b.shape ∧ ∀ idx : List Nat, idx.length = a.shape.length → a.get idx = b.get idx

/-- `a if a >= 0 else a + ndim` -/
def normAxis (ndim : Nat) (i : Int) : Nat := if i < 0 then (i + (ndim : Int)).toNat else i.toNat

structure Cfg where
  noneOutFromInput : Bool

def asFound : Cfg := ⟨true⟩
def fixed : Cfg := ⟨false⟩

/-- the loop `for i, el in zip(in_axes, x)`: unmapped leaves, and mapped leaves with their axis moved to the front -/
def partition : List (Option Nat) → List (Arr α) → List (Arr α) × List (Arr α)
  | none :: axs, x :: xs => let (u, m) := partition axs xs; (x :: u, m)
  | some i :: axs, x :: xs => let (u, m) := partition axs xs; (u, moveaxis' x i 0 :: m)
  | _, _ => ([], [])

/-- `_fun_reord`: `args = tuple(un.pop(0) if a is None else mapped.pop(0) for a in in_axes)` -/
def reassemble : List (Option Nat) → List (Arr α) → List (Arr α) → List (Arr α)
  | none :: axs, u :: us, ms => u :: reassemble axs us ms
  | some _ :: axs, us, m :: ms => m :: reassemble axs us ms
  | _, _, _ => []

/-- one scan step: the arguments `fun` sees at position `t` -/
def argsAt (inAxes : List (Option Nat)) (xs : List (Arr α)) (t : Nat) : List (Arr α) :=
  let (u, m) := partition inAxes xs
  reassemble inAxes u (m.map fun a => slice a 0 t)

/-- output assembly: `for i, el in zip(out_axes, y): out.append(unmapped.pop(0)) if i is None else moveaxis(el, 0, i)` -/
def assemble (cfg : Cfg) : List (Option Nat) → List (Arr α) → List (Arr α) → List (Arr α)
  | none :: oas, y :: ys, un =>
    if cfg.noneOutFromInput then
      match un with
      | u :: us => u :: assemble cfg oas ys us
      | [] => []                                   -- IndexError: pop from empty list
    else slice y 0 0 :: assemble cfg oas ys un
  | some o :: oas, y :: ys, un => moveaxis' y 0 o :: assemble cfg oas ys un
  | _, _, _ => []

/-- `_generic_smap` on flattened leaves; `f` maps the argument leaves to `nout` output leaves; `len` = scan length -/
def smap (cfg : Cfg) (f : List (Arr α) → List (Arr α)) (nout : Nat) (inAxes outAxes : List (Option Nat))
    (xs : List (Arr α)) (len : Nat) : List (Arr α) :=
  let steps := (List.range len).map fun t => f (argsAt inAxes xs t)
  let stacked := (List.range nout).map fun k => stack (steps.map fun y => y.getD k default) 0
  assemble cfg outAxes stacked (partition inAxes xs).1

/-- what `jax.vmap(f, in_axes, out_axes)` returns: mapped leaves are sliced along their own axis, outputs are stacked
    along the requested axis, an `out_axes=None` output is the (unbatched) value itself -/
def vmapSpec (f : List (Arr α) → List (Arr α)) (nout : Nat) (inAxes outAxes : List (Option Nat))
    (xs : List (Arr α)) (len : Nat) : List (Arr α) :=
  let at_ (t : Nat) : List (Arr α) :=
    f (List.zipWith (fun (ax : Option Nat) x => match ax with | none => x | some i => slice x i t) inAxes xs)
  (List.zip (List.range nout) outAxes).map fun (ko : Nat × Option Nat) =>
    match ko.2 with
    | some o => stack ((List.range len).map fun t => (at_ t).getD ko.1 default) o
    | none => (at_ 0).getD ko.1 default

/-! ### `_lscan`: Python loop with in-place index updates -/

/-- `for i in range(length): carry, y = f(carry, xs[i]); ys = ys.at[i].set(y)`; `ys` starts as `empty_like` (garbage `g`) -/
def lscanGo {C X Y : Type} (f : C → X → C × Y) : List X → Nat → C → List Y → C × List Y
  | [], _, c, ys => (c, ys)
  | x :: xs, i, c, ys => let (c', y) := f c x; lscanGo f xs (i + 1) c' (ys.set i y)

def lscan {C X Y : Type} (f : C → X → C × Y) (init : C) (xs : List X) (g : Y) : C × List Y :=
  lscanGo f xs 0 init (List.replicate xs.length g)

/-- `lax.scan` -/
def scan {C X Y : Type} (f : C → X → C × Y) : C → List X → C × List Y
  | c, [] => (c, [])
  | c, x :: xs => let (c', y) := f c x; let (c'', ys) := scan f c' xs; (c'', y :: ys)

end NiftyVerif.Smap
