/-
  Model of nifty/re/optimize.py: `_newton_cg` (eager Python loops), `_static_newton_cg` +
  `_line_search_successive_halving` (`while_loop` bodies with `jnp.where` bookkeeping) and `_trust_ncg`,
  transcribed statement by statement, parametric in the scalar type `K`, the position type `V`,
  the objective `f : V → K × V` (`fun_and_grad`), the Hessian-vector product `hessp : V → V → V`,
  the inner product `ip` (`vdot`), the gradient norm `gradnorm` and — as ORACLES — the conjugate-gradient solver
  `cg : pos → g → (nat_g, info)` resp. the trust-region sub-problem solver. Core imports only.

  The model follows the REPAIRED code:
    * fixes/C17_ls_reset_uphill.diff:   line-search reset direction `dd = γ/|curv|·g` (both variants; was γ/curv·g,
      which points uphill when curv < 0)
    * fixes/C17_trust_accepts_uphill.diff: `_trust_ncg` accepts a step only if `rho > eta` AND `pred_reduction > 0`
      (was `rho > eta` alone: a predicted increase with an actual increase gives rho > 0 and was accepted)
    * fixes/C17_static_min_cond.diff:   compiled `min_cond` uses `ret_ls["iteration"] <= 2` (number of trials),
      matching the eager `naive_ls_it < 2` (index of the successful trial)

  Not modelled: NaN handling (`isnan` raises), `time_threshold`, logging, the `nfev/njev/nhev` counters, and the
  `isfinite` checks. The CG stopping parameters derived from the energy history (`cg_absdelta`) and the gradient
  magnitude (`cg_resnorm`) are modelled (`eagerCgArgs` / `staticCgArgs`, `cgCfgOf`).
-/

import NiftyVerif.Model.CgRe

namespace NiftyVerif.NewtonRe

structure Cfg (K : Type) where
  miniter : Nat            -- `0 if miniter is None else miniter`
  maxiter : Nat            -- `200 if maxiter is None else maxiter`
  absdelta : Option K
  xtol : K                 -- `xtol * size(x0)`
  erf : Option K           -- `energy_reduction_factor` (default 0.1)
  oldFval : Option K       -- `old_fval` (default None)

/-- the stopping parameters `_newton_cg` derives for the inner CG call: `absdelta=cg_absdelta`, and the gradient
    magnitude `mag_g` from which `resnorm = min(0.5, sqrt(mag_g)) * mag_g` is formed -/
structure CgArgs (K : Type) where
  absdelta : Option K
  mag : K

inductive Err where
  | cgFailed
deriving DecidableEq, Repr

/-- result of the successive-halving line search -/
structure LsRes (K V : Type) where
  found : Bool
  newPos : V
  newEnergy : K
  newG : V
  dd : V
  gs : K            -- grad_scaling of the accepted trial
  trials : Nat      -- number of trials performed (eager: naive_ls_it + 1; static: ret_ls["iteration"])
  reset : Bool

/-- `OptimizeResults` (x, status, fun, jac, nit) -/
structure NRes (K V : Type) where
  x : V
  status : Int
  fn : K
  jac : V
  nit : Nat

structure NSt (K V : Type) where
  pos : V
  energy : K
  g : V
  oldF : Option K      -- `old_fval` (None before the first accepted step unless given)

section
variable {K V : Type} [Add K] [Sub K] [Mul K] [Div K] [Neg K] [OfNat K 0] [OfNat K 1]
  [LT K] [LE K] [DecidableLT K] [DecidableLE K] [DecidableEq K]
  [Add V] [Sub V] [Neg V] [Zero V] [SMul K V]

def two : K := 1 + 1
def hundred : K := (two * two * two + two) * (two * two * two + two)

/-- Python truthiness of an optional number: `None` and `0.0` are false -/
def truthy (x : Option K) : Bool :=
  match x with
  | some v => !decide (v = 0)
  | none => false
def absK (a : K) : K := if a < 0 then -a else a

/-- `dd = gam / abs(curv) * g` with `gam = vdot(g, g)`, `curv = vdot(g, hessp(pos, g))`   [repaired: abs] -/
def resetDir (ip : V → V → K) (hessp : V → V → V) (pos g : V) : V :=
  (ip g g / absK (ip g (hessp pos g))) • g

/-- the `for naive_ls_it in range(9)` loop of `_newton_cg`; `fuel` = trials left, `ls` = naive_ls_it -/
def lsEager (f : V → K × V) (hessp : V → V → V) (ip : V → V → K) (pos : V) (energy : K) (g : V) :
    Nat → Nat → K → V → Bool → LsRes K V
  | 0, ls, _, dd, reset =>                 -- `else:` of the for loop: no trial accepted
    { found := false, newPos := pos, newEnergy := energy, newG := g, dd := dd, gs := 0, trials := ls, reset := reset }
  | fuel + 1, ls, gs, dd, reset =>
    let newPos := pos - gs • dd
    let fe := f newPos
    if fe.1 ≤ energy then
      { found := true, newPos := newPos, newEnergy := fe.1, newG := fe.2, dd := dd, gs := gs, trials := ls + 1,
        reset := reset }
    else
      let gs' := gs / two
      if ls = 5 then lsEager f hessp ip pos energy g fuel (ls + 1) 1 (resetDir ip hessp pos g) true
      else lsEager f hessp ip pos energy g fuel (ls + 1) gs' dd reset

def lineSearchEager (f : V → K × V) (hessp : V → V → V) (ip : V → V → K) (pos : V) (energy : K) (g natg : V) :
    LsRes K V :=
  lsEager f hessp ip pos energy g 9 0 1 natg false

inductive StepOut (K V : Type) where
  | stop (r : Except Err (NRes K V))
  | next (s : NSt K V)

/-- eager: `if old_fval and energy_reduction_factor: cg_absdelta = energy_reduction_factor * (old_fval - energy)
    else: cg_absdelta = None if absdelta is None else absdelta / 100.`;  `mag_g = norm(g, ord=cg_kwargs.get("norm_ord", 1))` -/
def eagerCgArgs (c : Cfg K) (cgnorm : V → K) (s : NSt K V) : CgArgs K :=
  { absdelta :=
      if truthy s.oldF && truthy c.erf then
        (match s.oldF, c.erf with
         | some o, some e => some (e * (o - s.energy))
         | _, _ => none)
      else (match c.absdelta with | some a => some (a / hundred) | none => none),
    mag := cgnorm s.g }

/-- body of the outer `for i in range(1, maxiter+1)` loop of `_newton_cg` -/
def ncgEagerStep (c : Cfg K) (f : V → K × V) (hessp : V → V → V) (ip : V → V → K) (gradnorm : V → K)
    (cgnorm : V → K) (cg : CgArgs K → V → V → V × Int) (i : Nat) (s : NSt K V) : StepOut K V :=
  let cgr := cg (eagerCgArgs c cgnorm s) s.pos s.g
  if cgr.2 < 0 then .stop (.error .cgFailed)            -- raise ValueError("conjugate gradient failed")
  else
    let ls := lineSearchEager f hessp ip s.pos s.energy s.g cgr.1
    if ls.found = false then
      .stop (.ok ⟨s.pos, -1, s.energy, s.g, i⟩)         -- "Energy would increase; aborting": status = -1; break
    else
      let ediff := s.energy - ls.newEnergy
      let dn := ls.gs * gradnorm ls.dd
      let minCond : Bool := decide (ls.trials ≤ 2) && decide (c.miniter < i)   -- naive_ls_it < 2 and i > miniter
      if (match c.absdelta with | some a => decide (0 ≤ ediff) && decide (ediff < a) | none => false) = true
          ∧ minCond = true then
        .stop (.ok ⟨ls.newPos, 0, ls.newEnergy, ls.newG, i⟩)
      else if dn ≤ c.xtol ∧ c.miniter < i then
        .stop (.ok ⟨ls.newPos, 0, ls.newEnergy, ls.newG, i⟩)
      else .next ⟨ls.newPos, ls.newEnergy, ls.newG, some s.energy⟩       -- `old_fval = energy`

/-- the outer loop; falling out of it is the `else:` clause `status = i` -/
def ncgEagerLoop (c : Cfg K) (f : V → K × V) (hessp : V → V → V) (ip : V → V → K) (gradnorm : V → K)
    (cgnorm : V → K) (cg : CgArgs K → V → V → V × Int) : Nat → Nat → NSt K V → Except Err (NRes K V)
  | 0, i, s => .ok ⟨s.pos, ((i - 1 : Nat) : Int), s.energy, s.g, i - 1⟩
  | fuel + 1, i, s =>
    match ncgEagerStep c f hessp ip gradnorm cgnorm cg i s with
    | .stop r => r
    | .next s' => ncgEagerLoop c f hessp ip gradnorm cgnorm cg fuel (i + 1) s'

/-- `_newton_cg` -/
def ncgEager (c : Cfg K) (f : V → K × V) (hessp : V → V → V) (ip : V → V → K) (gradnorm : V → K)
    (cgnorm : V → K) (cg : CgArgs K → V → V → V × Int) (x0 : V) : Except Err (NRes K V) :=
  let fe := f x0
  ncgEagerLoop c f hessp ip gradnorm cgnorm cg c.maxiter 1 ⟨x0, fe.1, fe.2, c.oldFval⟩

/-! ### compiled variant -/

structure LsSt (K V : Type) where
  status : Int
  it : Nat
  newPos : V
  newEnergy : K
  newG : V
  dd : V
  gs : K
  reset : Bool

/-- `line_search_single_step` -/
def lsStaticStep (f : V → K × V) (hessp : V → V → V) (ip : V → V → K) (pos : V) (startE : K) (g : V)
    (v : LsSt K V) : LsSt K V :=
  let newPos := pos - v.gs • v.dd
  let fe := f newPos
  let status1 : Int := if fe.1 ≤ startE then 0 else v.status
  let gs1 : K := if status1 < -1 then v.gs / two else v.gs
  let doReset : Bool := decide (v.it = 5) && decide (status1 < -1)
  let reset := if doReset then true else v.reset
  let gs2 : K := if doReset then 1 else gs1
  let dd := if doReset then resetDir ip hessp pos g else v.dd
  let doAbort : Bool := decide (v.it = 8) && decide (status1 < -1)
  let status2 : Int := if doAbort then -1 else status1
  { status := status2, it := v.it + 1, newPos := newPos, newEnergy := fe.1, newG := fe.2, dd := dd, gs := gs2,
    reset := reset }

def lsStaticLoop (f : V → K × V) (hessp : V → V → V) (ip : V → V → K) (pos : V) (startE : K) (g : V) :
    Nat → LsSt K V → LsSt K V
  | 0, v => v
  | fuel + 1, v =>
    if v.status < -1 then lsStaticLoop f hessp ip pos startE g fuel (lsStaticStep f hessp ip pos startE g v) else v

/-- `_line_search_successive_halving` (`new_energy` starts as `inf`; never observed because the loop runs at least
    once — the model puts the start energy there) -/
def lineSearchStatic (f : V → K × V) (hessp : V → V → V) (ip : V → V → K) (pos : V) (energy : K) (g natg : V) :
    LsSt K V :=
  lsStaticLoop f hessp ip pos energy g 9
    { status := -2, it := 0, newPos := pos, newEnergy := energy, newG := g, dd := natg, gs := 1, reset := false }

structure SSt (K V : Type) where
  status : Int
  it : Nat
  pos : V
  energy : K
  g : V
  oldE : Option K      -- `old_energy`; `none` = `jnp.inf`

/-- compiled: `cg_absdelta = 0. if absdelta is None else absdelta / 100.`; `if energy_reduction_factor is not None:
    cg_absdelta = where(~isinf(old_energy), energy_reduction_factor * (old_energy - energy), cg_absdelta)` -/
def staticCgArgs (c : Cfg K) (cgnorm : V → K) (v : SSt K V) : CgArgs K :=
  let base : K := match c.absdelta with | none => 0 | some a => a / hundred
  { absdelta := some (match c.erf with
      | some e => (match v.oldE with | some o => e * (o - v.energy) | none => base)
      | none => base),
    mag := cgnorm v.g }

/-- `single_newton_cg_step`; `none` = `conditional_raise(info < 0, ValueError)` -/
def ncgStaticStep (c : Cfg K) (f : V → K × V) (hessp : V → V → V) (ip : V → V → K) (gradnorm : V → K)
    (cgnorm : V → K) (cg : CgArgs K → V → V → V × Int) (v : SSt K V) : Option (SSt K V) :=
  let i := v.it + 1
  let cgr := cg (staticCgArgs c cgnorm v) v.pos v.g
  if cgr.2 < 0 then none
  else
    let ls := lineSearchStatic f hessp ip v.pos v.energy v.g cgr.1
    let status1 : Int := if ls.status ≠ 0 then -1 else v.status
    let oldEnergy := v.energy        -- `old_energy = where(status < -1, energy, old_energy)`, used below only if status < -1
    let energy := if status1 < -1 then ls.newEnergy else v.energy
    let ediff : K := if status1 < -1 then oldEnergy - energy else 0
    let pos := if status1 < -1 then ls.newPos else v.pos
    let g := if status1 < -1 then ls.newG else v.g
    let gs : K := if status1 < -1 then ls.gs else 0
    let dn := gs * gradnorm ls.dd
    let minCond : Bool := decide (ls.it ≤ 2) && decide (c.miniter < i)         -- [repaired: <= 2]
    let status2 : Int :=
      if (decide (0 ≤ ediff) && (match c.absdelta with | some a => decide (ediff < a) | none => false)
          && minCond && decide (status1 ≠ -1)) = true then 0 else status1
    let status3 : Int := if (decide (dn ≤ c.xtol) && decide (c.miniter < i) && decide (status2 ≠ -1)) = true
      then 0 else status2
    let status4 : Int := if (decide (i = c.maxiter) && decide (status3 < -1)) = true then (i : Int) else status3
    let oldE := if status1 < -1 then some v.energy else v.oldE     -- `old_energy = where(status < -1, energy, old_energy)`
    some { status := status4, it := i, pos := pos, energy := energy, g := g, oldE := oldE }

def ncgStaticLoop (c : Cfg K) (f : V → K × V) (hessp : V → V → V) (ip : V → V → K) (gradnorm : V → K)
    (cgnorm : V → K) (cg : CgArgs K → V → V → V × Int) : Nat → SSt K V → Option (SSt K V)
  | 0, v => some v
  | fuel + 1, v =>
    if v.status < -1 then
      match ncgStaticStep c f hessp ip gradnorm cgnorm cg v with
      | none => none
      | some v' => ncgStaticLoop c f hessp ip gradnorm cgnorm cg fuel v'
    else some v

/-- `_static_newton_cg` (`none` = ValueError raised through the host callback) -/
def ncgStatic (c : Cfg K) (f : V → K × V) (hessp : V → V → V) (ip : V → V → K) (gradnorm : V → K)
    (cgnorm : V → K) (cg : CgArgs K → V → V → V × Int) (x0 : V) : Option (NRes K V) :=
  let fe := f x0
  let v0 : SSt K V := { status := if c.maxiter = 0 then 0 else -2, it := 0, pos := x0, energy := fe.1, g := fe.2,
                        oldE := c.oldFval }
  (ncgStaticLoop c f hessp ip gradnorm cgnorm cg c.maxiter v0).map fun v => ⟨v.pos, v.status, v.energy, v.g, v.it⟩

/-- the configuration of the inner CG call: `{**default_kwargs, **cg_kwargs}` — `base` carries what `cg_kwargs` (and the
    CG defaults) fix; `absdelta` comes from the minimiser; `resnorm = min(0.5, sqrt(mag_g)) * mag_g` unless `cg_kwargs`
    pins `resnorm` (`pinRes = true`: `base.resnorm` is used) resp. pins `absdelta` (`pinAbs = true`) -/
def cgCfgOf (base : CgRe.Cfg K) (pinAbs pinRes : Bool) (a : CgArgs K) : CgRe.Cfg K :=
  { base with
    absdelta := if pinAbs then base.absdelta else a.absdelta,
    resnorm := if pinRes then base.resnorm else none,
    resnormSqrt := if pinRes then none else some a.mag,
    raiseNPD := false }

/-- the CG oracle instantiated by the C15 model of `conjugate_gradient._cg`: `cg(Partial(hessp, pos), g, **kw)`
    returning `(cg_res.x, cg_res.info)`; a raised error is mapped to `info = −1` -/
def cgOracle (base : CgRe.Cfg K) (pinAbs pinRes : Bool) (ip : V → V → K) (nrm : V → K) (hessp : V → V → V) :
    CgArgs K → V → V → V × Int := fun a pos g =>
  match CgRe.cgEager (cgCfgOf base pinAbs pinRes a) ip nrm (hessp pos) g none with
  | .ok r => (r.x, r.info)
  | .error _ => (g, -1)

/-- same with `_static_cg` -/
def cgOracleStatic (base : CgRe.Cfg K) (pinAbs pinRes : Bool) (ip : V → V → K) (nrm : V → K) (hessp : V → V → V) :
    CgArgs K → V → V → V × Int := fun a pos g =>
  let s := CgRe.cgStatic (cgCfgOf base pinAbs pinRes a) ip nrm (hessp pos) g none
  (s.pos, s.info)

/-! ### trust region -/

structure TCfg (K : Type) where
  maxiter : Nat
  absdelta : Option K
  gtol : K
  maxTr : K
  initTr : K
  eta : K
  eps : K           -- 6 * finfo.eps

structure SubRes (K V : Type) where
  step : V
  hits : Bool
  predF : K

structure TSt (K V : Type) where
  x : V
  converged : Bool
  status : Int
  fn : K
  jac : V
  jacMag : K
  nit : Nat
  tr : K

/-- `rho < q` with IEEE semantics of `rho = a / p` at `p = 0` (±inf / nan) -/
def rhoLt (a p q : K) : Bool := if p = 0 then decide (a < 0) else decide (a / p < q)
/-- `rho > q` -/
def rhoGt (a p q : K) : Bool := if p = 0 then decide (0 < a) else decide (q < a / p)

def quarter : K := 1 / (two * two)
def threeQuarter : K := (two + 1) / (two * two)

/-- `_trust_region_body_f` -/
def trustStep (c : TCfg K) (f : V → K × V) (gnorm : V → K) (sub : K → V → V → K → SubRes K V)
    (p : TSt K V) : TSt K V :=
  let i := p.nit + 1
  let sr := sub p.fn p.jac p.x p.tr
  let xk1 := p.x + sr.step
  let fe := f xk1
  let actual := p.fn - fe.1
  let pred := p.fn - sr.predF
  let tr1 : K := if rhoLt actual pred quarter then p.tr * quarter else p.tr
  let tr2 : K := if rhoGt actual pred threeQuarter && sr.hits then
      (if two * p.tr ≤ c.maxTr then two * p.tr else c.maxTr) else tr1
  let gk1mag := gnorm fe.2
  let accept := rhoGt actual pred c.eta && decide (0 < pred)     -- `(rho > eta) & (pred_reduction > 0)`  [repaired]
  let fn' := if accept then fe.1 else p.fn
  let x' := if accept then xk1 else p.x
  let g' := if accept then fe.2 else p.jac
  let mag' := if accept then gk1mag else p.jacMag
  let eeps := c.eps * absK fn'
  let conv0 : Bool := decide (actual ≤ eeps) && decide (-eeps < actual)
  let conv1 : Bool := conv0 || decide (mag' < c.gtol)
  let conv2 : Bool := match c.absdelta with
    | some a => if a = 0 then conv1 else conv1 || (accept && decide (0 < actual) && decide (actual < a))
    | none => conv1
  let status1 : Int := if conv2 then 0 else p.status
  let status2 : Int := if c.maxiter ≤ i then 1 else status1
  let status3 : Int := if pred ≤ 0 then 2 else status2
  { x := x', converged := conv2, status := status3, fn := fn', jac := g', jacMag := mag', nit := i, tr := tr2 }

def trustLoop (c : TCfg K) (f : V → K × V) (gnorm : V → K) (sub : K → V → V → K → SubRes K V) :
    Nat → TSt K V → TSt K V
  | 0, p => p
  | fuel + 1, p =>
    if p.converged = false ∧ p.status = 0 then trustLoop c f gnorm sub fuel (trustStep c f gnorm sub p) else p

/-- initial state of `_trust_ncg` (parameter validation → status −1; `isfinite(g_0_mag)` not modelled) -/
def trustInit (c : TCfg K) (f : V → K × V) (gnorm : V → K) (x0 : V) : TSt K V :=
  let s0 : Int := if c.maxiter = 0 then 1 else 0
  let s1 : Int := if c.gtol < 0 then -1 else s0
  let s2 : Int := if c.maxTr ≤ 0 then -1 else s1
  let s3 : Int := if c.initTr ≤ 0 then -1 else s2
  let s4 : Int := if c.maxTr ≤ c.initTr then -1 else s3
  let fe := f x0
  { x := x0, converged := false, status := s4, fn := fe.1, jac := fe.2, jacMag := gnorm fe.2, nit := 0, tr := c.initTr }

/-- `_trust_ncg` -/
def trustNcg (c : TCfg K) (f : V → K × V) (gnorm : V → K) (sub : K → V → V → K → SubRes K V) (x0 : V) :
    TSt K V :=
  trustLoop c f gnorm sub c.maxiter (trustInit c f gnorm x0)

end
end NiftyVerif.NewtonRe
