import NiftyVerif.Core.Proto
import NiftyVerif.Model.CorrField
open Lean NiftyVerif.Proto NiftyVerif.CorrField

/-!
  C28 handler.  Request (all numbers exact rationals "p/q"; lists are over the NON-ZERO power bins of each sub-space):
   {"azm2": q, "spaces": [{"V": q, "flu2": q, "mult": [..], "amp2": [..],            -- amp2: squared amplitudes from the real code
                           "spec": [..] | null, "kind": "power" | "amplitude"}]}    -- spec: un-normalised spectrum (JAX models)
  Answer: per space `norm_sum = Σ mult·amp2`, `flu2V2`, `var = spatialVar`, and (when `spec` is given) the model's own normalised
  squared amplitudes `model_amp2`; for the product `total2`, `slice2[j]`, `avg2[j]` from the fluctuations `flu2`.
-/

def handleC28 (j : Json) : Json :=
  match fRat? j "azm2", (field? j "spaces").bind getArr? with
  | some azm2, some sps =>
    let parsed := sps.filterMap fun s =>
      match fRat? s "V", fRat? s "flu2", fRatList? s "mult", fRatList? s "amp2" with
      | some V, some f2, some mult, some amp2 => some (V, f2, mult, amp2, fRatList? s "spec", (fStr? s "kind").getD "power")
      | _, _, _, _ => none
    if parsed.length != sps.length then jErr "bad-args" else
    let f2 := parsed.map (fun p => p.2.1)
    let per := parsed.map fun (V, fl2, mult, amp2, spec, kind) =>
      let base := [("norm_sum", jRat (wsum mult amp2)), ("flu2V2", jRat (fl2 * (V * V))), ("var", jRat (spatialVar V mult amp2))]
      match spec with
      | some sp =>
        -- flu enters the model squared: normPower/normAmplitude take `flu*flu`, so pass flu2 through a unit flu and rescale
        let unit := if kind == "amplitude" then normAmplitude V 1 mult sp else normPower V 1 mult sp
        jObj (base ++ [("model_amp2", jRats (unit.map (· * fl2)))])
      | none => jObj base
    jObj [("spaces", Json.arr per.toArray), ("total2", jRat (total2 azm2 f2)),
          ("slice2", jRats ((List.range f2.length).map (slice2 azm2 f2))),
          ("avg2", jRats ((List.range f2.length).map (average2 f2)))]
  | _, _ => jErr "bad-args"
