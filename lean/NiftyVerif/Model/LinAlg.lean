/-
  Small exact dense linear algebra on lists (rows of rows) for the model drivers of C20 / C18 / C34.
  Core imports only.  Run with `K = Rat`; solutions are re-checked by the driver by multiplication, so the
  elimination itself is not part of any theorem (a verified-result checker, DESIGN §2.6).
-/
namespace NiftyVerif.LinAlg

abbrev Mat (K : Type) := List (List K)

section
variable {K : Type} [Add K] [Mul K] [Sub K] [Div K] [Neg K] [OfNat K 0] [OfNat K 1] [DecidableEq K] [Inhabited K]

def dot (a b : List K) : K := (List.zipWith (· * ·) a b).foldl (· + ·) 0

def matVec (A : Mat K) (x : List K) : List K := A.map (fun r => dot r x)

/-- transpose of a matrix with `ncols` columns -/
def transpose (A : Mat K) (ncols : Nat) : Mat K :=
  (List.range ncols).map fun j => A.map (fun r => r.getD j 0)

/-- `A * B`, `p` = number of columns of `B` -/
def matMul (A B : Mat K) (p : Nat) : Mat K :=
  let Bt := transpose B p
  A.map (fun r => Bt.map (fun c => dot r c))

def matAdd (A B : Mat K) : Mat K := List.zipWith (fun r s => List.zipWith (· + ·) r s) A B
def matSub (A B : Mat K) : Mat K := List.zipWith (fun r s => List.zipWith (· - ·) r s) A B
def matNeg (A : Mat K) : Mat K := A.map (fun r => r.map (fun x => -x))
def matScale (c : K) (A : Mat K) : Mat K := A.map (fun r => r.map (fun x => c * x))

def ident (n : Nat) : Mat K := (List.range n).map fun i => (List.range n).map fun j => if i = j then 1 else 0

def diag (d : List K) : Mat K :=
  let n := d.length
  (List.range n).map fun i => (List.range n).map fun j => if i = j then d.getD i 0 else 0

def vecAdd (a b : List K) : List K := List.zipWith (· + ·) a b
def vecSub (a b : List K) : List K := List.zipWith (· - ·) a b

/-- horizontal concatenation `[A | B]` -/
def hcat (A B : Mat K) : Mat K := List.zipWith (· ++ ·) A B

/-- Gauss–Jordan elimination of the `n × (n+k)` augmented matrix; `none` when singular -/
def gaussJordan (M : Mat K) (n : Nat) : Option (Mat K) := Id.run do
  let mut a : Array (Array K) := (M.map List.toArray).toArray
  for c in [0:n] do
    -- pivot search
    let mut piv : Option Nat := none
    for r in [c:n] do
      if piv.isNone && (a[r]!)[c]! != 0 then piv := some r
    match piv with
    | none => return none
    | some r =>
      let rowR := a[r]!
      let rowC := a[c]!
      a := (a.set! r rowC).set! c rowR
      let pv := (a[c]!)[c]!
      let nrow := (a[c]!).map (fun x => x / pv)
      a := a.set! c nrow
      for r2 in [0:n] do
        if r2 != c then
          let f := (a[r2]!)[c]!
          if f != 0 then
            let row2 := (a[r2]!).zipWith (fun x y => x - f * y) nrow
            a := a.set! r2 row2
  return some (a.toList.map Array.toList)

/-- determinant by elimination (exact over a field) -/
def det (M : Mat K) : K := Id.run do
  let n := M.length
  let mut a : Array (Array K) := (M.map List.toArray).toArray
  let mut d : K := 1
  for c in [0:n] do
    let mut piv : Option Nat := none
    for r in [c:n] do
      if piv.isNone && (a[r]!)[c]! != 0 then piv := some r
    match piv with
    | none => return 0
    | some r =>
      if r != c then
        let rowR := a[r]!
        let rowC := a[c]!
        a := (a.set! r rowC).set! c rowR
        d := -d
      let pv := (a[c]!)[c]!
      d := d * pv
      let prow := a[c]!
      for r2 in [c+1:n] do
        let f := (a[r2]!)[c]! / pv
        if f != 0 then
          a := a.set! r2 ((a[r2]!).zipWith (fun x y => x - f * y) prow)
  return d

/-- solve `A X = B` (`A` is `n × n`, `B` has any number of columns) -/
def solveMat (A B : Mat K) : Option (Mat K) :=
  let n := A.length
  (gaussJordan (hcat A B) n).map (fun M => M.map (fun r => r.drop n))

def solveVec (A : Mat K) (b : List K) : Option (List K) :=
  (solveMat A (b.map (fun x => [x]))).map (fun X => X.map (fun r => r.getD 0 0))

def inverse (A : Mat K) : Option (Mat K) := solveMat A (ident A.length)

end

end NiftyVerif.LinAlg
