import NiftyVerif.Model.OpAlgebraDriver
import NiftyVerif.Model.Sampling
open Lean NiftyVerif.Proto NiftyVerif.GaussMat NiftyVerif.OpAlgebra NiftyVerif.Sampling NiftyVerif.Gen.ModeTables

/-!
  C13 handler.  Request: the C01 request (`sizes`, `leaves`, `script`) plus
    "fi": from_inverse, "multi": [[dm, sub0, sub1, ..]], optional "se": {"lik": E, "prior": E, "zero": bool}
  (with "se" the script is ignored and SamplingEnabler(lik, prior, start_from_zero=zero) is sampled).
  Answer: {"blocks":[{"dt":k,"m":M}..]} (excitation-to-sample matrices in drawing order) | {"error": kind}
        | {"irrational": true} when a variance that is square-rooted is not a perfect square (checked by the oracle only).
-/

def natSqrt? (n : Nat) : Option Nat := let r := Nat.sqrt n; if r * r == n then some r else none

def ratSqrt? (q : Rat) : Option Rat :=
  if q < 0 then none else
  match natSqrt? q.num.toNat, natSqrt? q.den with
  | some a, some b => some (mkRat a b)
  | _, _ => none

def grSqrt (c : GR) : GR := match ratSqrt? c.re with | some r => ⟨r, 0⟩ | none => ⟨0, 0⟩

def mkSSem (l : Lib) (multi : List (List Nat)) : SSem GR DV Mat :=
  { mkSem l with
    ksqrt := grSqrt
    kNeg := fun c => c.re < 0
    dsqrt := fun d => d.map grSqrt
    dIsComplex := fun d => d.any (fun x => x.im != 0)
    dMinNeg := fun d => d.any (fun x => x.re < 0)
    dMinZero := fun d => !d.any (fun x => x.re < 0) && d.any (fun x => x.re == 0)
    multiKeys := fun dm => match multi.find? (fun r => r.head? == some dm) with
      | some r => r.drop 1
      | none => []
    blockRow := fun dm k a =>
      match multi.find? (fun r => r.head? == some dm) with
      | none => a
      | some r =>
        let subs := r.drop 1
        let off := (subs.take k).foldl (fun s d => s + l.size d) 0
        let tot := subs.foldl (fun s d => s + l.size d) 0
        Mat.ofFn tot a.c fun i j => if off ≤ i && i < off + a.r then a.get (i - off) j else GR.zero }

/-- the variances `draw_sample` takes square roots of, in the traversal order of `sampler` -/
partial def rootsOf : O → List Rat
  | .scaling _ c _ => [c.re]
  | .diag _ d _ _ => d.toList.map (·.re)
  | .sandwich _ ch _ => rootsOf ch
  | .blockdiag _ es => es.flatMap rootsOf
  | .sum ops _ => ops.flatMap rootsOf
  | .adapter o _ => rootsOf o
  | .invEnabler o => rootsOf o
  | _ => []

def jBlocks (l : List (Mat × Nat)) : Json :=
  jObj [("blocks", Json.arr (l.map fun p => jObj [("dt", jNat p.2), ("m", jMat p.1)]).toArray)]

def handleC13 (j : Json) : Json :=
  match parseLib j, fBool? j "fi" with
  | some l, some fi =>
    let multi := ((field? j "multi").bind (listOf? natList?)).getD []
    let S := mkSSem l multi
    let S0 := S.toSem
    let answer (roots : List Rat) (r : Except String (List (Mat × Nat))) : Json :=
      match r with
      | .error e => jErr e
      | .ok bl => if roots.all (fun q => q < 0 || (ratSqrt? q).isSome) then jBlocks bl else jObj [("irrational", Json.bool true)]
    match field? j "se" with
    | some se =>
      match field? se "lik", field? se "prior" with
      | some lj, some pj =>
        match eval l S0 lj, eval l S0 pj with
        | .ok lik, .ok prior =>
          match mkSum S0 [lik, prior] [false, false] with
          | .ok op => answer (rootsOf lik ++ rootsOf prior ++ rootsOf op)
                        (samplerSE S lik prior op ((fBool? se "zero").getD false) fi)
          | .error e => jErr e
        | .error e, _ => jErr e
        | _, .error e => jErr e
      | _, _ => jErr "bad-args"
    | none =>
      match field? j "script" with
      | some sc =>
        match eval l S0 sc with
        | .error e => jErr e
        | .ok o => answer (rootsOf o) (sampler S o fi)
      | none => jErr "bad-args"
  | _, _ => jErr "bad-args"
