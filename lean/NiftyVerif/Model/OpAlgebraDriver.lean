import NiftyVerif.Core.Proto
import NiftyVerif.Model.GaussMat
import NiftyVerif.Model.OpAlgebra
open Lean NiftyVerif.Proto NiftyVerif.GaussMat NiftyVerif.OpAlgebra NiftyVerif.Gen.ModeTables

/-!
  C01 driver.  One request per line:
  {"sizes":[n0,n1,..],                      -- size of domain id i
   "leaves":[{"id":..,"cap":..,"dom":..,"tgt":..,"mats":{"1":M,"2":M,"4":M,"8":M}}],   -- M = rows of ["re","im"]
   "script": E}
  E ::= {"op":"leaf","id"} | {"op":"scaling","dom","c":[re,im],"dt"} | {"op":"diag","dom","v":[[re,im]..],"dt"}
      | {"op":"null","dom","tgt"} | {"op":"block","dom","subdoms":[..],"ents":[E|null..]}
      | {"op":"add"|"sub"|"matmul","a":E,"b":E} | {"op":"adjoint"|"inverse"|"neg"|"invEnabler","a":E}
      | {"op":"scale","a":E,"c":[re,im]} | {"op":"sandwich","bun":E,"cheese":E|null,"dt"}
  Answer: {"cap","dom","tgt","struct","mats":{mode: M}} for every advertised mode, or {"error": kind}.
  {"op":"tables"} returns the regenerated literal tables (translator validation).
-/

abbrev DV := Array GR
abbrev O := Op GR DV

def getGR? (j : Json) : Option GR := do
  let a ← getArr? j
  match a with
  | [x, y] => some ⟨← getRat? x, ← getRat? y⟩
  | _ => none

def getMat? (j : Json) : Option Mat := do
  let rows ← getArr? j
  let rs ← rows.mapM (fun r => do let es ← getArr? r; es.mapM getGR?)
  let r := rs.length
  let c := match rs with | [] => 0 | x :: _ => x.length
  some ⟨r, c, (rs.map List.toArray).toArray⟩

structure Lib where
  sizes : Array Nat
  leaves : List (Nat × Nat × Nat × Nat × List (Nat × Mat))

def Lib.size (l : Lib) (d : Nat) : Nat := l.sizes.getD d 0

def mkSem (l : Lib) : Sem GR DV Mat where
  kzero := GR.zero
  kone := GR.one
  kadd := GR.add
  kmul := GR.mul
  kneg := GR.neg
  kconj := GR.conj
  kinv := GR.inv
  kre := fun c => ⟨c.re, 0⟩
  kIsReal := GR.isReal
  kabs2 := fun c => ⟨c.abs2, 0⟩
  keq := fun a b => a == b
  dmul := fun a b => Array.ofFn (n := a.size) fun i => a.getD i.val GR.zero * b.getD i.val GR.zero
  dadd := fun a b => Array.ofFn (n := a.size) fun i => a.getD i.val GR.zero + b.getD i.val GR.zero
  dneg := fun a => a.map GR.neg
  dconj := fun a => a.map GR.conj
  dinv := fun a => a.map GR.inv
  dscale := fun a k => a.map (· * k)
  dshift := fun a k => a.map (· + k)
  zero := fun d t => Mat.zero (l.size t) (l.size d)
  one := fun d => Mat.one (l.size d)
  mul := Mat.mul
  add := Mat.add
  neg := Mat.neg
  smul := Mat.smul
  inv := fun m => match Mat.inv? m with | some x => x | none => Mat.zero m.r m.c
  ofDiag := fun _ v => Mat.ofDiag v
  blocks := fun _ ms => Mat.blocks ms
  leaf := fun id m =>
    match l.leaves.find? (fun x => x.1 == id) with
    | some (_, _, _, _, mats) => (match mats.find? (fun x => x.1 == m) with | some (_, mm) => mm | none => Mat.zero 0 0)
    | none => Mat.zero 0 0

def parseLib (j : Json) : Option Lib := do
  let sizes ← fNatList? j "sizes"
  let ls ← (field? j "leaves").bind getArr?
  let leaves ← ls.mapM (fun lj => do
    let id ← fNat? lj "id"
    let cap ← fNat? lj "cap"
    let dom ← fNat? lj "dom"
    let tgt ← fNat? lj "tgt"
    let mj ← field? lj "mats"
    let mats := [1, 2, 4, 8].filterMap (fun m => (field? mj (toString m)).bind getMat? |>.map (fun x => (m, x)))
    some (id, cap, dom, tgt, mats))
  some ⟨sizes.toArray, leaves⟩

/-- JSON script -> expression tree (`none`: malformed script) -/
partial def parseExpr (l : Lib) (j : Json) : Option (Expr GR DV) :=
  let sub (k : String) : Option (Expr GR DV) := (field? j k).bind (parseExpr l)
  match fStr? j "op" with
  | some "leaf" =>
      (fNat? j "id").bind fun id => (l.leaves.find? (fun x => x.1 == id)).map fun (_, cap, dom, tgt, _) => Expr.leaf id cap dom tgt
  | some "scaling" =>
      match fNat? j "dom", (field? j "c").bind getGR?, fNat? j "dt" with
      | some d, some c, some dt => some (Expr.scaling d c dt)
      | _, _, _ => none
  | some "diag" =>
      match fNat? j "dom", (field? j "v").bind (listOf? getGR?), fNat? j "dt" with
      | some d, some v, some dt => some (Expr.diag d v.toArray dt)
      | _, _, _ => none
  | some "null" =>
      match fNat? j "dom", fNat? j "tgt" with
      | some d, some t => some (Expr.null d t)
      | _, _ => none
  | some "block" =>
      match fNat? j "dom", fNatList? j "subdoms", (field? j "ents").bind getArr? with
      | some d, some sd, some es =>
          (es.mapM fun e => match e with
            | Json.null => some Expr.missing
            | e => parseExpr l e).map fun ents => Expr.block d sd ents
      | _, _, _ => none
  | some "add" => do some (Expr.add (← sub "a") (← sub "b"))
  | some "sub" => do some (Expr.sub (← sub "a") (← sub "b"))
  | some "matmul" => do some (Expr.matmul (← sub "a") (← sub "b"))
  | some "adjoint" => do some (Expr.adjoint (← sub "a"))
  | some "inverse" => do some (Expr.inverse (← sub "a"))
  | some "neg" => do some (Expr.neg (← sub "a"))
  | some "scale" => do some (Expr.scale (← sub "a") (← (field? j "c").bind getGR?))
  | some "invEnabler" => do some (Expr.invEnabler (← sub "a"))
  | some "sandwich" =>
      let dt := (fNat? j "dt").getD 0
      match field? j "cheese" with
      | some Json.null => do some (Expr.sandwichNone (← sub "bun") dt)
      | none => do some (Expr.sandwichNone (← sub "bun") dt)
      | some _ => do some (Expr.sandwich (← sub "bun") (← sub "cheese") dt)
  | _ => none

/-- evaluate a JSON script: parse, then `OpAlgebra.build` (the function `tree_sound` is about) -/
def eval (l : Lib) (S : Sem GR DV Mat) (j : Json) : Except String O :=
  match parseExpr l j with
  | some e => build S e
  | none => .error "bad-script"

def jGR (g : GR) : Json := Json.arr #[jRat g.re, jRat g.im]
def jMat (m : Mat) : Json := Json.arr (m.a.map (fun r => Json.arr (r.map jGR)))

partial def structOf : O → Json
  | .leaf id _ _ _ => jObj [("k", "Leaf"), ("id", jNat id)]
  | .scaling _ c dt => jObj [("k", "Scaling"), ("c", jGR c), ("dt", jNat dt)]
  | .diag _ _ t dt => jObj [("k", "Diag"), ("trafo", jNat t), ("dt", jNat dt)]
  | .idEntry _ => Json.null
  | .blockdiag _ es => jObj [("k", "Block"), ("ents", Json.arr (es.map structOf).toArray)]
  | .null _ _ => jObj [("k", "Null")]
  | .adapter o t => jObj [("k", "Adapter"), ("t", jNat t), ("op", structOf o)]
  | .chain ops => jObj [("k", "Chain"), ("ops", Json.arr (ops.map structOf).toArray)]
  | .sum ops neg => jObj [("k", "Sum"), ("ops", Json.arr (ops.map structOf).toArray),
                          ("neg", Json.arr (neg.map Json.bool).toArray)]
  | .sandwich b c o => jObj [("k", "Sandwich"), ("bun", structOf b), ("cheese", structOf c), ("op", structOf o)]
  | .invEnabler o => jObj [("k", "InvEnabler"), ("op", structOf o)]

def tables : Json :=
  jObj [("TIMES", jNat TIMES), ("ADJOINT_TIMES", jNat ADJOINT_TIMES), ("INVERSE_TIMES", jNat INVERSE_TIMES),
        ("ADJOINT_INVERSE_TIMES", jNat ADJOINT_INVERSE_TIMES), ("INVERSE_ADJOINT_TIMES", jNat INVERSE_ADJOINT_TIMES),
        ("ADJOINT_BIT", jNat ADJOINT_BIT), ("INVERSE_BIT", jNat INVERSE_BIT),
        ("_backwards", jNat backwards), ("_all_ops", jNat allOps),
        ("_ilog", jInts ilog), ("_validMode", Json.arr (validMode.map Json.bool).toArray),
        ("_modeTable", jList jNats modeTable), ("_capTable", jList jNats capTable), ("_addInverse", jNats addInverse),
        ("domMask", jNat domMask), ("tgtMask", jNat tgtMask), ("sumCap", jNat sumCap), ("nullCap", jNat nullCap),
        ("chainCap", jNat chainCap)]

def handleC01 (j : Json) : Json :=
  match fStr? j "op" with
  | some "tables" => tables
  | _ =>
  match parseLib j, field? j "script" with
  | some l, some sc =>
    let S := mkSem l
    let covered := match parseExpr l sc with | some e => treeOK S e | none => false
    match eval l S sc with
    | .error e => jErr e
    | .ok o =>
      let c := cap o
      let modes := [1, 2, 4, 8].filter (fun m => checkMode c m)
      jObj [("cap", jNat c), ("dom", jNat (dom o)), ("tgt", jNat (tgt o)), ("struct", structOf o), ("tree_sound_covers", Json.bool covered),
            ("mats", jObj (modes.map fun m => (toString m, jMat (den S o m))))]
  | _, _ => jErr "bad-args"


