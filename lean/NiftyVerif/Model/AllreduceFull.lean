/-
  The complete protocol of `allreduce_sum(obj, comm)` on `p` ranks: the leading collectives (`allgather`,
  `allreduce`), the point-to-point phase of Model/Allreduce.lean, the trailing collectives of `_bcast`.
  A collective completes only when ALL `p` ranks have it at their heads (the strictest, barrier-like reading).
  Core imports only.
-/
import NiftyVerif.Model.Allreduce

namespace NiftyVerif.Allreduce

inductive FAct where
  | p2p (a : Act)
  | coll (tag : Nat)
deriving DecidableEq, Repr

structure FSt where
  prog : Nat → List FAct
  store : Store

def setFProg (p : Nat → List FAct) (r : Nat) (l : List FAct) : Nat → List FAct := fun x => if x = r then l else p x

inductive FStep (p : Nat) : FSt → FSt → Prop where
  | loc (st : FSt) (r : Nat) (e : Ev) (rest : List FAct) :
      st.prog r = .p2p (.loc e) :: rest →
      FStep p st { prog := setFProg st.prog r rest, store := exec e st.store }
  | rdv (st : FSt) (a b : Nat) (e e' : Ev) (ra rb : List FAct) :
      a ≠ b → st.prog a = .p2p (.recv b e) :: ra → st.prog b = .p2p (.send a e') :: rb →
      FStep p st { prog := setFProg (setFProg st.prog a ra) b rb, store := execRdv e e' st.store }
  | coll (st : FSt) (t : Nat) (rests : Nat → List FAct) :
      (∀ r, r < p → st.prog r = .coll t :: rests r) →
      FStep p st { prog := fun r => if r < p then rests r else st.prog r, store := st.store }

/-- program of rank `r`: collectives `pre`, its point-to-point actions, collectives `post`; ranks `≥ p` do not exist -/
def fullProg (p : Nat) (who : Nat → Nat) (pre post : List Nat) (E : List Ev) (r : Nat) : List FAct :=
  if r < p then pre.map .coll ++ (proj who r E).map .p2p ++ post.map .coll else []

def fInit (p : Nat) (who : Nat → Nat) (pre post : List Nat) (E : List Ev) (init : Store) : FSt :=
  { prog := fullProg p who pre post E, store := init }

inductive FReach (p : Nat) (who : Nat → Nat) (pre post : List Nat) (E : List Ev) (init : Store) : Nat → FSt → Prop where
  | zero : FReach p who pre post E init 0 (fInit p who pre post E init)
  | succ {k st st'} : FReach p who pre post E init k st → FStep p st st' → FReach p who pre post E init (k + 1) st'

end NiftyVerif.Allreduce
