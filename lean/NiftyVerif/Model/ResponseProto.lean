/-
  JSON handler of the C35 driver (kept in a compiled module so that `lean --run Driver/C35.lean` has nothing to elaborate).
  Core only.
-/
import NiftyVerif.Model.LinOpsProto
import NiftyVerif.Model.Response
import NiftyVerif.Model.ResponseLos
import NiftyVerif.Model.NftProto
import NiftyVerif.Model.ResponseSampling
open Lean NiftyVerif NiftyVerif.Proto NiftyVerif.Coo NiftyVerif.LinOps NiftyVerif.LinOpsProto NiftyVerif.Response
open NiftyVerif.ResponseLos NiftyVerif.ResponseSampling

namespace NiftyVerif.ResponseProto

/-!
  C35 model driver.  "cls" = LinearInterpolator / LOSResponse are handled here (Model/Response.lean, exact rationals);
  every other "cls" (FieldZeroPadder, RegriddingOperator, MaskOperator, …) goes to the shared LinOps handler.
    {"cls":"LinearInterpolator","shape":[..],"dist":["p/q",..],"points":[[x_0,..,x_{d-1}],…], "x":…, "y":…}
    {"cls":"LOSResponse","shape":[..],"dist":[..],"starts":[[..],…],"ends":[[..],…],"eps":"p/q"}   weights in line-parameter units
  LOSResponse output: "modes" = independent model `losCoo` (whole clipped segment); "los" = per line, for ε = eps and ε = 0:
    "trav" = transcription of `_comp_traverse` (`[[pixel, Δt],…]`), "seg" = independent model `losSeg` on the same shrunk
    parameter interval, "generic" = hypothesis of the refinement theorem, "clip" = `clipT` agrees with `clipBox`;
    "init" = the COO triples of `LOSResponse.__init__` (or "ValueError").
    {"cls":"NftLattice","M":…,"shape":[…],"a":[[…]×P],"x":[[re,im]×P],"y":[[re,im]×R]}  → exponent table and the coefficient
    lists (polynomials in ω = e^{2πi/M}) of E·x and Eᴴ·y — see Model/NftProto.lean.
-/

def ratLists? (j : Json) (k : String) : Option (List (List Rat)) := (field? j k).bind (listOf? ratList?)

def toCQ (M : Coo Rat) : Coo CQ := ⟨M.rows, M.cols, M.ent.map fun e => (e.1, e.2.1, CQ.ofRat e.2.2)⟩

def jPW (l : List (Int × Rat)) : Json := jList (fun pw => Json.arr #[jInt pw.1, jRat pw.2]) l

/-- both models of one line for one ε -/
def losLine (eps : Rat) (shape : List Nat) (sP eP : List Rat) : Json :=
  let dir := (sP.zip eP).map fun se => se.2 - se.1
  let dd := clipT shape sP dir
  let dmin := dd.1 + eps
  let dmax := dd.2 - eps
  let empty := decide (dmax ≤ dmin)
  let seg : List (Int × Rat) := if empty then [] else (losSeg shape sP eP dmin dmax).map fun pw => ((pw.1 : Int), pw.2)
  let clipOk := match clipBox shape sP eP with
    | some (lo, hi) => lo == dd.1 && hi == dd.2
    | none => decide (dd.2 ≤ dd.1)
  jObj [("trav", jPW (traverse eps shape sP eP)), ("seg", jPW seg),
        ("generic", Json.bool (empty || genericOn shape sP dir dmin dmax)), ("clip", Json.bool clipOk),
        ("dmin", jRat dd.1), ("dmax", jRat dd.2)]

def losExtra (eps : Rat) (shape : List Nat) (dist : List Rat) (st en : List (List Rat)) : List (String × Json) :=
  let lines := (st.zip en).map fun se =>
    let sP := toPix se.1 dist
    let eP := toPix se.2 dist
    jObj [("eps", losLine eps shape sP eP), ("zero", losLine 0 shape sP eP)]
  let init := match losInit eps shape dist st en with
    | none => Json.str "ValueError"
    | some M => jList (fun e => Json.arr #[jNat e.1, jNat e.2.1, jRat e.2.2]) M.ent
  [("los", Json.arr lines.toArray), ("init", init)]

def handle35 (j : Json) : Json :=
  match NiftyVerif.Nft.handleNft j with             -- "cls":"NftLattice" (Model/Nft.lean: exact lattice Fourier sums)
  | some o => o
  | none =>
  match fStr? j "cls" with
  | some "LinearInterpolator" =>
    match fNatList? j "shape", fRatList? j "dist", ratLists? j "points" with
    | some shape, some dist, some pts =>
      if dist.length != shape.length || pts.any (fun p => p.length != shape.length) then jErr "TypeError" else
      if dist.any (· == 0) then jErr "bad-args" else
      render j (twoModes (toCQ (interpCoo shape dist pts)))
    | _, _, _ => jErr "bad-args"
  | some "LOSResponse" =>
    match fNatList? j "shape", fRatList? j "dist", ratLists? j "starts", ratLists? j "ends" with
    | some shape, some dist, some st, some en =>
      if st.length != en.length || st.any (fun p => p.length != shape.length) || en.any (fun p => p.length != shape.length)
      then jErr "TypeError" else
      if dist.any (· == 0) then jErr "bad-args" else
      let eps := (fRat? j "eps").getD 0
      (losExtra eps shape dist st en).foldl (fun o kv => o.setObjVal! kv.1 kv.2)
        (render j (twoModes (toCQ (losCoo shape dist st en))))
    | _, _, _, _ => jErr "bad-args"
  | some "SamplingLOS" =>
    -- {"cls":"SamplingLOS","shape":[..],"dist":[..],"starts":[[..],…],"ends":[[..],…],"n":k,"x":[flat field]} →
    -- {"vals":[ "p/q" | null per line ]}: `_los` of nifty/re/extra/sampling_los.py in units of ‖end − start‖ (null = nan)
    match fNatList? j "shape", fRatList? j "dist", ratLists? j "starts", ratLists? j "ends", fNat? j "n", fRatList? j "x" with
    | some shape, some dist, some st, some en, some n, some xs =>
      if st.length != en.length || xs.length != prodL shape || n == 0 || dist.length != shape.length ||
         st.any (fun p => p.length != shape.length) || en.any (fun p => p.length != shape.length) then jErr "bad-args" else
      let x := fun (idx : List Int) => xs.getD (ravel shape (idx.map Int.toNat)) 0
      jObj [("vals", Json.arr ((st.zip en).map fun se =>
        match samplingLos shape dist x se.1 se.2 n with
        | some v => jRat v
        | none => Json.null).toArray)]
    | _, _, _, _, _, _ => jErr "bad-args"
  | _ => LinOpsProto.handle j

end NiftyVerif.ResponseProto
