/-
  Model of nifty/re/hmc.py (C32).  Core imports only.

  leapfrog_step(potential_energy_gradient, kinetic_energy_gradient, step_size, inverse_mass_matrix, qp):
      momentum_halfstep = momentum - step_size / 2. * potential_energy_gradient(position)
      position_fullstep = position + step_size * kinetic_energy_gradient(inverse_mass_matrix, momentum_halfstep)
      momentum_fullstep = momentum_halfstep - step_size / 2. * potential_energy_gradient(position_fullstep)
  flip_momentum, generate_hmc_acc_rej (energy difference, transition probability, selection),
  count_trailing_ones / population_count slot bookkeeping of iterative_build_tree,
  add_single_qp_to_tree / merge_trees weight bookkeeping.

  `V` is the position/momentum space with scalars `K` acting on it; `gradU gradK : V → V` are arbitrary functions
  (`gradK` is `kinetic_energy_gradient(inverse_mass_matrix, ·)`).
-/

namespace NiftyVerif.Hmc

structure QP (V : Type) where
  q : V
  p : V
deriving Repr, BEq, DecidableEq

section leap
variable {K V : Type} [Add V] [Sub V] [Neg V] [SMul K V] [Div K] [Neg K] [OfNat K 2]

/-- `flip_momentum` -/
def flip (z : QP V) : QP V := ⟨z.q, -z.p⟩

/-- first and third factor: `p ← p − (ε/2)·∇U(q)` -/
def kick (gradU : V → V) (ε : K) (z : QP V) : QP V := ⟨z.q, z.p - (ε / 2) • gradU z.q⟩

/-- second factor: `q ← q + ε·∇K(p)` -/
def drift (gradK : V → V) (ε : K) (z : QP V) : QP V := ⟨z.q + ε • gradK z.p, z.p⟩

/-- `leapfrog_step`, statement by statement -/
def leapfrog (gradU gradK : V → V) (ε : K) (z : QP V) : QP V :=
  let momentum_halfstep := z.p - (ε / 2) • gradU z.q
  let position_fullstep := z.q + ε • gradK momentum_halfstep
  let momentum_fullstep := momentum_halfstep - (ε / 2) • gradU position_fullstep
  ⟨position_fullstep, momentum_fullstep⟩

/-- `fori_loop(0, num_steps, stepper, qp)` -/
def leapfrogN (gradU gradK : V → V) (ε : K) : Nat → QP V → QP V
  | 0, z => z
  | n + 1, z => leapfrogN gradU gradK ε n (leapfrog gradU gradK ε z)

end leap

/-! ### Metropolis step of `generate_hmc_acc_rej` (energies are inputs; `exp` abstract) -/
section metro
variable {K : Type} [Sub K] [LT K] [DecidableLT K] [LE K] [DecidableLE K] [OfNat K 1]

/-- `transition_probability = minimum(1, exp(energy_diff))`, `energy_diff = E(initial) − E(proposed)` -/
def transitionProbability (exp : K → K) (eInit eProp : K) : K :=
  let p := exp (eInit - eProp)
  if (1 : K) ≤ p then 1 else p

/-- `random.bernoulli(key, p)` is `uniform(key) < p` -/
def accept (u p : K) : Bool := decide (u < p)

/-- `expit(x) = 1/(1+exp(-x))`, the keep-probability `expit(tree.logweight - neg_energy)` of `add_single_qp_to_tree` -/
def expit [Add K] [Neg K] [Div K] (exp : K → K) (x : K) : K := 1 / (1 + exp (-x))

/-- `add_single_qp_to_tree`: probability of keeping the old candidate -/
def keepProb [Add K] [Neg K] [Div K] (exp : K → K) (wOld negEnergy : K) : K := expit exp (wOld - negEnergy)

/-- `merge_trees`: probability of taking the new sub-tree's candidate -/
def mergeProb [Add K] [Neg K] [Div K] (exp : K → K) (bias : Bool) (wNew wCur : K) : K :=
  if bias then transitionProbability exp wNew wCur else expit exp (wNew - wCur)

/-- `select(accept, (proposed, initial), (initial, proposed))` -/
def selectAccRej {α : Type} (acc : Bool) (proposed initial : α) : α × α :=
  if acc then (proposed, initial) else (initial, proposed)

end metro

/-! ### chain statistics of hmc_oo.update_chain -/
section chain
variable {K : Type} [Add K] [Sub K] [Div K] [NatCast K] [OfNat K 1]

/-- `acceptance = chain.acceptance + (x - chain.acceptance) / (idx + 1)` -/
def accUpdate (a : K) (idx : Nat) (x : K) : K := a + (x - a) / ((idx : K) + 1)

/-- the `fori_loop` over samples, `idx = 0, 1, …` -/
def accRun : List K → Nat → K → K
  | [], _, a => a
  | x :: xs, idx, a => accRun xs (idx + 1) (accUpdate a idx x)

end chain

/-! ### NUTS bookkeeping (integers) -/

/-- `count_trailing_ones`: the while loop `(n & 1) != 0 → (n >> 1, c + 1)` -/
def countTrailingOnes (n : Nat) : Nat :=
  if h : n % 2 = 1 then countTrailingOnes (n / 2) + 1 else 0
decreasing_by omega

/-- `lax.population_count` -/
def popCount (n : Nat) : Nat :=
  if h : n = 0 then 0 else n % 2 + popCount (n / 2)
decreasing_by omega

/-- the store `S` of `iterative_build_tree` after the leaves `0 … n` were produced:
    leaf `0` goes to slot `0` before the loop, every *even* leaf `m ≥ 1` overwrites slot `popCount m`.
    `storeAt n i` = index of the leaf that sits in slot `i` (or `none` if never written). -/
def storeAt : Nat → Nat → Option Nat
  | 0, i => if i = 0 then some 0 else none
  | n + 1, i => if (n + 1) % 2 = 0 ∧ popCount (n + 1) = i then some (n + 1) else storeAt n i

/-- the slots the odd leaf `n` is compared against: `i_min_incl … i_max_incl` -/
def checkedSlots (n : Nat) : List Nat :=
  let l := countTrailingOnes n
  let iMax := popCount (n - 1)
  (List.range l).map (fun j => iMax - j)

/-- leaves the odd leaf `n` is checked against according to the store -/
def checkedLeaves (n : Nat) : List (Option Nat) := (checkedSlots n).map (storeAt (n - 1))

/-- what they should be: the left-most leaves of the complete sub-trees of sizes 2,4,…,2^l that end at `n` -/
def subtreeLeftLeaves (n : Nat) : List (Option Nat) :=
  (List.range (countTrailingOnes n)).map (fun j => some (n + 1 - 2 ^ (j + 1)))

end NiftyVerif.Hmc
