/-
  LOSResponse, σ = 0: TRANSCRIPTION of `nifty/cl/library/los_response.py` — `_comp_traverse` and the part of
  `LOSResponse.__init__` that turns starts/ends into pixel coordinates and COO triples — statement by statement over exact
  rationals.  The independent segment-length model (`losSeg` / `losRow` / `clipBox`) stays in Model/Response.lean; the
  refinement theorems are in Props/C35.lean (helpers in Lemmas/ResponseLos*.lean).  Core only.

  Departures from the float code (all named in design.d/C35.md):
   * exact rationals instead of float64; the end-point shrink `1e-7` is the parameter `eps`;
   * `corfac = ‖direction·dist‖` (a square root) is NOT applied: weights are in line-parameter units, the harness multiplies
     by the length (the code multiplies `cdist` before `np.diff`, which differs by rounding only);
   * `real_ends = starts + diffs/difflen·(1/(1/difflen − 0))` is `ends` in exact arithmetic (σ = 0);
   * `np.argsort` (unstable introsort) is a stable merge sort on the crossing parameter: identical when no two crossing
     parameters coincide (genericity hypothesis of the theorems; the driver reports `generic`);
   * `apply_erf` with `sig = 0`: `lo = mid = hi = difflen`, both masks select nothing for `mdist < difflen` — identity.
-/
import NiftyVerif.Model.Response

namespace NiftyVerif.ResponseLos
open NiftyVerif Coo NiftyVerif.Response

/-- `np.arange(start, stop, step)` (`step > 0`) over exact rationals: `max 0 ⌈(stop − start)/step⌉` values `start + k·step` -/
def arangeQ (start stop step : Rat) : List Rat :=
  (List.range ((stop - start) / step).ceil.toNat).map fun (k : Nat) => start + (k : Rat) * step

/-- `np.asarray(x, dtype=np.int64)` on a float: truncation toward zero -/
def truncQ (x : Rat) : Int := if x < 0 then -((-x).floor) else x.floor

/-- the sentinel `1000000000000.0` of the `direction == 0` special case -/
def big : Rat := 1000000000000

/-- `d0 = np.where(direction == 0, ((start > 0) − 0.5)·1e12, −start/dirx)` -/
def d0 (s dir : Rat) : Rat := if dir = 0 then ((if 0 < s then 1 else 0) - 1 / 2) * big else -s / dir

/-- `d1 = np.where(direction == 0, ((start < pmax) − 0.5)·(−1e12), (pmax − start)/dirx)` -/
def d1 (n s dir : Rat) : Rat := if dir = 0 then ((if s < n then 1 else 0) - 1 / 2) * (-big) else (n - s) / dir

def minQ (a b : Rat) : Rat := if b < a then b else a
def maxQ (a b : Rat) : Rat := if a < b then b else a

/-- per-axis arrays `np.minimum(d0, d1)`, `np.maximum(d0, d1)` -/
def dminArr : List Nat → List Rat → List Rat → List Rat
  | n :: sh, s :: ss, d :: ds => minQ (d0 s d) (d1 (n : Nat) s d) :: dminArr sh ss ds
  | _, _, _ => []

def dmaxArr : List Nat → List Rat → List Rat → List Rat
  | n :: sh, s :: ss, d :: ds => maxQ (d0 s d) (d1 (n : Nat) s d) :: dmaxArr sh ss ds
  | _, _, _ => []

/-- `dmin = max(0, dmin.max()); dmax = min(1, dmax.min()); dmax = max(dmin, dmax)` (arrays are non-empty: ndim ≥ 1) -/
def clipT (shape : List Nat) (s dir : List Rat) : Rat × Rat :=
  let dmin := maxL 0 (dminArr shape s dir)
  let dmax := minL 1 (dmaxArr shape s dir)
  (dmin, maxQ dmin dmax)

/-- `c_first` of one axis: `ceil(start + direction·dmin)`, minus one unless `direction > 0`, then `(c − start)/dirx` -/
def cFirst (s dir dmin : Rat) : Rat :=
  let c : Rat := ((s + dir * dmin).ceil : Int)
  let c := if 0 < dir then c else c - 1
  (c - s) / dir

/-- loop body for one axis `j`: `tmp = np.arange(c_first[j], dmax, abs(1/direction[j]))`, paired with `step = ±inc[j]`;
    nothing when `direction[j] == 0` -/
def axisEvents (inc : Nat) (s dir dmin dmax : Rat) : List (Rat × Int) :=
  if dir = 0 then [] else
  let step : Int := if 0 < dir then (inc : Int) else -(inc : Int)
  (arangeQ (cFirst s dir dmin) dmax (absK (1 / dir))).map fun t => (t, step)

/-- the per-axis data `(inc[j], start[j], direction[j])` with `inc[j] = Π shp[j+1:]` (the code's `inc` array) -/
def axes : List Nat → List Rat → List Rat → List (Nat × Rat × Rat)
  | _ :: sh, s :: ss, d :: ds => (prodL sh, s, d) :: axes sh ss ds
  | _, _, _ => []

/-- the `for j in range(ndim)` loop: `cdist`/`add` appended axis by axis -/
def eventsA (dmin dmax : Rat) : List (Nat × Rat × Rat) → List (Rat × Int)
  | [] => []
  | a :: ax => axisEvents a.1 a.2.1 a.2.2 dmin dmax ++ eventsA dmin dmax ax

def events (shape : List Nat) (s dir : List Rat) (dmin dmax : Rat) : List (Rat × Int) :=
  eventsA dmin dmax (axes shape s dir)

/-- `pos1 = np.sum(np.asarray(start + dmin·direction, dtype=np.int64) · inc)` -/
def pos1A (dmin : Rat) : List (Nat × Rat × Rat) → Int
  | [] => 0
  | a :: ax => truncQ (a.2.1 + dmin * a.2.2) * (a.1 : Int) + pos1A dmin ax

def pos1 (shape : List Nat) (s dir : List Rat) (dmin : Rat) : Int := pos1A dmin (axes shape s dir)

/-- `np.cumsum(np.append(pos1, add))` -/
def cumsum : Int → List Int → List Int
  | a, [] => [a]
  | a, b :: l => a :: cumsum (a + b) l

/-- `np.diff` -/
def diffs : List Rat → List Rat
  | a :: b :: l => (b - a) :: diffs (b :: l)
  | _ => []

/-- body of the `for i in range(nlos)` loop after the emptiness test: `(add, wgt)` zipped -/
def traverseFrom (shape : List Nat) (s dir : List Rat) (dmin dmax : Rat) : List (Int × Rat) :=
  let ev := (events shape s dir dmin dmax).mergeSort fun a b => decide (a.1 ≤ b.1)      -- idx = argsort(cdist); cdist[idx]; add[idx]
  let cdist := [dmin] ++ ev.map Prod.fst ++ [dmax]
  let wgt := diffs cdist
  let add := cumsum (pos1 shape s dir dmin) (ev.map Prod.snd)
  add.zip wgt

/-- one line of sight of `_comp_traverse` (`start`, `end` in pixel coordinates); `eps` is the code's `1e-07` -/
def traverse (eps : Rat) (shape : List Nat) (s e : List Rat) : List (Int × Rat) :=
  let dir := (s.zip e).map fun se => se.2 - se.1
  let dd := clipT shape s dir
  let dmin := dd.1 + eps
  let dmax := dd.2 - eps
  if dmax ≤ dmin then [] else traverseFrom shape s dir dmin dmax

/-- pixel coordinates `x / dist + 0.5` -/
def toPix (p dist : List Rat) : List Rat := (p.zip dist).map fun xd => xd.1 / xd.2 + 1 / 2

/-- the COO triples `LOSResponse.__init__` hands to `coo_matrix` (`none`: an index outside `[0, npix)`, for which
    `coo_matrix` raises ValueError) -/
def losInit (eps : Rat) (shape : List Nat) (dist : List Rat) (starts ends : List (List Rat)) : Option (Coo Rat) :=
  let rows := (List.range starts.length).map fun r =>
    traverse eps shape (toPix (starts.getD r []) dist) (toPix (ends.getD r []) dist)
  let npix := prodL shape
  if rows.any (fun row => row.any fun pw => decide (pw.1 < 0) || decide ((npix : Int) ≤ pw.1)) then none else
  some ⟨starts.length, npix,
    ((List.range starts.length).zip rows).flatMap fun rr => rr.2.map fun pw => (rr.1, pw.1.toNat, pw.2)⟩

/-- genericity of one line on `[dmin, dmax]` — exactly the hypotheses of the refinement theorem (`genericOn_spec`), decidable,
    reported by the driver: no two crossing parameters coincide, and the entry point is on no grid plane of a moving axis -/
def genericOn (shape : List Nat) (s dir : List Rat) (dmin dmax : Rat) : Bool :=
  decide (((events shape s dir dmin dmax).map Prod.fst).Nodup) &&
   ((s.zip dir).all fun sd => sd.2 == 0 || decide (((sd.1 + dmin * sd.2).floor : Rat) ≠ sd.1 + dmin * sd.2))

end NiftyVerif.ResponseLos
