/-
  `Transc K`: the vocabulary of transcendental functions used by the executable models (DESIGN.md §2.1).
  Core only.  Two instances exist:
    * `Float` (this file)  — used by the line-protocol drivers, comparison class T only;
    * `ℝ` (Lemmas/TranscReal.lean, noncomputable) — used by the theorems (Mathlib's `Real.*`).
  Arithmetic (`+ - * /`, order, literals) is *not* part of the class: models take the usual
  `[Add K] [Mul K] … [OfScientific K]` arguments so that they unfold to the ordinary field
  operations in the proof files.
  Derived NumPy vocabulary (`log1p expm1 log10 sinc sign abs clip …`) is defined here once, as NumPy
  documents it, and shared by every model (`Gen/Pointwise.lean`, `Model/Likelihood*.lean`, …).
-/

namespace NiftyVerif

class Transc (K : Type) where
  sqrt : K → K
  exp : K → K
  log : K → K
  sin : K → K
  cos : K → K
  tan : K → K
  sinh : K → K
  cosh : K → K
  tanh : K → K
  arctan : K → K
  /-- `pow x y = x ^ y` (NumPy `np.power` on floats, Mathlib `Real.rpow`) -/
  pow : K → K → K
  pi : K
  /-- IEEE not-a-number: the value NumPy returns where a derivative is documented as undefined.
      In the `ℝ` instance it is an arbitrary junk value; no theorem depends on it. -/
  nan : K

/-- complex conjugation (identity on the real number types); used by the adjoint rules of the operator model -/
class Conj (K : Type) where
  conj : K → K

instance : Conj Float := ⟨fun x => x⟩

instance : Transc Float where
  sqrt := Float.sqrt
  exp := Float.exp
  log := Float.log
  sin := Float.sin
  cos := Float.cos
  tan := Float.tan
  sinh := Float.sinh
  cosh := Float.cosh
  tanh := Float.tanh
  arctan := Float.atan
  pow := Float.pow
  pi := 3.14159265358979323846
  nan := 0.0 / 0.0

namespace Np
/-! NumPy functions that are *defined* from the vocabulary (what NumPy documents, up to rounding). -/
variable {K : Type} [Transc K] [Add K] [Sub K] [Mul K] [Div K] [Neg K] [OfScientific K] [LT K] [DecidableLT K]

/-- `np.log1p v = log (1+v)` (NumPy evaluates it more accurately near 0: outside the model) -/
def log1p (v : K) : K := Transc.log ((1.0 : K) + v)
/-- `np.expm1 v = exp v − 1` -/
def expm1 (v : K) : K := Transc.exp v - (1.0 : K)
/-- `np.log10 v = log v / log 10` -/
def log10 (v : K) : K := Transc.log v / Transc.log (10.0 : K)
/-- `np.sinc v = sin(πv)/(πv)`, `1` at `0` -/
def sinc (v : K) : K :=
  if (v < (0.0 : K) ∨ (0.0 : K) < v) then Transc.sin (Transc.pi * v) / (Transc.pi * v) else (1.0 : K)
/-- `np.sign` -/
def sign (v : K) : K := if v < (0.0 : K) then -(1.0 : K) else if (0.0 : K) < v then (1.0 : K) else (0.0 : K)
/-- `np.abs` -/
def abs (v : K) : K := if v < (0.0 : K) then -v else v
/-- `np.maximum`, `np.minimum` (non-NaN arguments) -/
def maximum (a b : K) : K := if a < b then b else a
def minimum (a b : K) : K := if b < a then b else a
/-- `np.clip v lo hi = minimum(hi, maximum(v, lo))` -/
def clip (v lo hi : K) : K := minimum hi (maximum v lo)

end Np
end NiftyVerif
