/-
  Driver-side vector space: `RVec n` = length-`n` vectors of exact rationals with point-wise operations.
  This is the concrete instance on which the parametric iterative-solver models (CG, Newton, L-BFGS, line search)
  are *run*; the theorems quantify over every lawful `(K, V, ip)` and `Lemmas/RVec.lean` shows this instance is lawful.
  Core imports only.
-/
import Lean.Data.Json

namespace NiftyVerif

/-- length-indexed vector of rationals (materialised array: no closure chains when iterating) -/
structure RVec (n : Nat) where
  v : Vector Rat n
deriving Repr

namespace RVec
variable {n : Nat}

@[ext] theorem ext' {a b : RVec n} (h : a.v = b.v) : a = b := by
  cases a; cases b; simp_all

def get (a : RVec n) (i : Fin n) : Rat := a.v[i]
def ofFn (f : Fin n → Rat) : RVec n := ⟨Vector.ofFn f⟩

instance : Zero (RVec n) := ⟨⟨Vector.replicate n 0⟩⟩
instance : Add (RVec n) := ⟨fun a b => ⟨Vector.zipWith (· + ·) a.v b.v⟩⟩
instance : Sub (RVec n) := ⟨fun a b => ⟨Vector.zipWith (· - ·) a.v b.v⟩⟩
instance : Neg (RVec n) := ⟨fun a => ⟨a.v.map (- ·)⟩⟩
instance : SMul Rat (RVec n) := ⟨fun c a => ⟨a.v.map (c * ·)⟩⟩
instance : SMul Nat (RVec n) := ⟨fun c a => ⟨a.v.map ((c : Rat) * ·)⟩⟩
instance : SMul Int (RVec n) := ⟨fun c a => ⟨a.v.map ((c : Rat) * ·)⟩⟩

/-- real Euclidean inner product `Σ aᵢ bᵢ` -/
def dot (a b : RVec n) : Rat := (Vector.zipWith (· * ·) a.v b.v).foldl (· + ·) 0

/-- `‖a‖₁ = Σ |aᵢ|` (`jft.norm(·, ord=1)`) -/
def norm1 (a : RVec n) : Rat := a.v.foldl (fun acc x => acc + (if x < 0 then -x else x)) 0

/-- `‖a‖_∞ = max |aᵢ|` (`jft.norm(·, ord=inf)`) -/
def normInf (a : RVec n) : Rat := a.v.foldl (fun acc x => let y := if x < 0 then -x else x; if acc < y then y else acc) 0

/-- dense matrix: `k` rows of length `n` -/
abbrev Mat (k n : Nat) := Vector (RVec n) k

def matVec {k : Nat} (m : Mat k n) (x : RVec n) : RVec k := ⟨m.map (fun row => dot row x)⟩

def toList (a : RVec n) : List Rat := a.v.toList

def ofList? (n : Nat) (l : List Rat) : Option (RVec n) :=
  if h : l.length = n then some ⟨⟨l.toArray, by simpa using h⟩⟩ else none

def matOfLists? (k n : Nat) (rows : List (List Rat)) : Option (Mat k n) := do
  let rs ← rows.mapM (ofList? n)
  if h : rs.length = k then some ⟨rs.toArray, by simpa using h⟩ else none

end RVec
end NiftyVerif
