/-
  Model/Heap.lean — aliasing and write-protection bookkeeping of nifty.cl Fields (property C07).

  What is modelled (nifty/cl/any_array.py, field.py, sugar.py, operators/diagonal_operator.py, adder.py):
  * NumPy buffers (`bufs`), ndarray objects (`Arr`: a window into a buffer, its own `flags.writeable`
    fixed at view creation, and what `flags.writeable = True` is checked against: `base`),
  * `AnyArray` wrappers (`Wrap`: the wrapped ndarray object and `_writeable`),
  * `Field`s (the wrapper they hold) and operators built from fields (`OpObj`).
  Every Python-level operation is transcribed in `eff` as an *effect record* (what it locks, what it
  writes, what it allocates, what it raises); `apply` executes an effect record in the order
  lock → unlock → write → allocate.  1-D float arrays holding small integers (class E).

  `cfg.lockSetsFlag = true` is the repaired `AnyArray.lock` (`isinstance(self._val, np.ndarray)`);
  `false` is the code as found (`isinstance(self, np.ndarray)`, never true: only `_writeable` is cleared).
  Core imports only.
-/

namespace NiftyVerif.Heap

/-- what NumPy consults when `flags.writeable = True` is requested -/
inductive Base where
  | owner               -- the array owns its data
  | view (o : Nat)      -- `.base` is the (owning) ndarray object `o`
  | hidden              -- `.base` is an object the history has no handle on (the 0-d array behind `broadcast_to`)
  deriving Repr, DecidableEq, Inhabited

structure Arr where
  buf : Nat
  off : Nat
  len : Nat
  writeable : Bool
  base : Base
  exact : Bool := true   -- class tag: the object is an exact `numpy.ndarray` (false: a subclass instance: memmap, matrix, user class)
  deriving Repr, DecidableEq, Inhabited

structure Wrap where
  arr : Nat
  writeable : Bool
  deriving Repr, DecidableEq, Inhabited

inductive OpObj where
  | diag (w : Nat)      -- DiagonalOperator: holds `field.val` (the wrapper)
  | adder (f : Nat)     -- Adder: holds the field
  deriving Repr, DecidableEq, Inhabited

structure State where
  bufs : List (List Int) := []
  arrs : List Arr := []
  wraps : List Wrap := []
  fields : List Nat := []       -- the wrapper each Field holds
  ops : List OpObj := []
  deriving Repr, Inhabited

inductive Err where
  | valueError | typeError | indexError | badHandle
  deriving Repr, DecidableEq, Inhabited

inductive Ref where
  | none | arr (i : Nat) | wrap (i : Nat) | field (i : Nat) | op (i : Nat)
  deriving Repr, DecidableEq, Inhabited

structure Cfg where
  lockSetsFlag : Bool      -- `AnyArray.lock` protects the wrapped ndarray (repaired `isinstance(self._val, np.ndarray)`)
  fullBaseRO : Bool        -- `AnyArray.full` makes the 0-d array behind the broadcast read-only (it stays reachable as `.base`)
  deriving Repr, DecidableEq

def fixed : Cfg := ⟨true, true⟩
def asFound : Cfg := ⟨false, false⟩

/-- the history alphabet; handles are the ids of the objects (every object ever returned can be held) -/
inductive Op where
  | newArr (vals : List Int)                 -- a = np.array(vals)
  | sliceArr (a lo hi : Nat)                 -- b = a[lo:hi]   (also a.view(), a.reshape(..), a.T : lo=0, hi=len)
  | writeArr (a i : Nat) (v : Int)           -- a[i] = v
  | setFlag (a : Nat) (b : Bool)             -- a.flags.writeable = b
  | wrap (a : Nat)                           -- AnyArray(a)
  | wrapLock (w : Nat)                       -- w.lock()
  | wrapVal (w : Nat)                        -- w.val
  | wrapAsnumpy (w : Nat)                    -- w.asnumpy()
  | wrapGetitem (w lo hi : Nat)              -- w[lo:hi]  (also w.view(), w.reshape(..), w.T)
  | wrapSame (w : Nat)                       -- w.real / w.conj() / w.conjugate() on a real array: new wrapper, same ndarray
  | wrapSetitem (w i : Nat) (v : Int)        -- w[i] = v
  | wrapIadd (w w2 : Nat)                    -- w += w2
  | ufuncOut (wx wy wout : Nat)              -- np.add(wx, wy, out=wout)
  | wrapCopy (w : Nat)                       -- w.copy()
  | fieldFromArr (a n : Nat)                 -- Field(dom_n, a) / Field.from_raw(dom_n, a) / makeField(dom_n, a)
  | fieldFromWrap (w n : Nat)                -- Field(dom_n, w)
  | fieldFull (n : Nat) (v : Int)            -- Field.full / sugar.full / from_raw(dom, scalar) / makeField(dom, scalar)
  | fieldCast (f : Nat)                      -- f.cast_domain(dom')
  | fieldVal (f : Nat)                       -- f.val
  | fieldRaw (f : Nat)                       -- f.raw
  | fieldAsnumpy (f : Nat)                   -- f.asnumpy()
  | fieldValRw (f : Nat)                     -- f.val_rw()
  | fieldAsnumpyRw (f : Nat)                 -- f.asnumpy_rw()
  | fieldAdd (f g : Nat)                     -- f + g
  | fieldScale (f : Nat) (c : Int)           -- c * f
  | mkDiag (f : Nat)                         -- makeOp(f)
  | mkAdder (f : Nat)                        -- Adder(f)
  | applyOp (o x : Nat)                      -- op(x)
  | arrBase (a : Nat)                        -- a.base   (None for an array that owns its data)
  | newSub (vals : List Int)                 -- a = an owning instance of an ndarray subclass (np.memmap, user subclass)
  | asArray (a : Nat)                        -- np.asarray(a): `a` itself iff it is an exact ndarray, else a new base-class view of it
  deriving Repr, DecidableEq, Inhabited

/-- effect record of one Python-level operation -/
structure Eff where
  lockArr : Option Nat := none                 -- `flags.writeable = False` on this ndarray object
  unlockArr : Option Nat := none               -- `flags.writeable = True`
  lockWrap : Option Nat := none                -- `_writeable = False`
  write : Option (Nat × List Int) := none      -- new content of the window of this ndarray object
  newBuf : Option (List Int) := none
  newArr0 : Option Arr := none                 -- an additional ndarray object allocated before `newArr` (the base of a broadcast)
  newArr : Option Arr := none
  newWrap : Option Wrap := none
  newField : Option Nat := none
  newOp : Option OpObj := none
  raised : Option Err := none
  ret : Ref := Ref.none
  deriving Repr, Inhabited

def setArrFlag (arrs : List Arr) (i : Nat) (b : Bool) : List Arr :=
  arrs.modify i (fun a => { a with writeable := b })

def setWrapFlag (wraps : List Wrap) (i : Nat) (b : Bool) : List Wrap :=
  wraps.modify i (fun w => { w with writeable := b })

/-- replace the window `[off, off+len)` of buffer `a.buf` -/
def writeWin (bufs : List (List Int)) (a : Arr) (vals : List Int) : List (List Int) :=
  bufs.modify a.buf (fun c => c.take a.off ++ vals ++ c.drop (a.off + a.len))

def arrsAfterFlags (s : State) (e : Eff) : List Arr :=
  let a1 := match e.lockArr with | some i => setArrFlag s.arrs i false | none => s.arrs
  match e.unlockArr with | some i => setArrFlag a1 i true | none => a1

def bufsAfterWrite (s : State) (e : Eff) : List (List Int) :=
  match e.write with
  | some (a, vals) => match s.arrs[a]? with
    | some ao => writeWin s.bufs ao vals
    | none => s.bufs
  | none => s.bufs

/-- execute an effect record: lock, unlock, write, then allocate -/
def apply (s : State) (e : Eff) : State :=
  { bufs := bufsAfterWrite s e ++ e.newBuf.toList
    arrs := arrsAfterFlags s e ++ e.newArr0.toList ++ e.newArr.toList
    wraps := (match e.lockWrap with | some i => setWrapFlag s.wraps i false | none => s.wraps) ++ e.newWrap.toList
    fields := s.fields ++ e.newField.toList
    ops := s.ops ++ e.newOp.toList }

/-- the values an ndarray object shows -/
def window (s : State) (a : Arr) : List Int :=
  (((s.bufs[a.buf]?).getD []).drop a.off).take a.len

def raise (e : Err) : Eff := { raised := some e }

def bad : Eff := raise Err.badHandle

/-- NumPy basic slice `a[lo:hi]` of ndarray object number `i`.  `.base` chains are collapsed to the owner only within one class
    (`collapse`: the base of `a` has the class of `a`); otherwise `.base` is `a` itself. -/
def sliceOf (i : Nat) (a : Arr) (lo hi : Nat) (collapse : Bool := true) : Arr :=
  let lo' := min lo a.len
  let hi' := max lo' (min hi a.len)
  { buf := a.buf, off := a.off + lo', len := hi' - lo', writeable := a.writeable,
    base := match a.base with | Base.owner => Base.view i | b => if collapse then b else Base.view i,
    exact := a.exact }     -- a slice has the class of its source

/-- the base object of `a` (if it is a visible array) has the same class as `a` -/
def sameClass (arrs : List Arr) (a : Arr) : Bool :=
  match a.base with
  | Base.view o => match arrs[o]? with
    | some oo => oo.exact == a.exact
    | none => true
  | _ => true

/-- NumPy broadcasting of two 1-D lengths -/
def bcastLen (l1 l2 : Nat) : Option Nat :=
  if l1 = l2 then some l1 else if l1 = 1 then some l2 else if l2 = 1 then some l1 else none

def bcastTo (v : List Int) (n : Nat) : List Int :=
  if v.length = n then v else List.replicate n (v.headD 0)

def addVals (x y : List Int) : List Int := List.zipWith (· + ·) x y
def mulVals (x y : List Int) : List Int := List.zipWith (· * ·) x y

/-- `AnyArray.lock()` on wrapper `w`: `_writeable = False`, and — repaired code only — the ndarray flag -/
def lockEff (cfg : Cfg) (w : Nat) (wo : Wrap) : Eff :=
  { lockWrap := some w, lockArr := if cfg.lockSetsFlag then some wo.arr else none }

/-- `AnyArray.asnumpy()`: returns the wrapped ndarray; a read-only wrapper sets the ndarray flag as a side effect -/
def asnumpyEff (wo : Wrap) : Eff :=
  { lockArr := if wo.writeable then none else some wo.arr, ret := Ref.arr wo.arr }

/-- a freshly computed result wrapped into a new Field: `Field(dom, AnyArray(result))` -/
def freshField (cfg : Cfg) (s : State) (vals : List Int) : Eff :=
  { newBuf := some vals
    newArr := some { buf := s.bufs.length, off := 0, len := vals.length,
                     writeable := !cfg.lockSetsFlag, base := Base.owner }
    newWrap := some { arr := s.arrs.length, writeable := false }
    newField := some s.wraps.length
    ret := Ref.field s.fields.length }

/-- `a[i] = v` through ndarray object `a` (NumPy checks the flag first, then the index) -/
def writeEff (s : State) (a : Nat) (ao : Arr) (i : Nat) (v : Int) : Eff :=
  if !ao.writeable then raise Err.valueError
  else if i ≥ ao.len then raise Err.indexError
  else { write := some (a, (window s ao).set i v) }

/-- `Field.__init__(dom_n, w)`: `val.lock()` happens BEFORE the shape check -/
def fieldInit (cfg : Cfg) (s : State) (w : Nat) (wo : Wrap) (ao : Arr) (n : Nat) (fresh : Bool) : Eff :=
  let l := lockEff cfg w wo
  if ao.len ≠ n then
    -- the lock persists; a wrapper created only for this call is garbage
    { lockArr := l.lockArr, lockWrap := if fresh then none else l.lockWrap, raised := some Err.valueError }
  else if fresh then
    { lockArr := l.lockArr, newWrap := some { arr := wo.arr, writeable := false },
      newField := some s.wraps.length, ret := Ref.field s.fields.length }
  else
    { lockArr := l.lockArr, lockWrap := l.lockWrap, newField := some w, ret := Ref.field s.fields.length }

def getWrapArr (s : State) (w : Nat) : Option (Wrap × Arr) :=
  match s.wraps[w]? with
  | some wo => match s.arrs[wo.arr]? with
    | some ao => some (wo, ao)
    | none => none
  | none => none

def getField (s : State) (f : Nat) : Option (Nat × Wrap × Arr) :=
  match s.fields[f]? with
  | some w => match getWrapArr s w with
    | some (wo, ao) => some (w, wo, ao)
    | none => none
  | none => none

/-- the value of field `f` -/
def fieldVals (s : State) (f : Nat) : List Int :=
  match getField s f with
  | some (_, _, ao) => window s ao
  | none => []

/-- transcription of the Python-level operations -/
def eff (cfg : Cfg) (s : State) : Op → Eff
  | .newArr vals =>
      { newBuf := some vals,
        newArr := some { buf := s.bufs.length, off := 0, len := vals.length, writeable := true, base := Base.owner },
        ret := Ref.arr s.arrs.length }
  | .sliceArr a lo hi =>
      match s.arrs[a]? with
      | some ao => { newArr := some (sliceOf a ao lo hi (sameClass s.arrs ao)), ret := Ref.arr s.arrs.length }
      | none => bad
  | .writeArr a i v =>
      match s.arrs[a]? with
      | some ao => writeEff s a ao i v
      | none => bad
  | .setFlag a b =>
      match s.arrs[a]? with
      | some ao =>
        if !b then { lockArr := some a }
        else match ao.base with
          | Base.view o => match s.arrs[o]? with
            | some oo => if oo.writeable then { unlockArr := some a } else raise Err.valueError
            | none => bad
          | _ => { unlockArr := some a }
      | none => bad
  | .wrap a =>
      match s.arrs[a]? with
      | some _ => { newWrap := some { arr := a, writeable := true }, ret := Ref.wrap s.wraps.length }
      | none => bad
  | .wrapLock w =>
      match s.wraps[w]? with
      | some wo => lockEff cfg w wo
      | none => bad
  | .wrapVal w =>
      match s.wraps[w]? with
      | some wo => { ret := Ref.arr wo.arr }
      | none => bad
  | .wrapAsnumpy w =>
      match s.wraps[w]? with
      | some wo => asnumpyEff wo
      | none => bad
  | .wrapGetitem w lo hi =>
      match getWrapArr s w with
      | some (wo, ao) =>
        { newArr := some (sliceOf wo.arr ao lo hi (sameClass s.arrs ao)), newWrap := some { arr := s.arrs.length, writeable := true },
          ret := Ref.wrap s.wraps.length }
      | none => bad
  | .wrapSame w =>
      match s.wraps[w]? with
      | some wo => { newWrap := some { arr := wo.arr, writeable := true }, ret := Ref.wrap s.wraps.length }
      | none => bad
  | .wrapSetitem w i v =>
      match getWrapArr s w with
      | some (wo, ao) =>
        if !wo.writeable then raise Err.valueError     -- AnyArray.__setitem__: `if self.readonly: raise ValueError`
        else writeEff s wo.arr ao i v
      | none => bad
  | .wrapIadd w w2 =>
      match getWrapArr s w, getWrapArr s w2 with
      | some (wo, ao), some (_, ao2) =>
        if wo.writeable then
          if !ao.writeable then raise Err.valueError
          else if ao2.len = ao.len ∨ ao2.len = 1 then
            { write := some (wo.arr, addVals (window s ao) (bcastTo (window s ao2) ao.len)),
              newWrap := some { arr := wo.arr, writeable := true }, ret := Ref.wrap s.wraps.length }
          else raise Err.valueError
        else raise Err.typeError                       -- 'AnyArray is readonly'
      | _, _ => bad
  | .ufuncOut wx wy wout =>
      match getWrapArr s wx, getWrapArr s wy, getWrapArr s wout with
      | some (_, ax), some (_, ay), some (wo, ao) =>
        -- `_writeable` of `out` is never consulted: only the ndarray flag protects
        match bcastLen ax.len ay.len with
        | some l =>
          if l ≠ ao.len then raise Err.valueError
          else if !ao.writeable then raise Err.valueError
          else { write := some (wo.arr, addVals (bcastTo (window s ax) l) (bcastTo (window s ay) l)) }
        | none => raise Err.valueError
      | _, _, _ => bad
  | .wrapCopy w =>
      match getWrapArr s w with
      | some (_, ao) =>
        { newBuf := some (window s ao),
          newArr := some { buf := s.bufs.length, off := 0, len := ao.len, writeable := true, base := Base.owner },
          newWrap := some { arr := s.arrs.length, writeable := true }, ret := Ref.wrap s.wraps.length }
      | none => bad
  | .fieldFromArr a n =>
      match s.arrs[a]? with
      | some ao => fieldInit cfg s s.wraps.length { arr := a, writeable := true } ao n true
      | none => bad
  | .fieldFromWrap w n =>
      match getWrapArr s w with
      | some (wo, ao) => fieldInit cfg s w wo ao n false
      | none => bad
  | .fieldFull n v =>
      -- np.broadcast_to(np.array(val), shape): a read-only view of a 0-d array which stays reachable as `.base`
      -- (one memory cell; the model keeps `n` copies and never writes through the 0-d object unless it is writable)
      { newBuf := some (List.replicate n v),
        newArr0 := some { buf := s.bufs.length, off := 0, len := 1, writeable := !cfg.fullBaseRO, base := Base.owner },
        newArr := some { buf := s.bufs.length, off := 0, len := n, writeable := false, base := Base.view s.arrs.length },
        newWrap := some { arr := s.arrs.length + 1, writeable := false },
        newField := some s.wraps.length, ret := Ref.field s.fields.length }
  | .fieldCast f =>
      match getField s f with
      | some (w, wo, ao) => fieldInit cfg s w wo ao ao.len false
      | none => bad
  | .fieldVal f =>
      match s.fields[f]? with
      | some w => { ret := Ref.wrap w }
      | none => bad
  | .fieldRaw f =>
      match getField s f with
      | some (_, wo, _) => { ret := Ref.arr wo.arr }
      | none => bad
  | .fieldAsnumpy f =>
      match getField s f with
      | some (_, wo, _) => asnumpyEff wo
      | none => bad
  | .fieldValRw f =>
      match getField s f with
      | some (_, _, ao) =>
        { newBuf := some (window s ao),
          newArr := some { buf := s.bufs.length, off := 0, len := ao.len, writeable := true, base := Base.owner },
          newWrap := some { arr := s.arrs.length, writeable := true }, ret := Ref.wrap s.wraps.length }
      | none => bad
  | .fieldAsnumpyRw f =>
      match getField s f with
      | some (_, wo, ao) =>
        { lockArr := (asnumpyEff wo).lockArr,
          newBuf := some (window s ao),
          newArr := some { buf := s.bufs.length, off := 0, len := ao.len, writeable := true, base := Base.owner },
          ret := Ref.arr s.arrs.length }
      | none => bad
  | .fieldAdd f g =>
      match getField s f, getField s g with
      | some (_, _, af), some (_, _, ag) =>
        if af.len ≠ ag.len then raise Err.valueError     -- check_object_identity of the domains
        else freshField cfg s (addVals (window s af) (window s ag))
      | _, _ => bad
  | .fieldScale f c =>
      match getField s f with
      | some (_, _, af) => freshField cfg s ((window s af).map (c * ·))
      | none => bad
  | .mkDiag f =>
      match getField s f with
      | some (w, wo, _) =>
        let l := lockEff cfg w wo                        -- DiagonalOperator._fill_rest: self._ldiag.lock()
        { lockArr := l.lockArr, lockWrap := l.lockWrap, newOp := some (OpObj.diag w), ret := Ref.op s.ops.length }
      | none => bad
  | .mkAdder f =>
      match getField s f with
      | some _ => { newOp := some (OpObj.adder f), ret := Ref.op s.ops.length }
      | none => bad
  | .applyOp o x =>
      match s.ops[o]?, getField s x with
      | some (OpObj.diag w), some (_, _, ax) =>
        match getWrapArr s w with
        | some (_, ad) =>
          if ad.len ≠ ax.len then raise Err.valueError
          else freshField cfg s (mulVals (window s ax) (window s ad))
        | none => bad
      | some (OpObj.adder f), some (_, _, ax) =>
        match getField s f with
        | some (_, _, af) =>
          if af.len ≠ ax.len then raise Err.valueError
          else freshField cfg s (addVals (window s ax) (window s af))
        | none => bad
      | _, _ => bad
  | .arrBase a =>
      match s.arrs[a]? with
      | some ao => match ao.base with
        | Base.view o => { ret := Ref.arr o }
        | _ => {}                                        -- owns its data: `.base is None`
      | none => bad

  | .newSub vals =>
      { newBuf := some vals,
        newArr := some { buf := s.bufs.length, off := 0, len := vals.length, writeable := true, base := Base.owner,
                         exact := false },
        ret := Ref.arr s.arrs.length }
  | .asArray a =>
      match s.arrs[a]? with
      | some ao =>
        if ao.exact then { ret := Ref.arr a }
        else { newArr := some { buf := ao.buf, off := ao.off, len := ao.len, writeable := ao.writeable,
                                base := Base.view a },   -- no collapse across classes: `.base` is the source itself
               ret := Ref.arr s.arrs.length }
      | none => bad

def step (cfg : Cfg) (s : State) (op : Op) : State := apply s (eff cfg s op)

def run (cfg : Cfg) (s : State) : List Op → State
  | [] => s
  | op :: rest => run cfg (step cfg s op) rest

/-- what an operator built from a field denotes: the vector it multiplies / adds -/
def opVals (s : State) (o : Nat) : List Int :=
  match s.ops[o]? with
  | some (OpObj.diag w) => match getWrapArr s w with
    | some (_, ao) => window s ao
    | none => []
  | some (OpObj.adder f) => fieldVals s f
  | none => []

/-! ### decidable guards on a history (what the property cannot ask the code to guarantee) -/

/-- every ndarray object on buffer `b`, except object `a`, is read-only -/
def noOtherWritableAlias (s : State) (a : Nat) (b : Nat) : Bool :=
  (List.range s.arrs.length).all fun i =>
    match s.arrs[i]? with
    | some o => i == a || o.buf != b || !o.writeable
    | none => true

/-- buffer `b` backs some field -/
def isFieldBuf (s : State) (b : Nat) : Bool :=
  (List.range s.fields.length).any fun f =>
    match getField s f with
    | some (_, _, ao) => ao.buf == b
    | none => false

/-- guard of one step: (1) a field is not built on an ndarray that has another *writable* alias created
    before the construction; (2) nobody re-enables `flags.writeable` on an alias of a field's buffer -/
def guard (s : State) : Op → Bool
  | .fieldFromArr a _ => match s.arrs[a]? with
    | some ao => noOtherWritableAlias s a ao.buf
    | none => true
  | .fieldFromWrap w _ => match getWrapArr s w with
    | some (wo, ao) => noOtherWritableAlias s wo.arr ao.buf
    | none => true
  | .setFlag a true => match s.arrs[a]? with
    | some ao => !isFieldBuf s ao.buf
    | none => true
  | _ => true

def guards (cfg : Cfg) (s : State) : List Op → Bool
  | [] => true
  | op :: rest => guard s op && guards cfg (step cfg s op) rest

end NiftyVerif.Heap
