/-
  C24 — persistence protocol of the JAX VI driver `nifty/re/optimize_kl.py: optimize_kl(..., odir=, resume=)`.
  Transcribed statement by statement from the body of `optimize_kl` (file operations and the resume logic);
  one `OptimizeVI.update` is an abstract function `step` of the pair (samples, state).   Core imports only.

      last_fn = odir/last.pkl ; sanity_fn = odir/minisanity.txt
      if resume and os.path.isfile(last_fn): samples, st = pickle.load(open(last_fn,"rb"))      -- `load`
      (else: the caller's position, st = init_state(key,…), nit = 0)
      makedirs(odir, exist_ok=True)
      if not resume: open(sanity_fn,"w").close()
      for i in range(st.nit, n_total_iterations):
          samples, st = update(samples, st)                                                      -- `step`
          open(sanity_fn,"a").write("\n"+msg)
          <save (samples, st) to last_fn>                                                        -- `savePkl`
          callback(samples, st)

  Two save protocols:  `inplace` — the code as found:  open(last_fn,"wb"); pickle.dump; close
                       `atomic`  — the repaired code (fixes/C24_atomic_last_pkl.diff):
                                   open(last_fn+".tmp","wb"); pickle.dump; close; os.replace(tmp, last_fn)
-/
import NiftyVerif.Model.CrashFS
namespace NiftyVerif.CrashRe
open NiftyVerif.CrashFS

inductive Path where
  | odir | sanity | last | tmp
  deriving DecidableEq, Repr

def Path.name : Path → String
  | .odir => "." | .sanity => "minisanity.txt" | .last => "last.pkl" | .tmp => "last.pkl.tmp"

inductive Proto where
  | inplace | atomic
  deriving DecidableEq, Repr

inductive Err where
  | unpickle        -- pickle.load raised (EOFError / UnpicklingError): the run cannot be resumed
  deriving DecidableEq, Repr

/-- what the driver is parametrised by; `S` = (samples, state) -/
structure Sys (S : Type) where
  step : S → S                -- OptimizeVI.update
  nit : S → Nat               -- state.nit
  enc : S → Bytes             -- pickle.dumps((samples, state._replace(config={})))
  dec : Bytes → Option S      -- pickle.load (+ config restored from init_state); none = it raises
  msg : S → Bytes             -- "\n" + status message

/-- `k` applications of `f` -/
def iter {S : Type} (f : S → S) : Nat → S → S
  | 0, s => s
  | k + 1, s => iter f k (f s)

def savePkl (proto : Proto) (c : Bytes) : List (Op Path) :=
  match proto with
  | .inplace => writeFile .last c
  | .atomic => writeFile .tmp c ++ [Op.replace .tmp .last]

/-- file operations of one pass through the loop body, `s'` being the result of `update` -/
def iterOps {S : Type} (sys : Sys S) (proto : Proto) (s' : S) : List (Op Path) :=
  appendFile .sanity (sys.msg s') ++ savePkl proto (sys.enc s')

/-- `for i in range(st.nit, n)`: `fuel = n - st.nit` passes; returns the operations and the final (samples, state) -/
def loop {S : Type} (sys : Sys S) (proto : Proto) : Nat → S → List (Op Path) × S
  | 0, s => ([], s)
  | fuel + 1, s =>
      let s' := sys.step s
      let r := loop sys proto fuel s'
      (iterOps sys proto s' ++ r.1, r.2)

/-- the resume branch: which (samples, state) the loop starts from -/
def load {S : Type} (sys : Sys S) (resume : Bool) (s0 : S) (fs : FS Path) : Except Err S :=
  if resume then
    match fs .last with
    | none => .ok s0                          -- not os.path.isfile(last_fn)
    | some b =>
        match sys.dec b with
        | some s => .ok s
        | none => .error .unpickle
  else .ok s0

/-- operations before the loop -/
def preOps (resume : Bool) : List (Op Path) :=
  Op.mkdir .odir :: (if resume then [] else [Op.openW .sanity, Op.close .sanity])

/-- one whole call `optimize_kl(lh, pos, key=…, n_total_iterations=n, odir=…, resume=…)` started on file system `fs`:
    the sequence of file operations it performs if it is not killed, and the (samples, state) it returns -/
def run {S : Type} (sys : Sys S) (proto : Proto) (resume : Bool) (s0 : S) (n : Nat) (fs : FS Path) :
    Except Err (List (Op Path) × S) :=
  match load sys resume s0 fs with
  | .error e => .error e
  | .ok s =>
      let r := loop sys proto (n - sys.nit s) s
      .ok (preOps resume ++ r.1, r.2)

/-! concrete instance used by the line-protocol driver and by the `decide`d witnesses:
    (samples, state) = the iteration counter; the pickle of state `i` is `[i, i, i, 255]` (a prefix-free code);
    the status message of state `i` is `[i, 10]`. -/
def natSys : Sys Nat where
  step := Nat.succ
  nit := id
  enc := fun i => [i, i, i, 255]
  dec := fun b => match b with
    | [a, b, c, 255] => if a = b ∧ b = c then some a else none
    | _ => none
  msg := fun i => [i, 10]

end NiftyVerif.CrashRe
