/-
  C28 — executable model of the normalisation of the correlated-field models.

  Transcribes the arithmetic of
    nifty/cl/library/correlated_fields.py: `_Normalization.apply` (spec / Σ_{k≠0} mult_k spec_k, then sqrt),
      `_Amplitude` (`vol0 + totvol·fluctuations·normalised`), `CorrelatedFieldMaker.total_fluctuation / slice_fluctuation /
      average_fluctuation`, `_AmplitudeMatern.fluctuation_amplitude` (`op.power(2).integrate().sqrt()`),
    nifty/re/correlated_field.py: `NonParametricAmplitude.__call__` / `MaternAmplitude.__call__` (kinds "amplitude" and "power",
      `renormalize_amplitude`), `get_normalized_amplitudes`, `finalize` (harmonic_dvol = 1 / total_volume),
  in terms of SQUARED amplitudes (so that no square root is needed and the driver is exact over `Rat`).
  Lists are indexed by power-spectrum bin; index 0 is the zero mode.  Core imports only.
-/
namespace NiftyVerif.CorrField

variable {K : Type} [Add K] [Mul K] [Sub K] [Div K] [Zero K] [One K]

/-- `Σ_k w_k · a_k` -/
def wsum (w a : List K) : K := (List.zipWith (· * ·) w a).sum

/-- squared normalised amplitudes of the non-zero modes, kind "power" (classic `_Normalization`, JAX kind "power"):
    `amp_k² = flu²·V²·spec_k / Σ_j mult_j spec_j`  (all lists without the zero mode) -/
def normPower (V flu : K) (mult spec : List K) : List K :=
  spec.map fun s => flu * flu * (V * V) * s / wsum mult spec

/-- kind "amplitude" (JAX only): `amp_k² = flu²·V²·spec_k² / Σ_j mult_j spec_j²` -/
def normAmplitude (V flu : K) (mult spec : List K) : List K :=
  normPower V flu mult (spec.map fun s => s * s)

/-- expected spatial variance about the spatial mean of a one-space field `s = (1/V)·H(amp ∘ ξ)`:
    `(1/V²) Σ_{k≠0} mult_k amp_k²` (Hartley columns: norm² = N, zero sum off the zero mode — Props/C28) -/
def spatialVar (V : K) (mult amp2 : List K) : K := wsum mult amp2 / (V * V)

/-- `q = Π_i (1 + f_i²/azm²)`-style products: `sel i` chooses the factor `f_i²/azm²` (true) or `1 + f_i²/azm²` (false) -/
def prodSel (azm2 : K) (f2 : List K) (sel : Nat → Bool) : K :=
  ((List.range f2.length).zip f2 |>.map fun p => if sel p.1 then p.2 / azm2 else 1 + p.2 / azm2).foldl (· * ·) 1

/-- `total_fluctuation²`: `azm²·(Π_i (1 + f_i²/azm²) − 1)`; for a single space the code returns `f_0` itself -/
def total2 (azm2 : K) (f2 : List K) : K :=
  match f2 with
  | [f] => f
  | _ => azm2 * (prodSel azm2 f2 (fun _ => false) - 1)

/-- `slice_fluctuation(j)²`: `azm²·(f_j²/azm²)·Π_{i≠j}(1 + f_i²/azm²)` -/
def slice2 [DecidableEq Nat] (azm2 : K) (f2 : List K) (j : Nat) : K :=
  match f2 with
  | [f] => f
  | _ => azm2 * prodSel azm2 f2 (fun i => i == j)

/-- `average_fluctuation(j)² = f_j²` -/
def average2 (f2 : List K) (j : Nat) : K := f2.getD j 0

/-- classic Matern: `fluctuation_amplitude² = Σ_k dvol_k·op_k²` over ALL bins of the power space including the zero mode
    (`op.power(2).integrate()`), as coded -/
def maternReported2 (dvol op2 : List K) : K := wsum dvol op2

end NiftyVerif.CorrField
