/-
  Model/Grid.lean — multi-resolution grid index maps of nifty/re/multi_grid/grid.py and grid_impl.py (C31).

  Per-axis integer arithmetic lifted to index vectors (`List Nat`), so one definition covers
  `GridAtLevel` (regular), `OpenGridAtLevel` (padded), `HEALPixGridAtLevel` (1 axis, splits 4, nest) and
  `MGridAtLevel` (concatenation of axes); `FlatGridAtLevel` wraps a whole grid by `serial` (row-major) or
  `nest` (level-interleaved) ravel/unravel.  Coordinates and volumes are exact rationals (polymorphic `K`).
  Core imports only.
-/

namespace NiftyVerif.Grid

/-! ### one axis -/

/-- `GridAtLevel._parse_index` on one axis of length `n`:
    `select(|i| < n, i, sign(i)*(n-1)) % n` (Python `%`: result in `[0,n)` for `n > 0`) -/
def parseIndex (n : Nat) (i : Int) : Nat :=
  let j : Int := if i.natAbs < n then i else Int.sign i * ((n : Int) - 1)
  (j % (n : Int)).toNat

/-- `GridAtLevel.children`, one axis: `index * f + c`, `c < f` -/
def child (s i c : Nat) : Nat := i * s + c

/-- `GridAtLevel.parent`, one axis: `index // parent_splits` -/
def parent (s j : Nat) : Nat := j / s

/-- `np.clip(x, lo, hi) = min(max(x, lo), hi)` -/
def clip (x lo hi : Int) : Int := min (max x lo) hi

/-- `OpenGridAtLevel.children`, one axis: `index.clip(lo, hi-1) - lo` fed to the regular formula,
    `lo = padding`, `hi = shape - padding` -/
def openBase (n pad i : Nat) : Nat :=
  (clip (i : Int) (pad : Int) ((n : Int) - (pad : Int) - 1) - (pad : Int)).toNat

def openChild (n pad s i c : Nat) : Nat := child s (openBase n pad i) c

/-- `OpenGridAtLevel.parent`, one axis: `index // parent_splits + parent_padding` -/
def openParent (s ppad j : Nat) : Nat := j / s + ppad

/-- `OpenGridAtLevel._is_index_refined`, one axis -/
def isRefined (n pad i : Nat) : Bool := decide (pad ≤ i) && decide (i + pad < n)

/-- `GridAtLevel.neighborhood`, one axis: `(index + c - window//2) % shape`, `c < window`
    (`OpenGridAtLevel.neighborhood` clips the result of this to `[0, shape-1]`, which is the identity) -/
def neighbor (n w i c : Nat) : Nat := (((i : Int) + (c : Int) - ((w / 2 : Nat) : Int)) % (n : Int)).toNat

def openNeighbor (n w i c : Nat) : Nat :=
  (clip ((neighbor n w i c : Nat) : Int) 0 ((n : Int) - 1)).toNat

/-! ### shapes and shifts along the levels -/

/-- `Grid.at(level).shape` on one axis: `shape0 * prod(splits[:level])` -/
def regShape (n0 : Nat) (splits : List Nat) : Nat := n0 * splits.prod

/-- `OpenGrid.at`: `for si, pd in zip(splits[:level], padding[:level]): shp = si*(shp - 2*pd); shifts = si*(shifts + pd)` -/
def openShapeShift : Nat → Nat → List (Nat × Nat) → Nat × Nat
  | n, sh, [] => (n, sh)
  | n, sh, (s, pd) :: rest => openShapeShift (s * (n - 2 * pd)) (s * (sh + pd)) rest

/-! ### index vectors -/

/-- all index vectors below `shape`, row-major (`np.mgrid[...]` flattened, last axis fastest) -/
def mgrid : List Nat → List (List Nat)
  | [] => [[]]
  | n :: rest => (List.range n).flatMap fun i => (mgrid rest).map (i :: ·)

/-- cartesian product of per-axis candidate lists, row-major -/
def cart : List (List Nat) → List (List Nat)
  | [] => [[]]
  | cs :: rest => cs.flatMap fun c => (cart rest).map (c :: ·)

/-- one axis of a grid at one level, as `atLevel` receives it -/
structure Axis where
  n : Nat          -- shape
  s : Nat          -- splits (to the next level); meaningless when the level has no children
  ps : Nat         -- parent_splits
  pad : Nat        -- padding (0 on regular / HEALPix axes)
  ppad : Nat       -- parent_padding
  sh : Nat         -- shifts (0 on regular axes)
  deriving Repr, DecidableEq, Inhabited

/-- `children(index)`: all children of an index vector, in `mgrid(splits)` order -/
def children (ax : List Axis) (idx : List Nat) : List (List Nat) :=
  cart (List.zipWith (fun a i => (List.range a.s).map fun c => openChild a.n a.pad a.s i c) ax idx)

/-- `parent(index)` -/
def parentVec (ax : List Axis) (idx : List Nat) : List Nat :=
  List.zipWith (fun a j => openParent a.ps a.ppad j) ax idx

/-- `refined_indices()` : `mgrid[pad : shape - pad]`, row-major -/
def refinedIndices (ax : List Axis) : List (List Nat) :=
  cart (ax.map fun a => (List.range (a.n - 2 * a.pad)).map (· + a.pad))

def isRefinedVec (ax : List Axis) (idx : List Nat) : Bool :=
  (List.zipWith (fun a i => isRefined a.n a.pad i) ax idx).all id

/-- `neighborhood(index, window_size)` -/
def neighborhood (ax : List Axis) (win : List Nat) (idx : List Nat) : List (List Nat) :=
  cart (List.zipWith (fun (aw : Axis × Nat) i => (List.range aw.2).map fun c => openNeighbor aw.1.n aw.2 i c)
    (List.zip ax win) idx)

/-! ### coordinates and volumes (exact) -/

section coords
variable {K : Type} [Add K] [Sub K] [Mul K] [Div K] [NatCast K] [OfNat K 1] [OfNat K 2]

/-- `OpenGridAtLevel.index2coord`, one axis: `(index + shifts + 0.5) / (shape + 2*shifts)` -/
def index2coord (n sh : Nat) (i : K) : K :=
  (i + (sh : K) + (1 : K) / (2 : K)) / ((n : K) + (2 : K) * (sh : K))

/-- `OpenGridAtLevel.coord2index` before rounding: `coord * (shape + 2*shifts) - shifts - 0.5` -/
def coord2indexRaw (n sh : Nat) (x : K) : K :=
  x * ((n : K) + (2 : K) * (sh : K)) - (sh : K) - (1 : K) / (2 : K)

/-- `index2volume`: `1 / prod(shape + 2*shifts)` -/
def volume (ax : List Axis) : K :=
  (1 : K) / (((ax.map fun a => a.n + 2 * a.sh).prod : Nat) : K)

end coords

/-- `np.rint` (round half to even) on an exact rational -/
def rint (q : Rat) : Int :=
  let f := q.floor
  let r := q - (f : Rat)
  if r < (1 : Rat) / 2 then f
  else if (1 : Rat) / 2 < r then f + 1
  else if f % 2 = 0 then f else f + 1

def coord2index (n sh : Nat) (x : Rat) : Int := rint (coord2indexRaw n sh x)

/-! ### flattened grids -/

/-- `_weights_serial`: `cumprod(append(shape[1:], 1)[::-1])[::-1]` -/
def weightsSerial : List Nat → List Nat
  | [] => []
  | _ :: rest => rest.prod :: weightsSerial rest

/-- `index2flatindex`, serial: `(wgt * index).sum(axis=0)` -/
def ravelSerial (shape idx : List Nat) : Nat :=
  (List.zipWith (· * ·) (weightsSerial shape) idx).sum

/-- `flatindex2index`, serial: `for w in wgt: tmfl = tm // w; tm -= w * tmfl` -/
def unravelGo : List Nat → Nat → List Nat
  | [], _ => []
  | w :: ws, tm => (tm / w) :: unravelGo ws (tm - w * (tm / w))

def unravelSerial (shape : List Nat) (f : Nat) : List Nat := unravelGo (weightsSerial shape) f

/-- pointwise product of a list of vectors (`wgts[n+1:, ax].prod()` for every axis), `ndim` axes -/
def colProd (ndim : Nat) (rows : List (List Nat)) : List Nat :=
  rows.foldl (fun acc r => List.zipWith (· * ·) acc r) (List.replicate ndim 1)

/-- Horner evaluation `j = j * ww[ax] + d[ax]` -/
def horner (radices digits : List Nat) : Nat :=
  (List.zip radices digits).foldl (fun j (rd : Nat × Nat) => j * rd.1 + rd.2) 0

/-- `_weights_nest`: rows `(base_shape,) + bases` where `bases = all_splits[:level]`,
    `base_shape = shape // prod(bases)` -/
def weightsNest (shape : List Nat) (bases : List (List Nat)) : List (List Nat) :=
  List.zipWith (· / ·) shape (colProd shape.length bases) :: bases

/-- `index2flatindex`, nest: for every row `n`: `j = horner(ww, (index[ax] // prod(wgts[n+1:, ax])) % ww[ax])`,
    `fid = fid * prod(ww) + j` -/
def ravelNestGo (ndim : Nat) (idx : List Nat) : List (List Nat) → Nat → Nat
  | [], fid => fid
  | ww :: below, fid =>
    let stride := colProd ndim below
    let digits := List.zipWith (fun (is : Nat × Nat) w => (is.1 / is.2) % w) (List.zip idx stride) ww
    ravelNestGo ndim idx below (fid * ww.prod + horner ww digits)

def ravelNest (shape : List Nat) (bases : List (List Nat)) (idx : List Nat) : Nat :=
  ravelNestGo shape.length idx (weightsNest shape bases) 0

/-- digits of `j` w.r.t. radices `ww`, last axis fastest: `for ax reversed: d[ax] = j % ww[ax]; j //= ww[ax]` -/
def unhorner (radices : List Nat) (j : Nat) : List Nat :=
  (radices.foldr (fun r (acc : List Nat × Nat) => ((acc.2 % r) :: acc.1, acc.2 / r)) ([], j)).1

/-- `flatindex2index`, nest: rows from the last to the first: `j = fid % prod(ww); index[ax] += prod(wgts[n+1:,ax]) * (j-digit)`;
    `fid //= prod(ww)`.  `below` = rows already processed (deeper levels). -/
def unravelNestGo (ndim : Nat) : List (List Nat) → List (List Nat) → Nat → List Nat → List Nat
  | [], _, _, acc => acc
  | ww :: above, below, fid, acc =>
    let fct := ww.prod
    let ds := unhorner ww (fid % fct)
    let stride := colProd ndim below
    let acc' := List.zipWith (· + ·) acc (List.zipWith (· * ·) stride ds)
    unravelNestGo ndim above (ww :: below) (fid / fct) acc'

def unravelNest (shape : List Nat) (bases : List (List Nat)) (f : Nat) : List Nat :=
  unravelNestGo shape.length (weightsNest shape bases).reverse [] f (List.replicate shape.length 0)

inductive FlatOrd where | serial | nest
  deriving Repr, DecidableEq, Inhabited

/-- `FlatGridAtLevel.index2flatindex(index, levelshift)` for the level with shape `shape`, whose coarser levels have
    splits `bases` -/
def ravel (o : FlatOrd) (shape : List Nat) (bases : List (List Nat)) (idx : List Nat) : Nat :=
  match o with
  | .serial => ravelSerial shape idx
  | .nest => ravelNest shape bases idx

def unravel (o : FlatOrd) (shape : List Nat) (bases : List (List Nat)) (f : Nat) : List Nat :=
  match o with
  | .serial => unravelSerial shape f
  | .nest => unravelNest shape bases f

/-- a flattened grid at one level: the wrapped axes, the shape of the next / previous level, all coarser splits -/
structure FlatLevel where
  o : FlatOrd
  ax : List Axis
  bases : List (List Nat)        -- splits of levels 0 .. level-1
  childShape : List Nat          -- shape of level+1 (when it exists)
  parentShape : List Nat         -- shape of level-1 (when it exists)
  deriving Repr, Inhabited

def FlatLevel.shape (g : FlatLevel) : List Nat := g.ax.map (·.n)

/-- `FlatGridAtLevel.children`: `index2flatindex(children(flatindex2index(i)).reshape(-1), +1)` -/
def flatChildren (g : FlatLevel) (f : Nat) : List Nat :=
  (children g.ax (unravel g.o g.shape g.bases f)).map
    (ravel g.o g.childShape (g.bases ++ [g.ax.map (·.s)]))

/-- `FlatGridAtLevel.parent`: `index2flatindex(parent(flatindex2index(i)), -1)` -/
def flatParent (g : FlatLevel) (f : Nat) : Nat :=
  ravel g.o g.parentShape g.bases.dropLast (parentVec g.ax (unravel g.o g.shape g.bases f))

/-- `FlatGridAtLevel.neighborhood` -/
def flatNeighborhood (g : FlatLevel) (win : List Nat) (f : Nat) : List Nat :=
  (neighborhood g.ax win (unravel g.o g.shape g.bases f)).map (ravel g.o g.shape g.bases)

end NiftyVerif.Grid
