/-
  nifty.re `SamplingCartesianGridLOS` (`nifty/re/extra/sampling_los.py::_los`): TRANSCRIPTION over exact rationals — index-space
  coordinates `l2i = (shape−1)/shape/distances`, the `n` sampling points `start_iloc + ddi·(k + 1/2)`, `map_coordinates(order=1,
  cval=nan)` (multilinear weights on the 2^d corners of the cell; any corner outside the array makes the value nan = `none`), the
  sum times `1/n`.  The factor `dist = ‖end − start‖` (a square root) is applied by the harness.  Core only.
-/
import NiftyVerif.Model.Response

namespace NiftyVerif.ResponseSampling
open NiftyVerif Coo NiftyVerif.Response

/-- `l2i = (shape − 1) / shape / distances` -/
def l2i : List Nat → List Rat → List Rat
  | n :: sh, d :: ds => (((n : Nat) : Rat) - 1) / ((n : Nat) : Rat) / d :: l2i sh ds
  | _, _ => []

/-- `start * l2i` -/
def mulV : List Rat → List Rat → List Rat
  | a :: l, b :: m => a * b :: mulV l m
  | _, _ => []

/-- column `k` of `pp = start_iloc[:, None] + ddi[:, None] * adi[None]`, `ddi = (end_iloc − start_iloc)/n`, `adi = arange(n) + 0.5` -/
def samplePoint (n k : Nat) : List Rat → List Rat → List Rat
  | s :: ss, e :: es => (s + (e - s) / (n : Rat) * ((k : Rat) + 1 / 2)) :: samplePoint n k ss es
  | _, _ => []

/-- both corners `lower`, `lower + 1` of every axis are valid indices (`0 ≤ index < size`) -/
def validCell : List Nat → List Int → Bool
  | n :: sh, b :: bs => decide (0 ≤ b) && decide (b + 1 < (n : Int)) && validCell sh bs
  | [], [] => true
  | _, _ => false

def addCornerI : List Int → List Nat → List Int
  | b :: bs, e :: es => (b + (if e = 0 then 0 else 1)) :: addCornerI bs es
  | _, _ => []

/-- `map_coordinates(x, p, order=1, cval=nan)` at one point; the field is a function of the multi-index -/
def mapCoord1 (shape : List Nat) (x : List Int → Rat) (p : List Rat) : Option Rat :=
  let base := p.map Rat.floor
  if validCell shape base then
    let exc := p.map fun v => v - (Rat.floor v : Rat)
    some (sumL ((corners p.length).map fun e => cornerWeight exc e * x (addCornerI base e)))
  else none

def sumOpt : List (Option Rat) → Option Rat
  | [] => some 0
  | none :: _ => none
  | some a :: l => (sumOpt l).map (a + ·)

/-- `_los` for one line, in units of `dist = ‖end − start‖`: `Σ_k map_coordinates(x, pp[:,k]) / n` -/
def samplingLos (shape : List Nat) (dist : List Rat) (x : List Int → Rat) (start stop : List Rat) (n : Nat) : Option Rat :=
  let li := l2i shape dist
  let si := mulV start li
  let ei := mulV stop li
  (sumOpt ((List.range n).map fun k => mapCoord1 shape x (samplePoint n k si ei))).map (· / (n : Rat))

end NiftyVerif.ResponseSampling
