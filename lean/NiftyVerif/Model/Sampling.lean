/-
  C13 — executable model of `draw_sample` of the nifty.cl covariance operators.

  Every sampler is linear in the standard-normal excitations it draws: a sample is `Σ_k A_k ξ_k` where `ξ_k` is the k-th
  field drawn through `Field.from_random(..., 'normal', dtype)`.  `sampler` returns the list `[(A_k, dtype_k)]` in drawing
  order, or the kind of exception the code raises (the refusal logic).
  Transcribes: ScalingOperator.draw_sample/_get_fct, DiagonalOperator.draw_sample/process_sample,
  SandwichOperator.draw_sample, BlockDiagonalOperator.draw_sample, SumOperator.draw_sample (repaired: refuses when a summand
  is subtracted, see fixes/C13_sum_neg_sampling.diff), OperatorAdapter.draw_sample, InversionEnabler.draw_sample,
  SamplingEnabler.special_draw_sample (the CG solve is modelled as an exact inverse), EndomorphicOperator.draw_sample.
  Operator expressions, `den`, `cap` are those of Model/OpAlgebra.lean (C01).  Core imports only.
-/
import NiftyVerif.Model.OpAlgebra

namespace NiftyVerif.Sampling
open NiftyVerif.OpAlgebra NiftyVerif.Gen.ModeTables

/-- `Sem` plus what sampling needs: square roots and the sign tests of the refusal logic -/
structure SSem (K D R : Type) extends Sem K D R where
  ksqrt : K → K
  /-- `c.real < 0` -/
  kNeg : K → Bool
  dsqrt : D → D
  /-- the diagonal is complex (`iscomplextype(ldiag.dtype)`; value-based in the model) -/
  dIsComplex : D → Bool
  /-- `ldiag.min() < 0` -/
  dMinNeg : D → Bool
  /-- `ldiag.min() == 0` -/
  dMinZero : D → Bool
  /-- a sample of entry `k` of a block-diagonal operator on multi-domain `dm`, placed into the multi-field -/
  blockRow : Nat → Nat → R → R
  /-- sub-domain ids of a multi-domain id in key order (`[]` for a plain domain) -/
  multiKeys : Nat → List Nat

variable {K D R : Type}

/-- first error in drawing order, else the concatenation -/
def seqAll {α : Type} : List (Except String (List α)) → Except String (List α)
  | [] => .ok []
  | .error e :: _ => .error e
  | .ok l :: rest => match seqAll rest with
    | .ok l' => .ok (l ++ l')
    | .error e => .error e

/-- `draw_sample(from_inverse)`: excitation-to-sample matrices with the sampling dtype of each draw -/
def sampler (S : SSem K D R) : Op K D → Bool → Except String (List (R × Nat))
  | .scaling d c dt, fi =>
      -- ScalingOperator.draw_sample: dtype check, then _get_fct
      if dt == 0 then .error "RuntimeError" else
      if !S.kIsReal c || S.kNeg c || (S.keq c S.kzero && fi) then .error "ValueError" else
      let f := if fi then S.kinv (S.ksqrt c) else S.ksqrt c
      match S.multiKeys d with
      | [] => .ok [(S.smul f (S.one d), dt)]
      | subs =>
        -- MultiField.from_random draws one field per key, in key order
        .ok ((List.range subs.length).zip subs |>.map fun (k, sd) => (S.blockRow d k (S.smul f (S.one sd)), dt))
  | .diag dm d t dt, fi =>
      -- DiagonalOperator.draw_sample / process_sample: from_inverse2 = from_inverse ^ (self._trafo >= 2)
      if dt == 0 then .error "RuntimeError" else
      let fi2 := fi != decide (t ≥ 2)
      if S.dIsComplex d || S.dMinNeg d || (S.dMinZero d && fi2) then .error "ValueError" else
      .ok [(S.ofDiag dm (if fi2 then S.dinv (S.dsqrt d) else S.dsqrt d), dt)]
  | .sandwich bun cheese _, fi =>
      if fi then
        if (cap bun &&& INVERSE_TIMES) != 0 then
          match sampler S cheese true with
          | .ok l => .ok (l.map fun p => (S.mul (den S.toSem bun INVERSE_TIMES) p.1, p.2))
          | .error e => .error e          -- NotImplementedError is swallowed and re-raised as NotImplementedError
        else .error "NotImplementedError"
      else
        match sampler S cheese false with
        | .error e => .error e
        | .ok l =>
          if !checkMode (cap bun) ADJOINT_TIMES then .error "NotImplementedError" else
          .ok (l.map fun p => (S.mul (den S.toSem bun ADJOINT_TIMES) p.1, p.2))
  | .blockdiag dm ents, fi =>
      let rs := ents.map (fun e => sampler S e fi)
      seqAll ((List.range rs.length).zip rs |>.map fun (k, r) => match r with
        | .ok l => .ok (l.map fun p => (S.blockRow dm k p.1, p.2))
        | .error e => .error e)
  | .idEntry _, _ => .error "RuntimeError"     -- "Need to specify dtype for all operators that are set to None"
  | .sum ops neg, fi =>
      if fi then .error "NotImplementedError" else
      -- repaired: a subtracted (non-null) summand cannot be sampled by adding independent draws
      let keep := (ops.zip neg).filter (fun p => !isNull p.1)
      if keep.any (·.2) then .error "NotImplementedError" else
      seqAll ((ops.map (fun o => if isNull o then .ok [] else sampler S o false)))
  | .adapter o t, fi => sampler S o (if (t &&& INVERSE_BIT) != 0 then !fi else fi)
  | .invEnabler o, fi => sampler S o fi
  | .leaf _ _ _ _, _ => .error "NotImplementedError"   -- EndomorphicOperator.draw_sample
  | .null _ _, _ => .error "AttributeError"           -- plain LinearOperators have no draw_sample
  | .chain _, _ => .error "AttributeError"

/-- SamplingEnabler(likelihood, prior).draw_sample(from_inverse); `op = likelihood + prior` as built by the code -/
def samplerSE (S : SSem K D R) (lik prior op : Op K D) (startFromZero fi : Bool) : Except String (List (R × Nat)) :=
  match sampler S op fi with
  | .ok l => .ok l
  | .error "NotImplementedError" =>
      if !fi then .error "ValueError" else
      let inv := S.inv (den S.toSem op TIMES)          -- CG solves (likelihood + prior) x = b
      if startFromZero then
        match sampler S op false with
        | .ok l =>
          -- QuadraticEnergy applies `op` (TIMES): `_check_mode` raises when the sum does not advertise it
          if !checkMode (cap op) TIMES then .error "NotImplementedError" else
          .ok (l.map fun p => (S.mul inv p.1, p.2))
        | .error e => .error e
      else
        match sampler S prior true with
        | .error e => .error e
        | .ok ls => match sampler S lik false with
          | .error e => .error e
          | .ok ln =>
            -- b = prior(s) + nj, _grad = likelihood(s) - nj, then CG applies `op`: all in mode TIMES
            if !checkMode (cap prior) TIMES || !checkMode (cap lik) TIMES || !checkMode (cap op) TIMES then
              .error "NotImplementedError" else
            .ok ((ls.map fun p => (S.mul inv (S.mul (den S.toSem prior TIMES) p.1), p.2)) ++
                 (ln.map fun p => (S.mul inv p.1, p.2)))
  | .error e => .error e

end NiftyVerif.Sampling
