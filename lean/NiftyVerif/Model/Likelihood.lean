/-
  C11 — executable model of the classic likelihood energies (`nifty/cl/operators/energy_operators.py`),
  `SandwichOperator.make`, `ScalingOperator.__call__` (metric scaling), `Linearization.prepend_jac`,
  `_OpSum._apply_operator_sum`, `_LikelihoodChain/_LikelihoodSum.get_transformation`, `StandardHamiltonian`.

  Core only.  Polymorphic in the scalar type `K` (`Float` in the driver, `ℝ` in the theorems).

  Part 1: the scalar (per pixel) formulas — value `E`, gradient, transformation `t`, its derivative `t'`,
          metric coefficient as the code computes it (`get_metric_at`: `Jᴴ J` of the transformation,
          i.e. `t'²`), and for `VariableCovarianceGaussianEnergy` the explicit full-Fisher coefficients.
  Part 2: everything in *real coordinates* as lists / row-major list matrices: leaves produce
          (value, gradient, dense metric, transformation value, dense transformation Jacobian);
          the composition machinery pulls these back / scales / adds / stacks them.
-/
import NiftyVerif.Model.Transc

namespace NiftyVerif.Likelihood

section Scalar
variable {K : Type} [Transc K] [Add K] [Sub K] [Mul K] [Div K] [Neg K]
  [OfNat K 0] [OfNat K 1] [OfNat K 2] [OfNat K 3] [OfNat K 4]

/-! ### GaussianEnergy, one pixel with inverse variance `w`: `QuadraticFormOperator`: `0.5*vdot(r, N r)`,
    Jacobian `VdotOperator(N r)`, metric `N`, transformation `N.get_sqrt()` (linear, data not subtracted) -/
def gaussE (w x d : K) : K := 1 / 2 * ((x - d) * (w * (x - d)))
def gaussGrad (w x d : K) : K := w * (x - d)
def gaussMet (w : K) : K := w
def gaussT (w x : K) : K := Transc.sqrt w * x
def gaussTd (w : K) : K := Transc.sqrt w
/-- no inverse covariance given: `Squared2NormOperator.scale(0.5)`, Jacobian `0.5 * VdotOperator(2 r)` -/
def gaussE1 (x d : K) : K := 1 / 2 * ((x - d) * (x - d))
def gaussGrad1 (x d : K) : K := 1 / 2 * (2 * (x - d))

/-! ### PoissonianEnergy: `x.sum() - x.log().vdot(d)`; transformation `2*sqrt(x)` -/
def poissonE (x d : K) : K := x - Transc.log x * d
def poissonGrad (x d : K) : K := 1 - 1 / x * d
def poissonT (x : K) : K := 2 * Transc.sqrt x
/-- `ptw("sqrt")` derivative is `0.5/sqrt(x)`, then times 2 -/
def poissonTd (x : K) : K := 2 * (1 / 2 / Transc.sqrt x)
def poissonMet (x : K) : K := poissonTd x * poissonTd x

/-! ### BernoulliEnergy: `-x.log().vdot(d) + (1-x).log().vdot(d-1)`; transformation `-2*arctan(sqrt((1-x)*(1/x)))` -/
def bernoulliE (x d : K) : K := -(Transc.log x * d) + Transc.log (1 - x) * (d - 1)
def bernoulliGrad (x d : K) : K := -(1 / x * d) + -(1 / (1 - x)) * (d - 1)
def bernoulliU (x : K) : K := (1 - x) * (1 / x)
/-- derivative of `u = (1-x)*reciprocal(x)` by the product rule of `Linearization.__mul__`,
    `reciprocal' = -(1/x)²` -/
def bernoulliUd (x : K) : K := 1 / x * (-1) + (1 - x) * -((1 / x) * (1 / x))
def bernoulliT (x : K) : K := -2 * Transc.arctan (Transc.sqrt (bernoulliU x))
def bernoulliTd (x : K) : K :=
  -2 * (1 / (1 + Transc.sqrt (bernoulliU x) * Transc.sqrt (bernoulliU x))
        * (1 / 2 / Transc.sqrt (bernoulliU x) * bernoulliUd x))
def bernoulliMet (x : K) : K := bernoulliTd x * bernoulliTd x

/-! ### CategoricalEnergy (one-hot data): `-x.log().vdot(d)`; transformation `sqrt(x).scale(2)` -/
def categoricalE (x d : K) : K := -(Transc.log x * d)
def categoricalGrad (x d : K) : K := -(1 / x * d)
def categoricalT (x : K) : K := 2 * Transc.sqrt x
def categoricalTd (x : K) : K := 2 * (1 / 2 / Transc.sqrt x)
def categoricalMet (x : K) : K := categoricalTd x * categoricalTd x

/-! ### StudentTEnergy: `((theta+1)/2 * log1p(x**2/theta)).sum()`; transformation `sqrt((th+1)/(th+3)) * x` -/
def studentE (θ x : K) : K := (θ + 1) / 2 * Transc.log (1 + x * x / θ)
/-- `ptw("power",2)' = 2x`, scaled by `1/θ`, `log1p' = 1/(1+v)` -/
def studentGrad (θ x : K) : K := (θ + 1) / 2 * (1 / (1 + x * x / θ) * (2 * x / θ))
def studentT (θ x : K) : K := Transc.sqrt ((θ + 1) / (θ + 3)) * x
def studentTd (θ : K) : K := Transc.sqrt ((θ + 1) / (θ + 3))
def studentMet (θ : K) : K := studentTd θ * studentTd θ

/-! ### InverseGammaEnergy: `x.log().vdot(alpha+1) + x.reciprocal().vdot(beta)`; transformation `sqrt(alpha+1)*log(x)` -/
def invGammaE (α β x : K) : K := Transc.log x * (α + 1) + 1 / x * β
def invGammaGrad (α β x : K) : K := 1 / x * (α + 1) + -((1 / x) * (1 / x)) * β
def invGammaT (α x : K) : K := Transc.sqrt (α + 1) * Transc.log x
def invGammaTd (α x : K) : K := Transc.sqrt (α + 1) * (1 / x)
def invGammaMet (α x : K) : K := invGammaTd α x * invGammaTd α x

/-! ### VariableCovarianceGaussianEnergy, real residual `r`, inverse variance `i`:
    `0.5*(r.vdot(r*i) - i.log().sum())`; full Fisher metric `diag(i, 0.5*i**-2)`;
    transformation `(sqrt(i)*r, 0.5*log(i))` -/
def varcovE (r i : K) : K := 1 / 2 * (r * (r * i) - Transc.log i)
def varcovGradR (r i : K) : K := 1 / 2 * (r * i + r * i)
def varcovGradI (r i : K) : K := 1 / 2 * (r * r - 1 / i)
def varcovMetR (i : K) : K := i
def varcovMetI (i : K) : K := 1 / 2 * (1 / (i * i))
def varcovTr (r i : K) : K := Transc.sqrt i * r
def varcovTi (i : K) : K := 1 / 2 * Transc.log i
/-- Jacobian entries of the transformation: `∂tr/∂r`, `∂tr/∂i`, `∂ti/∂i` (and `∂ti/∂r = 0`) -/
def varcovTrR (i : K) : K := Transc.sqrt i
def varcovTrI (r i : K) : K := 1 / 2 / Transc.sqrt i * r
def varcovTiI (i : K) : K := 1 / 2 * (1 / i)

/-! complex residual `r = a + ib` (sampling dtype complex):
    `0.5*r.vdot(r*i.real).real - i.log().sum()`; full Fisher `diag(i, i, 1*i**-2)`;
    transformation `(sqrt(i)*r, 1*log(i))` -/
def varcovcE (a b i : K) : K := 1 / 2 * (a * a * i + b * b * i) - Transc.log i
def varcovcGradA (a i : K) : K := a * i
def varcovcGradI (a b i : K) : K := 1 / 2 * (a * a + b * b) - 1 / i
def varcovcMetI (i : K) : K := 1 / (i * i)
def varcovcTi (i : K) : K := Transc.log i
def varcovcTiI (i : K) : K := 1 / i

/-! ### _SpecialGammaEnergy (residual constant, inverse variance `x` the parameter):
    real `0.5*((r*x).vdot(r) - x.log().sum())`, transformation `sqrt(0.5)*log(x)`;
    complex `0.5*(r*x).vdot(r).real - x.log().sum()`, transformation `log(x)` -/
def sgammaE (r x : K) : K := 1 / 2 * (r * x * r - Transc.log x)
def sgammaGrad (r x : K) : K := 1 / 2 * (r * r - 1 / x)
def sgammaT (x : K) : K := Transc.sqrt (1 / 2) * Transc.log x
def sgammaTd (x : K) : K := Transc.sqrt (1 / 2) * (1 / x)
def sgammaMet (x : K) : K := sgammaTd x * sgammaTd x
def sgammacE (a b x : K) : K := 1 / 2 * (a * a * x + b * b * x) - Transc.log x
def sgammacGrad (a b x : K) : K := 1 / 2 * (a * a + b * b) - 1 / x
def sgammacT (x : K) : K := Transc.log x
def sgammacTd (x : K) : K := 1 / x
def sgammacMet (x : K) : K := sgammacTd x * sgammacTd x

/-! ### point-wise model operators used in `lh @ model` (`pointwise.ptw_dict`) -/
inductive PF (K : Type) where
  | id | scal (c : K) | exp | sigmoid | sqr | expscal (c : K)

def PF.val : PF K → K → K
  | .id, x => x
  | .scal c, x => c * x
  | .exp, x => Transc.exp x
  | .sigmoid, x => 1 / 2 + 1 / 2 * Transc.tanh x
  | .sqr, x => x * x
  | .expscal c, x => Transc.exp (c * x)

def PF.der : PF K → K → K
  | .id, _ => 1
  | .scal c, _ => c
  | .exp, x => Transc.exp x
  | .sigmoid, x => 1 / 2 - 1 / 2 * (Transc.tanh x * Transc.tanh x)
  | .sqr, x => 2 * x
  | .expscal c, x => Transc.exp (c * x) * c

/-! ### scalar composition (one coordinate; what the machinery does when every Jacobian is diagonal) -/
/-- `c * lh`: value, gradient, metric scaled by `c` (`ScalingOperator.__call__` sandwiches with `sqrt c`),
    transformation scaled by `sqrt c` (`_LikelihoodChain.get_transformation`) -/
def scaleMet (c m : K) : K := Transc.sqrt c * Transc.sqrt c * m
def scaleTd (c td : K) : K := Transc.sqrt c * td
/-- `lh @ f`: `Linearization.prepend_jac` / `SandwichOperator.make(jac, metric)` -/
def chainGrad (f' g : K) : K := f' * g
def chainMet (f' m : K) : K := f' * m * f'
def chainTd (f' td : K) : K := td * f'

end Scalar

/-! ## Part 2: real-coordinate list model -/
section Lists
variable {K : Type} [Transc K] [Add K] [Sub K] [Mul K] [Div K] [Neg K]
  [OfNat K 0] [OfNat K 1] [OfNat K 2] [OfNat K 3] [OfNat K 4]

abbrev Vec (K : Type) := List K
abbrev Mat (K : Type) := List (List K)

def tab (n : Nat) (f : Nat → K) : Vec K := (List.range n).map f
def tab2 (r c : Nat) (f : Nat → Nat → K) : Mat K := (List.range r).map fun i => (List.range c).map (f i)
def sumL (l : Vec K) : K := l.foldl (· + ·) 0
def at1 (l : Vec K) (j : Nat) : K := l.getD j 0
def at2 (m : Mat K) (i j : Nat) : K := (m.getD i []).getD j 0
def diagM (n : Nat) (f : Nat → K) : Mat K := tab2 n n fun i j => if i = j then f i else 0
def zeroM (r c : Nat) : Mat K := tab2 r c fun _ _ => 0

/-- `A x`, `A : r × c` -/
def matVec (r c : Nat) (A : Mat K) (x : Vec K) : Vec K := tab r fun i => sumL (tab c fun k => at2 A i k * at1 x k)
/-- `Aᵀ y` -/
def matTVec (r c : Nat) (A : Mat K) (y : Vec K) : Vec K := tab c fun j => sumL (tab r fun k => at2 A k j * at1 y k)
/-- `A B`, `A : r × m`, `B : m × c` -/
def matMul (r m c : Nat) (A B : Mat K) : Mat K := tab2 r c fun i j => sumL (tab m fun k => at2 A i k * at2 B k j)
/-- `Aᵀ M A`, `A : r × c`, `M : r × r`  (`SandwichOperator.make(bun=A, cheese=M)`: `bun.adjoint @ cheese @ bun`) -/
def sandwich (r c : Nat) (A M : Mat K) : Mat K :=
  tab2 c c fun i j => sumL (tab r fun k => at2 A k i * sumL (tab r fun l => at2 M k l * at2 A l j))

/-- what one (composite) energy yields at a position, in real coordinates of dimension `n`:
    value, gradient (n), metric (n×n), transformation value (t), transformation Jacobian (t×n);
    `hasT = false` for the Hamiltonian (no transformation) -/
structure Out (K : Type) where
  n : Nat
  val : K
  grad : Vec K
  met : Mat K
  t : Nat
  tval : Vec K
  tjac : Mat K
  hasT : Bool

/-- an element-wise leaf: local coordinate `j` ↦ formulas -/
def ptwLeaf (n : Nat) (e g m tv td : Nat → K) : Out K :=
  { n := n, val := sumL (tab n e), grad := tab n g, met := diagM n m,
    t := n, tval := tab n tv, tjac := diagM n td, hasT := true }

inductive Leaf (K : Type) where
  /-- no inverse covariance: metric/transformation `ScalingOperator(1.)` -/
  | gaussNone (d : Vec K)
  /-- `ScalingOperator`/`DiagonalOperator` inverse covariance with diagonal `w` -/
  | gaussDiag (w d : Vec K)
  /-- `SandwichOperator.make(bun = A, cheese = diag D)` as inverse covariance -/
  | gaussSand (A : Mat K) (D : Vec K) (d : Vec K)
  | poisson (d : Vec K)
  | bernoulli (d : Vec K)
  | categorical (d : Vec K)
  | student (θ : Vec K)
  | invGamma (α β : Vec K)
  /-- coordinates `[r.., i..]` (real) or `[a.., b.., i..]` (complex), `n` pixels -/
  | varcov (n : Nat) (cplx full : Bool)
  /-- residual `re + i·im` (constant), `cplx` = its dtype is complex -/
  | sgamma (re im : Vec K) (cplx : Bool)

def Leaf.eval (x : Vec K) : Leaf K → Out K
  | .gaussNone d =>
      ptwLeaf d.length (fun j => gaussE1 (at1 x j) (at1 d j)) (fun j => gaussGrad1 (at1 x j) (at1 d j))
        (fun _ => 1) (fun j => Transc.sqrt 1 * at1 x j) (fun _ => Transc.sqrt 1)
  | .gaussDiag w d =>
      ptwLeaf d.length (fun j => gaussE (at1 w j) (at1 x j) (at1 d j)) (fun j => gaussGrad (at1 w j) (at1 x j) (at1 d j))
        (fun j => gaussMet (at1 w j)) (fun j => gaussT (at1 w j) (at1 x j)) (fun j => gaussTd (at1 w j))
  | .gaussSand A D d =>
      let n := d.length
      let r := tab n fun j => at1 x j - at1 d j
      let N := sandwich n n A (diagM n (at1 D))
      let Nr := matVec n n N r
      let sq := matMul n n n (diagM n fun j => Transc.sqrt (at1 D j)) A
      { n := n, val := 1 / 2 * sumL (tab n fun j => at1 r j * at1 Nr j), grad := Nr, met := N,
        t := n, tval := matVec n n sq x, tjac := sq, hasT := true }
  | .poisson d =>
      ptwLeaf d.length (fun j => poissonE (at1 x j) (at1 d j)) (fun j => poissonGrad (at1 x j) (at1 d j))
        (fun j => poissonMet (at1 x j)) (fun j => poissonT (at1 x j)) (fun j => poissonTd (at1 x j))
  | .bernoulli d =>
      ptwLeaf d.length (fun j => bernoulliE (at1 x j) (at1 d j)) (fun j => bernoulliGrad (at1 x j) (at1 d j))
        (fun j => bernoulliMet (at1 x j)) (fun j => bernoulliT (at1 x j)) (fun j => bernoulliTd (at1 x j))
  | .categorical d =>
      ptwLeaf d.length (fun j => categoricalE (at1 x j) (at1 d j)) (fun j => categoricalGrad (at1 x j) (at1 d j))
        (fun j => categoricalMet (at1 x j)) (fun j => categoricalT (at1 x j)) (fun j => categoricalTd (at1 x j))
  | .student θ =>
      ptwLeaf θ.length (fun j => studentE (at1 θ j) (at1 x j)) (fun j => studentGrad (at1 θ j) (at1 x j))
        (fun j => studentMet (at1 θ j)) (fun j => studentT (at1 θ j) (at1 x j)) (fun j => studentTd (at1 θ j))
  | .invGamma α β =>
      ptwLeaf β.length (fun j => invGammaE (at1 α j) (at1 β j) (at1 x j)) (fun j => invGammaGrad (at1 α j) (at1 β j) (at1 x j))
        (fun j => invGammaMet (at1 α j) (at1 x j)) (fun j => invGammaT (at1 α j) (at1 x j)) (fun j => invGammaTd (at1 α j) (at1 x j))
  | .sgamma re im cplx =>
      let n := re.length
      if cplx then
        -- target dtype complex: the (zero) imaginary rows are part of the real-coordinate Jacobian
        { n := n, val := sumL (tab n fun j => sgammacE (at1 re j) (at1 im j) (at1 x j)),
          grad := tab n fun j => sgammacGrad (at1 re j) (at1 im j) (at1 x j),
          met := diagM n fun j => sgammacMet (at1 x j),
          t := 2 * n, tval := tab (2 * n) fun j => if j < n then sgammacT (at1 x j) else 0,
          tjac := tab2 (2 * n) n fun i j => if i = j then sgammacTd (at1 x j) else 0, hasT := true }
      else
        ptwLeaf n (fun j => sgammaE (at1 re j) (at1 x j)) (fun j => sgammaGrad (at1 re j) (at1 x j))
          (fun j => sgammaMet (at1 x j)) (fun j => sgammaT (at1 x j)) (fun j => sgammaTd (at1 x j))
  | .varcov n cplx full =>
      if cplx then
        let a := fun j => at1 x j
        let b := fun j => at1 x (n + j)
        let i := fun j => at1 x (2 * n + j)
        -- rows/cols: block 0 = a, block 1 = b, block 2 = i
        let tj : Mat K := tab2 (3 * n) (3 * n) fun p q =>
          let (bp, jp) := (p / n, p % n)
          let (bq, jq) := (q / n, q % n)
          if jp = jq then
            if bp = 0 ∧ bq = 0 then varcovTrR (i jp)
            else if bp = 1 ∧ bq = 1 then varcovTrR (i jp)
            else if bp = 0 ∧ bq = 2 then varcovTrI (a jp) (i jp)
            else if bp = 1 ∧ bq = 2 then varcovTrI (b jp) (i jp)
            else if bp = 2 ∧ bq = 2 then varcovcTiI (i jp)
            else 0
          else 0
        let fullMet : Mat K := diagM (3 * n) fun p => if p / n = 2 then varcovcMetI (i (p % n)) else varcovMetR (i (p % n))
        { n := 3 * n, val := sumL (tab n fun j => varcovcE (a j) (b j) (i j)),
          grad := tab (3 * n) fun p =>
            if p / n = 0 then varcovcGradA (a (p % n)) (i (p % n))
            else if p / n = 1 then varcovcGradA (b (p % n)) (i (p % n))
            else varcovcGradI (a (p % n)) (b (p % n)) (i (p % n)),
          met := if full then fullMet else sandwich (3 * n) (3 * n) tj (diagM (3 * n) fun _ => 1),
          t := 3 * n,
          tval := tab (3 * n) fun p =>
            if p / n = 0 then varcovTr (a (p % n)) (i (p % n))
            else if p / n = 1 then varcovTr (b (p % n)) (i (p % n))
            else varcovcTi (i (p % n)),
          tjac := tj, hasT := true }
      else
        let r := fun j => at1 x j
        let i := fun j => at1 x (n + j)
        let tj : Mat K := tab2 (2 * n) (2 * n) fun p q =>
          let (bp, jp) := (p / n, p % n)
          let (bq, jq) := (q / n, q % n)
          if jp = jq then
            if bp = 0 ∧ bq = 0 then varcovTrR (i jp)
            else if bp = 0 ∧ bq = 1 then varcovTrI (r jp) (i jp)
            else if bp = 1 ∧ bq = 1 then varcovTiI (i jp)
            else 0
          else 0
        let fullMet : Mat K := diagM (2 * n) fun p => if p / n = 1 then varcovMetI (i (p % n)) else varcovMetR (i (p % n))
        { n := 2 * n, val := sumL (tab n fun j => varcovE (r j) (i j)),
          grad := tab (2 * n) fun p =>
            if p / n = 0 then varcovGradR (r (p % n)) (i (p % n)) else varcovGradI (r (p % n)) (i (p % n)),
          met := if full then fullMet else sandwich (2 * n) (2 * n) tj (diagM (2 * n) fun _ => 1),
          t := 2 * n,
          tval := tab (2 * n) fun p => if p / n = 0 then varcovTr (r (p % n)) (i (p % n)) else varcovTi (i (p % n)),
          tjac := tj, hasT := true }

/-- `lh @ op` at a point where `op` has value `y` (fed to `lh`) and Jacobian `J : o.n × n`:
    `Linearization.prepend_jac`: gradient `Jᵀ g`, metric `SandwichOperator.make(J, M)`, transformation `t ∘ op` -/
def pull (n : Nat) (J : Mat K) (o : Out K) : Out K :=
  { n := n, val := o.val, grad := matTVec o.n n J o.grad, met := sandwich o.n n J o.met,
    t := o.t, tval := o.tval, tjac := matMul o.t o.n n o.tjac J, hasT := o.hasT }

/-- the operator tree -/
inductive Node (K : Type) where
  | leaf (l : Leaf K)
  /-- `e @ A` with a linear `A : rows × n` (selection of the coordinates of a key, `MatrixProductOperator`, …) -/
  | lin (rows : Nat) (A : Mat K) (e : Node K)
  /-- `e @ f` with a point-wise `f` (one `PF` per coordinate) -/
  | ptw (fs : List (PF K)) (e : Node K)
  /-- `c * e` -/
  | scale (c : K) (e : Node K)
  /-- `a + b` (`_LikelihoodSum`; transformation targets are stacked in order) -/
  | add (a b : Node K)
  /-- `StandardHamiltonian(e)` -/
  | ham (e : Node K)

def Node.eval (x : Vec K) : Node K → Out K
  | .leaf l => l.eval x
  | .lin rows A e =>
      let n := x.length
      pull n A (e.eval (matVec rows n A x))
  | .ptw fs e =>
      let n := x.length
      let y := tab n fun j => ((fs.getD j PF.id).val (at1 x j))
      pull n (diagM n fun j => (fs.getD j PF.id).der (at1 x j)) (e.eval y)
  | .scale c e =>
      let o := e.eval x
      let s := Transc.sqrt c
      { n := o.n, val := c * o.val, grad := o.grad.map (c * ·),
        met := o.met.map fun row => row.map (s * s * ·),
        t := o.t, tval := o.tval.map (s * ·), tjac := o.tjac.map fun row => row.map (s * ·), hasT := o.hasT }
  | .add a b =>
      let oa := a.eval x
      let ob := b.eval x
      let n := x.length
      { n := n, val := oa.val + ob.val, grad := tab n fun j => at1 oa.grad j + at1 ob.grad j,
        met := tab2 n n fun i j => at2 oa.met i j + at2 ob.met i j,
        t := oa.t + ob.t, tval := oa.tval ++ ob.tval, tjac := oa.tjac ++ ob.tjac, hasT := oa.hasT && ob.hasT }
  | .ham e =>
      let o := e.eval x
      let n := x.length
      { n := n, val := o.val + 1 / 2 * sumL (tab n fun j => at1 x j * at1 x j),
        grad := tab n fun j => at1 o.grad j + 1 / 2 * (2 * at1 x j),
        met := tab2 n n fun i j => at2 o.met i j + (if i = j then 1 else 0),
        t := 0, tval := [], tjac := [], hasT := false }

end Lists
end NiftyVerif.Likelihood
