/-
  Model/Domains.lean — geometry of nifty.cl domains (property C08) and the binning of PowerSpace (C08, C10).
  Exact rationals (polymorphic `K`); k-lengths are handled through `k²` where a square root would be needed.
  Transcribed: RGSpace.__init__ (distances, dvol, size), _get_dist_array, get_unique_k_lengths (1-D),
  LMSpace.size / get_k_length_array, HPSpace, StructuredDomain.total_volume, PowerSpace.__init__ (searchsorted,
  bincount, weighted bincount, dvol, k_lengths, natural bin bounds), DOFSpace.  Core imports only.
-/

namespace NiftyVerif.Domains

section poly
variable {K : Type} [Add K] [Sub K] [Mul K] [Div K] [NatCast K] [OfNat K 0] [OfNat K 1] [OfNat K 2] [LT K] [DecidableLT K]

/-- `reduce(lambda x, y: x*y, l)` with the empty product 1 -/
def prodK (l : List K) : K := l.foldl (· * ·) 1

/-- harmonic distance of an axis: `1 / (shape * rdistance)` -/
def hdist (n : Nat) (r : K) : K := (1 : K) / ((n : K) * r)

/-- `RGSpace.__init__`: the position-space distance of an axis from the constructor arguments
    (`distances=None`: `1/shape`; harmonic space: the given distance is the harmonic one, `rdistance = 1/(shape*distance)`) -/
def rgRdist (n : Nat) (dist : Option K) (harmonic : Bool) : K :=
  match dist with
  | none => (1 : K) / (n : K)
  | some d => if harmonic then (1 : K) / ((n : K) * d) else d

/-- `StructuredDomain.total_volume` for a scalar volume element -/
def totalVolumeScalar (size : Nat) (dvol : K) : K := (size : K) * dvol

/-- `np.minimum(i, n - i)` -/
def foldIdx (n i : Nat) : Nat := min i (n - i)

/-- squared k-length of the pixel `idx`: `sum_d (min(i_d, n_d - i_d) * h_d)^2` (`_get_dist_array` before the sqrt) -/
def ksq : List Nat → List K → List Nat → K
  | n :: ns, h :: hs, i :: is_ => ((foldIdx n i : Nat) : K) * h * (((foldIdx n i : Nat) : K) * h) + ksq ns hs is_
  | _, _, _ => 0

/-- `np.searchsorted(bounds, v)` (side='left') for sorted bounds: the number of bounds `< v` -/
def searchsortedLeft (bounds : List K) (v : K) : Nat := bounds.countP (fun b => decide (b < v))

/-- `np.bincount(idx, minlength=nbin)` -/
def bincount (nbin : Nat) (idx : List Nat) : List Nat := (List.range nbin).map fun b => idx.count b

/-- `np.bincount(idx, weights=w, minlength=nbin)` -/
def binsum (nbin : Nat) (idx : List Nat) (w : List K) : List K :=
  (List.range nbin).map fun b => ((List.zip idx w).filter fun p => p.1 == b).foldl (fun acc p => acc + p.2) 0

/-- natural bin bounds: `0.5 * (tmp[:-1] + tmp[1:])` of the unique k-lengths -/
def midpoints : List K → List K
  | a :: b :: rest => (a + b) / 2 :: midpoints (b :: rest)
  | _ => []

structure Power (K : Type) where
  pindex : List Nat
  rho : List Nat
  dvol : List K
  klen : List K

/-- `PowerSpace.__init__` after the k-length array: `None` = `ValueError('empty bins detected')` -/
def powerSpace (bounds : List K) (k : List K) (pdvol : K) : Option (Power K) :=
  let pindex := k.map (searchsortedLeft bounds)
  let nbin := bounds.length + 1
  let rho := bincount nbin pindex
  if rho.any (· == 0) then none
  else some { pindex := pindex, rho := rho, dvol := rho.map fun (r : Nat) => (r : K) * pdvol,
              klen := List.zipWith (fun s (r : Nat) => s / (r : K)) (binsum nbin pindex k) rho }

end poly

/-! ### spherical harmonics layout -/

/-- `LMSpace.size` -/
def lmSize (l m : Nat) : Nat := (l + 1) ^ 2 - (l - m) * (l - m + 1)

/-- `tmp[0::2] = tmp[1::2] = arange(lmax+1)` -/
def lmTmp (lmax : Nat) : List Nat := (List.range (lmax + 1)).flatMap fun l => [l, l]

/-- `LMSpace.get_k_length_array`: `ldist[0:lmax+1] = arange`, then for m = 1..mmax the block `tmp[2*m:]` -/
def lmK (lmax mmax : Nat) : List Nat :=
  List.range (lmax + 1) ++ (List.range mmax).flatMap fun m' => (lmTmp lmax).drop (2 * (m' + 1))

/-- the documented layout: m = 0: l = 0..lmax; m ≥ 1: (real, imaginary) pairs for l = m..lmax -/
def lmSpec (lmax mmax : Nat) : List Nat :=
  List.range (lmax + 1) ++ (List.range mmax).flatMap fun m' =>
    (List.range (lmax + 1 - (m' + 1))).flatMap fun j => [j + (m' + 1), j + (m' + 1)]

/-- `HPSpace.size` -/
def hpSize (nside : Nat) : Nat := 12 * nside * nside

end NiftyVerif.Domains
