/-
  C16 — `LineSearch.perform_line_search` / `_zoom` (nifty/cl/minimization/line_search.py:143-343) as a
  *trace checker* (DESIGN.md §2.6).

  The real run is recorded by the harness as the list of line-energy evaluations
      (α, φ(α) | nan | FloatingPointError, φ'(α) if `directional_derivative` was asked for)
  in program order. `runLS` replays the decision logic of the code on these recorded values: every branch
  (sign tests on φ'(0), `alpha1 == 0`, the backtracking on non-finite values, the Armijo test, `phi ≥ phi_prev`,
  the curvature test, `phiprime ≥ 0`, the doubling and the `alpha1 == maxstepsize` exit, the iteration limit,
  `_zoom`'s consistency tests, interval updates and iteration limit) is re-derived; the trace has to contain
  exactly the evaluations the code would have made (a derivative where and only where the code asks for one)
  and nothing else. Step lengths:
    * where the code computes the next step length exactly in floating point (doubling, `min` with
      `maxstepsize`), the recorded α must be *equal* to the model's;
    * where a rounding happens (`0.99*maxstepsize`, the initial guess from `f_k_minus_1`, the backtracking
      midpoint) it must be within relative tolerance `tol`; the recorded value is then used;
    * the interpolated `alpha_j` of `_zoom` is taken from the trace and must be explained by one of the three rules
      of the code, recomputed exactly from the recorded floats: the minimiser of `_quadmin`'s quadratic (rational,
      compared with a conditioned error bound), a stationary point of `_cubicmin`'s cubic on the `+sqrt` branch
      (`|p'(t)|` below a conditioned error bound; the square root itself is never computed), or the bisection
      point — each inside the bracket the code enforces for it.
  The result is what the code returns: `(energy at α, success)` or an exception kind.
  Core imports only; scalar type `K` generic (driver: `Rat`; theorems: every ordered field).
-/

namespace NiftyVerif.LineSearch

/-- outcome of evaluating `le_0.at(α).value` -/
inductive Val (K : Type) where
  | fpe            -- `FloatingPointError` raised
  | nan            -- NaN or ±inf
  | num (x : K)
deriving Repr

/-- one recorded evaluation -/
structure Ev (K : Type) where
  α : K
  φ : Val K
  dφ : Option K
deriving Repr

/-- the float literals in the code (shipped by the driver as exact rationals) and the class-T tolerance -/
structure Consts (K : Type) where
  one : K
  half : K          -- 0.5, and the `/2` of the backtracking
  c099 : K          -- 0.99
  c202 : K          -- 1.01*2
  quadDelta : K     -- 0.1
  cubicDelta : K    -- 0.2
  huge : K          -- 1e100
  tol : K           -- relative tolerance on recomputed step lengths
  eps : K           -- unit of the *conditioned* error bounds for `_quadmin`/`_cubicmin` (2^-52 × safety factor)

structure Params (K : Type) where
  c1 : K
  c2 : K
  maxStepSize : K           -- self.max_step_size
  longest : Option K        -- energy.longest_step(pk)
  maxIter : Nat
  maxZoom : Nat
  preferred : Option K      -- self.preferred_initial_step_size
  oldPhi : Option K         -- f_k_minus_1
  invNorm : K               -- 1.0/pk.norm()
  phi0 : K
  dphi0 : K

/-- what `perform_line_search` does at the end -/
inductive Outcome (K : Type) where
  | ret (success : Bool) (α : K)     -- returns (energy at α, success); α = 0 is the start energy
  | raised (kind : String)
deriving Repr

variable {K : Type} [Add K] [Sub K] [Mul K] [Div K] [Neg K] [OfNat K 0]
  [LT K] [LE K] [DecidableLT K] [DecidableLE K] [DecidableEq K]

def absK (x : K) : K := if x < 0 then -x else x
/-- Python's `min(a, b)`: `b` if `b < a` else `a` -/
def minK (a b : K) : K := if b < a then b else a
/-- Python's `max(a, b)`: `b` if `b > a` else `a` -/
def maxK (a b : K) : K := if a < b then b else a

/-- `|x − y| ≤ tol·max(|x|,|y|)` -/
def close (c : Consts K) (x y : K) : Bool :=
  decide (absK (x - y) ≤ c.tol * maxK (absK x) (absK y))

/-- the trace must be used up when the code returns -/
def finish (t : List (Ev K)) (o : Outcome K) : Except String (Outcome K) :=
  match t with
  | [] => .ok o
  | _ :: _ => .error "evaluations recorded after the code would have returned"

/-- first Wolfe (Armijo) test *fails*: `phi > phi_0 + c1*alpha*phiprime_0` -/
def armijoFails (p : Params K) (α f : K) : Prop := p.phi0 + p.c1 * α * p.dphi0 < f
instance (p : Params K) (α f : K) : Decidable (armijoFails p α f) := by unfold armijoFails; infer_instance

/-- second (strong) Wolfe test: `abs(phiprime) <= -c2*phiprime_0` -/
def curvatureOk (p : Params K) (d : K) : Prop := absK d ≤ -(p.c2 * p.dphi0)
instance (p : Params K) (d : K) : Decidable (curvatureOk p d) := by unfold curvatureOk; infer_instance

/-! ### `_zoom` -/

structure ZState (K : Type) where
  lo : K
  hi : K
  phiLo : K
  dphiLo : K
  phiHi : K
  recent : Option (K × K)      -- (alpha_recent, phi_recent); `None` before the first zoom iteration has finished

/-- `_quadmin(a, fa, fpa, b, fb)`: minimiser of the quadratic through `(a, fa)` with slope `fpa` and through `(b, fb)`;
    `none` = ArithmeticError (division by zero) -/
def quadmin (a fa fpa b fb : K) : Option K :=
  let db := b - a
  if db * db = 0 then none else
  -- B = (fb - D - C*db)/(db*db);  xmin = a - C/(2.0*B)
  let B := (fb - fa - fpa * db) / (db * db)
  if B + B = 0 then none else some (a - fpa / (B + B))

/-- is `αj` the float result of `_quadmin`? `|αj − q|` against the rounding-error bound of the code's formula
    (cancellation in the numerator `fb − fa − fpa·db` is accounted for: the bound grows with its condition number) -/
def quadOk (c : Consts K) (a fa fpa b fb αj : K) : Bool :=
  match quadmin a fa fpa b fb with
  | none => false
  | some q =>
    let db := b - a
    let num := fb - fa - fpa * db
    let eN := c.eps * (absK fb + absK fa + absK (fpa * db))
    decide (absK (αj - q) ≤ absK (q - a) * (eN / absK num + c.eps) + c.eps * (absK a + absK q))

/-- coefficients `(A, B)` of `_cubicmin`'s cubic `fa + C t + B t² + A t³` (`t = x − a`, `C = fpa`) through
    `(b, fb)` and `(c, fc)`; `none` = ArithmeticError (`denom = 0`) -/
def cubicAB (a fa fpa b fb cc fc : K) : Option (K × K) :=
  let db := b - a
  let dc := cc - a
  let denom := db * db * dc * dc * (db - dc)
  if denom = 0 then none else
  let u := fb - fa - fpa * db
  let v := fc - fa - fpa * dc
  -- [A, B] = d1 · [u, v] / denom,  d1 = [[dc², −db²], [−dc³, db³]]
  some ((dc * dc * u - db * db * v) / denom, (-(dc * dc * dc) * u + db * db * db * v) / denom)

/-- is `αj` the float result of `_cubicmin`, `xmin = a + (−B + sqrt(B² − 3AC))/(3A)`?  Without computing the root:
    `t = αj − a` must make `p'(t) = 3At² + 2Bt + C` vanish up to the rounding-error bound (errors of `A`, `B` from
    the recorded values, of the radical/sqrt/division, of `a + t`), on the branch `3At + B ≥ 0` -/
def cubicOk (c : Consts K) (a fa fpa b fb cc fc αj : K) : Bool :=
  match cubicAB a fa fpa b fb cc fc with
  | none => false
  | some (A, B) =>
    if A = 0 then false else
    let two := c.one + c.one
    let three := two + c.one
    let db := b - a
    let dc := cc - a
    let denom := db * db * dc * dc * (db - dc)
    let u := fb - fa - fpa * db
    let v := fc - fa - fpa * dc
    let t := αj - a
    let eu := c.eps * (absK fb + absK fa + absK (fpa * db)) + c.eps * absK u
    let ev := c.eps * (absK fc + absK fa + absK (fpa * dc)) + c.eps * absK v
    let dA := (dc * dc * eu + db * db * ev) / absK denom + c.eps * absK A
    let dB := (absK (dc * dc * dc) * eu + absK (db * db * db) * ev) / absK denom + c.eps * absK B
    let r := three * A * t + B
    let bound := three * t * t * dA + two * absK t * dB
      + c.eps * (B * B + three * absK (A * fpa)) / (three * absK A)
      + absK (two * r) * c.eps * (absK αj + absK a)
    decide (absK (three * A * t * t + two * B * t + fpa) ≤ bound) &&
      decide (0 ≤ r + c.eps * (absK B + absK (three * A * t)))

/-- is the recorded `alpha_j` one the code can have chosen in zoom iteration `i` from state `z`?
    The code keeps the cubic minimiser (only for `i > 0`) iff `a + 0.2Δ ≤ α_j ≤ b − 0.2Δ`, else the quadratic one iff
    `a + 0.1Δ ≤ α_j ≤ b − 0.1Δ`, else takes `alpha_lo + 0.5Δ`; `Δ = alpha_hi − alpha_lo` is signed, as in the code.
    `slack` absorbs the float rounding of the bracket ends. -/
def alphaJOk (c : Consts K) (i : Nat) (z : ZState K) (αj : K) : Bool :=
  let Δ := z.hi - z.lo
  let a := minK z.lo z.hi
  let b := maxK z.lo z.hi
  let slack := c.tol * (absK a + absK b)
  let within (chk : K) : Bool := decide (a + chk ≤ αj + slack) && decide (αj ≤ b - chk + slack)
  let viaCubic : Bool :=
    match z.recent with
    | none => false
    | some (ar, fr) =>
      decide (0 < i) && within (c.cubicDelta * Δ) && cubicOk c z.lo z.phiLo z.dphiLo z.hi z.phiHi ar fr αj
  let viaQuad : Bool := within (c.quadDelta * Δ) && quadOk c z.lo z.phiLo z.dphiLo z.hi z.phiHi αj
  let viaBisect : Bool := close c αj (z.lo + c.half * Δ)
  viaCubic || viaQuad || viaBisect

/-- the `for i in range(self.max_zoom_iterations)` loop; `n` = iterations left, `last` = α of `le_alphaj` -/
def zoomLoop (c : Consts K) (p : Params K) : Nat → Nat → ZState K → Option K → List (Ev K) → Except String (Outcome K)
  | 0, _, _, last, t =>
    -- for-else: return le_alphaj.energy, False   (unbound if max_zoom_iterations == 0)
    match last with
    | some a => finish t (.ret false a)
    | none => finish t (.raised "UnboundLocalError")
  | n + 1, i, z, _, t =>
    match t with
    | [] => .error "trace ends inside _zoom"
    | ev :: rest =>
      if !alphaJOk c i z ev.α then .error "zoom: alpha_j outside the bracket the code enforces" else
      match ev.φ with
      | .fpe => .error "unsupported: FloatingPointError inside _zoom"
      | .nan => .error "unsupported: non-finite value inside _zoom"
      | .num f =>
        -- if phi_alphaj > phi_0 + c1*alpha_j*phiprime_0 or phi_alphaj >= phi_lo:
        if armijoFails p ev.α f ∨ z.phiLo ≤ f then
          match ev.dφ with
          | some _ => .error "zoom: derivative evaluated although the first Wolfe test failed"
          | none =>
            -- alpha_hi, phi_hi = alpha_j, phi_alphaj
            -- alpha_recent, phi_recent = alpha_hi, phi_hi;  alpha_hi, phi_hi = alpha_j, phi_alphaj
            zoomLoop c p n (i + 1) { z with hi := ev.α, phiHi := f, recent := some (z.hi, z.phiHi) } (some ev.α) rest
        else
          match ev.dφ with
          | none => .error "zoom: derivative not evaluated although the first Wolfe test passed"
          | some d =>
            -- if abs(phiprime_alphaj) <= -c2*phiprime_0: return le_alphaj.energy, True
            if curvatureOk p d then finish rest (.ret true ev.α) else
            -- if phiprime_alphaj*delta_alpha >= 0: alpha_hi, phi_hi = alpha_lo, phi_lo
            --   (alpha_recent, phi_recent = alpha_hi, phi_hi)   else: alpha_recent, phi_recent = alpha_lo, phi_lo
            let z1 : ZState K :=
              if 0 ≤ d * (z.hi - z.lo) then { z with hi := z.lo, phiHi := z.phiLo, recent := some (z.hi, z.phiHi) }
              else { z with recent := some (z.lo, z.phiLo) }
            -- alpha_lo, phi_lo, phiprime_lo = alpha_j, phi_alphaj, phiprime_alphaj
            zoomLoop c p n (i + 1) { z1 with lo := ev.α, phiLo := f, dphiLo := d } (some ev.α) rest

/-- `_zoom(alpha_lo, alpha_hi, phi_0, phiprime_0, phi_lo, phiprime_lo, phi_hi, le_0)` -/
def zoom (c : Consts K) (p : Params K) (z : ZState K) (t : List (Ev K)) : Except String (Outcome K) :=
  -- if phi_lo > phi_0 + c1*alpha_lo*phiprime_0: raise ValueError("inconsistent data")
  if armijoFails p z.lo z.phiLo then finish t (.raised "ValueError")
  -- if phiprime_lo*(alpha_hi-alpha_lo) >= 0.: raise ValueError("inconsistent data")
  else if 0 ≤ z.dphiLo * (z.hi - z.lo) then finish t (.raised "ValueError")
  else zoomLoop c p p.maxZoom 0 z none t

/-! ### `perform_line_search` -/

structure MState (K : Type) where
  alpha0 : K
  phiA0 : K
  dphiA0 : K
  alpha1 : K          -- the step length the model expects next
  exact : Bool        -- `alpha1` was computed without rounding: the trace must match it exactly
  iter : Nat          -- iteration_number
  last : Option K     -- α of `le_alpha1` (unbound before the first successful `le_0.at`)

/-- the `while iteration_number < self.max_iterations` loop; `n` = iterations left -/
def mainLoop (c : Consts K) (p : Params K) (maxstep : K) : Nat → MState K → List (Ev K) → Except String (Outcome K)
  | 0, s, t =>
    -- return le_alpha1.energy, False
    match s.last with
    | some a => finish t (.ret false a)
    | none => finish t (.raised "UnboundLocalError")
  | n + 1, s, t =>
    let iter := s.iter + 1
    match t with
    | [] =>
      -- if alpha1 == 0: return le_0.energy, False   (only an exactly computed 0 is decidable without the trace)
      if s.alpha1 = 0 then .ok (.ret false 0) else .error "trace ends inside the main loop"
    | ev :: rest =>
      if s.exact && decide (ev.α ≠ s.alpha1) then .error "main: step length differs from the exactly computed one" else
      if !s.exact && !close c ev.α s.alpha1 then .error "main: step length not within tolerance of the computed one" else
      if ev.α = 0 then .error "main: evaluation at alpha1 == 0 (the code returns before evaluating)" else
      let α := ev.α
      -- backtracking: alpha1 = (alpha0+alpha1)/2; continue
      let back (last : Option K) : Except String (Outcome K) :=
        match ev.dφ with
        | some _ => .error "main: derivative evaluated on a backtracking step"
        | none => mainLoop c p maxstep n
            { s with alpha1 := (s.alpha0 + α) * c.half, exact := false, iter := iter, last := last } rest
      match ev.φ with
      | .fpe => back s.last
      | .nan => back (some α)
      | .num f =>
        if c.huge < absK f then back (some α) else
        -- if phi_alpha1 > phi_0 + c1*alpha1*phiprime_0 or (phi_alpha1 >= phi_alpha0 and iteration_number > 1):
        if armijoFails p α f ∨ (s.phiA0 ≤ f ∧ 1 < iter) then
          match ev.dφ with
          | some _ => .error "main: derivative evaluated although _zoom is entered on the value alone"
          | none => zoom c p ⟨s.alpha0, α, s.phiA0, s.dphiA0, f, none⟩ rest
        else
          match ev.dφ with
          | none => .error "main: derivative not evaluated although the first Wolfe test passed"
          | some d =>
            -- if abs(phiprime_alpha1) <= -c2*phiprime_0: return le_alpha1.energy, True
            if curvatureOk p d then finish rest (.ret true α) else
            -- if phiprime_alpha1 >= 0: return self._zoom(alpha1, alpha0, ...)
            if 0 ≤ d then zoom c p ⟨α, s.alpha0, f, d, s.phiA0, none⟩ rest else
            -- alpha0, alpha1 = alpha1, min(2*alpha1, maxstepsize)
            let a1 := minK (α + α) maxstep
            -- if alpha1 == maxstepsize: return le_alpha1.energy, False
            if a1 = maxstep then finish rest (.ret false α) else
            mainLoop c p maxstep n
              { alpha0 := α, phiA0 := f, dphiA0 := d, alpha1 := a1, exact := true, iter := iter, last := some α } rest

/-- `maxstepsize` -/
def maxStep (p : Params K) : K :=
  match p.longest with
  | none => minK p.maxStepSize p.maxStepSize
  | some l => minK l p.maxStepSize

/-- initial `alpha1` before `min(alpha1, 0.99*maxstepsize)` -/
def initialAlpha (c : Consts K) (p : Params K) : K :=
  match p.preferred with
  | some a => a
  | none =>
    match p.oldPhi with
    | some old =>
      let a := minK c.one (c.c202 * (p.phi0 - old) / p.dphi0)
      if a < 0 then c.one else a
    | none => p.invNorm

/-- `perform_line_search`: replay the recorded evaluations; `.error` = the trace is not a run of the code -/
def runLS (c : Consts K) (p : Params K) (t : List (Ev K)) : Except String (Outcome K) :=
  -- if phiprime_0 == 0: return energy, False
  if p.dphi0 = 0 then finish t (.ret false 0)
  -- if phiprime_0 > 0: return energy, False
  else if 0 < p.dphi0 then finish t (.ret false 0)
  else
    let ms := maxStep p
    let a1 := minK (initialAlpha c p) (c.c099 * ms)
    mainLoop c p ms p.maxIter
      { alpha0 := 0, phiA0 := p.phi0, dphiA0 := p.dphi0, alpha1 := a1, exact := false, iter := 0, last := none } t

/-- the checker of DESIGN §2.6: the trace is a run of the code with the claimed outcome -/
def acceptsLS (c : Consts K) (p : Params K) (t : List (Ev K)) (success : Bool) (α : K) : Bool :=
  match runLS c p t with
  | .ok (.ret s a) => s == success && decide (a = α)
  | _ => false

end NiftyVerif.LineSearch
