/-
  Complex numbers over `Float` for the line-protocol drivers (comparison class T only): arithmetic, the `Transc`
  vocabulary with NumPy's principal branches, conjugation.  Core only.  The order instances are dummies (lexicographic on
  the real part): the drivers never send piecewise (real-only) point-wise functions in complex mode.
-/
import NiftyVerif.Model.Transc

namespace NiftyVerif

structure Cplx where
  re : Float
  im : Float

namespace Cplx

def ofFloat (x : Float) : Cplx := ⟨x, 0.0⟩
def I : Cplx := ⟨0.0, 1.0⟩

instance : Zero Cplx := ⟨⟨0.0, 0.0⟩⟩
instance : Add Cplx := ⟨fun a b => ⟨a.re + b.re, a.im + b.im⟩⟩
instance : Sub Cplx := ⟨fun a b => ⟨a.re - b.re, a.im - b.im⟩⟩
instance : Neg Cplx := ⟨fun a => ⟨-a.re, -a.im⟩⟩
instance : Mul Cplx := ⟨fun a b => ⟨a.re * b.re - a.im * b.im, a.re * b.im + a.im * b.re⟩⟩
instance : Div Cplx := ⟨fun a b =>
  let d := b.re * b.re + b.im * b.im
  ⟨(a.re * b.re + a.im * b.im) / d, (a.im * b.re - a.re * b.im) / d⟩⟩
instance : OfScientific Cplx := ⟨fun m s e => ⟨OfScientific.ofScientific m s e, 0.0⟩⟩
instance : LT Cplx := ⟨fun a b => a.re < b.re⟩
instance : LE Cplx := ⟨fun a b => a.re ≤ b.re⟩
instance : DecidableLT Cplx := fun a b => inferInstanceAs (Decidable (a.re < b.re))
instance : DecidableLE Cplx := fun a b => inferInstanceAs (Decidable (a.re ≤ b.re))
instance : Conj Cplx := ⟨fun a => ⟨a.re, -a.im⟩⟩

def abs (z : Cplx) : Float := Float.sqrt (z.re * z.re + z.im * z.im)
def exp (z : Cplx) : Cplx := let e := Float.exp z.re; ⟨e * Float.cos z.im, e * Float.sin z.im⟩
def log (z : Cplx) : Cplx := ⟨Float.log (abs z), Float.atan2 z.im z.re⟩
def sqrt (z : Cplx) : Cplx :=
  let r := abs z
  let a := Float.sqrt ((r + z.re) / 2.0)
  let b := Float.sqrt ((r - z.re) / 2.0)
  ⟨a, if z.im < 0.0 then -b else b⟩
def sin (z : Cplx) : Cplx := ⟨Float.sin z.re * Float.cosh z.im, Float.cos z.re * Float.sinh z.im⟩
def cos (z : Cplx) : Cplx := ⟨Float.cos z.re * Float.cosh z.im, -(Float.sin z.re * Float.sinh z.im)⟩
def sinh (z : Cplx) : Cplx := ⟨Float.sinh z.re * Float.cos z.im, Float.cosh z.re * Float.sin z.im⟩
def cosh (z : Cplx) : Cplx := ⟨Float.cosh z.re * Float.cos z.im, Float.sinh z.re * Float.sin z.im⟩
def tan (z : Cplx) : Cplx := sin z / cos z
def tanh (z : Cplx) : Cplx := sinh z / cosh z
/-- `arctan z = (i/2) (log(1 - i z) - log(1 + i z))` -/
def arctan (z : Cplx) : Cplx :=
  let iz : Cplx := I * z
  (⟨0.0, 0.5⟩ : Cplx) * (log ((⟨1.0, 0.0⟩ : Cplx) - iz) - log ((⟨1.0, 0.0⟩ : Cplx) + iz))
def pow (z w : Cplx) : Cplx := exp (w * log z)

instance : Transc Cplx where
  sqrt := sqrt
  exp := exp
  log := log
  sin := sin
  cos := cos
  tan := tan
  sinh := sinh
  cosh := cosh
  tanh := tanh
  arctan := arctan
  pow := pow
  pi := ⟨3.14159265358979323846, 0.0⟩
  nan := ⟨0.0 / 0.0, 0.0 / 0.0⟩

end Cplx
end NiftyVerif
