/-
  Model/Pytree.lean — pytree vectors of nifty/re/tree_math (vector.py, vector_math.py) for property C33.

  A pytree is a tree of array leaves (an array = its shape and its row-major entries) under container nodes
  carrying a structure tag (dict keys in JAX's sorted order / tuple / list).  `flatten` is the concatenation of all
  leaves — the "concatenated flat array" of the property.  Operators are leaf-wise maps (`tree_map`), scalars are
  broadcast to the other operand's structure (`_broadcast_binary_op`), reductions fold the per-leaf reductions
  (`tree_reduce`).  Scalars/entries are polymorphic (`Int` in the driver: class E).  Core imports only.
-/

namespace NiftyVerif.Pytree

inductive PTree (α : Type) where
  | leaf (shape : List Nat) (vals : List α)
  | node (tag : String) (cs : List (PTree α))
  deriving Repr, Inhabited

namespace PTree
variable {α β γ : Type}

mutual
  /-- the concatenated flat array -/
  def flatten : PTree α → List α
    | leaf _ vals => vals
    | node _ cs => flattenList cs
  def flattenList : List (PTree α) → List α
    | [] => []
    | t :: ts => flatten t ++ flattenList ts
end

mutual
  /-- `tree_structure`: everything but the entries (shapes of leaves are kept: `tree_map` of an array op needs them equal) -/
  def struct : PTree α → PTree Unit
    | leaf sh vals => leaf sh (vals.map fun _ => ())
    | node tag cs => node tag (structList cs)
  def structList : List (PTree α) → List (PTree Unit)
    | [] => []
    | t :: ts => struct t :: structList ts
end

mutual
  def numLeaves : PTree α → Nat
    | leaf _ _ => 1
    | node _ cs => numLeavesList cs
  def numLeavesList : List (PTree α) → Nat
    | [] => 0
    | t :: ts => numLeaves t + numLeavesList ts
end

mutual
  /-- `PyTreeDef.num_nodes` -/
  def numNodes : PTree α → Nat
    | leaf _ _ => 1
    | node _ cs => 1 + numNodesList cs
  def numNodesList : List (PTree α) → Nat
    | [] => 0
    | t :: ts => numNodes t + numNodesList ts
end

mutual
  /-- `tree_map(f, t)` -/
  def map (f : α → β) : PTree α → PTree β
    | leaf sh vals => leaf sh (vals.map f)
    | node tag cs => node tag (mapList f cs)
  def mapList (f : α → β) : List (PTree α) → List (PTree β)
    | [] => []
    | t :: ts => map f t :: mapList f ts
end

mutual
  /-- `tree_map(f, a, b)` for an entry-wise array operation `f`: `none` = the `ValueError` JAX raises on a structure
      mismatch (different container, keys, arity, or leaf shapes that do not agree) -/
  def map₂ (f : α → β → γ) : PTree α → PTree β → Option (PTree γ)
    | leaf sh va, leaf sh' vb =>
        if sh = sh' ∧ va.length = vb.length then some (leaf sh (List.zipWith f va vb)) else none
    | node tag cs, node tag' cs' =>
        if tag = tag' then (map₂List f cs cs').map (node tag) else none
    | _, _ => none
  def map₂List (f : α → β → γ) : List (PTree α) → List (PTree β) → Option (List (PTree γ))
    | [], [] => some []
    | a :: as, b :: bs =>
        match map₂ f a b, map₂List f as bs with
        | some c, some cs => some (c :: cs)
        | _, _ => none
    | _, _ => none
end

mutual
  /-- `ts.unflatten(repeat(s, ts.num_leaves))` followed by the array op broadcasting the scalar inside each leaf -/
  def bcast (s : α) : PTree β → PTree α
    | leaf sh vals => leaf sh (vals.map fun _ => s)
    | node tag cs => node tag (bcastList s cs)
  def bcastList (s : α) : List (PTree β) → List (PTree α)
    | [] => []
    | t :: ts => bcast s t :: bcastList s ts
end

mutual
  /-- per-leaf reduction followed by `tree_reduce(op, ·)` folding the leaves from the left (`_unary_reduction`) -/
  def leafVals : PTree α → List (List α)
    | leaf _ vals => [vals]
    | node _ cs => leafValsList cs
  def leafValsList : List (PTree α) → List (List α)
    | [] => []
    | t :: ts => leafVals t ++ leafValsList ts
end

/-- `size`: `tree_reduce(add, tree_map(_size, a), 0)` -/
def size (t : PTree α) : Nat := (t.leafVals.map List.length).foldl (· + ·) 0

end PTree

/-! ### operands of a Vector operator: a pytree or a scalar -/

inductive Operand (α : Type) where
  | scalar (s : α)
  | tree (t : PTree α)
  deriving Repr, Inhabited

inductive OpErr where
  | valueError
  deriving Repr, DecidableEq, Inhabited

/-- `_broadcast_binary_op(op, lhs, rhs)`:
    `if isscalar(lhs): lhs = ts_rhs.unflatten(repeat(lhs)) elif isscalar(rhs): … elif num_nodes differ: ValueError`,
    then `tree_map(op, lhs, rhs)` (which raises `ValueError` on any remaining structure mismatch).
    Two scalars: the first branch turns `lhs` into a one-leaf tree of `rhs`'s (scalar) structure. -/
def binaryOp {α β : Type} (f : α → α → β) (lhs rhs : Operand α) : Except OpErr (PTree β) :=
  match lhs, rhs with
  | .scalar a, .tree t => .ok (t.map fun y => f a y)
  | .tree t, .scalar b => .ok (t.map fun x => f x b)
  | .scalar a, .scalar b => .ok (PTree.leaf [] [f a b])
  | .tree ta, .tree tb =>
    if ta.numNodes ≠ tb.numNodes then .error .valueError
    else match PTree.map₂ f ta tb with
      | some r => .ok r
      | none => .error .valueError

/-- reductions over a non-empty list with a binary operation -/
def fold1 {α : Type} (op : α → α → α) : List α → Option α
  | [] => none
  | a :: as => some (as.foldl op a)

section reductions
variable {α : Type}

/-- `sum`: `tree_reduce(add2, tree_map(sum, a))` -/
def sumTree [Add α] [OfNat α 0] (t : PTree α) : Option α :=
  fold1 (· + ·) (t.leafVals.map fun l => l.foldl (· + ·) 0)

/-- `max` / `min`: every leaf must be non-empty (`jnp.max` of an empty array raises) -/
def redTree (op : α → α → α) (t : PTree α) : Option α :=
  match t.leafVals.mapM (fold1 op) with
  | some ms => fold1 op ms
  | none => none

/-- `vdot(a, b) = tree_reduce(add, tree_map(vdot, a, b), 0.)`; `conj` is the identity on real entries -/
def vdotTree [Add α] [Mul α] [OfNat α 0] (conj : α → α) (a b : PTree α) : Option α :=
  match PTree.map₂ (fun x y => conj x * y) a b with
  | some p => some ((p.leafVals.map fun l => l.foldl (· + ·) 0).foldl (· + ·) 0)
  | none => none

/-- `norm(tree, ord=1)`: 1-norm of the vector of per-leaf 1-norms -/
def norm1 [Add α] [OfNat α 0] (abs : α → α) (t : PTree α) : α :=
  (t.leafVals.map fun l => abs ((l.map abs).foldl (· + ·) 0)).foldl (· + ·) 0

/-- `norm(tree, ord=2)` squared, with an abstract square root: `sqrt(sum_leaf (sqrt(sum x^2))^2)` -/
def norm2 [Add α] [Mul α] [OfNat α 0] (abs : α → α) (sqrt : α → α) (t : PTree α) : α :=
  sqrt ((t.leafVals.map fun l =>
    let n := sqrt ((l.map fun x => abs x * abs x).foldl (· + ·) 0)
    abs n * abs n).foldl (· + ·) 0)

/-- `norm(tree, ord=inf)`: max of per-leaf max |x| -/
def normInf (abs : α → α) (max : α → α → α) (zero : α) (t : PTree α) : α :=
  (t.leafVals.map fun l => abs ((l.map abs).foldl max zero)).foldl max zero

end reductions

/-- `reduce(Vector.__add__, forest)`: left fold of `tree_map(add, ·, ·)`; `none` = structure mismatch -/
def sumTrees {α : Type} [Add α] : PTree α → List (PTree α) → Option (PTree α)
  | acc, [] => some acc
  | acc, t :: ts => match PTree.map₂ (· + ·) acc t with
    | some r => sumTrees r ts
    | none => none

/-- `forest_math.mean(forest) = (1/len(forest)) * reduce(add, forest)` -/
def meanTrees {α : Type} [Add α] [Mul α] (inv : α) : List (PTree α) → Option (PTree α)
  | [] => none
  | t :: ts => (sumTrees t ts).map (PTree.map fun x => inv * x)

/-! ### complex leaves: Gaussian integers (exact in complex128) -/

structure GInt where
  re : Int
  im : Int
  deriving Repr, DecidableEq, Inhabited

namespace GInt
instance : Add GInt := ⟨fun a b => ⟨a.re + b.re, a.im + b.im⟩⟩
instance : Sub GInt := ⟨fun a b => ⟨a.re - b.re, a.im - b.im⟩⟩
instance : Neg GInt := ⟨fun a => ⟨-a.re, -a.im⟩⟩
instance : Mul GInt := ⟨fun a b => ⟨a.re * b.re - a.im * b.im, a.re * b.im + a.im * b.re⟩⟩
instance : OfNat GInt 0 := ⟨⟨0, 0⟩⟩
/-- complex conjugation -/
def conj (a : GInt) : GInt := ⟨a.re, -a.im⟩
end GInt

/-- `where(condition, x, y)` with scalar broadcasting of `x`, `y` (and of the condition): the decision logic of
    vector_math.where on `num_nodes`, then `tree_map(jnp.where, c, x, y)` -/
def whereOp {α : Type} (c : Operand Bool) (x y : Operand α) : Except OpErr (PTree α) :=
  -- the structure with most nodes (first one wins ties, as np.argmax)
  let nn {β : Type} (o : Operand β) : Nat := match o with | .scalar _ => 1 | .tree t => t.numNodes
  let nc := nn c; let nx := nn x; let ny := nn y
  let tsMax : PTree Unit :=
    let sc : PTree Unit := match c with | .scalar _ => PTree.leaf [] [()] | .tree t => t.struct
    let sx : PTree Unit := match x with | .scalar _ => PTree.leaf [] [()] | .tree t => t.struct
    let sy : PTree Unit := match y with | .scalar _ => PTree.leaf [] [()] | .tree t => t.struct
    if nc ≥ nx ∧ nc ≥ ny then sc else if nx ≥ ny then sx else sy
  let nmax := tsMax.numNodes
  let expand {β : Type} (o : Operand β) : Except OpErr (PTree β) :=
    match o with
    | .tree t => if t.numNodes < nmax then (if t.numNodes > 1 then .error .valueError else
        -- a one-node tree is a single array leaf: broadcast as a whole array into every leaf — only scalars modelled
        .error .valueError) else .ok t
    | .scalar s => .ok (PTree.bcast s tsMax)
  match expand c, expand x, expand y with
  | .ok tc, .ok tx, .ok ty =>
    match PTree.map₂ (fun (b : Bool) (p : α × α) => if b then p.1 else p.2) tc
        (match PTree.map₂ (fun a b => (a, b)) tx ty with | some t => t | none => PTree.leaf [] []) with
    | some r => if (PTree.map₂ (fun a b => (a, b)) tx ty).isSome then .ok r else .error .valueError
    | none => .error .valueError
  | _, _, _ => .error .valueError

end NiftyVerif.Pytree
