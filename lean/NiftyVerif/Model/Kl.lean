/-
  List logic of nifty/re/likelihood.py `_partial_argument` / `partial_insert_and_remove` (constants and point
  estimates in the JAX KL), and sample averaging (C19, used by C18 for point estimates).  Core imports only.

    insert:  ye = [xe.pop(0) if not cond else ffe.pop(0) for cond in iae]
    remove:  for maybe_remove, cond in zip(x, remove_axes): if not cond: y.append(maybe_remove)
-/
namespace NiftyVerif.Kl

/-- interleave the liquid leaves `x` and the frozen leaves `fill` according to the boolean mask (`true` = frozen);
    `none` where Python's `pop(0)` would raise on an empty list -/
def insert {α : Type} : List Bool → List α → List α → Option (List α)
  | [], _, _ => some []
  | true :: ms, x, f :: fs => (insert ms x fs).map (f :: ·)
  | true :: _, _, [] => none
  | false :: ms, x :: xs, fs => (insert ms xs fs).map (x :: ·)
  | false :: _, [], _ => none

/-- drop the masked leaves -/
def remove {α : Type} : List Bool → List α → List α
  | m :: ms, y :: ys => if m then remove ms ys else y :: remove ms ys
  | _, _ => []

/-- keep exactly the masked leaves -/
def select {α : Type} : List Bool → List α → List α
  | m :: ms, y :: ys => if m then y :: select ms ys else select ms ys
  | _, _ => []

def countTrue : List Bool → Nat
  | [] => 0
  | b :: bs => (if b then 1 else 0) + countTrue bs

section avg
variable {K V : Type} [Add V] [OfNat V 0] [HDiv V K V]

/-- `reduce(map(f)(samples))` with `reduce = mean over the sample axis` -/
def average (xs : List V) (n : K) : V := (xs.foldl (· + ·) 0) / n

end avg

/-- classic `ResidualSampleList.local_item`: `mean.flexible_addsub(r, neg)` -/
def localItem {V : Type} [Add V] [Sub V] (mean r : V) (neg : Bool) : V := if neg then mean - r else mean + r

end NiftyVerif.Kl
