/-
  Linear-Gaussian / MGVI model on exact dense matrices (C20, C18).  Core imports only.

    metric            D = Rᵀ N⁻¹ R + 1                       (likelihood metric + prior metric)
    Wiener mean       signal space  D⁻¹ Rᵀ N⁻¹ d ;  data space  Rᵀ (R Rᵀ + N)⁻¹ d
    MGVI sampler      residual = D⁻¹ (Rᵀ S ξ₁ + ξ₂)  with  S Sᵀ = N⁻¹   ⇒  A = D⁻¹ [Rᵀ S | 1]
                      (re: draw_linear_residual — nll_smpl + prr_smpl, then cg with the metric;
                       cl: SamplingEnabler.special_draw_sample — b = prior(s) + nj, solve (M + 1) x = b)
    mirroring         concatenate_zip(s, −s) = [s₀, −s₀, s₁, −s₁, …]
-/
import NiftyVerif.Model.LinAlg

namespace NiftyVerif.Vi
open NiftyVerif.LinAlg

section
variable {K : Type} [Add K] [Mul K] [Sub K] [Div K] [Neg K] [OfNat K 0] [OfNat K 1] [DecidableEq K] [Inhabited K]

/-- `R` is `m × n` (rows), `Ninv` is `m × m` -/
def metricD (R Ninv : Mat K) (n : Nat) : Mat K :=
  let m := R.length
  matAdd (matMul (matMul (transpose R n) Ninv m) R n) (ident n)

def dataCov (R N : Mat K) (n : Nat) : Mat K :=
  let m := R.length
  matAdd (matMul R (transpose R n) m) N

/-- information source `j = Rᵀ N⁻¹ d` -/
def infoSource (R Ninv : Mat K) (d : List K) (n : Nat) : List K := matVec (transpose R n) (matVec Ninv d)

def meanSignal (R Ninv : Mat K) (d : List K) (n : Nat) : Option (List K) :=
  solveVec (metricD R Ninv n) (infoSource R Ninv d n)

def meanData (R N : Mat K) (d : List K) (n : Nat) : Option (List K) :=
  (solveVec (dataCov R N n) d).map (fun y => matVec (transpose R n) y)

/-- `A = D⁻¹ [Rᵀ S | 1]` : residual = `A (ξ₁, ξ₂)` -/
def samplerMatrix (R Ninv S : Mat K) (n : Nat) : Option (Mat K) :=
  let m := R.length
  solveMat (metricD R Ninv n) (hcat (matMul (transpose R n) S m) (ident n))

/-- `concatenate_zip(s, -s)` -/
def mirror {α : Type} (neg : α → α) (xs : List α) : List α := xs.flatMap (fun s => [s, neg s])

/-- sample average of `pos + residual` over a list of residuals -/
def sampleMean (pos : List K) (rs : List (List K)) (count : K) : List K :=
  let tot := rs.foldl (fun acc r => vecAdd acc (vecAdd pos r)) (pos.map (fun _ => 0))
  tot.map (fun x => x / count)

end
end NiftyVerif.Vi
