/-
  Line-protocol handler for the lattice Fourier-sum model of Model/Nft.lean.   Core only.
    in : {"cls":"NftLattice","M":4,"shape":[N_0,..],"a":[[a_{0,0},..,a_{0,D-1}],…]  (P lists of D ints),
          "x":[[re,im],…]  (P Gaussian rationals, "p/q" strings),  "y":[[re,im],…]  (one per grid pixel, row-major)}
    out: {"rows":R,"cols":P,"exp":[[row,col,m],…],
          "Ex" :[[[re,im]×M] per grid pixel]   coefficient lists of (E x)_k   = Σ_m c[m] ω^m,   ω = e^{2πi/M}
          "EHy":[[[re,im]×M] per point]        coefficient lists of (Eᴴ y)_j  (y not conjugated)}
    malformed input (missing field, M = 0, a row of `a` whose length is not D, |x| ≠ P, |y| ≠ R) → {"error":"bad-args"}
  `handleNft` returns `none` when "cls" is not "NftLattice" so that a driver can chain it in front of other handlers.
-/
import NiftyVerif.Core.Proto
import NiftyVerif.Model.CQ
import NiftyVerif.Model.LinOpsProto
import NiftyVerif.Model.Nft
open Lean NiftyVerif NiftyVerif.Proto NiftyVerif.Coo NiftyVerif.LinOpsProto

namespace NiftyVerif.Nft

def intLists? (j : Json) (k : String) : Option (List (List Int)) := (field? j k).bind (listOf? intList?)

def jTriple (e : Nat × Nat × Nat) : Json := jNats [e.1, e.2.1, e.2.2]

def nftBody (j : Json) : Option Json := do
  let M ← fNat? j "M"
  let shape ← fNatList? j "shape"
  let a ← intLists? j "a"
  let x ← (field? j "x").bind cqList?
  let y ← (field? j "y").bind cqList?
  if M == 0 then none else
  if a.any (fun aj => aj.length != shape.length) then none else
  if x.length != a.length || y.length != prodL shape then none else
  let ex := (List.range (prodL shape)).map fun r => monoApply M shape a (vecOf x) r
  let ehy := (List.range a.length).map fun c => monoApplyAdj M shape a (vecOf y) c
  pure (jObj [("rows", jNat (prodL shape)), ("cols", jNat a.length),
              ("exp", jList jTriple (nftExp M shape a)),
              ("Ex", jList (jList jCQ) ex), ("EHy", jList (jList jCQ) ehy)])

def handleNft (j : Json) : Option Json :=
  match fStr? j "cls" with
  | some "NftLattice" =>
    match nftBody j with
    | some out => some out
    | none => some (jErr "bad-args")
  | _ => none

end NiftyVerif.Nft
