/-
  Model of the classic conjugate gradient of nifty.cl:
    nifty/cl/minimization/quadratic_energy.py    QuadraticEnergy.__init__/at/at_with_grad        -> `QE.make`
    nifty/cl/minimization/conjugate_gradient.py  ConjugateGradient.__call__                       -> `cg`, `loop`
    nifty/cl/operators/inversion_enabler.py      InversionEnabler.__init__/apply (+ the mode tables and
                                                 `_flip_modes`/OperatorAdapter.apply it goes through) -> `inversionEnabler`
  Written once, parametric in the scalar type `K`, the vector type `V`, the operators as functions `V → V` and
  `ip x y = x.s_vdot(y).real` (DESIGN.md §2.2).  A complex Hermitian system is the instance "real vectors of doubled
  dimension, `ip` = real part of the Hermitian product" (the code only ever uses `.s_vdot(..).real` and multiplies
  vectors by real scalars).  The `np.isnan` guards have no counterpart over a field and are omitted (outside the model).
  The loop `while True` gets a fuel argument.  Core imports only.
-/
import NiftyVerif.Model.Controllers

namespace NiftyVerif.CgClassic
open NiftyVerif.Ctrl

/-- a `QuadraticEnergy` object: `_position`, `_grad`, `_value` -/
structure QE (V K : Type) where
  pos : V
  grad : V
  value : K
deriving Repr

/-- the linear system and what is needed to look at it -/
structure Sys (V K : Type) where
  /-- `energy._A` (= `apply_metric`) -/
  A : V → V
  /-- `energy._b` (`None` allowed) -/
  b : Option V
  /-- the `preconditioner` argument -/
  P : Option (V → V)
  /-- `x.s_vdot(y).real` -/
  ip : V → V → K
  /-- `x.norm(inf)**2` (only read by GradInfNormController) -/
  ninfsq : V → K

/-- why `ConjugateGradient.__call__` returned -/
inductive Reason where
  | ctrlStart     -- `status = controller.start(energy)` was not CONTINUE
  | gammaZero0    -- `previous_gamma == 0` before the loop
  | curvZero      -- "curv==0."
  | alphaNeg      -- "alpha<0."
  | gammaNeg      -- "Positive definiteness of preconditioner violated!"
  | gammaZero     -- `gamma == 0` inside the loop
  | ctrlCheck     -- `status = controller.check(energy)` was not CONTINUE
  | raised        -- the controller raised (ZeroDivisionError)
  | fuel          -- model artefact: fuel exhausted (the Python loop would go on)
deriving DecidableEq, Repr, Inhabited

/-- one pass through the loop body, as far as it got -/
structure Iter (K : Type) where
  curv : K
  alpha : K
  /-- `ii >= nreset` branch taken: gradient recomputed by applying the operator -/
  reset : Bool
  gamma : K
  /-- value / squared gradient norm carried by the new energy object -/
  value : K
  gnsq : K
  /-- result of `controller.check` (if it was reached) and `_ccount` afterwards -/
  status : Option Status
  ccount : Int
deriving Repr

structure Out (V K τ : Type) where
  energy : QE V K
  status : Status
  reason : Reason
  /-- controller state after its last call (`none`: it raised in `start`) -/
  ctrl : Option (St τ)
  /-- the energy objects handed to the controller, in order (`start` first) -/
  checked : List (QE V K)
  /-- all energy objects constructed by the loop, in order -/
  made : List (QE V K)
  iters : List (Iter K)

section
variable {K V τ : Type}
  [Add V] [Sub V] [SMul K V]
  [Add K] [Sub K] [Mul K] [Div K] [OfNat K 0] [OfNat K 2]
  [LT K] [DecidableLT K] [DecidableEq K]

/-- `QuadraticEnergy(position, A, b, _grad)`:
    ```
    if _grad is not None:  self._grad = _grad;  Ax = _grad if b is None else _grad + b
    else:                  Ax = self._A(self._position);  self._grad = Ax if b is None else Ax - b
    self._value = 0.5*self._position.s_vdot(Ax).real
    if b is not None:      self._value -= b.s_vdot(self._position).real
    ``` -/
def QE.make (S : Sys V K) (x : V) (g? : Option V) : QE V K :=
  let Ax : V := match g? with
    | some g => (match S.b with | none => g | some b => g + b)
    | none => S.A x
  let grad : V := match g? with
    | some g => g
    | none => (match S.b with | none => Ax | some b => Ax - b)
  let v : K := S.ip x Ax / 2
  let v : K := match S.b with | none => v | some b => v - S.ip b x
  { pos := x, grad := grad, value := v }

/-- `energy.at(position)` -/
def QE.at (S : Sys V K) (x : V) : QE V K := QE.make S x none
/-- `energy.at_with_grad(position, grad)` -/
def QE.atWithGrad (S : Sys V K) (x g : V) : QE V K := QE.make S x (some g)

/-- what the controllers read from an energy object -/
def obs (S : Sys V K) (E : QE V K) : Obs K :=
  { gnsq := S.ip E.grad E.grad, ginfsq := S.ninfsq E.grad, value := E.value }

/-- `r if preconditioner is None else preconditioner(r)` -/
def precond (S : Sys V K) (r : V) : V :=
  match S.P with
  | none => r
  | some P => P r

/-- the block
    ```
    ii += 1
    if ii < self._nreset:  r = r - q*alpha;  energy = energy.at_with_grad(energy.position - alpha*d, r)
    else:                  energy = energy.at(energy.position - alpha*d);  r = energy.gradient;  ii = 0
    ```
    `ii1` is the already incremented `ii`; returns the new `energy`, `r`, `ii` -/
def advance (S : Sys V K) (nreset : Int) (E : QE V K) (r d q : V) (alpha : K) (ii1 : Int) : QE V K × V × Int :=
  if ii1 < nreset then
    (QE.atWithGrad S (E.pos - alpha • d) (r - alpha • q), r - alpha • q, ii1)
  else
    (QE.at S (E.pos - alpha • d), (QE.at S (E.pos - alpha • d)).grad, 0)

/-- bookkeeping record of one pass (not part of the Python code) -/
def mkIter (S : Sys V K) (curv alpha gamma : K) (reset : Bool) (E' : QE V K) (status : Option Status) (cc : Int) :
    Iter K :=
  { curv := curv, alpha := alpha, reset := reset, gamma := gamma, value := E'.value,
    gnsq := S.ip E'.grad E'.grad, status := status, ccount := cc }

/-- the `while True:` loop; arguments are the loop-carried variables `energy, r, d, previous_gamma, ii` and the
    controller state, plus the (ghost) lists of energies seen so far -/
def loop (S : Sys V K) (c : Ctrl K τ) (nreset : Int) :
    Nat → QE V K → V → V → K → Int → St τ → List (QE V K) → List (QE V K) → List (Iter K) → Out V K τ
  | 0, E, _, _, _, _, s, ch, md, its =>
    { energy := E, status := .continue_, reason := .fuel, ctrl := some s, checked := ch, made := md, iters := its }
  | fuel + 1, E, r, d, pg, ii, s, ch, md, its =>
    if S.ip d (S.A d) = 0 then                                   -- curv == 0.
      { energy := E, status := .error, reason := .curvZero, ctrl := some s, checked := ch, made := md, iters := its }
    else if pg / S.ip d (S.A d) < 0 then                         -- alpha < 0
      { energy := E, status := .error, reason := .alphaNeg, ctrl := some s, checked := ch, made := md, iters := its }
    else
    match advance S nreset E r d (S.A d) (pg / S.ip d (S.A d)) (ii + 1) with
    | (E', r', ii') =>
    let it : Option Status → Int → Iter K :=
      mkIter S (S.ip d (S.A d)) (pg / S.ip d (S.A d)) (S.ip r' (precond S r')) (decide ¬ (ii + 1 < nreset)) E'
    if S.ip r' (precond S r') < 0 then                           -- gamma < 0
      { energy := E', status := .error, reason := .gammaNeg, ctrl := some s, checked := ch, made := md ++ [E'],
        iters := its ++ [it none s.ccount] }
    else if S.ip r' (precond S r') = 0 then                      -- gamma == 0
      { energy := E', status := .converged, reason := .gammaZero, ctrl := some s, checked := ch, made := md ++ [E'],
        iters := its ++ [it none s.ccount] }
    else
    match c.check s (obs S E') with
    | none =>
      { energy := E', status := .error, reason := .raised, ctrl := some s, checked := ch ++ [E'], made := md ++ [E'],
        iters := its ++ [it none s.ccount] }
    | some (s1, status) =>
      if status ≠ .continue_ then
        { energy := E', status := status, reason := .ctrlCheck, ctrl := some s1, checked := ch ++ [E'],
          made := md ++ [E'], iters := its ++ [it (some status) s1.ccount] }
      else
      -- `d = d * max(0, gamma/previous_gamma) + s`
      loop S c nreset fuel E' r'
        ((if 0 < S.ip r' (precond S r') / pg then S.ip r' (precond S r') / pg else 0) • d + precond S r')
        (S.ip r' (precond S r')) ii' s1 (ch ++ [E']) (md ++ [E']) (its ++ [it (some status) s1.ccount])

/-- `ConjugateGradient(controller, nreset)(energy, preconditioner)` -/
def cg (S : Sys V K) (c : Ctrl K τ) (nreset : Int) (fuel : Nat) (E : QE V K) : Out V K τ :=
  match c.start (obs S E) with
  | none =>
    { energy := E, status := .error, reason := .raised, ctrl := none, checked := [E], made := [], iters := [] }
  | some (s, status) =>
    if status ≠ .continue_ then
      { energy := E, status := status, reason := .ctrlStart, ctrl := some s, checked := [E], made := [], iters := [] }
    else
    let r := E.grad
    let d := precond S r
    let pg := S.ip r d
    if pg = 0 then
      { energy := E, status := .converged, reason := .gammaZero0, ctrl := some s, checked := [E], made := [],
        iters := [] }
    else
    loop S c nreset fuel E r d pg 0 s [E] [] []

end

/-! ### InversionEnabler -/

/-- `LinearOperator._ilog = (-1, 0, 1, -1, 2, -1, -1, -1, 3)`; `none` for -1 / out of range -/
def ilog : Nat → Option Nat
  | 1 => some 0 | 2 => some 1 | 4 => some 2 | 8 => some 3 | _ => none

/-- `_validMode` -/
def validMode (m : Nat) : Bool := (ilog m).isSome

/-- `_modeTable[trafo][i]` -/
def modeTable (trafo i : Nat) : Nat :=
  (([[1, 2, 4, 8], [2, 1, 8, 4], [4, 8, 1, 2], [8, 4, 2, 1]] : List (List Nat)).getD trafo []).getD i 0

/-- `_capTable[trafo][cap]` -/
def capTable (trafo cap : Nat) : Nat :=
  (([[0, 1, 2, 3, 4, 5, 6, 7, 8, 9, 10, 11, 12, 13, 14, 15],
     [0, 2, 1, 3, 8, 10, 9, 11, 4, 6, 5, 7, 12, 14, 13, 15],
     [0, 4, 8, 12, 1, 5, 9, 13, 2, 6, 10, 14, 3, 7, 11, 15],
     [0, 8, 4, 12, 2, 10, 6, 14, 1, 9, 5, 13, 3, 11, 7, 15]] : List (List Nat)).getD trafo []).getD cap 0

/-- `_addInverse[cap]` -/
def addInverse (cap : Nat) : Nat :=
  ([0, 5, 10, 15, 5, 5, 15, 15, 10, 15, 10, 15, 15, 15, 15, 15] : List Nat).getD cap 0

def TIMES : Nat := 1
def ADJOINT_TIMES : Nat := 2
def INVERSE_TIMES : Nat := 4
def ADJOINT_INVERSE_TIMES : Nat := 8
def ADJOINT_BIT : Nat := 1
def INVERSE_BIT : Nat := 2

/-- a linear operator as far as InversionEnabler looks at it: `capability` and `apply(x, mode)`.
    `apply` is only meaningful for modes in `capability`; `call` adds the `_check_input` of every concrete operator. -/
structure LinOp (V : Type) where
  capability : Nat
  apply : V → Nat → V

/-- `op.apply(x, mode)` including `_check_mode`: `none` = `NotImplementedError` -/
def LinOp.call {V : Type} (op : LinOp V) (x : V) (mode : Nat) : Option V :=
  if validMode mode && (mode &&& op.capability != 0) then some (op.apply x mode) else none

/-- `op._flip_modes(trafo)`: `self if trafo == 0 else OperatorAdapter(self, trafo)`;
    `OperatorAdapter.apply(x, mode) = op.apply(x, _modeTable[trafo][_ilog[mode]])`,
    `capability = _capTable[trafo][op.capability]` -/
def LinOp.flip {V : Type} (op : LinOp V) (trafo : Nat) : LinOp V :=
  if trafo = 0 then op else
  { capability := capTable trafo op.capability,
    apply := fun x mode => op.apply x (modeTable trafo ((ilog mode).getD 0)) }

inductive IEResult (V K τ : Type) where
  /-- `NotImplementedError` (from `_check_mode`, or from an operator that lacks the requested mode) -/
  | notImplemented
  /-- the controller raised in `start` (ZeroDivisionError) -/
  | raised
  /-- `self._op.capability & mode`: applied directly -/
  | direct (y : V)
  /-- solved by CG: `r.position`, with the CG run for inspection -/
  | solved (y : V) (run : Out V K τ)

section
variable {K V τ : Type}
  [Add V] [Sub V] [SMul K V]
  [Add K] [Sub K] [Mul K] [Div K] [OfNat K 0] [OfNat K 2]
  [LT K] [DecidableLT K] [DecidableEq K]

/-- `InversionEnabler(op, iteration_controller, approximation).apply(x, mode)`; `zero` is `full(x.domain, 0.)`.
    ```
    self._check_mode(mode)                       # capability = _addInverse[op.capability]
    if self._op.capability & mode: return self._op.apply(x, mode)
    x0 = full(x.domain, 0.)
    invmode = self._modeTable[self.INVERSE_BIT][self._ilog[mode]]
    invop = self._op._flip_modes(self._ilog[invmode])
    prec = self._approximation
    if prec is not None: prec = prec._flip_modes(self._ilog[mode])
    energy = QuadraticEnergy(x0, invop, x)
    r, stat = ConjugateGradient(self._ic)(energy, preconditioner=prec)     # nreset = 20
    return r.position                                                     # a non-CONVERGED `stat` is only logged
    ``` -/
def inversionEnabler (op : LinOp V) (approx : Option (LinOp V)) (c : Ctrl K τ)
    (ip : V → V → K) (ninfsq : V → K) (zero : V) (fuel : Nat) (x : V) (mode : Nat) : IEResult V K τ :=
  match ilog mode with
  | none => .notImplemented
  | some lm =>
  if mode &&& addInverse op.capability = 0 then .notImplemented else
  if op.capability &&& mode ≠ 0 then .direct (op.apply x mode) else
  let invmode := modeTable INVERSE_BIT lm
  let invop := op.flip ((ilog invmode).getD 0)
  let prec := approx.map fun p => p.flip lm
  -- `invop(v)` = `invop.apply(v, TIMES)`; the underlying operator checks the mode it finally receives
  match invop.call zero TIMES with
  | none => .notImplemented
  | some _ =>
  let S : Sys V K :=
    { A := fun v => invop.apply v TIMES, b := some x, P := prec.map fun p => fun v => p.apply v TIMES,
      ip := ip, ninfsq := ninfsq }
  let E := QE.make S zero none
  let precOk : Bool := match prec with
    | none => true
    | some p => (p.call zero TIMES).isSome
  if precOk then
    let run := cg S c 20 fuel E
    .solved run.energy.pos run
  else
    -- the preconditioner raises on its first use, which is only reached when `start` says CONTINUE
    match c.start (obs S E) with
    | some (_, st) =>
      if st ≠ .continue_ then
        let run := cg S c 20 fuel E      -- returns right after `start`, before the preconditioner is touched
        .solved run.energy.pos run
      else .notImplemented
    | none => .raised

end
end NiftyVerif.CgClassic
