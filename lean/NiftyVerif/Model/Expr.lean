/-
  Model of NIFTy's (classic) non-linear operator calculus  — C03 / C04.
  Core only (no Mathlib).  Polymorphic in the number type `K` (ℝ in theorems, `Float`/`Rat` in the driver).

  Values.  A (multi-)field is a keyed family of entries `MVal K = String → Nat → K`; a single-domain field lives
  under the key `""`.  Entries outside a field's domain are 0.  Domains are `Dom = List (String × Nat)` (key, size).

  Expressions `Ex K` mirror operator trees built from the library's constructors (the harness builds the REAL
  operator from the same tree):
      var k n           FieldAdapter / identity: the input field under key `k`
      add / sub / mul   _OpSum (fields are united key-wise), _OpSum(a, -b), _OpProd
      scale c           ScalingOperator (`Operator.scale`, `c * op`)
      addc c neg        Adder(c, neg)          mulc d   makeOp(d) (DiagonalOperator)
      ptw f p           _FunctionApplier (`op.ptw(f, *p)`), table entry `f` of Gen/Pointwise.lean
      lin m n M         a dense linear operator (MatrixProductOperator)
      sum               ContractionOperator over everything (`.sum()`)
      vdot a b          `a.vdot(b)`
      getKey / putKey   `op[k]` / `op.ducktape_left(k)`
      chain f g         `f @ g` where `g` has a multi-domain target
      sqnorm / quad d   Squared2NormOperator / QuadraticFormOperator(DiagonalOperator d)
      gauss d N         GaussianEnergy(data d, inverse covariance DiagonalOperator N)   (carries a metric)
      const             ConstantOperator / ConstantEnergyOperator (produced by partial evaluation, C04)
      bil m na nb T     a bilinear map with coefficient tensor T: MultiLinearEinsum (two operands), Linearization.outer
      varcov n          VariableCovarianceGaussianEnergy (real, use_full_fisher) on (residual, inverse covariance)
  `eval` is plain evaluation (`op(field)`); `lin e ρ wm` is what `op(Linearization.make_var(ρ, wm))` returns:
  the value, the Jacobian as the composed operator (`jac` = TIMES, `adj` = ADJOINT_TIMES) and the metric,
  transcribing `Linearization.__mul__/_myadd/ptw/vdot/sum/prepend_jac/__getitem__`, `_OpChain/_OpProd/_OpSum.apply`,
  Adjoints conjugate their coefficients (`Conj.conj`, the identity on real number types; complex mode of the driver covers
  the holomorphic nodes only).
  `LinearOperator.__call__` (drops the metric), `ScalingOperator.__call__` (scales it), `Squared2NormOperator/QuadraticFormOperator/GaussianEnergy.apply`.
-/
import NiftyVerif.Gen.Pointwise

namespace NiftyVerif.Expr
open NiftyVerif NiftyVerif.Gen.Ptw

abbrev MVal (K : Type) := String → Nat → K
abbrev Dom := List (String × Nat)

/-- is `(k, i)` an entry of the domain? -/
def Dom.has (d : Dom) (k : String) (i : Nat) : Bool := d.any (fun kn => kn.1 == k && decide (i < kn.2))
/-- size of key `k` (0 if absent) -/
def Dom.size (d : Dom) (k : String) : Nat := ((d.find? (fun kn => kn.1 == k)).map (·.2)).getD 0
/-- key-wise union (left sizes win; well-formed trees only unite equal sizes) -/
def Dom.union (a b : Dom) : Dom := a ++ b.filter (fun kn => !(a.any (fun kn' => kn'.1 == kn.1)))

inductive Ex (K : Type) where
  | var (k : String) (n : Nat)
  | add (a b : Ex K)
  | sub (a b : Ex K)
  | mul (a b : Ex K)
  | scale (c : K) (a : Ex K)
  | addc (c : List K) (neg : Bool) (a : Ex K)
  | mulc (d : List K) (a : Ex K)
  | ptw (f : Fn) (p : List K) (a : Ex K)
  | lin (m n : Nat) (rows : List (List K)) (a : Ex K)
  | sum (a : Ex K)
  | vdot (a b : Ex K)
  | getKey (k : String) (a : Ex K)
  | putKey (k : String) (a : Ex K)
  | chain (f g : Ex K)
  | sqnorm (a : Ex K)
  | quad (d : List K) (a : Ex K)
  | gauss (data icov : List K) (a : Ex K)
  /-- a bilinear map of two single-domain operands given by its coefficient tensor `T[o][i][j]`:
      `MultiLinearEinsum` with two operands (any subscripts) and `Linearization.outer` -/
  | bil (m na nb : Nat) (T : List (List (List K))) (a b : Ex K)
  /-- `VariableCovarianceGaussianEnergy` (real, full Fisher metric) on residual `a` and inverse covariance `b` (size n) -/
  | varcov (n : Nat) (a b : Ex K)
  /-- `ConstantOperator(output)` / `ConstantEnergyOperator(output)` (what `simplify_for_constant_input` leaves behind
      for an all-constant sub-operator): value `v` on the domain `d`, empty input domain -/
  | const (energy : Bool) (d : Dom) (v : String → Nat → K)

/-- target domain of an expression -/
def Ex.dom {K : Type} : Ex K → Dom
  | .var _ n => [("", n)]
  | .add a b => a.dom.union b.dom
  | .sub a b => a.dom.union b.dom
  | .mul a _ => a.dom
  | .scale _ a => a.dom
  | .addc _ _ a => a.dom
  | .mulc _ a => a.dom
  | .ptw _ _ a => a.dom
  | .lin m _ _ _ => [("", m)]
  | .sum _ => [("", 1)]
  | .vdot _ _ => [("", 1)]
  | .getKey k a => [("", a.dom.size k)]
  | .putKey k a => [(k, a.dom.size "")]
  | .chain f _ => f.dom
  | .sqnorm _ => [("", 1)]
  | .quad _ _ => [("", 1)]
  | .gauss _ _ _ => [("", 1)]
  | .const _ d _ => d
  | .bil m _ _ _ _ _ => [("", m)]
  | .varcov _ _ _ => [("", 1)]

/-- keys read from the environment -/
def Ex.inDom {K : Type} : Ex K → Dom
  | .var k n => [(k, n)]
  | .add a b => a.inDom.union b.inDom
  | .sub a b => a.inDom.union b.inDom
  | .mul a b => a.inDom.union b.inDom
  | .scale _ a => a.inDom
  | .addc _ _ a => a.inDom
  | .mulc _ a => a.inDom
  | .ptw _ _ a => a.inDom
  | .lin _ _ _ a => a.inDom
  | .sum a => a.inDom
  | .vdot a b => a.inDom.union b.inDom
  | .getKey _ a => a.inDom
  | .putKey _ a => a.inDom
  | .chain _ g => g.inDom
  | .sqnorm a => a.inDom
  | .quad _ a => a.inDom
  | .gauss _ _ a => a.inDom
  | .const _ _ _ => []
  | .bil _ _ _ _ a b => a.inDom.union b.inDom
  | .varcov _ a b => a.inDom.union b.inDom

section defs
variable {K : Type} [Zero K] [Add K] [Sub K] [Mul K] [Div K] [Neg K] [OfScientific K]
  [LT K] [DecidableLT K] [LE K] [DecidableLE K] [Transc K] [Conj K]

/-- `Σ_{i<n} f i` -/
def rsum (n : Nat) (f : Nat → K) : K := ((List.range n).map f).sum
/-- `Σ_{(k,i) ∈ d} f k i` -/
def dsum (d : Dom) (f : String → Nat → K) : K := (d.map (fun kn => rsum kn.2 (f kn.1))).sum
/-- a single-domain field -/
def single (v : Nat → K) : MVal K := fun k i => if k = "" then v i else 0
/-- entries of a list, 0 beyond its end -/
def ofList (c : List K) : Nat → K := fun i => c.getD i 0
/-- restriction to a domain -/
def mask (d : Dom) (v : MVal K) : MVal K := fun k i => if d.has k i then v k i else 0
/-- matrix entry -/
def mat (rows : List (List K)) (i j : Nat) : K := (rows.getD i []).getD j 0
/-- tensor entry -/
def ten (T : List (List (List K))) (o i j : Nat) : K := ((T.getD o []).getD i []).getD j 0

/-- plain evaluation `op(field)` -/
def eval : Ex K → MVal K → MVal K
  | .var k _, ρ => single (ρ k)
  | .add a b, ρ => fun k i => eval a ρ k i + eval b ρ k i
  | .sub a b, ρ => fun k i => eval a ρ k i - eval b ρ k i
  | .mul a b, ρ => fun k i => eval a ρ k i * eval b ρ k i
  | .scale c a, ρ => fun k i => c * eval a ρ k i
  | .addc c neg a, ρ => mask a.dom (fun k i => if neg then eval a ρ k i - ofList c i else eval a ρ k i + ofList c i)
  | .mulc d a, ρ => fun k i => ofList d i * eval a ρ k i
  | .ptw f p a, ρ => mask a.dom (fun k i => f.val p (eval a ρ k i))
  | .lin m n rows a, ρ => single (fun i => if i < m then rsum n (fun j => mat rows i j * eval a ρ "" j) else 0)
  | .sum a, ρ => single (fun i => if i = 0 then dsum a.dom (eval a ρ) else 0)
  | .vdot a b, ρ => single (fun i => if i = 0 then dsum a.dom (fun k j => eval a ρ k j * eval b ρ k j) else 0)
  | .getKey k a, ρ => single (eval a ρ k)
  | .putKey k a, ρ => fun k' i => if k' = k then eval a ρ "" i else 0
  | .chain f g, ρ => eval f (eval g ρ)
  | .sqnorm a, ρ => single (fun i => if i = 0 then dsum a.dom (fun k j => eval a ρ k j * eval a ρ k j) else 0)
  | .quad d a, ρ =>
      single (fun i => if i = 0 then (0.5 : K) * dsum a.dom (fun k j => eval a ρ k j * (ofList d j * eval a ρ k j)) else 0)
  | .gauss data icov a, ρ =>
      single (fun i => if i = 0 then
        (0.5 : K) * dsum a.dom (fun k j => (eval a ρ k j - ofList data j) * (ofList icov j * (eval a ρ k j - ofList data j)))
        else 0)
  | .const _ _ v, _ => v
  | .bil m na nb T a b, ρ =>
      single (fun o => if o < m then
        rsum na (fun i => rsum nb (fun j => ten T o i j * (eval a ρ "" i * eval b ρ "" j))) else 0)
  | .varcov n a b, ρ =>
      -- 0.5 * (r.vdot(r * i) - i.log().sum())
      single (fun i => if i = 0 then
        (0.5 : K) * (rsum n (fun j => eval a ρ "" j * (eval a ρ "" j * eval b ρ "" j))
                     - rsum n (fun j => Transc.log (eval b ρ "" j))) else 0)

/-- what a `Linearization` carries -/
structure Lz (K : Type) where
  val : MVal K
  jac : MVal K → MVal K
  adj : MVal K → MVal K
  metric : Option (MVal K → MVal K)

/-- scalar cotangent broadcast over a domain (adjoint of a full contraction) -/
def bcast (d : Dom) (y : MVal K) (w : MVal K) : MVal K := mask d (fun k i => w k i * y "" 0)

/-- `op(Linearization.make_var(ρ, wm))` -/
def lin : Ex K → MVal K → Bool → Lz K
  | .var k _, ρ, _ =>
      { val := single (ρ k), jac := fun h => single (h k),
        adj := fun y k' i => if k' = k then y "" i else 0, metric := none }
  | .add a b, ρ, wm =>
      let la := lin a ρ wm; let lb := lin b ρ wm
      { val := fun k i => la.val k i + lb.val k i,
        jac := fun h k i => la.jac h k i + lb.jac h k i,
        adj := fun y k i => la.adj y k i + lb.adj y k i,
        metric := match la.metric, lb.metric with
          | some ma, some mb => some (fun h k i => ma h k i + mb h k i)
          | _, _ => none }
  | .sub a b, ρ, wm =>
      let la := lin a ρ wm; let lb := lin b ρ wm
      { val := fun k i => la.val k i - lb.val k i,
        jac := fun h k i => la.jac h k i - lb.jac h k i,
        adj := fun y k i => la.adj y k i - lb.adj y k i,
        metric := none }
  | .mul a b, ρ, wm =>
      let la := lin a ρ wm; let lb := lin b ρ wm
      { val := fun k i => la.val k i * lb.val k i,
        -- makeOp(lin1.val)(lin2.jac) + makeOp(lin2.val)(lin1.jac)
        jac := fun h k i => la.val k i * lb.jac h k i + lb.val k i * la.jac h k i,
        adj := fun y k i => lb.adj (fun k' j => Conj.conj (la.val k' j) * y k' j) k i
                 + la.adj (fun k' j => Conj.conj (lb.val k' j) * y k' j) k i,
        metric := none }
  | .scale c a, ρ, wm =>
      let la := lin a ρ wm
      { val := fun k i => c * la.val k i, jac := fun h k i => c * la.jac h k i,
        adj := fun y => la.adj (fun k i => Conj.conj c * y k i),
        -- ScalingOperator.__call__: a non-negative real factor scales the metric (sandwich with sqrt), others drop it
        metric := if (0 : K) ≤ c then la.metric.map (fun M h k i => c * M h k i) else none }
  | .addc c neg a, ρ, wm =>
      let la := lin a ρ wm
      { val := mask a.dom (fun k i => if neg then la.val k i - ofList c i else la.val k i + ofList c i),
        jac := fun h => mask a.dom (la.jac h), adj := fun y => la.adj (mask a.dom y), metric := none }
  | .mulc d a, ρ, wm =>
      let la := lin a ρ wm
      { val := fun k i => ofList d i * la.val k i, jac := fun h k i => ofList d i * la.jac h k i,
        adj := fun y => la.adj (fun k i => Conj.conj (ofList d i) * y k i), metric := none }
  | .ptw f p a, ρ, wm =>
      let la := lin a ρ wm
      { val := mask a.dom (fun k i => f.hval p (la.val k i)),
        -- makeOp(t2)(self._jac)
        jac := fun h => mask a.dom (fun k i => f.der p (la.val k i) * la.jac h k i),
        adj := fun y => la.adj (mask a.dom (fun k i => Conj.conj (f.der p (la.val k i)) * y k i)),
        metric := none }
  | .lin m n rows a, ρ, wm =>
      let la := lin a ρ wm
      { val := single (fun i => if i < m then rsum n (fun j => mat rows i j * la.val "" j) else 0),
        jac := fun h => single (fun i => if i < m then rsum n (fun j => mat rows i j * la.jac h "" j) else 0),
        adj := fun y => la.adj (single (fun j => if j < n then rsum m (fun i => Conj.conj (mat rows i j) * y "" i) else 0)),
        metric := none }
  | .sum a, ρ, wm =>
      let la := lin a ρ wm
      { val := single (fun i => if i = 0 then dsum a.dom la.val else 0),
        jac := fun h => single (fun i => if i = 0 then dsum a.dom (la.jac h) else 0),
        adj := fun y => la.adj (bcast a.dom y (fun _ _ => (1.0 : K))),
        metric := none }
  | .vdot a b, ρ, wm =>
      let la := lin a ρ wm; let lb := lin b ρ wm
      { val := single (fun i => if i = 0 then dsum a.dom (fun k j => la.val k j * lb.val k j) else 0),
        -- VdotOperator(self._val)(other._jac) + VdotOperator(other._val)(self._jac)
        jac := fun h => single (fun i => if i = 0 then
                 dsum a.dom (fun k j => la.val k j * lb.jac h k j) + dsum a.dom (fun k j => lb.val k j * la.jac h k j) else 0),
        adj := fun y k i => lb.adj (bcast a.dom y la.val) k i + la.adj (bcast a.dom y lb.val) k i,
        metric := none }
  | .getKey k a, ρ, wm =>
      let la := lin a ρ wm
      { val := single (la.val k), jac := fun h => single (la.jac h k),
        adj := fun y => la.adj (fun k' i => if k' = k then y "" i else 0), metric := none }
  | .putKey k a, ρ, wm =>
      let la := lin a ρ wm
      { val := fun k' i => if k' = k then la.val "" i else 0,
        jac := fun h k' i => if k' = k then la.jac h "" i else 0,
        adj := fun y => la.adj (single (y k)), metric := none }
  | .chain f g, ρ, wm =>
      let lg := lin g ρ wm
      let lf := lin f lg.val wm
      { val := lf.val, jac := fun h => lf.jac (lg.jac h), adj := fun y => lg.adj (lf.adj y),
        -- prepend_jac: SandwichOperator.make(jac, metric)
        metric := lf.metric.map (fun M h => lg.adj (M (lg.jac h))) }
  | .sqnorm a, ρ, wm =>
      let la := lin a ρ wm
      { val := single (fun i => if i = 0 then dsum a.dom (fun k j => la.val k j * la.val k j) else 0),
        -- VdotOperator(2*x.val)
        jac := fun h => single (fun i => if i = 0 then dsum a.dom (fun k j => ((2.0 : K) * la.val k j) * la.jac h k j) else 0),
        adj := fun y => la.adj (bcast a.dom y (fun k j => (2.0 : K) * la.val k j)),
        metric := none }
  | .quad d a, ρ, wm =>
      let la := lin a ρ wm
      { val := single (fun i => if i = 0 then (0.5 : K) * dsum a.dom (fun k j => la.val k j * (ofList d j * la.val k j)) else 0),
        -- VdotOperator(op(x.val))
        jac := fun h => single (fun i => if i = 0 then dsum a.dom (fun k j => (ofList d j * la.val k j) * la.jac h k j) else 0),
        adj := fun y => la.adj (bcast a.dom y (fun k j => ofList d j * la.val k j)),
        metric := none }
  | .gauss data icov a, ρ, wm =>
      let la := lin a ρ wm
      let r : MVal K := fun k j => la.val k j - ofList data j
      { val := single (fun i => if i = 0 then (0.5 : K) * dsum a.dom (fun k j => r k j * (ofList icov j * r k j)) else 0),
        jac := fun h => single (fun i => if i = 0 then dsum a.dom (fun k j => (ofList icov j * r k j) * la.jac h k j) else 0),
        adj := fun y => la.adj (bcast a.dom y (fun k j => ofList icov j * r k j)),
        -- res.add_metric(self._icov), then prepend_jac sandwiches it
        metric := if wm then some (fun h => la.adj (mask a.dom (fun k j => ofList icov j * la.jac h k j))) else none }
  | .const energy _ v, _, wm =>
      -- NullOperator Jacobian; ConstantEnergyOperator adds a NullOperator metric when one is wanted
      { val := v, jac := fun _ _ _ => 0, adj := fun _ _ _ => 0,
        metric := if energy && wm then some (fun _ _ _ => 0) else none }
  | .bil m na nb T a b, ρ, wm =>
      let la := lin a ρ wm; let lb := lin b ρ wm
      { val := single (fun o => if o < m then
                 rsum na (fun i => rsum nb (fun j => ten T o i j * (la.val "" i * lb.val "" j))) else 0),
        -- Σ_wrt LinearEinsum(all other operands fixed) / outer: (J_a h) ⊗ b + a ⊗ (J_b h)
        jac := fun h => single (fun o => if o < m then
                 rsum na (fun i => rsum nb (fun j =>
                   ten T o i j * (la.jac h "" i * lb.val "" j + la.val "" i * lb.jac h "" j))) else 0),
        adj := fun y k i' =>
          la.adj (single (fun i => if i < na then
                    rsum m (fun o => rsum nb (fun j => Conj.conj (ten T o i j * lb.val "" j) * y "" o)) else 0)) k i'
          + lb.adj (single (fun j => if j < nb then
                    rsum m (fun o => rsum na (fun i => Conj.conj (ten T o i j * la.val "" i) * y "" o)) else 0)) k i',
        metric := none }
  | .varcov n a b, ρ, wm =>
      let la := lin a ρ wm; let lb := lin b ρ wm
      { val := single (fun i => if i = 0 then
                 (0.5 : K) * (rsum n (fun j => la.val "" j * (la.val "" j * lb.val "" j))
                              - rsum n (fun j => Transc.log (lb.val "" j))) else 0),
        jac := fun h => single (fun i => if i = 0 then
                 rsum n (fun j => (la.val "" j * lb.val "" j) * la.jac h "" j
                   + ((0.5 : K) * (la.val "" j * la.val "" j) - (0.5 : K) / lb.val "" j) * lb.jac h "" j) else 0),
        adj := fun y k i' =>
          la.adj (single (fun j => if j < n then (la.val "" j * lb.val "" j) * y "" 0 else 0)) k i'
          + lb.adj (single (fun j => if j < n then
              ((0.5 : K) * (la.val "" j * la.val "" j) - (0.5 : K) / lb.val "" j) * y "" 0 else 0)) k i',
        -- met = {kr: i, ki: 0.5 * i**(-2)} (use_full_fisher), sandwiched by the Jacobian of (a, b)
        metric := if wm then some (fun h k i' =>
            la.adj (single (fun j => if j < n then lb.val "" j * la.jac h "" j else 0)) k i'
            + lb.adj (single (fun j => if j < n then
                ((0.5 : K) / (lb.val "" j * lb.val "" j)) * lb.jac h "" j else 0)) k i') else none }

end defs
end NiftyVerif.Expr
