/-
  Model/Intern.lean — hash-consing of DomainTuple.make / MultiDomain.make (`_tupleCache`, `_domainCache`) and the
  pickle round trip through `__reduce__` (property C08).  A table is the list of descriptions in creation order;
  an object's identity is its index.  Core imports only.
-/

namespace NiftyVerif.Intern

variable {D : Type} [DecidableEq D]

/-- `obj = cache.get(desc); if obj is None: obj = new; cache[desc] = obj` -/
def make (t : List D) (d : D) : List D × Nat :=
  match t.idxOf? d with
  | some i => (t, i)
  | none => (t ++ [d], t.length)

/-- a history of `make` calls; returns the final table and the identities handed out -/
def makeAll : List D → List D → List D × List Nat
  | t, [] => (t, [])
  | t, d :: ds =>
    let (t1, i) := make t d
    let (t2, is_) := makeAll t1 ds
    (t2, i :: is_)

/-- the description stored in an object (what `__reduce__` hands to pickle) -/
def desc (t : List D) (i : Nat) : Option D := t[i]?

/-- pickle round trip: `make(desc(obj))` -/
def pickleRoundTrip (t : List D) (i : Nat) : Option (List D × Nat) := (desc t i).map (make t)

/-- `MultiDomain.__init__`: keys sorted, values in key order (insertion into the sorted association list) -/
def insertKV {V : Type} (kv : String × V) : List (String × V) → List (String × V)
  | [] => [kv]
  | x :: xs => if kv.1 < x.1 then kv :: x :: xs else if kv.1 = x.1 then kv :: xs else x :: insertKV kv xs

/-- the canonical description of a dict: later duplicates of a key overwrite, keys sorted -/
def canonKV {V : Type} : List (String × V) → List (String × V)
  | [] => []
  | kv :: rest => insertKV kv (canonKV rest)

end NiftyVerif.Intern
