/-
  Model of nifty/re/conjugate_gradient.py  `_cg` (eager Python loop with `break`s) and `_static_cg`
  (`lax.while_loop` body with `jnp.where` bookkeeping of `info`), transcribed statement by statement,
  parametric in the scalar type `K`, the vector type `V`, the inner product `ip` and the operator `mat`
  (DESIGN §2.2).  Core imports only.

  The model follows the REPAIRED code (fixes/C15_eager_negcurv_uphill.diff, C15_static_negcurv_zero_step.diff,
  C15_static_info_overwrite.diff):
    * first-step negative-curvature fallback:  pos := pos − γ/(−curv) · d      (both variants)
    * `_static_cg`: the energy-increase / absdelta / maxiter `where`s are masked by `info < −1`.

  Conventions
    * `norm_ord = 2` only; `norm < resnorm` is decided through squares (`normLt`), exact for γ ≥ 0.
    * `tiny`, `eps` (6·finfo.tiny, 6·finfo.eps) and `N_RESET` are configuration parameters.
    * `time_threshold`, `name` (logging) are not modelled; `nfev` is not part of the compared surface.
    * eager `raise ValueError(...)` is `Except.error`; the static variant reports `info = −1` instead.
-/

namespace NiftyVerif.CgRe

structure Cfg (K : Type) where
  absdelta : Option K
  resnorm : Option K
  tol : K
  atol : K
  miniter : Option Nat
  maxiter : Option Nat
  raiseNPD : Bool
  normTwo : Bool              -- `norm_ord == 2` (Euclidean norm, compared through squares); otherwise the norm `nrm`
  resnormSqrt : Option K      -- `resnorm = min(0.5, sqrt(m)) * m` as `_newton_cg` passes it (`m` = gradient magnitude)
  tiny : K
  eps : K
  nreset : Nat
  size : Nat

inductive Err where
  | zeroCurvature | negativeCurvature | energyIncreased
deriving DecidableEq, Repr

/-- why the loop stopped (bookkeeping for the theorems; not present in the code) -/
inductive Why where
  | startZero | zeroCurv | negCurvLater | negCurvFirst | gammaTiny | resnorm | energyIncreased | absdelta | maxiter
deriving DecidableEq, Repr

/-- `CGResults` (x, info, nit) plus ghost fields used only by theorems -/
structure Res (K V : Type) where
  x : V
  info : Int
  nit : Nat
  why : Why
  r : V          -- residual variable of the code at the stop
  gamma : K      -- last computed ⟨r,r⟩
  ediff : K      -- last computed energy difference (0 if none)

/-- the observable part of a result -/
structure Obs (V : Type) where
  x : V
  info : Int
  nit : Nat

def Res.obs {K V : Type} (r : Res K V) : Obs V := ⟨r.x, r.info, r.nit⟩

structure St (K V : Type) where
  pos : V
  r : V
  d : V
  energy : K
  gamma : K

structure SSt (K V : Type) where
  info : Int
  pos : V
  r : V
  d : V
  it : Nat
  gamma : K
  energy : K

def SSt.obs {K V : Type} (v : SSt K V) : Obs V := ⟨v.pos, v.info, v.it⟩

section
variable {K V : Type} [Add K] [Sub K] [Mul K] [Div K] [Neg K] [OfNat K 0] [OfNat K 1]
  [LT K] [LE K] [DecidableLT K] [DecidableLE K] [DecidableEq K]
  [Add V] [Sub V] [Neg V] [Zero V] [SMul K V]

def maxiterFallback (c : Cfg K) : Nat := 20 * c.size

/-- `miniter = min(6, maxiter if maxiter is not None else maxiter_fallback) if miniter is None else miniter` -/
def miniterEff (c : Cfg K) : Nat :=
  match c.miniter with
  | some m => m
  | none => min 6 (match c.maxiter with | some m => m | none => maxiterFallback c)

/-- `maxiter = max(min(200, maxiter_fallback), miniter) if maxiter is None else maxiter` -/
def maxiterEff (c : Cfg K) : Nat :=
  match c.maxiter with
  | some m => m
  | none => max (min 200 (maxiterFallback c)) (miniterEff c)

/-- `resnorm is not None` after `if absdelta is None and resnorm is None: resnorm = max(tol*‖j‖, atol)` -/
def resActive (c : Cfg K) : Bool := c.resnorm.isSome || c.resnormSqrt.isSome || c.absdelta.isNone

/-- `norm(r, ord=norm_ord) < resnorm`, sqrt-free.
    * `norm_ord = 2`: through squares (`γ = ⟨r,r⟩`, `‖j‖² = ⟨j,j⟩`);
    * other orders (1, ∞): with the norm `nrm` (exact on rationals), assumed non-negative;
    * `resnorm` explicit, or `min(1/2, √m)·m` (`resnormSqrt = some m`: `ρ > 0 ⇔ m > 0`, `ρ² = m²·min(1/4, m)`),
      or the fallback `max(tol·‖j‖, atol)`. -/
def normLt (c : Cfg K) (ip : V → V → K) (nrm : V → K) (j r : V) : Bool :=
  if c.normTwo then
    let g := ip r r
    match c.resnorm, c.resnormSqrt with
    | some rho, _ => decide (0 < rho) && decide (g < rho * rho)
    | none, some m => decide (0 < m) && decide ((1 + 1) * (1 + 1) * g < m * m) && decide (g < m * m * m)
    | none, none => (decide (0 < c.tol) && decide (g < c.tol * c.tol * ip j j))
                    || (decide (0 < c.atol) && decide (g < c.atol * c.atol))
  else
    let n := nrm r
    match c.resnorm, c.resnormSqrt with
    | some rho, _ => decide (n < rho)
    | none, some m => decide (0 < m) && decide ((1 + 1) * n < m) && decide (n * n < m * m * m)
    | none, none => decide (n < c.tol * nrm j) || decide (n < c.atol)

def half : K := 1 / (1 + 1)
def absK (a : K) : K := if a < 0 then -a else a
/-- Python `max(0, a)` / `jnp.maximum(0, a)` -/
def max0 (a : K) : K := if 0 < a then a else 0

/-- `vdot((r - j)/2, pos)` -/
def energyOf (ip : V → V → K) (j r pos : V) : K := ip ((half : K) • (r - j)) pos

def init (ip : V → V → K) (mat : V → V) (j : V) (x0 : Option V) : St K V :=
  match x0 with
  | none => { pos := 0, r := -j, d := -j, energy := 0, gamma := ip (-j) (-j) }
  | some x =>
    let r := mat x - j
    { pos := x, r := r, d := r, energy := energyOf ip j r x, gamma := ip r r }

inductive StepOut (K V : Type) where
  | stop (r : Except Err (Res K V))      -- `break` / `raise`
  | next (s : St K V)                    -- fall through to the next iteration

/-- body of the `for i in range(1, maxiter+1)` loop of `_cg` at iteration `i` -/
def eagerStep (c : Cfg K) (ip : V → V → K) (nrm : V → K) (mat : V → V) (j : V) (i : Nat) (s : St K V) : StepOut K V :=
  let q := mat s.d
  let curv := ip s.d q
  if curv = 0 then
    if c.raiseNPD then .stop (.error .zeroCurvature)
    else .stop (.ok ⟨s.pos, 0, i, .zeroCurv, s.r, s.gamma, 0⟩)
  else if curv < 0 then
    if c.raiseNPD then .stop (.error .negativeCurvature)
    else if 1 < i then .stop (.ok ⟨s.pos, 0, i, .negCurvLater, s.r, s.gamma, 0⟩)
    else .stop (.ok ⟨s.pos - (s.gamma / (-curv)) • s.d, 0, i, .negCurvFirst, s.r, s.gamma, 0⟩)
  else
    let alpha := s.gamma / curv
    let pos := s.pos - alpha • s.d
    let r := if i % c.nreset = 0 then mat pos - j else s.r - alpha • q
    let gamma := ip r r
    if 0 ≤ gamma ∧ gamma ≤ c.tiny then .stop (.ok ⟨pos, 0, i, .gammaTiny, r, gamma, 0⟩)
    else if resActive c = true ∧ normLt c ip nrm j r = true ∧ miniterEff c ≤ i then
      .stop (.ok ⟨pos, 0, i, .resnorm, r, gamma, 0⟩)
    else
      let newE := energyOf ip j r pos
      let ediff := s.energy - newE
      if ediff < -(c.eps * absK newE) then
        if c.raiseNPD then .stop (.error .energyIncreased)
        else .stop (.ok ⟨pos, (i : Int), i, .energyIncreased, r, gamma, ediff⟩)
      else if (match c.absdelta with | some a => decide (ediff < a) | none => false) = true
              ∧ miniterEff c ≤ i then
        .stop (.ok ⟨pos, 0, i, .absdelta, r, gamma, ediff⟩)
      else
        .next { pos := pos, r := r, d := max0 (gamma / s.gamma) • s.d + r, energy := newE, gamma := gamma }

/-- the `for i in range(1, maxiter+1)` loop of `_cg`; `fuel` = iterations left, `i` = current iteration;
    falling out of the loop leaves `info = -1`, which becomes `info = i` (the last value of the loop variable) -/
def eagerLoop (c : Cfg K) (ip : V → V → K) (nrm : V → K) (mat : V → V) (j : V) :
    Nat → Nat → St K V → Except Err (Res K V)
  | 0, i, s => .ok ⟨s.pos, ((i - 1 : Nat) : Int), i - 1, .maxiter, s.r, s.gamma, 0⟩
  | fuel + 1, i, s =>
    match eagerStep c ip nrm mat j i s with
    | .stop r => r
    | .next s' => eagerLoop c ip nrm mat j fuel (i + 1) s'

/-- `_cg` -/
def cgEager (c : Cfg K) (ip : V → V → K) (nrm : V → K) (mat : V → V) (j : V) (x0 : Option V) : Except Err (Res K V) :=
  let s := init ip mat j x0
  if s.gamma = 0 then .ok ⟨s.pos, 0, 0, .startZero, s.r, s.gamma, 0⟩
  else eagerLoop c ip nrm mat j (maxiterEff c) 1 s

/-- first `info` update of `cg_single_step`: `info = where(curv <= 0, where(_raise_nonposdef, -1, 0), info)` -/
def staticInfo1 (raise nonpos : Bool) (info : Int) : Int :=
  if nonpos then (if raise then -1 else 0) else info

/-- the remaining `info = jnp.where(...)` updates of `cg_single_step`, in program order, as a function of the
    boolean conditions computed from the numerical state (`tinyB`: `gamma >= 0 & gamma <= tiny`,
    `resAct`: `resnorm is not None`, `normB`: `norm < resnorm`, `eiB`: `energy_diff < neg_energy_eps`,
    `adB`: `absdelta is not None` and `energy_diff < absdelta`) -/
def staticInfo (raise : Bool) (i miniter maxiter : Nat) (info1 : Int) (tinyB resAct normB eiB adB : Bool) : Int :=
  -- info = where((gamma >= 0) & (gamma <= tiny) & (info != -1), 0, info)
  let info2 : Int := if tinyB && info1 != -1 then 0 else info1
  -- if resnorm is not None: info = where((norm < resnorm) & (i >= miniter) & (info != -1), 0, info)
  let info3 : Int := if resAct then (if normB && decide (miniter ≤ i) && info2 != -1 then 0 else info2) else info2
  -- info = where((energy_diff < neg_energy_eps) & (info < -1), where(_raise_nonposdef, -1, i), info)   [repaired mask]
  let info4 : Int := if eiB && decide (info3 < -1) then (if raise then -1 else (i : Int)) else info3
  -- if absdelta is not None: info = where((energy_diff < absdelta) & (i >= miniter) & (info < -1), 0, info)  [repaired]
  let info5 : Int := if adB && decide (miniter ≤ i) && decide (info4 < -1) then 0 else info4
  -- info = where((i >= maxiter) & (info < -1), i, info)                                                  [repaired]
  if decide (maxiter ≤ i) && decide (info5 < -1) then (i : Int) else info5

/-- `cg_single_step` of `_static_cg` -/
def staticStep (c : Cfg K) (ip : V → V → K) (nrm : V → K) (mat : V → V) (j : V) (v : SSt K V) : SSt K V :=
  let i := v.it + 1
  let q := mat v.d
  let curv := ip v.d q
  let alpha0 := v.gamma / curv
  let nonpos : Bool := decide (curv ≤ 0)
  let info1 : Int := staticInfo1 c.raiseNPD nonpos v.info
  let alpha : K := if nonpos && !c.raiseNPD then 0 else alpha0
  let pos1 := v.pos - alpha • v.d
  let pos := if decide (curv < 0) && !c.raiseNPD && decide (i ≤ 1) then pos1 - (v.gamma / (-curv)) • v.d else pos1
  let r := if decide (i % c.nreset = 0) && decide (info1 < -1) then mat pos - j else v.r - alpha • q
  let gamma := ip r r
  let energy := energyOf ip j r pos
  let ediff := v.energy - energy
  let info := staticInfo c.raiseNPD i (miniterEff c) (maxiterEff c) info1
    (decide (0 ≤ gamma) && decide (gamma ≤ c.tiny)) (resActive c) (normLt c ip nrm j r)
    (decide (ediff < -(c.eps * absK energy)))
    (match c.absdelta with | some a => decide (ediff < a) | none => false)
  let d := max0 (gamma / v.gamma) • v.d + r
  { info := info, pos := pos, r := r, d := d, it := i, gamma := gamma, energy := energy }

/-- `while_loop(continue_condition, cg_single_step, val)` with `continue_condition = info < -1` -/
def staticLoop (c : Cfg K) (ip : V → V → K) (nrm : V → K) (mat : V → V) (j : V) : Nat → SSt K V → SSt K V
  | 0, v => v
  | fuel + 1, v => if v.info < -1 then staticLoop c ip nrm mat j fuel (staticStep c ip nrm mat j v) else v

def staticInit (ip : V → V → K) (mat : V → V) (j : V) (x0 : Option V) : SSt K V :=
  let s := init ip mat j x0
  { info := if s.gamma = 0 then 0 else -2, pos := s.pos, r := s.r, d := s.d, it := 0,
    gamma := s.gamma, energy := s.energy }

/-- `_static_cg`; the loop needs at most `max maxiter 1` steps (`static_terminates`) -/
def cgStatic (c : Cfg K) (ip : V → V → K) (nrm : V → K) (mat : V → V) (j : V) (x0 : Option V) : SSt K V :=
  staticLoop c ip nrm mat j (maxiterEff c + 1) (staticInit ip mat j x0)

end
end NiftyVerif.CgRe
