/-
  C27 — option handling of the classic VI driver `nifty/cl/minimization/optimize_kl.py: optimize_kl`
  (everything before the iteration loop, and the control flow of the loop as far as it depends on options).
  Core imports only.  Transcribed in the order of the code:

      export_operator_outputs not a dict            -> TypeError
      'pickle' in export_operator_outputs           -> ValueError
      initial_index not an int                      -> TypeError
      save_strategy not in {all, latest}            -> ValueError
      output_directory is None and resume           -> ValueError
      (callable-or-constant normalisation)
      initial_index >= total_iterations             -> ValueError
      arity(transitions) != 1                       -> ValueError
      arity(inspect_callback) not in {1, 2}         -> ValueError
      arity(terminate_callback) != 1                -> ValueError
      likelihood target is not the scalar domain    -> TypeError
      if sanity_checks: per iteration isinstance checks -> TypeError ; sampling controller None with n_samples != 0 -> AssertionError
      module globals _output_directory/_save_strategy set        (as found: only if output_directory is not None)
      output_directory, not resuming: check_MPI_synced_random_state(comm(iglobal))
                                                    (as found: `iglobal` is unbound unless the sanity loop ran -> UnboundLocalError)
      fresh_stochasticity(0) false                  -> ValueError
      for iglobal in range(initial_index, total):   push_sseq; …; dry_run: continue; …; terminate_callback: break; pop_sseq
-/
namespace NiftyVerif.DriverCfg

inductive ErrKind where
  | typeError | valueError | assertionError | unboundLocalError
  deriving DecidableEq, Repr

/-- the options as far as the driver's decisions depend on them -/
structure Config where
  total : Nat
  initialIndex : Nat
  exportIsDict : Bool := true
  exportHasPickle : Bool := false
  initialIndexIsInt : Bool := true
  strategyValid : Bool := true
  outDir : Bool := false
  resume : Bool := false
  transitionsArity : Nat := 1
  inspectArity : Nat := 1
  terminateArity : Nat := 1
  targetScalar : Bool := true
  sanity : Bool := true
  typesOk : Bool := true            -- every isinstance check of the sanity loop passes
  ctrlNoneAt : List Bool := []       -- per global iteration: sampling_iteration_controller(i) is None (default false) …
  nSamplesAt : List Nat := []        -- … which is only allowed where n_samples(i) == 0 (default 1); constants = constant lists
  fresh0 : Bool := true              -- fresh_stochasticity(0)
  dryRun : Bool := false
  terminateAt : Option Nat := none   -- first global iteration at which terminate_callback returns True
  returnFinal : Bool := false
  prevOutDir : Bool := false         -- an earlier call in this process had an output directory
  deriving Repr

/-- n_samples(i) and "controller(i) is None" -/
def Config.nAt (c : Config) (i : Nat) : Nat := (c.nSamplesAt[i]?).getD 1
def Config.ctrlNone (c : Config) (i : Nat) : Bool := (c.ctrlNoneAt[i]?).getD false

/-- the sanity loop's `myassert(n_samples(i) == 0)` fails for some iteration of this call -/
def Config.ctrlBad (c : Config) : Bool :=
  (List.range (c.total - c.initialIndex)).any (fun k => c.ctrlNone (c.initialIndex + k) && c.nAt (c.initialIndex + k) != 0)

/-- number of samples in the list returned after `its` minimised iterations: that of the last one carried out
    (MAP iteration: 1; VI iteration: 2 n mirrored samples; nothing carried out: the single initial sample) -/
def Config.nResult (c : Config) (its : Nat) : Nat :=
  if its = 0 then 1 else
    let last := c.initialIndex + its - 1
    if c.nAt last = 0 then 1 else 2 * c.nAt last

/-- which version of the code -/
inductive Version where
  | asFound | repaired
  deriving DecidableEq, Repr

/-- what a successful call looks like from outside -/
structure Shape where
  iterations : Nat          -- iterations for which an energy was minimised
  nResult : Nat             -- number of samples in the returned sample list
  arity : Nat               -- 2 with return_final_position, else 1
  writesFiles : Bool        -- files are written (into the current or — as found — a stale output directory)
  stackDelta : Int          -- depth of nifty.cl.random's stack after minus before
  deriving DecidableEq, Repr

/-- the documented constraints, over the Boolean facts about a configuration -/
def validB (exportIsDict exportHasPickle initialIndexIsInt strategyValid outDir resume idxOk trOk inOk teOk targetScalar
    sanity typesOk ctrlBad fresh0 : Bool) : Bool :=
  exportIsDict && !exportHasPickle && initialIndexIsInt && strategyValid && !(!outDir && resume) && idxOk && trOk && inOk &&
  teOk && targetScalar && (!sanity || (typesOk && !ctrlBad)) && fresh0

/-- the checks before the loop, in the order of the code: first failing one wins -/
def precheckB (v : Version) (exportIsDict exportHasPickle initialIndexIsInt strategyValid outDir resume idxOk trOk inOk teOk
    targetScalar sanity typesOk ctrlBad fresh0 : Bool) : Except ErrKind Unit :=
  if !exportIsDict then .error .typeError
  else if exportHasPickle then .error .valueError
  else if !initialIndexIsInt then .error .typeError
  else if !strategyValid then .error .valueError
  else if !outDir && resume then .error .valueError
  else if !idxOk then .error .valueError
  else if !trOk then .error .valueError
  else if !inOk then .error .valueError
  else if !teOk then .error .valueError
  else if !targetScalar then .error .typeError
  else if sanity && !typesOk then .error .typeError
  else if sanity && ctrlBad then .error .assertionError
  else if v == .asFound && outDir && !resume && !sanity then .error .unboundLocalError
  else if !fresh0 then .error .valueError
  else .ok ()

def isOk {α : Type} : Except ErrKind α → Bool
  | .ok _ => true
  | .error _ => false

def valid (c : Config) : Bool :=
  validB c.exportIsDict c.exportHasPickle c.initialIndexIsInt c.strategyValid c.outDir c.resume
    (decide (c.initialIndex < c.total)) (c.transitionsArity == 1) (c.inspectArity == 1 || c.inspectArity == 2)
    (c.terminateArity == 1) c.targetScalar c.sanity c.typesOk c.ctrlBad c.fresh0

def precheck (v : Version) (c : Config) : Except ErrKind Unit :=
  precheckB v c.exportIsDict c.exportHasPickle c.initialIndexIsInt c.strategyValid c.outDir c.resume
    (decide (c.initialIndex < c.total)) (c.transitionsArity == 1) (c.inspectArity == 1 || c.inspectArity == 2)
    (c.terminateArity == 1) c.targetScalar c.sanity c.typesOk c.ctrlBad c.fresh0

/-- the loop `for iglobal in range(j, total)` as far as push/pop and early exits are concerned:
    returns (iterations minimised, stack depth change). `fuel = total - j`. -/
def loopEffect (v : Version) (c : Config) : Nat → Nat → Nat × Int
  | 0, _ => (0, 0)
  | fuel + 1, j =>
    -- push_sseq(sseqs[j])
    if c.dryRun then
      -- `continue`: as found without pop_sseq
      let r := loopEffect v c fuel (j + 1)
      (r.1, r.2 + (if v == .asFound then 1 else 0))
    else if c.terminateAt == some j then
      -- iteration j is carried out, then `break`: as found without pop_sseq
      (1, if v == .asFound then 1 else 0)
    else
      let r := loopEffect v c fuel (j + 1)
      (r.1 + 1, r.2)

def expectedShape (c : Config) : Shape :=
  let its := if c.dryRun then 0 else
    match c.terminateAt with
    | some t => if c.initialIndex ≤ t ∧ t < c.total then t - c.initialIndex + 1 else c.total - c.initialIndex
    | none => c.total - c.initialIndex
  { iterations := its
    nResult := c.nResult its
    arity := if c.returnFinal then 2 else 1
    writesFiles := c.outDir && its != 0
    stackDelta := 0 }

/-- one call of the driver (not resuming from files): error kind or shape -/
def accepts (v : Version) (c : Config) : Except ErrKind Shape :=
  match precheck v c with
  | .error e => .error e
  | .ok _ =>
    let r := loopEffect v c (c.total - c.initialIndex) c.initialIndex
    .ok { iterations := r.1
          nResult := c.nResult r.1
          arity := if c.returnFinal then 2 else 1
          writesFiles := (c.outDir || (v == .asFound && c.prevOutDir)) && r.1 != 0
          stackDelta := r.2 }

end NiftyVerif.DriverCfg
