/-
  C27 — option handling of the classic VI driver `nifty/cl/minimization/optimize_kl.py: optimize_kl`
  (everything before the iteration loop, and the control flow of the loop as far as it depends on options).
  Core imports only.  Transcribed in the order of the code:

      export_operator_outputs not a dict            -> TypeError
      'pickle' in export_operator_outputs           -> ValueError
      initial_index not an int                      -> TypeError
      save_strategy not in {all, latest}            -> ValueError
      output_directory is None and resume           -> ValueError
      (callable-or-constant normalisation)
      initial_index >= total_iterations             -> ValueError
      arity(transitions) != 1                       -> ValueError
      arity(inspect_callback) not in {1, 2}         -> ValueError
      arity(terminate_callback) != 1                -> ValueError
      likelihood target is not the scalar domain    -> TypeError
      if sanity_checks: per iteration isinstance checks -> TypeError ; sampling controller None with n_samples != 0 -> AssertionError
      module globals _output_directory/_save_strategy set        (as found: only if output_directory is not None)
      output_directory, not resuming: check_MPI_synced_random_state(comm(iglobal))
                                                    (as found: `iglobal` is unbound unless the sanity loop ran -> UnboundLocalError)
      fresh_stochasticity(0) false                  -> ValueError
      for iglobal in range(initial_index, total):   push_sseq; …; dry_run: continue; …; terminate_callback: break; pop_sseq
-/
namespace NiftyVerif.DriverCfg

inductive ErrKind where
  | typeError | valueError | assertionError | unboundLocalError
  deriving DecidableEq, Repr

/-- the options as far as the driver's decisions depend on them -/
structure Config where
  total : Nat
  initialIndex : Nat
  exportIsDict : Bool := true
  exportHasPickle : Bool := false
  initialIndexIsInt : Bool := true
  strategyValid : Bool := true
  outDir : Bool := false
  resume : Bool := false
  transitionsArity : Nat := 1
  inspectArity : Nat := 1
  terminateArity : Nat := 1
  targetScalar : Bool := true
  sanity : Bool := true
  typesOk : Bool := true            -- every isinstance check of the sanity loop passes
  ctrlNoneAt : List Bool := []       -- per global iteration: sampling_iteration_controller(i) is None (default false) …
  nSamplesAt : List Nat := []        -- … which is only allowed where n_samples(i) == 0 (default 1); constants = constant lists
  freshAt : List Bool := []          -- fresh_stochasticity(i) per global iteration (default true)
  hasTransitions : Bool := false     -- a `transitions` callable was given
  hasInspect : Bool := false         -- an `inspect_callback` was given
  hasTerminate : Bool := false       -- a `terminate_callback` was given
  dryRun : Bool := false
  terminateAt : Option Nat := none   -- first global iteration at which terminate_callback returns True
  returnFinal : Bool := false
  prevOutDir : Bool := false         -- an earlier call in this process had an output directory
  deriving Repr

/-- fresh_stochasticity(i) -/
def Config.fresh (c : Config) (i : Nat) : Bool := (c.freshAt[i]?).getD true

/-- n_samples(i) and "controller(i) is None" -/
def Config.nAt (c : Config) (i : Nat) : Nat := (c.nSamplesAt[i]?).getD 1
def Config.ctrlNone (c : Config) (i : Nat) : Bool := (c.ctrlNoneAt[i]?).getD false

/-- the sanity loop's `myassert(n_samples(i) == 0)` fails for some iteration of this call -/
def Config.ctrlBad (c : Config) : Bool :=
  (List.range (c.total - c.initialIndex)).any (fun k => c.ctrlNone (c.initialIndex + k) && c.nAt (c.initialIndex + k) != 0)

/-- number of samples in the list returned after `its` minimised iterations: that of the last one carried out
    (MAP iteration: 1; VI iteration: 2 n mirrored samples; nothing carried out: the single initial sample) -/
def Config.nResult (c : Config) (its : Nat) : Nat :=
  if its = 0 then 1 else
    let last := c.initialIndex + its - 1
    if c.nAt last = 0 then 1 else 2 * c.nAt last

/-- which version of the code -/
inductive Version where
  | asFound | repaired
  deriving DecidableEq, Repr

/-- what a successful call looks like from outside -/
structure Shape where
  iterations : Nat          -- iterations for which an energy was minimised
  nResult : Nat             -- number of samples in the returned sample list
  arity : Nat               -- 2 with return_final_position, else 1
  writesFiles : Bool        -- files are written (into the current or — as found — a stale output directory)
  stackDelta : Int          -- depth of nifty.cl.random's stack after minus before
  seedsRepeat : List Bool   -- per pushed iteration after the first: does it use the SAME seeds as the iteration before?
  transitionCalls : List Nat  -- global iterations `transitions` was called with, in order
  inspectCalls : List Nat     -- … `inspect_callback` (its second argument, or the iteration it was called in)
  terminateCalls : List Nat   -- … `terminate_callback`
  deriving DecidableEq, Repr

/-- the documented constraints, over the Boolean facts about a configuration -/
def validB (exportIsDict exportHasPickle initialIndexIsInt strategyValid outDir resume idxOk trOk inOk teOk targetScalar
    sanity typesOk ctrlBad fresh0 : Bool) : Bool :=
  exportIsDict && !exportHasPickle && initialIndexIsInt && strategyValid && !(!outDir && resume) && idxOk && trOk && inOk &&
  teOk && targetScalar && (!sanity || (typesOk && !ctrlBad)) && fresh0

/-- the checks before the loop, in the order of the code: first failing one wins -/
def precheckB (v : Version) (exportIsDict exportHasPickle initialIndexIsInt strategyValid outDir resume idxOk trOk inOk teOk
    targetScalar sanity typesOk ctrlBad fresh0 : Bool) : Except ErrKind Unit :=
  if !exportIsDict then .error .typeError
  else if exportHasPickle then .error .valueError
  else if !initialIndexIsInt then .error .typeError
  else if !strategyValid then .error .valueError
  else if !outDir && resume then .error .valueError
  else if !idxOk then .error .valueError
  else if !trOk then .error .valueError
  else if !inOk then .error .valueError
  else if !teOk then .error .valueError
  else if !targetScalar then .error .typeError
  else if sanity && !typesOk then .error .typeError
  else if sanity && ctrlBad then .error .assertionError
  else if v == .asFound && outDir && !resume && !sanity then .error .unboundLocalError
  else if !fresh0 then .error .valueError
  else .ok ()

def isOk {α : Type} : Except ErrKind α → Bool
  | .ok _ => true
  | .error _ => false

def valid (c : Config) : Bool :=
  validB c.exportIsDict c.exportHasPickle c.initialIndexIsInt c.strategyValid c.outDir c.resume
    (decide (c.initialIndex < c.total)) (c.transitionsArity == 1) (c.inspectArity == 1 || c.inspectArity == 2)
    (c.terminateArity == 1) c.targetScalar c.sanity c.typesOk c.ctrlBad (c.fresh 0)

def precheck (v : Version) (c : Config) : Except ErrKind Unit :=
  precheckB v c.exportIsDict c.exportHasPickle c.initialIndexIsInt c.strategyValid c.outDir c.resume
    (decide (c.initialIndex < c.total)) (c.transitionsArity == 1) (c.inspectArity == 1 || c.inspectArity == 2)
    (c.terminateArity == 1) c.targetScalar c.sanity c.typesOk c.ctrlBad (c.fresh 0)

/-! ### seed-sequence bookkeeping
    `sseqs = spawn_sseq(total)` gives `total` distinct sequences (numbered 0 … total-1, spawn counter 0); then, in order of i,
    `if not fresh_stochasticity(i): sseqs[i] = <duplicate of sseqs[i-1]>`.  An iteration pushes its sequence and the sampling
    spawns `spawns i` children from it (the sequence's spawn counter advances).  What an iteration draws is determined by
    (number of the sequence, spawn counter at push). -/

inductive SeqImpl where
  | duplicate      -- the code: a NEW SeedSequence with the same entropy/spawn_key (counter 0)
  | shared         -- a wrong variant: the previous iteration's OBJECT is reused (its counter has advanced)
  deriving DecidableEq, Repr

/-- number of the spawned sequence iteration `i` uses -/
def keyOf (fresh : Nat → Bool) : Nat → Nat
  | 0 => 0
  | i + 1 => if fresh (i + 1) then i + 1 else keyOf fresh i

/-- spawn counter of iteration `i`'s sequence object at the moment it is pushed -/
def ctrAtPush (impl : SeqImpl) (fresh : Nat → Bool) (spawns : Nat → Nat) : Nat → Nat
  | 0 => 0
  | i + 1 =>
    match impl with
    | .duplicate => 0
    | .shared => if fresh (i + 1) then 0 else ctrAtPush impl fresh spawns i + spawns i

/-- the seeds of iteration `i` -/
def seedsOf (impl : SeqImpl) (fresh : Nat → Bool) (spawns : Nat → Nat) (i : Nat) : Nat × Nat :=
  (keyOf fresh i, ctrAtPush impl fresh spawns i)

/-- number of children the sampling of iteration `i` spawns: one per sample pair (none for MAP / dry runs) -/
def Config.spawns (c : Config) (i : Nat) : Nat := if c.dryRun then 0 else c.nAt i

/-- for the pushed iterations j+1 … j+len: same seeds as the iteration before? -/
def seedsRepeatFrom (impl : SeqImpl) (c : Config) (j : Nat) : Nat → List Bool
  | 0 => []
  | len + 1 => decide (seedsOf impl c.fresh c.spawns (j + 1) = seedsOf impl c.fresh c.spawns j) ::
      seedsRepeatFrom impl c (j + 1) len

/-- the loop `for iglobal in range(j, total)` as far as push/pop and early exits are concerned:
    returns (iterations minimised, stack depth change). `fuel = total - j`. -/
def loopEffect (v : Version) (c : Config) : Nat → Nat → Nat × Int
  | 0, _ => (0, 0)
  | fuel + 1, j =>
    -- push_sseq(sseqs[j])
    if c.dryRun then
      -- `continue`: as found without pop_sseq
      let r := loopEffect v c fuel (j + 1)
      (r.1, r.2 + (if v == .asFound then 1 else 0))
    else if c.terminateAt == some j then
      -- iteration j is carried out, then `break`: as found without pop_sseq
      (1, if v == .asFound then 1 else 0)
    else
      let r := loopEffect v c fuel (j + 1)
      (r.1 + 1, r.2)

/-- number of iterations that push their seed sequence (dry-run iterations push too; a terminated run stops pushing) -/
def Config.pushed (c : Config) : Nat :=
  if c.dryRun then c.total - c.initialIndex else
    match c.terminateAt with
    | some t => if c.initialIndex ≤ t ∧ t < c.total then t - c.initialIndex + 1 else c.total - c.initialIndex
    | none => c.total - c.initialIndex

def iterList (j n : Nat) : List Nat := (List.range n).map (· + j)

def expectedShape (c : Config) : Shape :=
  let its := if c.dryRun then 0 else
    match c.terminateAt with
    | some t => if c.initialIndex ≤ t ∧ t < c.total then t - c.initialIndex + 1 else c.total - c.initialIndex
    | none => c.total - c.initialIndex
  { iterations := its
    nResult := c.nResult its
    arity := if c.returnFinal then 2 else 1
    writesFiles := c.outDir && its != 0
    stackDelta := 0
    seedsRepeat := (iterList (c.initialIndex + 1) (c.pushed - 1)).map (fun i => !c.fresh i)
    transitionCalls := if c.hasTransitions then iterList c.initialIndex c.pushed else []
    inspectCalls := if c.hasInspect then iterList c.initialIndex its else []
    terminateCalls := if c.hasTerminate then iterList c.initialIndex its else [] }

/-- one call of the driver (not resuming from files): error kind or shape -/
def accepts (v : Version) (c : Config) : Except ErrKind Shape :=
  match precheck v c with
  | .error e => .error e
  | .ok _ =>
    let r := loopEffect v c (c.total - c.initialIndex) c.initialIndex
    .ok { iterations := r.1
          nResult := c.nResult r.1
          arity := if c.returnFinal then 2 else 1
          writesFiles := (c.outDir || (v == .asFound && c.prevOutDir)) && r.1 != 0
          stackDelta := r.2
          seedsRepeat := seedsRepeatFrom .duplicate c c.initialIndex (c.pushed - 1)
          transitionCalls := if c.hasTransitions then iterList c.initialIndex c.pushed else []
          inspectCalls := if c.hasInspect then iterList c.initialIndex r.1 else []
          terminateCalls := if c.hasTerminate then iterList c.initialIndex r.1 else [] }

end NiftyVerif.DriverCfg
