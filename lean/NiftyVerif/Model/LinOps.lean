/-
  One constructor function per library linear-operator class of `nifty/cl/operators/*`: from the
  constructor configuration (shapes, spaces, index arrays, flags, volume factors) to a `Coo`.
  Transcribed from the `__init__`/`apply` bodies; the TIMES matrix is modelled, ADJOINT_TIMES is `Coo.adj`
  of it, inverse modes are given explicitly where the class advertises them.  Core only.
  Index conventions: fields are raveled row-major; since every sub-domain's axes are contiguous, an operator
  that acts at sub-domain granularity only needs the list of sub-domain sizes.
-/
import NiftyVerif.Model.Coo

namespace NiftyVerif.LinOps
open NiftyVerif Coo

variable {K : Type}

/-- volume element of a sub-domain: `scalar_dvol` or an array of the sub-domain's shape -/
inductive DVol (K : Type) where
  | scalar (v : K)
  | vec (l : List K)

structure SubDom (K : Type) where
  shape : List Nat
  dvol : DVol K

def SubDom.size (s : SubDom K) : Nat := prodL s.shape

/-- volume of pixel `i` (flat index inside the sub-domain) -/
def SubDom.w [OfNat K 0] (s : SubDom K) (i : Nat) : K :=
  match s.dvol with
  | .scalar v => v
  | .vec l => l.getD i 0

def powN [Mul K] [OfNat K 1] (a : K) : Nat → K
  | 0 => 1
  | n + 1 => a * powN a n

/-- integer power (`dvol ** power`) -/
def powI [Mul K] [OfNat K 1] [Inv K] (a : K) (p : Int) : K :=
  if p ≥ 0 then powN a p.toNat else powN a⁻¹ (-p).toNat

def prodK [Mul K] [OfNat K 1] : List K → K
  | [] => 1
  | a :: l => a * prodK l

/-- `utilities.parse_spaces`: `none` = all spaces; error on out-of-range / duplicates -/
def parseSpaces (spaces : Option (List Nat)) (nspc : Nat) : Except String (List Nat) :=
  match spaces with
  | none => .ok (List.range nspc)
  | some l =>
    if l.isEmpty then .ok l
    else if l.any (fun s => decide (s ≥ nspc)) then .error "ValueError"
    else if l.eraseDups.length ≠ l.length then .error "ValueError"
    else .ok l

/-- `Field.weight(power, spaces)` factor at full flat index `c`: `Π_{s∈spaces} dvol_s[i_s] ** power` -/
def weightAt [Mul K] [OfNat K 0] [OfNat K 1] [Inv K] (doms : List (SubDom K)) (spaces : List Nat) (power : Int)
    (c : Nat) : K :=
  let idx := unravel (doms.map SubDom.size) c
  prodK (spaces.map fun s =>
    match doms[s]? with
    | some d => powI (d.w (idx.getD s 0)) power
    | none => 1)

/-- ContractionOperator(domain, spaces, power) / IntegrationOperator (power = 1) -/
def contraction [Mul K] [OfNat K 0] [OfNat K 1] [Inv K] (doms : List (SubDom K)) (spaces : List Nat) (power : Int) :
    Coo K :=
  let sizes := doms.map SubDom.size
  let kept := (List.range doms.length).filter fun i => !spaces.contains i
  let ksizes := kept.map fun i => sizes.getD i 1
  ofCols (prodL ksizes) (prodL sizes) fun c =>
    let idx := unravel sizes c
    [(ravel ksizes (kept.map fun i => idx.getD i 0), if power = 0 then 1 else weightAt doms spaces power c)]

/-- WeightApplier(domain, spaces, power): diagonal; modes 1,2 use `power`, modes 4,8 `-power` -/
def weightApplier [Mul K] [OfNat K 0] [OfNat K 1] [Inv K] (doms : List (SubDom K)) (spaces : List Nat) (power : Int) :
    Coo K :=
  diag (prodL (doms.map SubDom.size)) fun c => weightAt doms spaces power c

/-- DOFDistributor / PowerDistributor: target `(pre, n, post)` ← domain `(pre, nbin, post)` through `dofdex` -/
def distributor [OfNat K 1] (pre post nbin : Nat) (dofdex : List Nat) : Coo K :=
  onAxis pre post (gather dofdex.length nbin fun p => dofdex.getD p 0)

/-- bin volumes of the DOFSpace built by DOFDistributor: `bincount(dofdex, weights = dvol)` -/
def binWeights [Add K] [OfNat K 0] (nbin : Nat) (dofdex : List Nat) (w : Nat → K) : List K :=
  (List.range nbin).map fun b => sumL ((List.range dofdex.length).map fun p => if dofdex.getD p 0 = b then w p else 0)

/-- indices of the unflagged pixels, in order -/
def unflagged (flags : List Bool) : List Nat := (List.range flags.length).filter fun i => !(flags.getD i true)

/-- MaskOperator(flags): keeps the unflagged pixels in raveled order -/
def mask [OfNat K 1] (flags : List Bool) : Coo K :=
  let u := unflagged flags
  gather u.length flags.length fun r => u.getD r 0

/-- ValueInserter(target, index): scalar ↦ field that is zero except at `index` -/
def valueInserter [OfNat K 1] (shape index : List Nat) : Coo K :=
  ⟨prodL shape, 1, [(ravel shape index, 0, 1)]⟩

/-- DomainTupleFieldInserter(target, space, index): sizes `(pre, n, post)`, position `p` inside the new space -/
def fieldInserter [OfNat K 1] (pre n post p : Nat) : Coo K :=
  onAxis pre post ⟨n, 1, [(p, 0, 1)]⟩

/-- TransposeOperator(domain, indices): target sub-domain `j` is domain sub-domain `perm[j]` -/
def transpose [OfNat K 1] (sizes : List Nat) (perm : List Nat) : Coo K :=
  let tsizes := perm.map fun k => sizes.getD k 1
  gather (prodL tsizes) (prodL sizes) fun r =>
    let tidx := unravel tsizes r
    ravel sizes ((List.range sizes.length).map fun k => tidx.getD (perm.idxOf k) 0)

/-- select / reorder blocks of a key-sorted multi-domain layout; `dom` and `tgt` are (key, size) lists -/
def sortKeys (l : List (String × Nat)) : List (String × Nat) := l.mergeSort fun a b => !(b.1 < a.1)

def blockOffset (l : List (String × Nat)) (key : String) : Nat :=
  ((l.takeWhile fun kv => kv.1 != key).map Prod.snd).foldl (· + ·) 0

/-- block copy operator: for every block `(ro, co, n)` rows `ro … ro+n-1` copy columns `co … co+n-1` -/
def blockOps [OfNat K 1] (rows cols : Nat) (bs : List (Nat × Nat × Nat)) : Coo K :=
  ⟨rows, cols, bs.flatMap fun b => (List.range b.2.2).map fun i => (b.1 + i, b.2.1 + i, (1 : K))⟩

/-- cumulative row offsets of consecutive blocks of sizes `ns` -/
def offsets : Nat → List Nat → List Nat
  | _, [] => []
  | o, n :: ns => o :: offsets (o + n) ns

/-- target block with key `k` is domain block with key `ren k` (PartialExtractor, _SlowFieldAdapter,
    PrependKey, FieldAdapter, Multifield2Vector): both layouts are the key-sorted concatenation of their blocks -/
def blockSelect [OfNat K 1] (dom : List (String × Nat)) (tgt : List (String × String)) : Coo K :=
  let d := sortKeys dom
  let t := (tgt.mergeSort fun a b => !(b.1 < a.1)).map fun kk =>
    (blockOffset d kk.2, ((d.find? fun kv => kv.1 == kk.2).map Prod.snd).getD 0)
  let ns := t.map Prod.snd
  let cols := (d.map Prod.snd).foldl (· + ·) 0
  blockOps (ns.foldl (· + ·) 0) cols ((offsets 0 ns).zip t)

/-- OuterProduct(domain, field): `y[i, j] = f[i] · x[j]` -/
def outerProduct [OfNat K 0] (n : Nat) (f : List K) : Coo K :=
  ofRows (f.length * n) n fun r => [(r % n, f.getD (r / n) 0)]

/-- VdotOperator(field): `y = Σ conj(f[c]) x[c]` -/
def vdot [OfNat K 0] (cj : K → K) (f : List K) : Coo K :=
  ofRows 1 f.length fun _ => (List.range f.length).map fun c => (c, cj (f.getD c 0))

/-- apply 1-D operators along consecutive axes `d0, d0+1, …` of an array of shape `sh`, in the order and
    with the evolving shape of the code's `for d in axes` loops -/
def alongAxes [Mul K] [OfNat K 1] (sh : List Nat) (d0 : Nat) (ops : List (Option (Coo K))) : Coo K :=
  ((ops.foldl (fun (st : Coo K × List Nat × Nat) (M : Option (Coo K)) =>
      let (tot, cur, d) := st
      match M with
      | none => (tot, cur, d + 1)
      | some M =>
        let pre := prodL (cur.take d)
        let post := prodL (cur.drop (d + 1))
        (comp (onAxis pre post M) tot, cur.set d M.rows, d + 1))
    (ident (prodL sh), sh, d0))).1

/-- one axis of FieldZeroPadder, TIMES: length `n` → `N ≥ n` -/
def pad1 [OfNat K 1] (n N : Nat) (central : Bool) : Coo K :=
  if central then
    let ny := n / 2
    ofCols N n fun i =>
      (if i ≤ ny then [(i, 1)] else []) ++ (if n - ny ≤ i then [(N - n + i, 1)] else [])
  else ofCols N n fun i => [(i, 1)]

/-- FieldZeroPadder(domain, new_shape, space, central): `sh` full array shape, axes `d0 …` get `newShape` -/
def padder [Mul K] [OfNat K 1] (sh : List Nat) (d0 : Nat) (newShape : List Nat) (central : Bool) : Coo K :=
  alongAxes sh d0 ((List.range newShape.length).map fun k =>
    let n := sh.getD (d0 + k) 0
    let N := newShape.getD k 0
    if n = N then none else some (pad1 n N central))

/-- one axis of RegriddingOperator: `n` old pixels → `N ≤ n` new ones; position `j·n/N`, base index clamped
    to `[0, n-2]`, neighbour clamped to `n-1` (an axis of length 1 has only pixel 0), linear weights.
    `q a b` is the scalar `a / b`. -/
def regrid1 [Sub K] [OfNat K 1] (q : Nat → Nat → K) (n N : Nat) : Coo K :=
  ofRows N n fun j =>
    let b := min (n - 2) (j * n / N)
    let b1 := min (n - 1) (b + 1)
    -- frac = j·n/N − b
    let frac : K := q (j * n - b * N) N
    [(b, 1 - frac), (b1, frac)]

def regridding [Mul K] [Sub K] [OfNat K 1] (q : Nat → Nat → K) (sh : List Nat) (d0 : Nat) (newShape : List Nat) :
    Coo K :=
  alongAxes sh d0 ((List.range newShape.length).map fun k =>
    some (regrid1 q (sh.getD (d0 + k) 0) (newShape.getD k 0)))

/-- selection of index lists per axis (outer product of the per-axis selections), used by SliceOperator and
    SplitOperator: `y[k_0, k_1, …] = x[sel_0[k_0], sel_1[k_1], …]` -/
def axisSelect [OfNat K 1] (sh : List Nat) (sel : List (List Nat)) : Coo K :=
  let lens := sel.map List.length
  gather (prodL lens) (prodL sh) fun r =>
    let k := unravel lens r
    ravel sh ((List.range sh.length).map fun d => (sel.getD d []).getD (k.getD d 0) 0)

/-- SliceOperator, one axis: `npix` consecutive pixels, starting at `floor((n − npix)/2)` when centred, else at 0 -/
def sliceSel (n npix : Nat) (center : Bool) : List Nat :=
  (List.range npix).map fun k => (if center then (n - npix) / 2 else 0) + k

/-- indices selected by a Python slice `start:stop:step` (step > 0, 0 ≤ start) on an axis of length `n` -/
def sliceIdx (start stop step n : Nat) : List Nat :=
  let stop' := min stop n
  if step = 0 then [] else
  (List.range ((stop' - start + step - 1) / step)).map fun k => start + k * step

/-- ExtractAtIndices(domain, indices, space): `(pre, n, post)` → `(pre, L, post)`, picks flat sub-index `idx[k]` -/
def extractAt [OfNat K 1] (pre n post : Nat) (idx : List Nat) : Coo K :=
  onAxis pre post (gather idx.length n fun k => idx.getD k 0)

/-- one axis of FFTShiftOperator (`np.fft.fftshift`): `y[(i + n/2) % n] = x[i]` -/
def shift1 [OfNat K 1] (n : Nat) (inverse : Bool) : Coo K :=
  gather n n fun j => if inverse then (j + n / 2) % n else (j + (n - n / 2)) % n

def fftshift [Mul K] [OfNat K 1] (sh : List Nat) (axes : List Nat) (inverse : Bool) : Coo K :=
  alongAxes sh 0 ((List.range sh.length).map fun d =>
    if axes.contains d then some (shift1 (sh.getD d 0) inverse) else none)

/-- MatrixProductOperator on the middle block of `(pre, n, post)` (`spaces` contiguous) or on everything
    (`flatten` / 1-D): `y[a, i, b] = Σ_j m[i, j] x[a, j, b]`, `m` given row-major `n × n` -/
def matrixProduct [OfNat K 0] (pre n post : Nat) (m : List K) : Coo K :=
  onAxis pre post (ofRows n n fun i => (List.range n).map fun j => (j, m.getD (i * n + j) 0))

/-- MatrixProductOperator on an arbitrary (also non-contiguous, also unsorted) tuple of sub-domains `spaces`:
    `y[idx] = Σ_t m[idx|spaces, t] · x[idx with the spaces-part replaced by t]`; `m` row-major over
    `(Π sizes[spaces]) × (Π sizes[spaces])` -/
def matrixProductSp [OfNat K 0] (sizes spaces : List Nat) (m : List K) : Coo K :=
  let asizes := spaces.map fun s => sizes.getD s 1
  let nact := prodL asizes
  ofRows (prodL sizes) (prodL sizes) fun r =>
    let idx := unravel sizes r
    let arow := ravel asizes (spaces.map fun s => idx.getD s 0)
    (List.range nact).map fun t =>
      let aidx := unravel asizes t
      let cidx := (List.range sizes.length).map fun k =>
        if spaces.contains k then aidx.getD (spaces.idxOf k) 0 else idx.getD k 0
      (ravel sizes cidx, m.getD (arow * nact + t) 0)

/-! real-linear operators on real-doubled coordinates `(re_0, im_0, re_1, im_1, …)` -/

/-- ConjugationOperator -/
def conjugation [Neg K] [OfNat K 1] (n : Nat) : Coo K :=
  diag (2 * n) fun r => if r % 2 = 0 then 1 else -1

/-- PartialConjugate: conjugate only inside the flat ranges `[lo, hi)` of the conjugated keys -/
def partialConj [Neg K] [OfNat K 1] (n : Nat) (ranges : List (Nat × Nat)) : Coo K :=
  diag (2 * n) fun r =>
    if r % 2 = 1 ∧ ranges.any (fun lh => decide (lh.1 ≤ r / 2) && decide (r / 2 < lh.2)) then -1 else 1

/-- Realizer (both modes): keep the real part -/
def realizer [OfNat K 1] (n : Nat) : Coo K :=
  ofRows (2 * n) (2 * n) fun r => if r % 2 = 0 then [(r, 1)] else []

/-- Imaginizer TIMES: `re_out = im_in` -/
def imaginizer [OfNat K 1] (n : Nat) : Coo K :=
  ofRows (2 * n) (2 * n) fun r => if r % 2 = 0 then [(r + 1, 1)] else []

/-- LinearEinsum(domain, mf, subscripts): operands `ops` = (letters, flat data) of the static fields in key order,
    `xs` the letters of the input, `os` the letters of the output, `sz` the size of each letter (one letter per
    sub-domain).  `y[os] = Σ_{other letters} Π_k mf_k[letters_k] · x[xs]` — one COO entry per assignment of all letters. -/
def einsum [Mul K] [OfNat K 0] [OfNat K 1] (letters : List Char) (sz : Char → Nat)
    (ops : List (List Char × List K)) (xs os : List Char) : Coo K :=
  let sizes := letters.map sz
  let val := fun (a : List Nat) (c : Char) => a.getD (letters.idxOf c) 0
  let flat := fun (a : List Nat) (ls : List Char) => ravel (ls.map sz) (ls.map (val a))
  ⟨prodL (os.map sz), prodL (xs.map sz),
   (List.range (prodL sizes)).map fun t =>
     let a := unravel sizes t
     (flat a os, flat a xs, prodK (ops.map fun o => o.2.getD (flat a o.1) 0))⟩

/-- DiagonalOperator(diagonal, domain, spaces): `y[c] = d[sub-index of c on spaces] · x[c]`; `dsizes` are the sizes of
    the diagonal's sub-domains, `spaces[i]` the sub-domain of `domain` that carries the diagonal's i-th sub-domain -/
def diagonalOp [OfNat K 0] (sizes : List Nat) (spaces : List Nat) (d : List K) : Coo K :=
  let dsizes := spaces.map fun s => sizes.getD s 1
  diag (prodL sizes) fun c =>
    let idx := unravel sizes c
    d.getD (ravel dsizes (spaces.map fun s => idx.getD s 0)) 0

/-- zero operator (NullOperator) -/
def null (rows cols : Nat) : Coo K := ⟨rows, cols, []⟩

end NiftyVerif.LinOps
