/-
  Executable model of the JAX likelihoods (nifty/re/likelihood_impl.py, nifty/re/likelihood.py) for property C12.
  Core only (no Mathlib).  Polymorphic in the scalar type `K` (driver: `Float`; theorems: `ℝ` / any field).

  Coordinates: every pytree is flattened leaf by leaf; complex leaves are doubled ([re, im]), so every linear map
  of the library is a REAL matrix here and the library's `conj ∘ transpose ∘ conj` is the plain transpose.
  A vector is `Fin n → K`; a matrix is `Fin r → Fin c → K` (definitionally Mathlib's `Matrix (Fin r) (Fin c) K`).

  What is transcribed (statement by statement, in "apply to tangents" form like the code):
    * `_get_cov_inv_and_std_inv` on its diagonal branches            -> `covStd`
    * Gaussian / StudentT / Poissonian / VariableCovarianceGaussian / VariableCovarianceStudentT /
      Categorical `.metric`, `.left_sqrt_metric`, `.transformation`   -> `<name>M`, `<name>L`, `<name>T`
      (Categorical as REPAIRED by fixes/C12_categorical_batch_sum.diff: normalisation per category group `grp`;
       the unrepaired code is the instance `grp = fun _ => 0`, see `categorical_global_sum_defect`)
    * NDVariableCovarianceGaussian for one d×d block with abstract `sqrtm`/inverse (hypotheses in the theorems)
    * `Likelihood.metric/right_sqrt_metric` defaults, `LikelihoodWithModel`, `LikelihoodSum`, `LikelihoodPartial`
      as operations on the record `LR` of dense matrices (M, L, R).
-/
import NiftyVerif.Model.Transc

namespace NiftyVerif.LikelihoodRe

variable {K : Type}

/-! ### vectors, sums, matrices (core only) -/

/-- `Σ_{i<n} f i`, by recursion on `n` (matches `Fin.sum_univ_succ`) -/
def vsum [Add K] [OfNat K 0] : (n : Nat) → (Fin n → K) → K
  | 0, _ => 0
  | n + 1, f => f 0 + vsum n (fun i => f i.succ)

/-- unit vector -/
def unit [OfNat K 0] [OfNat K 1] {n : Nat} (j : Fin n) : Fin n → K := fun i => if i = j then 1 else 0

/-- dense matrix of a map given in "apply" form, by probing with unit vectors (what the harness does to the real code) -/
def toMat [OfNat K 0] [OfNat K 1] {m n : Nat} (f : (Fin m → K) → (Fin n → K)) : Fin n → Fin m → K :=
  fun i j => f (unit j) i

def mmul [Add K] [Mul K] [OfNat K 0] {l m n : Nat} (A : Fin l → Fin m → K) (B : Fin m → Fin n → K) :
    Fin l → Fin n → K := fun i k => vsum m (fun j => A i j * B j k)

def mT {m n : Nat} (A : Fin m → Fin n → K) : Fin n → Fin m → K := fun i j => A j i

def madd [Add K] {m n : Nat} (A B : Fin m → Fin n → K) : Fin m → Fin n → K := fun i j => A i j + B i j

/-- `[A | B]` -/
def hcat {n m1 m2 : Nat} (A : Fin n → Fin m1 → K) (B : Fin n → Fin m2 → K) : Fin n → Fin (m1 + m2) → K :=
  fun i j => if h : j.val < m1 then A i ⟨j.val, h⟩ else B i ⟨j.val - m1, by omega⟩

/-- `[A ; B]` -/
def vcat {n m1 m2 : Nat} (A : Fin m1 → Fin n → K) (B : Fin m2 → Fin n → K) : Fin (m1 + m2) → Fin n → K :=
  fun i j => if h : i.val < m1 then A ⟨i.val, h⟩ j else B ⟨i.val - m1, by omega⟩ j

/-! ### `_get_cov_inv_and_std_inv`, diagonal branches, one data element -/

/-- `(cov_inv, std_inv)` diagonal entries as the constructor derives them:
    both `None` -> identity; lone `cov_inv` -> `std_inv = sqrt(cov_inv * 1)`;
    lone (callable) `std_inv` -> `cov_inv = (std_inv * 1) ** 2`; both given -> taken as they are. -/
def covStd [Transc K] [Mul K] [OfNat K 1] (cov std : Option K) : K × K :=
  match cov, std with
  | none, none => (1, 1)
  | some c, none => (c, Transc.sqrt (c * 1))
  | none, some s => ((s * 1) * (s * 1), s)
  | some c, some s => (c, s)

section impl
variable [Transc K] [Add K] [Sub K] [Mul K] [Div K] [Neg K] [OfScientific K]
  [OfNat K 0] [OfNat K 1] [OfNat K 2] [OfNat K 3]

/-! ### Gaussian  (`cs i = covStd …` of element `i`) -/
def gaussianM {n : Nat} (cs : Fin n → K × K) (t : Fin n → K) : Fin n → K := fun i => (cs i).1 * t i
def gaussianL {n : Nat} (cs : Fin n → K × K) (t : Fin n → K) : Fin n → K := fun i => (cs i).2 * t i
def gaussianT {n : Nat} (cs : Fin n → K × K) (y : Fin n → K) : Fin n → K := fun i => (cs i).2 * y i

/-! ### StudentT -/
def studentFac (dof : K) : K := (dof + 1) / (dof + 3)
def studentTM {n : Nat} (cs : Fin n → K × K) (dof : Fin n → K) (t : Fin n → K) : Fin n → K :=
  fun i => (cs i).1 * (studentFac (dof i) * t i)
def studentTL {n : Nat} (cs : Fin n → K × K) (dof : Fin n → K) (t : Fin n → K) : Fin n → K :=
  fun i => (cs i).2 * (Transc.pow (studentFac (dof i)) 0.5 * t i)
def studentTT {n : Nat} (cs : Fin n → K × K) (dof : Fin n → K) (y : Fin n → K) : Fin n → K :=
  fun i => (cs i).2 * (Transc.pow (studentFac (dof i)) 0.5 * y i)

/-! ### Poissonian -/
def poissonM {n : Nat} (lam : Fin n → K) (t : Fin n → K) : Fin n → K := fun i => t i / lam i
def poissonL {n : Nat} (lam : Fin n → K) (t : Fin n → K) : Fin n → K := fun i => t i / Transc.pow (lam i) 0.5
def poissonT {n : Nat} (lam : Fin n → K) : Fin n → K := fun i => 2.0 * Transc.pow (lam i) 0.5

/-! ### VariableCovarianceGaussian: parameters (mean `m`, inverse std `s`), `cx = 1` for complex data else `0`.
    One data element; a complex mean occupies two real coordinates treated alike. -/
/-- `fct = 2 * (1 + iscomplex)` -/
def vcgFctM (cx : Bool) : K := 2 * (1 + (if cx then 1 else 0))
/-- `fct = jnp.sqrt(2) ** (1 + iscomplex)` (integer power) -/
def vcgFctL (cx : Bool) : K := if cx then Transc.sqrt 2 * Transc.sqrt 2 else Transc.sqrt 2
/-- `fct = 1 + iscomplex` -/
def vcgFctT (cx : Bool) : K := 1 + (if cx then 1 else 0)
def vcgM0 (s t0 : K) : K := (s * s) * t0
def vcgM1 (cx : Bool) (s t1 : K) : K := vcgFctM cx * t1 / (s * s)
def vcgL0 (s t0 : K) : K := s * t0
def vcgL1 (cx : Bool) (s t1 : K) : K := vcgFctL cx * t1 / s
def vcgT0 (d m s : K) : K := s * (m - d)
def vcgT1 (cx : Bool) (s : K) : K := vcgFctT cx * Transc.log s
/-- the whole pytree in real coordinates: the first `nm` coordinates are mean coordinates (a complex mean has two),
    the rest inverse-std elements; `sOf i` = the inverse std belonging to coordinate `i`, `cxOf i` = its data is complex -/
def vcgaussM {k : Nat} (nm : Nat) (sOf : Fin k → K) (cxOf : Fin k → Bool) (t : Fin k → K) : Fin k → K :=
  fun i => if i.val < nm then vcgM0 (sOf i) (t i) else vcgM1 (cxOf i) (sOf i) (t i)
def vcgaussL {k : Nat} (nm : Nat) (sOf : Fin k → K) (cxOf : Fin k → Bool) (t : Fin k → K) : Fin k → K :=
  fun i => if i.val < nm then vcgL0 (sOf i) (t i) else vcgL1 (cxOf i) (sOf i) (t i)
def vcgaussT {k : Nat} (nm : Nat) (sOf : Fin k → K) (cxOf : Fin k → Bool) (dOf mOf : Fin k → K) : Fin k → K :=
  fun i => if i.val < nm then vcgT0 (dOf i) (mOf i) (sOf i) else vcgT1 (cxOf i) (sOf i)

/-! ### VariableCovarianceStudentT: parameters (mean, std `sg`) -/
def vcsCov0 (dof sg : K) : K := (dof + 1) / (dof + 3) / (sg * sg)
def vcsCov1 (dof sg : K) : K := 2 * dof / (dof + 3) / (sg * sg)
def vcsM0 (dof sg t0 : K) : K := t0 * (dof + 1) / (dof + 3) / (sg * sg)
def vcsM1 (dof sg t1 : K) : K := t1 * 2 * dof / (dof + 3) / (sg * sg)
def vcsL0 (dof sg t0 : K) : K := Transc.pow (vcsCov0 dof sg) 0.5 * t0
def vcsL1 (dof sg t1 : K) : K := Transc.pow (vcsCov1 dof sg) 0.5 * t1
/-- whole pytree: first `ne` coordinates means, then stds; `th i`, `sg i` = dof / std belonging to coordinate `i` -/
def vcstudtM {k : Nat} (ne : Nat) (th sg : Fin k → K) (t : Fin k → K) : Fin k → K :=
  fun i => if i.val < ne then vcsM0 (th i) (sg i) (t i) else vcsM1 (th i) (sg i) (t i)
def vcstudtL {k : Nat} (ne : Nat) (th sg : Fin k → K) (t : Fin k → K) : Fin k → K :=
  fun i => if i.val < ne then vcsL0 (th i) (sg i) (t i) else vcsL1 (th i) (sg i) (t i)

/-! ### Categorical.  `grp i` = which distribution coordinate `i` belongs to (one per slice along `axis`, per leaf).
    The repaired code sums over `axis` with `keepdims` (= over the group); the code in the unrepaired tree adds the
    tree-wide `sum(norm_term)`, which is the instance `grp = fun _ => 0`. -/
def gsum {n : Nat} (grp : Fin n → Nat) (f : Fin n → K) (i : Fin n) : K :=
  vsum n (fun j => if grp j = grp i then f j else 0)
def softmax {n : Nat} (grp : Fin n → Nat) (z : Fin n → K) : Fin n → K :=
  fun i => Transc.exp (z i) / gsum grp (fun j => Transc.exp (z j)) i
/-- `preds * tangents - preds * norm_term` -/
def catMp {n : Nat} (grp : Fin n → Nat) (p : Fin n → K) (t : Fin n → K) : Fin n → K :=
  fun i => p i * t i - p i * gsum grp (fun j => p j * t j) i
/-- `sqrtp * (tangents - sqrtp * norm_term)` with `sqrtp = p ** 0.5` -/
def catLs {n : Nat} (grp : Fin n → Nat) (s : Fin n → K) (t : Fin n → K) : Fin n → K :=
  fun i => s i * (t i - s i * gsum grp (fun j => s j * t j) i)
def categoricalM {n : Nat} (grp : Fin n → Nat) (z : Fin n → K) := catMp grp (softmax grp z)
def categoricalL {n : Nat} (grp : Fin n → Nat) (z : Fin n → K) :=
  catLs grp (fun i => Transc.pow (softmax grp z i) 0.5)

/-! ### NDVariableCovarianceGaussian, one `d × d` block.
    `Ai` stands for what `solve(prim_mat, ·)` applies (the inverse), `S`/`Si` for `sqrtm(prim_mat)` and what
    `solve(sqrtm(prim_mat), ·)` applies; they are inputs here (hypotheses `S*S = A`, `Si*S = 1`, … in the theorems;
    the driver computes them in closed form for `d ≤ 2`).  Matrix tangents are `d × d` matrices. -/
def ndMmean {d : Nat} (cov : Bool) (A Ai : Fin d → Fin d → K) (t : Fin d → K) : Fin d → K :=
  fun i => vsum d (fun j => (if cov then Ai i j else A i j) * t j)
/-- `0.5 * solveᵀ(A, solve(A, T)) = 0.5 * A⁻¹ T A⁻¹` -/
def ndMmat {d : Nat} (Ai : Fin d → Fin d → K) (T : Fin d → Fin d → K) : Fin d → Fin d → K :=
  fun i j => 0.5 * mmul (mmul Ai T) Ai i j
def ndLmean {d : Nat} (cov : Bool) (S Si : Fin d → Fin d → K) (t : Fin d → K) : Fin d → K :=
  fun i => vsum d (fun j => (if cov then Si i j else S i j) * t j)
/-- `S⁻¹ T S⁻¹ / sqrt 2` -/
def ndLmat {d : Nat} (Si : Fin d → Fin d → K) (T : Fin d → Fin d → K) : Fin d → Fin d → K :=
  fun i j => mmul (mmul Si T) Si i j / Transc.sqrt 2

end impl

/-! ### composition: dense records -/

/-- dense metric, left and right square root of a likelihood over an `n`-dimensional (real) parameter space;
    `m` = dimension of the tangent space of `L` (`lsm_tangents_shape`) -/
structure LR (K : Type) (n : Nat) where
  m : Nat
  M : Fin n → Fin n → K
  L : Fin n → Fin m → K
  R : Fin m → Fin n → K

section comp
variable [Add K] [Mul K] [OfNat K 0]

/-- `Likelihood.metric` / `right_sqrt_metric` defaults: `R` by transposition of `L`, `M = L ∘ R` -/
def LR.ofL {n m : Nat} (L : Fin n → Fin m → K) : LR K n := ⟨m, mmul L (mT L), L, mT L⟩

/-- a likelihood class that overrides `metric` and `left_sqrt_metric`; `right_sqrt_metric` is the default -/
def LR.ofML {n m : Nat} (M : Fin n → Fin n → K) (L : Fin n → Fin m → K) : LR K n := ⟨m, M, L, mT L⟩

/-- `LikelihoodWithModel` (`amend`): `J` is the Jacobian of the forward model at the point, `a` the likelihood at
    the forward-model value:  `metric = Jᴴ (M_lh (J t))`, `left_sqrt_metric = Jᴴ (L_lh t)`, `right = R_lh (J t)` -/
def LR.withModel {k n : Nat} (J : Fin k → Fin n → K) (a : LR K k) : LR K n :=
  ⟨a.m, mmul (mT J) (mmul a.M J), mmul (mT J) a.L, mmul a.R J⟩

/-- `LikelihoodSum` of two summands over the same parameter space: metrics add, `L` is a block row
    (`Σ_k L_k t[key_k]`), `R` a block column (`{key_k: R_k t}`) -/
def LR.add {n : Nat} (a b : LR K n) : LR K n :=
  ⟨a.m + b.m, madd a.M b.M, hcat a.L b.L, vcat a.R b.R⟩

/-- `LikelihoodPartial`: `sel` lists the liquid coordinates (frozen ones are inserted as the frozen point for the
    primals — already done by whoever evaluated `a` — and as zeros for tangents, and removed from outputs) -/
def LR.partial {n k : Nat} (sel : Fin k → Fin n) (a : LR K n) : LR K k :=
  ⟨a.m, fun i j => a.M (sel i) (sel j), fun i j => a.L (sel i) j, fun i j => a.R i (sel j)⟩

end comp

end NiftyVerif.LikelihoodRe
