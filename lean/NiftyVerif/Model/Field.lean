/-
  Model/Field.lean — executable model of nifty.cl Field / MultiField arithmetic and contractions (property C06).

  Core imports only.  A field lives on a tuple of sub-domains; every sub-domain is flattened to ONE index
  (NumPy contracts all axes of a sub-domain together and `dvol` of a sub-domain has the sub-domain's shape, so
  nothing in field.py ever looks inside a sub-domain).  Values are functions of the multi-index
  `Idx = List Nat` (one entry per sub-domain); the driver reads a flat row-major buffer through `ravel`
  and writes results by enumerating `allIdx` (row-major order).

  What is transcribed statement by statement (decision logic of /repo/nifty/cl):
    utilities.parse_spaces, DomainTuple.scalar_weight / total_volume, StructuredDomain.total_volume,
    Field.weight (loop with `fct`, broadcast of non-scalar dvol, `if fct != 1`), Field._contraction_helper,
    Field.integrate / mean / var / std (both code paths), Field.vdot (full: AnyArray.vdot; partial:
    (conj(self)*x).sum(spaces)), s_* variants, Field._binary_op domain check, MultiField._binary_op,
    MultiField.s_vdot / norm / s_sum, check_object_identity.
  NumPy reductions (`sum/prod/mean/var(axis=…)`, `np.vdot`, `np.linalg.norm`) are represented by their
  mathematical definitions (`contract`, `contractProd`, …): NumPy itself is in the trusted base.
-/

namespace NiftyVerif.FieldM

abbrev Idx := List Nat

/-! ### generic finite sums / products over lists, powers -/
section Core
variable {K : Type} {α : Type}

def sumOver [Add K] [OfNat K 0] : List α → (α → K) → K
  | [], _ => 0
  | a :: t, f => f a + sumOver t f

def prodOver [Mul K] [OfNat K 1] : List α → (α → K) → K
  | [], _ => 1
  | a :: t, f => f a * prodOver t f

def npow [Mul K] [OfNat K 1] (x : K) : Nat → K
  | 0 => 1
  | n + 1 => npow x n * x

/-- `x ** p` for an integer exponent (NumPy / Python float power on exact inputs) -/
def ipow [Mul K] [OfNat K 1] [Inv K] (x : K) : Int → K
  | .ofNat n => npow x n
  | .negSucc n => (npow x (n + 1))⁻¹

def prodNat : List Nat → Nat
  | [] => 1
  | n :: t => n * prodNat t

/-- all multi-indices of an array with the given sizes, in row-major (C) order -/
def allIdx : List Nat → List Idx
  | [] => [[]]
  | n :: ns => (List.range n).flatMap fun i => (allIdx ns).map (i :: ·)

/-- row-major flat position of a multi-index -/
def ravel : List Nat → Idx → Nat
  | [], _ => 0
  | _ :: ns, idx => idx.headD 0 * prodNat ns + ravel ns idx.tail

/-- entries of `l` whose mask bit equals `b` (`true` = contracted sub-domain) -/
def sel (b : Bool) : List Bool → List α → List α
  | m :: ms, a :: as => if m == b then a :: sel b ms as else sel b ms as
  | _, _ => []

/-- full multi-index from the kept part `o` and the contracted part `c` -/
def merge : List Bool → Idx → Idx → Idx
  | [], _, _ => []
  | true :: m, o, c => c.headD 0 :: merge m o c.tail
  | false :: m, o, c => o.headD 0 :: merge m o.tail c

/-- `x.sum(axis = axes of the masked sub-domains)` -/
def contract [Add K] [OfNat K 0] (mask : List Bool) (sizes : List Nat) (x : Idx → K) : Idx → K :=
  fun o => sumOver (allIdx (sel true mask sizes)) fun c => x (merge mask o c)

/-- `x.prod(axis = …)` -/
def contractProd [Mul K] [OfNat K 1] (mask : List Bool) (sizes : List Nat) (x : Idx → K) : Idx → K :=
  fun o => prodOver (allIdx (sel true mask sizes)) fun c => x (merge mask o c)

/-- `spaces` (already parsed) as a mask over the `n` sub-domains -/
def maskOf (n : Nat) (l : List Nat) : List Bool := (List.range n).map fun i => l.contains i

end Core

/-! ### domains -/

/-- `dvol` of one sub-domain: absent (UnstructuredDomain has no such attribute), a scalar, or an array of the
    sub-domain's shape (PowerSpace, DOFSpace, GLSpace), flattened -/
inductive DVol (K : Type) where
  | none
  | scalar (v : K)
  | vector (v : Array K)

structure SubDom (K : Type) where
  shape : List Nat
  dvol : DVol K
  /-- `total_volume` when the domain class overrides it or computes it in floating point on inexact volumes
      (GLSpace returns `4*np.pi`, HPSpace `size * (π/(3 nside²))`); `none` = StructuredDomain's formula below -/
  tv : Option K

instance {K} : Inhabited (SubDom K) := ⟨⟨[], .none, none⟩⟩

def SubDom.size {K} (s : SubDom K) : Nat := prodNat s.shape

/-- dtype kinds: 0 bool, 1 int, 2 float, 3 complex; NumPy promotion is `max` on these inputs -/
abbrev DT := Nat
def DT.bool : DT := 0
def DT.int : DT := 1
def DT.float : DT := 2
def DT.complex : DT := 3

/-- a Field: canonical number of its DomainTuple object (identity!), the sub-domains, dtype kind, values -/
structure Fld (K : Type) where
  dom : Nat
  subs : List (SubDom K)
  dt : DT
  val : Idx → K

def Fld.sizes {K} (f : Fld K) : List Nat := f.subs.map SubDom.size

/-- Python's `spaces` argument -/
inductive Spaces where
  | none
  | scalar (i : Int)
  | list (l : List Int)

section Ops
variable {K : Type}

/-- Python tuple indexing `t[i]` with negative indices; IndexError outside -/
def pyGet {α} (l : List α) (i : Int) : Except String α :=
  let n : Int := l.length
  if 0 ≤ i ∧ i < n then
    match l[i.toNat]? with
    | some a => .ok a
    | none => .error "IndexError"
  else if -n ≤ i ∧ i < 0 then
    match l[(i + n).toNat]? with
    | some a => .ok a
    | none => .error "IndexError"
  else .error "IndexError"

/-! #### `tuple(set(spaces))`: CPython's iteration order of a set of small ints (setobject.c: open addressing, table of
     8 slots growing ×4, LINEAR_PROBES = 9, PERTURB_SHIFT = 5, `hash(i) = i` except `hash(-1) = -2`), transcribed because
     parse_spaces looks only at the FIRST and LAST element of that order -/

def pyHash (i : Int) : Int := if i = -1 then -2 else i

/-- `(size_t)hash` on a 64-bit build -/
def toSizeT (h : Int) : Nat := if h ≥ 0 then h.toNat else 2 ^ 64 - (-h).toNat

/-- first slot among `i, i+1, …, i+k` that is unused or already holds `key` (`check = true`), else none -/
def scanSlots (table : Array (Option Int)) (key : Int) (check : Bool) (i : Nat) : Nat → Option Nat
  | 0 =>
    match table.getD i none with
    | none => some i
    | some k => if check ∧ k = key then some i else none
  | k + 1 =>
    match table.getD i none with
    | none => some i
    | some k' => if check ∧ k' = key then some i else scanSlots table key check (i + 1) k

/-- the probe loop of set_add_entry (`check = true`) / set_insert_clean (`check = false`) -/
def probeLoop (table : Array (Option Int)) (key : Int) (check : Bool) (mask : Nat) : Nat → Nat → Nat → Option Nat
  | 0, _, _ => none
  | fuel + 1, i, perturb =>
    let probes := if i + 9 ≤ mask then 9 else 0
    match scanSlots table key check i probes with
    | some slot => some slot
    | none =>
      let perturb := perturb / 32
      probeLoop table key check mask fuel ((i * 5 + 1 + perturb) % (mask + 1)) perturb

def setInsert (table : Array (Option Int)) (key : Int) (check : Bool) : Array (Option Int) × Bool :=
  let mask := table.size - 1
  let h := toSizeT (pyHash key)
  match probeLoop table key check mask 200 (h % (mask + 1)) h with
  | none => (table, false)
  | some slot =>
    match table.getD slot none with
    | some _ => (table, false)            -- already present
    | none => (table.setIfInBounds slot (some key), true)

def newTableSize (minused : Nat) : Nat → Nat → Nat
  | 0, size => size
  | fuel + 1, size => if size ≤ minused then newTableSize minused fuel (size * 2) else size

/-- set_add_key followed by the resize rule `fill*5 >= mask*3 → resize to used*4` (re-insertion in slot order) -/
def setAdd (st : Array (Option Int) × Nat) (key : Int) : Array (Option Int) × Nat :=
  let (table, used) := st
  let (table, added) := setInsert table key true
  if !added then (table, used) else
  let used := used + 1
  let mask := table.size - 1
  if used * 5 < mask * 3 then (table, used) else
  let size := newTableSize (used * 4) 64 8
  let fresh : Array (Option Int) := Array.replicate size none
  let table := table.foldl (fun t e => match e with | some k => (setInsert t k false).1 | none => t) fresh
  (table, used)

/-- `tuple(set(l))` for a tuple of ints -/
def pySetOrder (l : List Int) : List Int :=
  ((l.foldl setAdd (Array.replicate 8 none, 0)).1.toList).filterMap id

/-- the raw checks of utilities.parse_spaces on a non-empty tuple: only the first and last element of
    `tuple(set(spaces))` are compared with the range, and the set must be as long as the tuple -/
def parseChecks (l : List Int) (n : Nat) : Except String Unit :=
  let tmp := pySetOrder l
  if tmp.headD 0 < 0 ∨ tmp.getLastD 0 ≥ n then .error "ValueError" else
  if tmp.length != l.length then .error "ValueError" else .ok ()

/-- utilities.parse_spaces.  A tuple that passes the raw checks although it contains negative or too large indices
    (e.g. `(1, -1)`: the set iterates as `(1, -1)`) is handed back by the real code as it is; the model reports it as
    "accepted-out-of-range" here and the `dirty*` functions below transcribe what the callers then do with it.
    (The last duplicate test can never fire after `parseChecks`; it keeps the theorems independent of the hash-table
    simulation.) -/
def parseSpaces (sp : Spaces) (n : Nat) : Except String (List Nat) :=
  match sp with
  | .none => .ok (List.range n)
  | .scalar i => if i < 0 ∨ i ≥ n then .error "ValueError" else .ok [i.toNat]
  | .list l =>
    if l.isEmpty then .ok [] else
    match parseChecks l n with
    | .error e => .error e
    | .ok _ =>
      if l.any (fun i => i < 0) ∨ l.any (fun i => i ≥ n) then .error "accepted-out-of-range" else
      if l.eraseDups.length != l.length then .error "accepted-out-of-range" else
      .ok (l.map Int.toNat)

/-- the tuple parse_spaces returns when it lets out-of-range entries through (`none`: everything else) -/
def dirtySpaces (sp : Spaces) (n : Nat) : Option (List Int) :=
  match sp, parseSpaces sp n with
  | .list l, .error "accepted-out-of-range" => some l
  | _, _ => none

/-- `domain.scalar_dvol` -/
def SubDom.scalarDvol (s : SubDom K) : Except String (Option K) :=
  match s.dvol with
  | .none => .error "AttributeError"
  | .scalar v => .ok (some v)
  | .vector _ => .ok none

def scalarWeightLoop [Mul K] (subs : List (SubDom K)) : List Int → K → Except String (Option K)
  | [], res => .ok (some res)
  | i :: t, res =>
    match pyGet subs i with
    | .error e => .error e
    | .ok s =>
      match s.scalarDvol with
      | .error e => .error e
      | .ok none => .ok none
      | .ok (some v) => scalarWeightLoop subs t (res * v)

def rangeInt (n : Nat) : List Int := (List.range n).map Int.ofNat

/-- DomainTuple.scalar_weight (note: called with the *unparsed* `spaces`) -/
def scalarWeight [Mul K] [OfNat K 1] (subs : List (SubDom K)) : Spaces → Except String (Option K)
  | .scalar i =>
    match pyGet subs i with
    | .error e => .error e
    | .ok s => s.scalarDvol
  | .none => scalarWeightLoop subs (rangeInt subs.length) 1
  | .list l => scalarWeightLoop subs l 1

/-- StructuredDomain.total_volume: `size * dvol` if dvol is a scalar else `np.sum(dvol)` -/
def SubDom.totalVolume [Add K] [Mul K] [OfNat K 0] [NatCast K] (s : SubDom K) : Except String K :=
  match s.tv with
  | some v => .ok v
  | none =>
    match s.dvol with
    | .none => .error "AttributeError"
    | .scalar v => .ok ((s.size : K) * v)
    | .vector v => .ok (sumOver (List.range s.size) fun i => v.getD i 0)

def totalVolumeLoop [Add K] [Mul K] [OfNat K 0] [NatCast K] (subs : List (SubDom K)) :
    List Int → K → Except String K
  | [], res => .ok res
  | i :: t, res =>
    match pyGet subs i with
    | .error e => .error e
    | .ok s =>
      match s.totalVolume with
      | .error e => .error e
      | .ok v => totalVolumeLoop subs t (res * v)

/-- DomainTuple.total_volume -/
def totalVolume [Add K] [Mul K] [OfNat K 0] [OfNat K 1] [NatCast K] (subs : List (SubDom K)) :
    Spaces → Except String K
  | .scalar i =>
    match pyGet subs i with
    | .error e => .error e
    | .ok s => s.totalVolume
  | .none => totalVolumeLoop subs (rangeInt subs.length) 1
  | .list l => totalVolumeLoop subs l 1

/-- SPECIFICATION side: the volume factor of sub-domain `ind` at the multi-index `idx`
    (a scalar `dvol` is the same everywhere, an array `dvol` is indexed by the sub-domain's own index) -/
def dvolAt [OfNat K 0] [OfNat K 1] (subs : List (SubDom K)) (ind : Nat) (idx : Idx) : K :=
  match (subs.getD ind default).dvol with
  | .none => 1
  | .scalar w => w
  | .vector w => w.getD (idx.getD ind 0) 0

/-- the loop of Field.weight: scalar volumes are collected in `fct`, non-scalar ones are broadcast along their
    sub-domain and multiplied out of place (`aout = aout * wgt**power`, so integer data becomes float —
    this is the code repaired by fixes/C06_int_weight_nonscalar_dvol.diff; the unrepaired `aout *= wgt**power`
    raises UFuncTypeError for integer data) -/
def weightLoop [Mul K] [OfNat K 0] [OfNat K 1] [Inv K] (subs : List (SubDom K)) (power : Int) :
    List Nat → K → DT → (Idx → K) → Except String (K × DT × (Idx → K))
  | [], fct, dt, a => .ok (fct, dt, a)
  | ind :: t, fct, dt, a =>
    match (subs.getD ind default).dvol with
    | .none => .error "AttributeError"
    | .scalar w => weightLoop subs power t (fct * w) dt a
    | .vector w =>
      weightLoop subs power t fct (max dt DT.float) (fun idx => a idx * ipow (w.getD (idx.getD ind 0) 0) power)

/-- Field.weight(power, spaces) -/
def weight [Mul K] [OfNat K 0] [OfNat K 1] [Inv K] [DecidableEq K] (f : Fld K) (power : Int) (sp : Spaces) :
    Except String (Fld K) :=
  match parseSpaces sp f.subs.length with
  | .error e => .error e
  | .ok l =>
    match weightLoop f.subs power l 1 f.dt f.val with
    | .error e => .error e
    | .ok (fct, dt, a) =>
      let fct := ipow fct power
      if fct = 1 then .ok { f with dt := dt, val := a }
      else .ok { f with dt := max dt DT.float, val := fun idx => a idx * fct }

/-- result of Field._contraction_helper: the field on the sub-domains that are not contracted -/
def contractFld (f : Fld K) (l : List Nat) (dt : DT) (v : List Bool → List Nat → (Idx → K) → Idx → K) : Fld K :=
  let mask := maskOf f.subs.length l
  { dom := 0, subs := sel false mask f.subs, dt := dt, val := v mask f.sizes f.val }

/-- Field.sum(spaces) -/
def fsum [Add K] [OfNat K 0] (f : Fld K) (sp : Spaces) : Except String (Fld K) :=
  match parseSpaces sp f.subs.length with
  | .error e => .error e
  | .ok l => .ok (contractFld f l (max f.dt DT.int) contract)

/-- Field.prod(spaces) -/
def fprod [Mul K] [OfNat K 1] (f : Fld K) (sp : Spaces) : Except String (Fld K) :=
  match parseSpaces sp f.subs.length with
  | .error e => .error e
  | .ok l => .ok (contractFld f l (max f.dt DT.int) contractProd)

/-- `field * python_float` -/
def smulFloat [Mul K] (f : Fld K) (c : K) : Fld K :=
  { f with dt := max f.dt DT.float, val := fun idx => f.val idx * c }

/-- Field.integrate(spaces) -/
def integrate [Add K] [Mul K] [OfNat K 0] [OfNat K 1] [Inv K] [DecidableEq K] (f : Fld K) (sp : Spaces) :
    Except String (Fld K) :=
  match scalarWeight f.subs sp with
  | .error e => .error e
  | .ok (some swgt) =>
    match fsum f sp with
    | .error e => .error e
    | .ok res => .ok (smulFloat res swgt)
  | .ok none =>
    match weight f 1 sp with
    | .error e => .error e
    | .ok tmp => fsum tmp sp

/-- number of contracted entries, as NumPy's `mean` counts them: product of the lengths of the reduced axes in the
    order of `axis` (= order of `spaces`) -/
def countOf (sizes : List Nat) (l : List Nat) : Nat := prodNat (l.map fun i => sizes.getD i 1)

/-- `x.mean(axis=…)` = sum / count -/
def npMean [Add K] [Mul K] [OfNat K 0] [Inv K] [NatCast K] (l : List Nat) (mask : List Bool) (sizes : List Nat)
    (x : Idx → K) : Idx → K :=
  fun o => contract mask sizes x o * ((countOf sizes l : K))⁻¹

/-- `x.var(axis=…)` = mean(|x − mean(x)|²) (population variance; `nsq` is `|·|²`) -/
def npVar [Add K] [Sub K] [Mul K] [OfNat K 0] [Inv K] [NatCast K] (nsq : K → K)
    (l : List Nat) (mask : List Bool) (sizes : List Nat) (x : Idx → K) : Idx → K :=
  fun o => npMean l mask sizes (fun i => nsq (x i - npMean l mask sizes x (sel false mask i))) o

/-- Field.mean(spaces): uniform volumes → np.mean; otherwise weighted sum times 1/total_volume -/
def mean [Add K] [Mul K] [OfNat K 0] [OfNat K 1] [Inv K] [NatCast K] [DecidableEq K] (f : Fld K) (sp : Spaces) :
    Except String (Fld K) :=
  match scalarWeight f.subs sp with
  | .error e => .error e
  | .ok (some _) =>
    match parseSpaces sp f.subs.length with
    | .error e => .error e
    | .ok l => .ok (contractFld f l (max f.dt DT.float) (npMean l))
  | .ok none =>
    match weight f 1 sp with
    | .error e => .error e
    | .ok tmp =>
      match fsum tmp sp with
      | .error e => .error e
      | .ok s =>
        match totalVolume tmp.subs sp with
        | .error e => .error e
        | .ok tv => .ok (smulFloat s ((1 : K) * tv⁻¹))

/-- ContractionOperator(domain, spaces).adjoint_times(m): broadcast back along the contracted sub-domains -/
def broadcastBack (mask : List Bool) (m : Idx → K) : Idx → K := fun i => m (sel false mask i)

/-- Field.var(spaces).  `nsq` is `abs(·)**2`, used for complex dtype; real dtypes square. -/
def var [Add K] [Sub K] [Mul K] [OfNat K 0] [OfNat K 1] [Inv K] [NatCast K] [DecidableEq K] (nsq : K → K)
    (f : Fld K) (sp : Spaces) : Except String (Fld K) :=
  match scalarWeight f.subs sp with
  | .error e => .error e
  | .ok (some _) =>
    match parseSpaces sp f.subs.length with
    | .error e => .error e
    | .ok l => .ok (contractFld f l DT.float (npVar nsq l))
  | .ok none =>
    match mean f sp with
    | .error e => .error e
    | .ok m1 =>
      match parseSpaces sp f.subs.length with
      | .error e => .error e
      | .ok l =>
        let mask := maskOf f.subs.length l
        let m1b := broadcastBack mask m1.val
        let sq : Fld K :=
          if f.dt = DT.complex then { f with dt := DT.float, val := fun i => nsq (f.val i - m1b i) }
          else { f with dt := max f.dt m1.dt, val := fun i => (f.val i - m1b i) * (f.val i - m1b i) }
        mean sq sp

/-- Field.vdot(x, spaces): identity check, then AnyArray.vdot (all sub-domains; integer input is converted to
    float by ducc_dispatch.vdot) or `(self.conjugate() * x).sum(spaces)`; `conjugate` only touches complex dtype -/
def vdot [Add K] [Mul K] [OfNat K 0] (conj : K → K) (f g : Fld K) (sp : Spaces) : Except String (Fld K) :=
  if g.dom ≠ f.dom then .error "ValueError" else
  match parseSpaces sp f.subs.length with
  | .error e => .error e
  | .ok l =>
    if l.length = f.subs.length then
      .ok { dom := 0, subs := [], dt := max (max f.dt g.dt) DT.float,
            val := fun _ => sumOver (allIdx f.sizes) fun i => conj (f.val i) * g.val i }
    else
      let cf : Idx → K := if f.dt = DT.complex then fun i => conj (f.val i) else f.val
      let p : Fld K := { f with dt := max f.dt g.dt, val := fun i => cf i * g.val i }
      .ok (contractFld p l (max p.dt DT.int) contract)

/-- Field.s_vdot(x) -/
def sVdot [Add K] [Mul K] [OfNat K 0] (conj : K → K) (f g : Fld K) : Except String K :=
  if g.dom ≠ f.dom then .error "ValueError" else
  .ok (sumOver (allIdx f.sizes) fun i => conj (f.val i) * g.val i)

/-- Field._binary_op(other: Field, op): identity check, then the array operation point-wise -/
def binop (op : K → K → K) (dt : DT → DT → DT) (f g : Fld K) : Except String (Fld K) :=
  if g.dom ≠ f.dom then .error "ValueError" else
  .ok { f with dt := dt f.dt g.dt, val := fun i => op (f.val i) (g.val i) }

/-- Field._binary_op(other: scalar, op) -/
def binopScalar (op : K → K → K) (dt : DT → DT → DT) (f : Fld K) (c : K) (cdt : DT) : Fld K :=
  { f with dt := dt f.dt cdt, val := fun i => op (f.val i) c }

def unop (op : K → K) (dt : DT → DT) (f : Fld K) : Fld K :=
  { f with dt := dt f.dt, val := fun i => op (f.val i) }

/-- Field.s_sum -/
def sSum [Add K] [OfNat K 0] (f : Fld K) : K := sumOver (allIdx f.sizes) f.val
/-- Field.s_prod -/
def sProd [Mul K] [OfNat K 1] (f : Fld K) : K := prodOver (allIdx f.sizes) f.val

/-- Field.s_integrate -/
def sIntegrate [Add K] [Mul K] [OfNat K 0] [OfNat K 1] [Inv K] [DecidableEq K] (f : Fld K) : Except String K :=
  match scalarWeight f.subs .none with
  | .error e => .error e
  | .ok (some swgt) => .ok (sSum f * swgt)
  | .ok none =>
    match weight f 1 .none with
    | .error e => .error e
    | .ok tmp => .ok (sSum tmp)

/-- Field.s_mean = s_integrate / total_volume -/
def sMean [Add K] [Mul K] [OfNat K 0] [OfNat K 1] [Inv K] [NatCast K] [DecidableEq K] (f : Fld K) :
    Except String K :=
  match sIntegrate f with
  | .error e => .error e
  | .ok s =>
    match totalVolume f.subs .none with
    | .error e => .error e
    | .ok tv => .ok (s * tv⁻¹)

/-- Field.s_var -/
def sVar [Add K] [Sub K] [Mul K] [OfNat K 0] [OfNat K 1] [Inv K] [NatCast K] [DecidableEq K] (nsq : K → K)
    (f : Fld K) : Except String K :=
  match scalarWeight f.subs .none with
  | .error e => .error e
  | .ok (some _) =>
    let l := List.range f.subs.length
    .ok (npVar nsq l (maskOf f.subs.length l) f.sizes f.val [])
  | .ok none =>
    match sMean f with
    | .error e => .error e
    | .ok m1 =>
      let sq : Fld K :=
        if f.dt = DT.complex then { f with dt := DT.float, val := fun i => nsq (f.val i - m1) }
        else { f with dt := max f.dt DT.float, val := fun i => (f.val i - m1) * (f.val i - m1) }
      sMean sq

/-! ### what the callers do with a tuple that parse_spaces accepted although it has negative / too large entries
  (Python resolves negative indices, NumPy refuses duplicate axes, the result domain is computed from the RAW tuple).
  Transcription only — the property speaks about subsets of sub-domains, no theorem is claimed here. -/

/-- `t[i]` index resolution of a Python tuple of length `n` -/
def resolveIdx (n : Nat) (i : Int) : Except String Nat :=
  if 0 ≤ i ∧ i < (n : Int) then .ok i.toNat
  else if -(n : Int) ≤ i ∧ i < 0 then .ok (i + n).toNat
  else .error "IndexError"

def resolveAll (n : Nat) : List Int → Except String (List Nat)
  | [] => .ok []
  | i :: t =>
    match resolveIdx n i with
    | .error e => .error e
    | .ok j =>
      match resolveAll n t with
      | .error e => .error e
      | .ok r => .ok (j :: r)

/-- `_contraction_helper(op, spaces)`: the axes of the resolved sub-domains are reduced (IndexError for an index outside
    `[-n, n)`, NumPy's "duplicate value in 'axis'" ValueError); if everything is reduced the result is a scalar Field,
    otherwise the remaining domain is built from the sub-domains whose RAW index is not listed, which has more axes than
    the data: "shape mismatch" ValueError -/
def dirtyContract (f : Fld K) (li : List Int) (dt : DT) (full : K) : Except String (Fld K) :=
  match resolveAll f.subs.length li with
  | .error e => .error e
  | .ok r =>
    if r.eraseDups.length != r.length then .error "ValueError"
    else if r.length = f.subs.length then .ok { dom := 0, subs := [], dt := dt, val := fun _ => full }
    else .error "ValueError"

/-- the loop of Field.weight over such a tuple (a sub-domain listed twice is weighted twice) -/
def dirtyWeightLoop [Mul K] [OfNat K 0] [OfNat K 1] [Inv K] (subs : List (SubDom K)) (power : Int) :
    List Int → K → DT → (Idx → K) → Except String (K × DT × (Idx → K))
  | [], fct, dt, a => .ok (fct, dt, a)
  | i :: t, fct, dt, a =>
    match resolveIdx subs.length i with
    | .error e => .error e
    | .ok ind =>
      match (subs.getD ind default).dvol with
      | .none => .error "AttributeError"
      | .scalar w => dirtyWeightLoop subs power t (fct * w) dt a
      | .vector w =>
        dirtyWeightLoop subs power t fct (max dt DT.float) (fun idx => a idx * ipow (w.getD (idx.getD ind 0) 0) power)

def dirtyWeight [Mul K] [OfNat K 0] [OfNat K 1] [Inv K] [DecidableEq K] (f : Fld K) (power : Int) (li : List Int) :
    Except String (Fld K) :=
  match dirtyWeightLoop f.subs power li 1 f.dt f.val with
  | .error e => .error e
  | .ok (fct, dt, a) =>
    let fct := ipow fct power
    if fct = 1 then .ok { f with dt := dt, val := a }
    else .ok { f with dt := max dt DT.float, val := fun idx => a idx * fct }

def allMask (f : Fld K) : List Bool := f.subs.map fun _ => true

def dirtySum [Add K] [OfNat K 0] (f : Fld K) (li : List Int) : Except String (Fld K) :=
  dirtyContract f li (max f.dt DT.int) (sumOver (allIdx f.sizes) f.val)

def dirtyIntegrate [Add K] [Mul K] [OfNat K 0] [OfNat K 1] [Inv K] [DecidableEq K] (f : Fld K) (li : List Int) :
    Except String (Fld K) :=
  match scalarWeight f.subs (.list li) with
  | .error e => .error e
  | .ok (some swgt) =>
    match dirtySum f li with
    | .error e => .error e
    | .ok res => .ok (smulFloat res swgt)
  | .ok none =>
    match dirtyWeight f 1 li with
    | .error e => .error e
    | .ok tmp => dirtySum tmp li

def dirtyMean [Add K] [Mul K] [OfNat K 0] [OfNat K 1] [Inv K] [NatCast K] [DecidableEq K] (f : Fld K) (li : List Int) :
    Except String (Fld K) :=
  let all := List.range f.subs.length
  match scalarWeight f.subs (.list li) with
  | .error e => .error e
  | .ok (some _) => dirtyContract f li (max f.dt DT.float) (npMean all (allMask f) f.sizes f.val [])
  | .ok none =>
    match dirtyWeight f 1 li with
    | .error e => .error e
    | .ok tmp =>
      match dirtySum tmp li with
      | .error e => .error e
      | .ok s =>
        match totalVolume tmp.subs (.list li) with
        | .error e => .error e
        | .ok tv => .ok (smulFloat s ((1 : K) * tv⁻¹))

/-- var / std: the uniform path is NumPy's var over all axes; on the other path `ContractionOperator(domain, spaces)`
    expects the mean on the sub-domains whose RAW index is not listed, which the scalar mean is not: ValueError -/
def dirtyVar [Add K] [Sub K] [Mul K] [OfNat K 0] [OfNat K 1] [Inv K] [NatCast K] [DecidableEq K] (nsq : K → K)
    (f : Fld K) (li : List Int) : Except String (Fld K) :=
  let all := List.range f.subs.length
  match scalarWeight f.subs (.list li) with
  | .error e => .error e
  | .ok (some _) => dirtyContract f li DT.float (npVar nsq all (allMask f) f.sizes f.val [])
  | .ok none =>
    match dirtyMean f li with
    | .error e => .error e
    | .ok _ => .error "ValueError"

def dirtyVdot [Add K] [Mul K] [OfNat K 0] (conj : K → K) (f g : Fld K) (li : List Int) : Except String (Fld K) :=
  if g.dom ≠ f.dom then .error "ValueError" else
  let full := sumOver (allIdx f.sizes) fun i => conj (f.val i) * g.val i
  if li.length = f.subs.length then
    .ok { dom := 0, subs := [], dt := max (max f.dt g.dt) DT.float, val := fun _ => full }
  else
    let cf : Idx → K := if f.dt = DT.complex then fun i => conj (f.val i) else f.val
    dirtyContract f li (max (max f.dt g.dt) DT.int) (sumOver (allIdx f.sizes) fun i => cf i * g.val i)

/-! ### MultiField: sorted keys, one leaf Field per key, identity of the MultiDomain object -/

structure MFld (K : Type) where
  dom : Nat
  leaves : List (String × Fld K)

def zipLeaves (op : Fld K → Fld K → Except String (Fld K)) :
    List (String × Fld K) → List (String × Fld K) → Except String (List (String × Fld K))
  | (k, a) :: ta, (_, b) :: tb =>
    match op a b with
    | .error e => .error e
    | .ok r =>
      match zipLeaves op ta tb with
      | .error e => .error e
      | .ok t => .ok ((k, r) :: t)
  | _, _ => .ok []

/-- MultiField._binary_op(other: MultiField, op): identity check of the MultiDomains, then leaf by leaf
    (each leaf operation checks the leaf domains again) -/
def mbinop (op : Fld K → Fld K → Except String (Fld K)) (a b : MFld K) : Except String (MFld K) :=
  if a.dom ≠ b.dom then .error "ValueError" else
  match zipLeaves op a.leaves b.leaves with
  | .error e => .error e
  | .ok l => .ok { a with leaves := l }

/-- MultiField._binary_op(other: scalar, op) and MultiField._transform -/
def mmap (op : Fld K → Fld K) (a : MFld K) : MFld K :=
  { a with leaves := a.leaves.map fun kv => (kv.1, op kv.2) }

def insertLeaf (kv : String × Fld K) : List (String × Fld K) → List (String × Fld K)
  | [] => [kv]
  | h :: t => if kv.1 < h.1 then kv :: h :: t else h :: insertLeaf kv t

/-- the dictionary loop of MultiField.flexible_addsub for different MultiDomains: shared keys are combined with the
    Field operation (which checks the leaf domains), new keys are copied (negated for subtraction);
    `MultiField.from_dict` then sorts the keys -/
def mflexLoop (opf : Fld K → Fld K → Except String (Fld K)) (single : Fld K → Fld K) :
    List (String × Fld K) → List (String × Fld K) → Except String (List (String × Fld K))
  | res, [] => .ok res
  | res, (k, v) :: t =>
    match res.find? (fun kv => kv.1 == k) with
    | some (_, r) =>
      match opf r v with
      | .error e => .error e
      | .ok n => mflexLoop opf single (res.map fun kv => if kv.1 == k then (k, n) else kv) t
    | none => mflexLoop opf single (insertLeaf (k, single v) res) t

/-- MultiField.flexible_addsub(other, neg: bool) / unite (neg = False) -/
def mflex (add sub : Fld K → Fld K → Except String (Fld K)) (negf : Fld K → Fld K) (a b : MFld K) (neg : Bool) :
    Except String (MFld K) :=
  if a.dom = b.dom then mbinop (if neg then sub else add) a b else
  match mflexLoop (if neg then sub else add) (if neg then negf else id) a.leaves b.leaves with
  | .error e => .error e
  | .ok l => .ok { dom := 0, leaves := l }

def sVdotLeaves [Add K] [Mul K] [OfNat K 0] (conj : K → K) :
    List (String × Fld K) → List (String × Fld K) → K → Except String K
  | (_, a) :: ta, (_, b) :: tb, acc =>
    match sVdot conj a b with
    | .error e => .error e
    | .ok v => sVdotLeaves conj ta tb (acc + v)
  | _, _, acc => .ok acc

/-- MultiField.s_vdot: `result = 0.; check identity; for leaves: result += v1.s_vdot(v2)` -/
def msVdot [Add K] [Mul K] [OfNat K 0] (conj : K → K) (a b : MFld K) : Except String K :=
  if b.dom ≠ a.dom then .error "ValueError" else sVdotLeaves conj a.leaves b.leaves 0

/-- MultiField.s_sum -/
def msSum [Add K] [OfNat K 0] (a : MFld K) : K := sumOver a.leaves fun kv => sSum kv.2

/-- leaf `np.linalg.norm(x.reshape(-1), ord=1)` with `ab = |·|` -/
def norm1 [Add K] [OfNat K 0] (ab : K → K) (f : Fld K) : K := sumOver (allIdx f.sizes) fun i => ab (f.val i)
/-- square of the leaf 2-norm, `nsq = |·|²` -/
def norm2Sq [Add K] [OfNat K 0] (nsq : K → K) (f : Fld K) : K := sumOver (allIdx f.sizes) fun i => nsq (f.val i)

def maxOver {R} [OfNat R 0] (mx : R → R → R) : List α → (α → R) → R
  | [], _ => 0
  | a :: t, f => mx (f a) (maxOver mx t f)

/-- leaf `norm(ord=inf)` = max |x_i| (0 for the empty array is never needed: sizes ≥ 1) -/
def normInf [OfNat K 0] (mx : K → K → K) (ab : K → K) (f : Fld K) : K := maxOver mx (allIdx f.sizes) fun i => ab (f.val i)

/-- MultiField.norm(1) = (Σ leafnorm¹)^(1/1) -/
def mnorm1 [Add K] [OfNat K 0] (ab : K → K) (a : MFld K) : K := sumOver a.leaves fun kv => norm1 ab kv.2
/-- MultiField.norm(2)² = Σ leafnorm² -/
def mnorm2Sq [Add K] [OfNat K 0] (nsq : K → K) (a : MFld K) : K := sumOver a.leaves fun kv => norm2Sq nsq kv.2
/-- MultiField.norm(inf) = max leafnorm -/
def mnormInf [OfNat K 0] (mx : K → K → K) (ab : K → K) (a : MFld K) : K := maxOver mx a.leaves fun kv => normInf mx ab kv.2

/-! ### element-wise operators of Field._binary_op / unary operators / clip (the NumPy ufunc semantics on one entry) -/

/-- the twelve binary operators installed on Field and MultiField -/
inductive BinOp where
  | add | sub | mul | truediv | floordiv | pow | lt | le | gt | ge | eq | ne
deriving DecidableEq, Repr

/-- what NumPy provides on the element type beyond the field operations -/
structure ElemOps (K : Type) where
  /-- `<` (lexicographic on complex numbers) -/
  lt : K → K → Bool
  /-- `<=` -/
  le : K → K → Bool
  /-- `floor_divide` on real values -/
  floordiv : K → K → K
  /-- the exponent as a natural number (generated exponents are small non-negative integers) -/
  expNat : K → Nat
  /-- the value is a negative real number -/
  isNeg : K → Bool
  /-- the value is not a non-negative integer (exponents the model does not evaluate) -/
  notNatVal : K → Bool
  conj : K → K
  re : K → K
  im : K → K

def ofB [OfNat K 0] [OfNat K 1] (b : Bool) : K := if b then 1 else 0

/-- one entry of the result of `a <op> b` -/
def evalBin [Add K] [Sub K] [Mul K] [Inv K] [OfNat K 0] [OfNat K 1] [DecidableEq K] (E : ElemOps K) :
    BinOp → K → K → K
  | .add, a, b => a + b
  | .sub, a, b => a - b
  | .mul, a, b => a * b
  | .truediv, a, b => a * b⁻¹
  | .floordiv, a, b => E.floordiv a b
  | .pow, a, b => npow a (E.expNat b)
  | .lt, a, b => ofB (E.lt a b)
  | .le, a, b => ofB (E.le a b)
  | .gt, a, b => ofB (E.lt b a)
  | .ge, a, b => ofB (E.le b a)
  | .eq, a, b => ofB (decide (a = b))
  | .ne, a, b => ofB (decide (a ≠ b))

/-- dtype kind of the result (NumPy promotion on the generated kinds; a Python scalar enters with its own kind) -/
def binDt : BinOp → DT → DT → DT
  | .add, x, y | .sub, x, y | .mul, x, y | .floordiv, x, y | .pow, x, y => max x y
  | .truediv, x, y => max (max x y) DT.float
  | _, _, _ => DT.bool

/-- what NumPy refuses before computing anything (error kinds); "model-unsupported" marks inputs the model does not
    evaluate (division by zero, non-integer or negative exponents of non-integers) — never generated -/
def binGuard [OfNat K 0] [DecidableEq K] (E : ElemOps K) (o : BinOp) (dta dtb : DT) (bvals : List K) : Option String :=
  if o = .floordiv ∧ (dta = DT.complex ∨ dtb = DT.complex) then some "TypeError"
  else if o = .pow ∧ dta ≤ DT.int ∧ dtb ≤ DT.int ∧ bvals.any E.isNeg then some "ValueError"
  else if o = .pow ∧ bvals.any E.notNatVal then some "model-unsupported"
  else if (o = .truediv ∨ o = .floordiv) ∧ bvals.any (fun b => decide (b = 0)) then some "model-unsupported"
  else none

/-- Field.<op>(other: Field) (`rev`: the reflected operator `__r<op>__`, i.e. `other <op> self`):
    identity check of the domains, NumPy's own argument checks, then entry by entry -/
def fieldBin [Add K] [Sub K] [Mul K] [Inv K] [OfNat K 0] [OfNat K 1] [DecidableEq K] (E : ElemOps K)
    (o : BinOp) (rev : Bool) (f g : Fld K) : Except String (Fld K) :=
  if g.dom ≠ f.dom then .error "ValueError" else
  let a := if rev then g else f
  let b := if rev then f else g
  match binGuard E o a.dt b.dt ((allIdx b.sizes).map b.val) with
  | some e => .error e
  | none =>
    if rev then binop (fun x y => evalBin E o y x) (fun x y => binDt o y x) f g
    else binop (evalBin E o) (binDt o) f g

/-- Field.<op>(other: Python scalar of kind `cdt`) -/
def fieldBinScalar [Add K] [Sub K] [Mul K] [Inv K] [OfNat K 0] [OfNat K 1] [DecidableEq K] (E : ElemOps K)
    (o : BinOp) (rev : Bool) (f : Fld K) (c : K) (cdt : DT) : Except String (Fld K) :=
  let g : Option String :=
    if rev then binGuard E o cdt f.dt ((allIdx f.sizes).map f.val) else binGuard E o f.dt cdt [c]
  match g with
  | some e => .error e
  | none =>
    if rev then .ok (binopScalar (fun x y => evalBin E o y x) (fun x y => binDt o y x) f c cdt)
    else .ok (binopScalar (evalBin E o) (binDt o) f c cdt)

/-- Field.unite(other) = `self + other` -/
def funite [Add K] [Sub K] [Mul K] [Inv K] [OfNat K 0] [OfNat K 1] [DecidableEq K] (E : ElemOps K)
    (f g : Fld K) : Except String (Fld K) := fieldBin E .add false f g

/-- Field.flexible_addsub(other, neg) = `self - other if neg else self + other` -/
def fflex [Add K] [Sub K] [Mul K] [Inv K] [OfNat K 0] [OfNat K 1] [DecidableEq K] (E : ElemOps K)
    (f g : Fld K) (neg : Bool) : Except String (Fld K) := if neg then fieldBin E .sub false f g else fieldBin E .add false f g

/-- unary operators; `abs` is separate (square root for complex data) -/
inductive UnOp where
  | neg | pos | conjugate | real | imag
deriving DecidableEq, Repr

/-- `conjugate`, `real`, `+x` hand back the very same Field object when there is nothing to do -/
def unSame : UnOp → DT → Bool
  | .pos, _ => true
  | .conjugate, d => d != DT.complex
  | .real, d => d != DT.complex
  | _, _ => false

def fieldUn [Neg K] (E : ElemOps K) (o : UnOp) (f : Fld K) : Except String (Fld K) :=
  match o with
  | .neg => .ok (unop (fun x => -x) id f)
  | .pos => .ok f
  | .conjugate => if f.dt = DT.complex then .ok (unop E.conj id f) else .ok f
  | .real => if f.dt = DT.complex then .ok (unop E.re (fun _ => DT.float) f) else .ok f
  | .imag => if f.dt = DT.complex then .ok (unop E.im (fun _ => DT.float) f) else .error "ValueError"

/-- Field.__abs__: `ab` is `|·|` (a real number also for complex data) -/
def fieldAbs (ab : K → K) (f : Fld K) : Fld K :=
  unop ab (fun d => if d = DT.complex then DT.float else d) f

/-- `np.clip(x, lo, hi)` = `minimum(maximum(x, lo), hi)`; a missing bound does nothing -/
def clipVal (E : ElemOps K) (lo hi : Option K) (x : K) : K :=
  let y := match lo with | some l => if E.lt x l then l else x | none => x
  match hi with | some h => if E.lt h y then h else y | none => y

/-- Field.clip(a_min, a_max) with Python scalar bounds of kinds `ldt`, `hdt` -/
def fieldClip (E : ElemOps K) (f : Fld K) (lo hi : Option K) (ldt hdt : DT) : Fld K :=
  { f with dt := max f.dt (max (if lo.isSome then ldt else 0) (if hi.isSome then hdt else 0)),
           val := fun i => clipVal E lo hi (f.val i) }

/-! ### all / any / size -/

/-- Field.s_all: every entry is non-zero -/
def sAll [OfNat K 0] [DecidableEq K] (f : Fld K) : Bool := (allIdx f.sizes).all fun i => decide (f.val i ≠ 0)
/-- Field.s_any -/
def sAny [OfNat K 0] [DecidableEq K] (f : Fld K) : Bool := (allIdx f.sizes).any fun i => decide (f.val i ≠ 0)

/-- `x.all(axis=…)` -/
def contractAll [OfNat K 0] [OfNat K 1] [DecidableEq K] (mask : List Bool) (sizes : List Nat) (x : Idx → K) : Idx → K :=
  fun o => ofB ((allIdx (sel true mask sizes)).all fun c => decide (x (merge mask o c) ≠ 0))
/-- `x.any(axis=…)` -/
def contractAny [OfNat K 0] [OfNat K 1] [DecidableEq K] (mask : List Bool) (sizes : List Nat) (x : Idx → K) : Idx → K :=
  fun o => ofB ((allIdx (sel true mask sizes)).any fun c => decide (x (merge mask o c) ≠ 0))

/-- Field.all(spaces) -/
def fall [OfNat K 0] [OfNat K 1] [DecidableEq K] (f : Fld K) (sp : Spaces) : Except String (Fld K) :=
  match parseSpaces sp f.subs.length with
  | .error e => .error e
  | .ok l => .ok (contractFld f l DT.bool contractAll)
/-- Field.any(spaces) -/
def fany [OfNat K 0] [OfNat K 1] [DecidableEq K] (f : Fld K) (sp : Spaces) : Except String (Fld K) :=
  match parseSpaces sp f.subs.length with
  | .error e => .error e
  | .ok l => .ok (contractFld f l DT.bool contractAny)

/-- MultiField.s_all: the loop returns False at the first leaf that is not all-true -/
def msAll [OfNat K 0] [DecidableEq K] (a : MFld K) : Bool := a.leaves.all fun kv => sAll kv.2
/-- MultiField.s_any -/
def msAny [OfNat K 0] [DecidableEq K] (a : MFld K) : Bool := a.leaves.any fun kv => sAny kv.2
/-- MultiField.size = sum of the leaf domain sizes -/
def msize (a : MFld K) : Nat := (a.leaves.map fun kv => prodNat kv.2.sizes).sum

/-- SPECIFICATION side: the MultiField `α·a + b` leaf by leaf (used to state linearity of MultiField.vdot) -/
def mlin [Add K] [Mul K] (α : K) (a b : MFld K) : MFld K :=
  { a with leaves := List.zipWith (fun x y => (x.1, { x.2 with val := fun i => α * x.2.val i + y.2.val i })) a.leaves b.leaves }

/-- SPECIFICATION side: dot product of two MultiFields as the sum of the leaf dot products -/
def mvdVal [Add K] [Mul K] [OfNat K 0] (conj : K → K) (a b : MFld K) : K :=
  sumOver (a.leaves.zip b.leaves) fun p => sumOver (allIdx p.1.2.sizes) fun i => conj (p.1.2.val i) * p.2.2.val i

/-- SPECIFICATION side: the leaf stored under a key (`MultiField.__getitem__`) -/
def lookupLeaf (k : String) (l : List (String × Fld K)) : Option (Fld K) :=
  (l.find? fun kv => kv.1 == k).map (·.2)

end Ops

/-! ### the driver's scalar type: complex numbers with exact rational parts -/

structure CRat where
  re : Rat
  im : Rat
deriving DecidableEq, Repr, Inhabited

namespace CRat
instance : Add CRat := ⟨fun a b => ⟨a.re + b.re, a.im + b.im⟩⟩
instance : Sub CRat := ⟨fun a b => ⟨a.re - b.re, a.im - b.im⟩⟩
instance : Neg CRat := ⟨fun a => ⟨-a.re, -a.im⟩⟩
instance : Mul CRat := ⟨fun a b => ⟨a.re * b.re - a.im * b.im, a.re * b.im + a.im * b.re⟩⟩
instance : OfNat CRat 0 := ⟨⟨0, 0⟩⟩
instance : OfNat CRat 1 := ⟨⟨1, 0⟩⟩
instance : NatCast CRat := ⟨fun n => ⟨(n : Rat), 0⟩⟩
def conj (a : CRat) : CRat := ⟨a.re, -a.im⟩
def normSq (a : CRat) : Rat := a.re * a.re + a.im * a.im
instance : Inv CRat := ⟨fun a => ⟨a.re / a.normSq, -a.im / a.normSq⟩⟩
def ofRat (r : Rat) : CRat := ⟨r, 0⟩
/-- `abs(z)**2` as a (real) complex number -/
def nsq (a : CRat) : CRat := ⟨a.normSq, 0⟩
/-- NumPy orders complex numbers lexicographically -/
def lt (a b : CRat) : Bool := a.re < b.re || (a.re == b.re && a.im < b.im)
def le (a b : CRat) : Bool := a.re < b.re || (a.re == b.re && a.im ≤ b.im)
/-- NumPy's element operations on exact complex rationals -/
def elemOps : ElemOps CRat where
  lt := lt
  le := le
  floordiv a b := ofRat ((a.re / b.re).floor : Int)
  expNat b := b.re.num.toNat
  isNeg b := b.re < 0
  notNatVal b := b.im != 0 || b.re.den != 1 || b.re < 0
  conj := conj
  re a := ⟨a.re, 0⟩
  im a := ⟨a.im, 0⟩
end CRat

end NiftyVerif.FieldM
