/-
  Generic model of a linear operator as a weighted index map (COO triplets), DESIGN.md §2.3.
  Core imports only.  Vectors are functions `Nat → K` read on `[0, n)`; multi-dimensional fields are
  raveled row-major (`ravel` / `unravel`), MultiFields are the concatenation of their key-sorted blocks.
  Everything is polymorphic in the scalar type `K`; the conjugation is passed explicitly (`cj`), so the
  same definitions run over `Rat` (cj = id) and over Gaussian rationals `CQ` (driver) and unfold under
  `[CommRing K]` in the proof files.
-/
namespace NiftyVerif

/-- list sum by plain recursion (avoids instance mismatches between core and Mathlib) -/
def sumL {K : Type} [Add K] [OfNat K 0] : List K → K
  | [] => 0
  | a :: l => a + sumL l

/-- `Σ_{i<n} f i` -/
def sumN {K : Type} [Add K] [OfNat K 0] (n : Nat) (f : Nat → K) : K := sumL ((List.range n).map f)

/-- product of a list of naturals (size of a shape) -/
def prodL : List Nat → Nat
  | [] => 1
  | a :: l => a * prodL l

/-- row-major flat index of a multi-index (`np.ravel_multi_index`, C order) -/
def ravel : List Nat → List Nat → Nat
  | n :: sh, i :: idx => i * prodL sh + ravel sh idx
  | _, _ => 0

/-- multi-index of a flat index (`np.unravel_index`, C order) -/
def unravel : List Nat → Nat → List Nat
  | [], _ => []
  | _ :: sh, k => (k / prodL sh) :: unravel sh (k % prodL sh)

/-- a multi-index is inside a shape -/
def inShape : List Nat → List Nat → Bool
  | [], [] => true
  | n :: sh, i :: idx => decide (i < n) && inShape sh idx
  | _, _ => false

structure Coo (K : Type) where
  rows : Nat
  cols : Nat
  ent : List (Nat × Nat × K)

namespace Coo
variable {K : Type}

/-- all entries are inside the declared shape -/
def wf (M : Coo K) : Bool := M.ent.all fun e => decide (e.1 < M.rows) && decide (e.2.1 < M.cols)

/-- contribution of an entry list to output component `r` -/
def applyE [Add K] [Mul K] [OfNat K 0] (ent : List (Nat × Nat × K)) (x : Nat → K) (r : Nat) : K :=
  sumL (ent.map fun e => if e.1 = r then e.2.2 * x e.2.1 else 0)

/-- `y = M x` -/
def apply [Add K] [Mul K] [OfNat K 0] (M : Coo K) (x : Nat → K) (r : Nat) : K := applyE M.ent x r

/-- adjoint entry list: swap indices, conjugate weights -/
def adjE (cj : K → K) (ent : List (Nat × Nat × K)) : List (Nat × Nat × K) :=
  ent.map fun e => (e.2.1, e.1, cj e.2.2)

/-- adjoint operator -/
def adj (cj : K → K) (M : Coo K) : Coo K := ⟨M.cols, M.rows, adjE cj M.ent⟩

/-- `Aᴴ y` -/
def applyAdj [Add K] [Mul K] [OfNat K 0] (cj : K → K) (M : Coo K) (y : Nat → K) (c : Nat) : K :=
  apply (adj cj M) y c

/-- dense matrix element (duplicates add up) -/
def dense [Add K] [OfNat K 0] (M : Coo K) (r c : Nat) : K :=
  sumL (M.ent.map fun e => if e.1 = r ∧ e.2.1 = c then e.2.2 else 0)

/-- inner product `⟨y, z⟩ = Σ_{i<n} conj(y i) · z i` (conjugate-linear in the first slot) -/
def inner [Add K] [Mul K] [OfNat K 0] (cj : K → K) (n : Nat) (y z : Nat → K) : K :=
  sumN n fun i => cj (y i) * z i

/-- composition `M ∘ N` -/
def comp [Mul K] (M N : Coo K) : Coo K :=
  ⟨M.rows, N.cols, M.ent.flatMap fun e => N.ent.filterMap fun f =>
      if e.2.1 = f.1 then some (e.1, f.2.1, e.2.2 * f.2.2) else none⟩

/-- sum `M + N` (same shape) -/
def add (M N : Coo K) : Coo K := ⟨M.rows, M.cols, M.ent ++ N.ent⟩

/-- scalar multiple -/
def scale [Mul K] (a : K) (M : Coo K) : Coo K := ⟨M.rows, M.cols, M.ent.map fun e => (e.1, e.2.1, a * e.2.2)⟩

/-- identity on `n` components -/
def ident [OfNat K 1] (n : Nat) : Coo K := ⟨n, n, (List.range n).map fun i => (i, i, 1)⟩

/-- Kronecker embedding `1_pre ⊗ M ⊗ 1_post`: act on the middle axis of a `(pre, ·, post)` array -/
def onAxis (pre post : Nat) (M : Coo K) : Coo K :=
  ⟨pre * M.rows * post, pre * M.cols * post,
   (List.range pre).flatMap fun a => M.ent.flatMap fun e => (List.range post).map fun b =>
     ((a * M.rows + e.1) * post + b, (a * M.cols + e.2.1) * post + b, e.2.2)⟩

/-- operator given row by row: row `r` gathers `Σ w · x c` over `(c, w) ∈ f r` -/
def ofRows (rows cols : Nat) (f : Nat → List (Nat × K)) : Coo K :=
  ⟨rows, cols, (List.range rows).flatMap fun r => (f r).map fun cw => (r, cw.1, cw.2)⟩

/-- operator given column by column: input `c` is scattered to `(r, w) ∈ g c` -/
def ofCols (rows cols : Nat) (g : Nat → List (Nat × K)) : Coo K :=
  ⟨rows, cols, (List.range cols).flatMap fun c => (g c).map fun rw => (rw.1, c, rw.2)⟩

/-- pure gather `y r = x (src r)` -/
def gather [OfNat K 1] (rows cols : Nat) (src : Nat → Nat) : Coo K :=
  ofRows rows cols fun r => [(src r, 1)]

/-- partial gather: rows whose source is `none` stay zero -/
def gatherO [OfNat K 1] (rows cols : Nat) (src : Nat → Option Nat) : Coo K :=
  ofRows rows cols fun r => match src r with | some c => [(c, 1)] | none => []

/-- diagonal operator -/
def diag (n : Nat) (d : Nat → K) : Coo K := ofRows n n fun r => [(r, d r)]

/-- block placement: put `M` at row offset `ro`, column offset `co` inside a `rows × cols` operator -/
def place (rows cols ro co : Nat) (M : Coo K) : Coo K :=
  ⟨rows, cols, M.ent.map fun e => (ro + e.1, co + e.2.1, e.2.2)⟩

/-- vector of a list (zero outside) -/
def vecOf [OfNat K 0] (l : List K) (i : Nat) : K := l.getD i 0

/-- list of the first `n` components -/
def toList (n : Nat) (x : Nat → K) : List K := (List.range n).map x

end Coo
end NiftyVerif
