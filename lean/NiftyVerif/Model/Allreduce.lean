/-
  Model of `nifty/cl/utilities.py::allreduce_sum` (+ `_send/_recv/_bcast`) as a message-passing system
  with SYNCHRONOUS point-to-point semantics (a send completes only together with the matching recv).
  Core imports only.

  Code being transcribed (utilities.py, `allreduce_sum`):

      step = 1
      while step < nobj:
          for j in range(0, nobj, 2*step):
              if j+step < nobj:
                  if rank == who[j]:
                      if who[j] == who[j+step]:  vals[j] = vals[j] + vals[j+step]; vals[j+step] = None
                      else:                      vals[j] = vals[j] + _recv(comm, source=who[j+step], ...)
                  elif rank == who[j+step]:
                      _send(comm, vals[j+step], dest=who[j], ...); vals[j+step] = None
          step *= 2
      return vals[0]  /  _bcast(comm, vals[0], root=who[0])

  * `events n`  : the global list of combine events in the loop order of the code (it does not depend on `who`).
  * `act who r e`: what rank `r` does for event `e` — exactly the `if/elif` cascade above.
  * `proj who r E`: rank `r`'s program = the events it takes part in, in loop order.
  * `Step`: a local addition at some rank's head, or a rendezvous of a `recv from b` at the head of rank `a`
            with a `send to a` at the head of rank `b` (matching is by PEER only, as in MPI with default tags;
            that both heads then belong to the same event is a theorem, not an assumption).
  * values are expression trees `T` (leaf i = the i-th summand), so the final value records the parenthesisation;
    slots hold `Option T` (`none` = Python's `None`; adding a `None` yields `none`, so a final `some t` also shows
    that no `None` was ever used as a summand).
  * a compound message (`_send` of an ndarray / Field / MultiField is several `comm.send/Send` calls) is modelled
    by splitting the event into `m` sub-events (`part = 0..m-1`), only the last of which (`fin`) performs the
    addition; all generic theorems are about arbitrary event lists and so cover the split lists too.
-/
namespace NiftyVerif.Allreduce

/-- expression trees over the summands: the value of a slot records how it was computed -/
inductive T where
  | leaf (i : Nat)
  | add (l r : T)
deriving DecidableEq, Repr

/-- in-order list of leaves -/
def T.leaves : T → List Nat
  | .leaf i => [i]
  | .add l r => l.leaves ++ r.leaves

/-- evaluation in any type with a binary operation (no laws assumed: floats are not associative) -/
def T.eval {α} (f : α → α → α) (x : Nat → α) : T → α
  | .leaf i => x i
  | .add l r => f (l.eval f x) (r.eval f x)

def T.toString : T → String
  | .leaf i => s!"{i}"
  | .add l r => "(" ++ l.toString ++ "+" ++ r.toString ++ ")"

/-- one combine event `vals[dst] := vals[dst] + vals[src]`; `part`/`fin` number the sub-messages of a
    compound transfer (a purely local event is a single part with `fin = true`) -/
structure Ev where
  dst : Nat
  src : Nat
  part : Nat
  fin : Bool
deriving DecidableEq, Repr

abbrev Store := Nat → Option T

def add? : Option T → Option T → Option T
  | some a, some b => some (T.add a b)
  | _, _ => none

def upd (s : Store) (i : Nat) (v : Option T) : Store := fun x => if x = i then v else s x

/-- effect of a completed event on the slots: `vals[dst] = vals[dst] + vals[src]; vals[src] = None` -/
def exec (e : Ev) (s : Store) : Store :=
  if e.fin then upd (upd s e.dst (add? (s e.dst) (s e.src))) e.src none else s

def execAll (E : List Ev) (s : Store) : Store := E.foldl (fun s e => exec e s) s

/-- what a single rank does for an event -/
inductive Act where
  | loc (e : Ev)
  | recv (peer : Nat) (e : Ev)
  | send (peer : Nat) (e : Ev)
deriving DecidableEq, Repr

/-- the `if rank == who[j]: (if who[j] == who[j+step] … else …) elif rank == who[j+step]: …` cascade -/
def act (who : Nat → Nat) (r : Nat) (e : Ev) : Option Act :=
  if r = who e.dst then
    (if who e.dst = who e.src then some (.loc e) else some (.recv (who e.src) e))
  else if r = who e.src then some (.send (who e.dst) e)
  else none

/-- rank `r`'s program: its actions, in the global loop order -/
def proj (who : Nat → Nat) (r : Nat) (E : List Ev) : List Act := E.filterMap (act who r)

/-- system state: remaining program of every rank, and the slots (slot `j` lives on rank `who j`:
    by construction of `act`, rank `r` only ever reads or writes slots `j` with `who j = r`) -/
structure St where
  prog : Nat → List Act
  store : Store

def setProg (p : Nat → List Act) (r : Nat) (l : List Act) : Nat → List Act := fun x => if x = r then l else p x

/-- effect of a rendezvous: the RECEIVER's action says where the payload is added (`e.dst`), the SENDER's
    action says which slot is shipped and cleared (`e'.src`) -/
def execRdv (e e' : Ev) (s : Store) : Store :=
  let s1 := if e.fin then upd s e.dst (add? (s e.dst) (s e'.src)) else s
  if e'.fin then upd s1 e'.src none else s1

inductive Step : St → St → Prop where
  | loc (st : St) (r : Nat) (e : Ev) (rest : List Act) :
      st.prog r = .loc e :: rest →
      Step st { prog := setProg st.prog r rest, store := exec e st.store }
  | rdv (st : St) (a b : Nat) (e e' : Ev) (ra rb : List Act) :
      a ≠ b → st.prog a = .recv b e :: ra → st.prog b = .send a e' :: rb →
      Step st { prog := setProg (setProg st.prog a ra) b rb, store := execRdv e e' st.store }

def initSt (who : Nat → Nat) (E : List Ev) (init : Store) : St :=
  { prog := fun r => proj who r E, store := init }

/-- states reachable in exactly `k` transitions, under ANY scheduling -/
inductive Reach (who : Nat → Nat) (E : List Ev) (init : Store) : Nat → St → Prop where
  | zero : Reach who E init 0 (initSt who E init)
  | succ {k st st'} : Reach who E init k st → Step st st' → Reach who E init (k + 1) st'

/-! ### the concrete event list of `allreduce_sum` -/

/-- one sweep `for j in range(0, n, 2*s): if j+s < n: …` -/
def round (n s : Nat) : List Ev :=
  ((List.range n).filter (fun j => j % (2 * s) = 0 ∧ j + s < n)).map (fun j => ⟨j, j + s, 0, true⟩)

/-- `step = s; while step < n: round; step *= 2` with explicit fuel (fuel `n` is enough, see `tree_value`) -/
def eventsAux (n : Nat) : Nat → Nat → List Ev
  | _, 0 => []
  | s, f + 1 => if s < n then round n s ++ eventsAux n (2 * s) f else []

def events (n : Nat) : List Ev := eventsAux n 1 n

/-- the sub-events of a compound transfer of `m` messages -/
def parts (m : Nat) (e : Ev) : List Ev :=
  (List.range m).map (fun i => { e with part := i, fin := i + 1 == m })

/-- events with cross-rank transfers split into `m` sub-messages (local additions stay single) -/
def expand (who : Nat → Nat) (m : Nat) (E : List Ev) : List Ev :=
  E.flatMap (fun e => if who e.dst = who e.src then [e] else parts m e)

def initStore (n : Nat) : Store := fun j => if j < n then some (.leaf j) else none

/-- the fixed pairwise tree, by level: level `l` combines blocks of length `2^l`; depends on `n` only -/
def treeL (n : Nat) : Nat → Nat → T
  | 0, j => .leaf j
  | l + 1, j => if j + 2 ^ l < n then .add (treeL n l j) (treeL n l (j + 2 ^ l)) else treeL n l j

def pairwiseTree (n : Nat) : T := treeL n n 0

/-- `who` from the per-rank counts (ordered partition): `[t for t,(l,h) in enumerate(rank_lo_hi) for _ in range(h-l)]` -/
def whoList (counts : List Nat) : List Nat :=
  (List.range counts.length).flatMap (fun t => List.replicate (counts.getD t 0) t)

def whoOf (counts : List Nat) : Nat → Nat := fun j => (whoList counts).getD j 0

/-! ### compound messages: the sequence of communicator calls of `_send` / `_recv` / `_bcast` per payload type -/

/-- payload types distinguished by `_send/_recv/_bcast` -/
inductive Ty where
  | plain                     -- anything else: one pickled message
  | ndarray                   -- `(shape, dtype)` pickled, then the buffer
  | field (inner : Ty)        -- `(domain, type(val))` pickled, then the value
  | multifield (nkeys : Nat)  -- the key tuple, then one Field (with plain `AnyArray` value) per key
deriving Repr

/-- kinds of point-to-point calls -/
inductive Msg where
  | obj   -- `comm.send` / `comm.recv` (pickled object)
  | buf   -- `comm.Send` / `comm.Recv` (buffer)
deriving DecidableEq, Repr

def sendSeq : Ty → List Msg
  | .plain => [.obj]
  | .ndarray => [.obj, .buf]
  | .field t => .obj :: sendSeq t
  | .multifield k => .obj :: (List.replicate k [Msg.obj, Msg.obj]).flatten

def recvSeq : Ty → List Msg
  | .plain => [.obj]
  | .ndarray => [.obj, .buf]
  | .field t => .obj :: recvSeq t
  | .multifield k => .obj :: (List.replicate k [Msg.obj, Msg.obj]).flatten

/-- the collective calls of `_bcast`: first the type, then the payload parts (`buf` = `comm.Bcast`) -/
def bcastSeq : Ty → List Msg
  | .plain => [.obj, .obj]
  | .ndarray => [.obj, .obj, .buf]
  | .field t => .obj :: .obj :: bcastSeq t
  | .multifield k => .obj :: .obj :: (List.replicate k [Msg.obj, Msg.obj, Msg.obj, Msg.obj]).flatten

/-- the complete sequence of communicator calls of rank `r` in `allreduce_sum(obj, comm)`:
    `allgather`, `allreduce`, the point-to-point calls of its program (local additions are silent), `_bcast` -/
inductive Call where
  | allgather | allreduce
  | send (peer : Nat) (k : Msg) | recv (peer : Nat) (k : Msg)
  | bcast (root : Nat) (k : Msg)
deriving DecidableEq, Repr

def actCalls (ty : Ty) : Act → List Call
  | .loc _ => []
  | .recv b _ => (recvSeq ty).map (Call.recv b)
  | .send a _ => (sendSeq ty).map (Call.send a)

/-- `bty` = type of the final value as seen by `_bcast` (it differs from the summands' type for zero-dimensional
    arrays, whose sums are numpy scalars) -/
def calls (who : Nat → Nat) (ty bty : Ty) (n r : Nat) : List Call :=
  [.allgather, .allreduce] ++ (proj who r (events n)).flatMap (actCalls ty) ++ (bcastSeq bty).map (Call.bcast (who 0))

end NiftyVerif.Allreduce

/-!
### The collective used for type detection: `dtype = comm.allreduce([type(x) for x in vals if x is not None])`

mpi4py reduces Python objects with `+` (here: list concatenation, which is NOT commutative) in an order that depends on
the MPI library's reduction tree.  The code only uses `list(set(dtype))` and asserts `len(...) == 1`, so the order cannot
matter; the model makes this explicit: a reduction tree over the ranks' lists in any shape and any rank order.
-/
namespace NiftyVerif.Allreduce

/-- an arbitrary reduction order: a binary tree whose leaves name ranks -/
inductive RTree where
  | leaf (r : Nat)
  | node (l r : RTree)
deriving Repr

def RTree.leavesOf : RTree → List Nat
  | .leaf r => [r]
  | .node l r => l.leavesOf ++ r.leavesOf

/-- reduce the per-rank lists `ls` with `+` = concatenation along the tree -/
def RTree.reduce {α} (ls : Nat → List α) : RTree → List α
  | .leaf r => ls r
  | .node l r => l.reduce ls ++ r.reduce ls

/-- `len(set(dtype)) == 1` : all entries equal and at least one entry -/
def uniqueType {α} [DecidableEq α] (l : List α) : Option α :=
  match l with
  | [] => none
  | a :: rest => if rest.all (fun b => decide (b = a)) then some a else none

end NiftyVerif.Allreduce
