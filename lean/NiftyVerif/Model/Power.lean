/-
  Model/Power.lean — PowerDistributor / DOFDistributor, power_analyze, create_power_operator (property C10),
  on top of Model/Domains.lean.  Fields over the harmonic partner are flattened (`List K`, pixel order); a field over
  a product domain is a list of (pre × post) fibres along the analysed sub-space.
  Transcribed: DOFDistributor._times / _adjoint_times (distributors.py), _single_power_analyze, power_analyze incl.
  its keep_phase_information guard (sugar.py; `cfg.guardAsFound` = the inverted guard of the code as found),
  _create_power_field / create_power_operator.  Core imports only.
-/
import NiftyVerif.Model.Domains

namespace NiftyVerif.Power
open NiftyVerif.Domains

section poly
variable {K : Type} [Add K] [Sub K] [Mul K] [Div K] [NatCast K] [OfNat K 0] [OfNat K 1]

/-- `DOFDistributor._times`: `oarr = arr[:, dofdex, :]` on one fibre: every pixel gets the value of its bin -/
def distribute (pindex : List Nat) (s : List K) : List K := pindex.map fun b => s.getD b 0

/-- members' sum for bin `b` -/
def sumWhere (b : Nat) (pindex : List Nat) (f : List K) : K :=
  ((List.zip pindex f).filter fun p => p.1 == b).foldl (fun acc p => acc + p.2) 0

/-- `DOFDistributor._adjoint_times`: `special_add_at(zeros, 1, dofdex, arr)`: sums over each bin -/
def distributeAdj (nbin : Nat) (pindex : List Nat) (f : List K) : List K :=
  (List.range nbin).map fun b => sumWhere b pindex f

/-- `_single_power_analyze`: `pd.adjoint_times(field.weight(1)).weight(-1)`:
    weight(1) multiplies by the partner's `dvol`, weight(-1) divides by the power space's `dvol_b = rho_b * dvol` -/
def analyze (pindex : List Nat) (rho : List Nat) (dvol : K) (f : List K) : List K :=
  List.zipWith (fun (s : K) (r : Nat) => s / ((r : K) * dvol))
    (distributeAdj rho.length pindex (f.map fun x => x * dvol)) rho

/-- `create_power_operator`: `DiagonalOperator(PowerDistributor(domain, power_domain)(fp))` applied to `x` -/
def powerOperator (pindex : List Nat) (s : List K) (x : List K) : List K :=
  List.zipWith (· * ·) (distribute pindex s) x

/-- analysis over one harmonic sub-space of a product domain: every (pre, post) fibre is analysed on its own -/
def analyzeFibres (pindex : List Nat) (rho : List Nat) (dvol : K) (fibres : List (List K)) : List (List K) :=
  fibres.map (analyze pindex rho dvol)

end poly

inductive PErr where
  | valueError | attributeError
  deriving Repr, DecidableEq, Inhabited

structure Cfg where
  guardAsFound : Bool

def asFound : Cfg := ⟨true⟩
def fixed : Cfg := ⟨false⟩

/-- a complex field as (real parts, imaginary parts); `none` imaginary parts = a real-valued field -/
structure CField (K : Type) where
  re : List K
  im : Option (List K)

section pa
variable {K : Type} [Add K] [Sub K] [Mul K] [Div K] [NatCast K] [OfNat K 0] [OfNat K 1]

/-- the result of `power_analyze`: real spectrum, or (spectrum of the real part, spectrum of the imaginary part) -/
inductive PResult (K : Type) where
  | real (s : List K)
  | phase (sre sim : List K)

/-- `power_analyze(field, keep_phase_information=keep)` on one harmonic space.
    Code as found: `if (not field_real) and keep: raise ValueError` — complex input is rejected and real input goes on to
    `field.imag`, which raises for a real field.  Repaired: `if field_real and keep: raise ValueError`. -/
def powerAnalyze (cfg : Cfg) (pindex : List Nat) (rho : List Nat) (dvol : K) (f : CField K) (keep : Bool) :
    Except PErr (PResult K) :=
  let fieldReal := f.im.isNone
  let sq (l : List K) := l.map fun x => x * x
  if (if cfg.guardAsFound then (!fieldReal) && keep else fieldReal && keep) then .error .valueError
  else if keep then
    match f.im with
    | some im => .ok (.phase (analyze pindex rho dvol (sq f.re)) (analyze pindex rho dvol (sq im)))
    | none => .error .valueError        -- Field.imag: ".imag called on a non-complex Field"
  else
    match f.im with
    | none => .ok (.real (analyze pindex rho dvol (sq f.re)))
    | some im => .ok (.real (analyze pindex rho dvol (List.zipWith (· + ·) (sq f.re) (sq im))))

end pa

end NiftyVerif.Power
