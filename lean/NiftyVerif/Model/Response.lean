/-
  Response operators (C35): multilinear interpolation (`LinearInterpolator._build_mat`), line-of-sight weights
  (`LOSResponse`, σ = 0: exact traversal), on top of Model/Coo.lean.  Regridding, zero padding and masks are in
  Model/LinOps.lean.  Core only.
-/
import NiftyVerif.Model.Coo

namespace NiftyVerif.Response
open NiftyVerif Coo

variable {K : Type}

/-- corner offsets `{0,1}^d` in `np.mgrid[(slice(0,2),)*d]` raveled order (first axis slowest) -/
def corners : Nat → List (List Nat)
  | 0 => [[]]
  | d + 1 => (corners d).map (0 :: ·) ++ (corners d).map (1 :: ·)

def absK [LT K] [DecidableLT K] [Neg K] [OfNat K 0] (a : K) : K := if a < 0 then -a else a

/-- the code's factor `Π_d |1 − e_d − c_d|` for corner `e` and excess `c` -/
def cornerWeight [LT K] [DecidableLT K] [Neg K] [Sub K] [Mul K] [OfNat K 0] [OfNat K 1] : List K → List Nat → K
  | c :: cs, e :: es => absK (1 - (if e = 0 then 0 else 1) - c) * cornerWeight cs es
  | _, _ => 1

/-- wrapped node index `(pos + e) % shape` per axis -/
def wrapIdx : List Nat → List Int → List Nat → List Nat
  | n :: sh, p :: ps, e :: es => ((p + (e : Int)) % (n : Int)).toNat :: wrapIdx sh ps es
  | _, _, _ => []

/-- one row of the interpolation matrix: `(column, weight)` for the `2^d` corners -/
def interpRow [LT K] [DecidableLT K] [Neg K] [Sub K] [Mul K] [OfNat K 0] [OfNat K 1]
    (shape : List Nat) (pos : List Int) (exc : List K) : List (Nat × K) :=
  (corners shape.length).map fun e => (ravel shape (wrapIdx shape pos e), cornerWeight exc e)

/-- LinearInterpolator over exact rationals: `pos = floor(x / dist)`, `excess = x / dist − pos` -/
def interpCoo (shape : List Nat) (dist : List Rat) (points : List (List Rat)) : Coo Rat :=
  ofRows points.length (prodL shape) fun r =>
    let p := points.getD r []
    let q := (p.zip dist).map fun xd => xd.1 / xd.2
    interpRow shape (q.map Rat.floor) (q.map fun v => v - (Rat.floor v : Rat))

/-! ### line of sight, σ = 0 : lengths (in the line parameter `t ∈ [0,1]`) of the segment inside each pixel -/

def maxL (d : Rat) : List Rat → Rat
  | [] => d
  | a :: l => let m := maxL d l; if a < m then m else a

def minL (d : Rat) : List Rat → Rat
  | [] => d
  | a :: l => let m := minL d l; if m < a then m else a

/-- parameter interval `[tmin, tmax]` of the part of the segment `s + t·(e − s)` inside the box `[0, shape]`;
    `none` when empty.  (`s`, `e` in pixel coordinates.) -/
def clipBox (shape : List Nat) (s e : List Rat) : Option (Rat × Rat) :=
  let per := (shape.zip (s.zip e)).map fun nse =>
    let n : Rat := (nse.1 : Nat)
    let s := nse.2.1
    let d := nse.2.2 - nse.2.1
    if d = 0 then (if 0 < s ∧ s < n then (some (0 : Rat), some (1 : Rat)) else (none, none))
    else
      let a := (0 - s) / d
      let b := (n - s) / d
      (some (if a < b then a else b), some (if a < b then b else a))
  if per.any (fun ab => ab.1.isNone) then none else
  let lo := maxL 0 (per.filterMap (·.1))
  let hi := minL 1 (per.filterMap (·.2))
  if lo < hi then some (lo, hi) else none

/-- crossing parameters of the grid planes of axis with start `s`, direction `d ≠ 0`, strictly inside `(lo, hi)` -/
def crossings (s d lo hi : Rat) : List Rat :=
  let a := s + lo * d
  let b := s + hi * d
  let kmin := (if a < b then a else b).floor
  let kmax := (if a < b then b else a).ceil
  ((List.range (kmax - kmin + 1).toNat).map fun (i : Nat) => (((kmin + Int.ofNat i : Int) : Rat) - s) / d).filter
    fun t => decide (lo < t) && decide (t < hi)

/-- consecutive differences and midpoints of a sorted list -/
def intervals : List Rat → List (Rat × Rat)
  | a :: b :: l => (a, b) :: intervals (b :: l)
  | _ => []

/-- the part of the line between the parameters `lo < hi` (both inside the grid): `(pixel flat index, Δt)` per sub-segment
    between consecutive grid-plane crossings; the pixel is the one containing the midpoint of the sub-segment -/
def losSeg (shape : List Nat) (s e : List Rat) (lo hi : Rat) : List (Nat × Rat) :=
  let cr := ((s.zip e).map fun se =>
    if se.2 - se.1 = 0 then [] else crossings se.1 (se.2 - se.1) lo hi).flatten
  let ts := ([lo] ++ cr.mergeSort (fun a b => a ≤ b) ++ [hi])
  (intervals ts).map fun ab =>
    let tm := (ab.1 + ab.2) / 2
    let pix := (s.zip e).map fun se => (se.1 + tm * (se.2 - se.1)).floor.toNat
    (ravel shape pix, ab.2 - ab.1)

/-- LOS weights for one line: `(pixel flat index, Δt)`; the physical length is `Δt · ‖(e−s)·dist‖` -/
def losRow (shape : List Nat) (s e : List Rat) : List (Nat × Rat) :=
  match clipBox shape s e with
  | none => []
  | some (lo, hi) => losSeg shape s e lo hi

/-- LOSResponse(domain, starts, ends), σ = 0, in line-parameter units; starts/ends in physical coordinates -/
def losCoo (shape : List Nat) (dist : List Rat) (starts ends : List (List Rat)) : Coo Rat :=
  ofRows starts.length (prodL shape) fun r =>
    let toPix := fun (p : List Rat) => (p.zip dist).map fun xd => xd.1 / xd.2 + 1 / 2
    losRow shape (toPix (starts.getD r [])) (toPix (ends.getD r []))

end NiftyVerif.Response
