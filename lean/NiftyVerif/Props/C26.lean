/-
  C26 — Sample lists persist faithfully and report exact statistics.
  Property theorems only.  Models: Model/SampleFiles.lean (save/load/_list_local_sample_files/_consecutive_length/
  _ensure_proper_sample_list_ending, with the repaired file filter of fixes/C26_regex_escape.diff),
  Model/Welford.lean (StatCalculator, sample_stat).  Helper lemmas: Lemmas/SampleFiles.lean, Lemmas/Welford.lean.
  Obligations are listed in harness/props/c26.py.
-/
import NiftyVerif.Lemmas.SampleFiles
import NiftyVerif.Lemmas.Welford

namespace NiftyVerif.C26
open NiftyVerif.SampleFiles NiftyVerif.Welford NiftyVerif.Distributed

/-- **consecutive_length_spec**: `_consecutive_length(lst)` succeeds iff 0 is present, and then returns the smallest
    missing index `r ≥ 1`: all of `0..r-1` are present, `r` is not -/
theorem consecutive_length_spec (lst : List Nat) :
    (0 ∉ lst → consecutiveLength lst = .error .noZero) ∧
    (∀ r, consecutiveLength lst = .ok r → 1 ≤ r ∧ (∀ i, i < r → i ∈ lst) ∧ r ∉ lst) := by
  constructor
  · intro h; simp [consecutiveLength, h]
  · intro r h
    exact (consecutiveLength_spec h).2

/-- what a directory looks like right after a successful save of `xs`: files `0..n-1` hold exactly the new samples
    (and are visible to `listdir`), file `n` does not exist -/
def Fresh (d : Dir) (xs : List Tag) : Prop :=
  (∀ i, i < xs.length → d.files i = some (xs.getD i 0) ∧ i < d.hi) ∧ d.files xs.length = none

/-- **save_postcondition**: from ANY directory state (whatever earlier saves, successful or failed, left behind), with
    ANY distribution `counts` of the samples over tasks, with or without `overwrite`: if `save` succeeds the directory
    is `Fresh` for the saved list; a residual list also leaves its mean file -/
theorem save_postcondition (d : Dir) (xs : List Tag) (counts : List Nat) (ow : Bool) (mean : Option Tag)
    (hc : counts.sum = xs.length) (hok : (save d xs counts ow mean).2 = .ok ()) :
    Fresh (save d xs counts ow mean).1 xs ∧ (mean.isSome → (save d xs counts ow mean).1.mean = mean) := by
  unfold save at hok ⊢
  by_cases h1 : (!ow && (d.files xs.length).isSome) = true
  · simp [h1] at hok
  · simp only [h1, Bool.false_eq_true, if_false] at hok ⊢
    by_cases h1b : (!ow && !preCheck d (allItems xs 0 counts) mean) = true
    · simp [h1b] at hok
    simp only [h1b, Bool.false_eq_true, if_false] at hok ⊢
    generalize hd0 : (if ow = true then ({ d with files := fun j => if j = xs.length then none else d.files j } : Dir) else d) = d0 at hok ⊢
    have hd0n : d0.files xs.length = none := by
      subst hd0
      cases ow with
      | true => simp
      | false =>
        simp only [Bool.false_eq_true, if_false]
        simp only [Bool.not_false, Bool.true_and, Bool.not_eq_true] at h1
        cases hh : d.files xs.length with
        | none => rfl
        | some v => simp [hh] at h1
    by_cases h2 : (writeRanks ow d0 (allItems xs 0 counts)).2 = true
    · simp only [h2, Bool.not_true, Bool.false_eq_true, if_false] at hok ⊢
      have hflat := allItems_flatten xs counts 0
      have hnd : ((allItems xs 0 counts).flatten.map Prod.fst).Nodup := by
        rw [hflat, List.map_map]
        have : (Prod.fst ∘ fun i => (i, xs.getD i 0)) = id := by funext i; rfl
        rw [this, List.map_id]
        exact List.nodup_range'
      have hmem := writeRanks_ok_mem ow _ d0 h2 hnd
      have hfresh : Fresh (writeRanks ow d0 (allItems xs 0 counts)).1 xs := by
        constructor
        · intro i hi
          have : (i, xs.getD i 0) ∈ (allItems xs 0 counts).flatten := by
            rw [hflat, hc]
            exact List.mem_map.mpr ⟨i, by simp [List.mem_range']; omega, rfl⟩
          exact hmem _ this
        · rw [writeRanks_other ow _ d0 xs.length]
          · exact hd0n
          · intro p hp
            rw [hflat, hc] at hp
            obtain ⟨i, hi, rfl⟩ := List.mem_map.mp hp
            simp [List.mem_range'] at hi
            simp only; omega
      cases mean with
      | none => exact ⟨hfresh, by simp⟩
      | some m =>
        simp only at hok ⊢
        by_cases h3 : (!ow && (writeRanks ow d0 (allItems xs 0 counts)).1.mean.isSome) = true
        · simp [h3] at hok
        · simp only [h3, Bool.false_eq_true, if_false]
          exact ⟨hfresh, by simp⟩
    · simp [h2] at hok

/-- **load_of_fresh**: from a `Fresh` directory, `load` with ANY number of tasks `q ≥ 1` (also more tasks than samples)
    succeeds and the tasks' samples in rank order are exactly the saved list, whatever stale files with larger
    indices exist -/
theorem load_of_fresh (d : Dir) (xs : List Tag) (q : Nat) (residual : Bool) (hq : 0 < q) (hn : 1 ≤ xs.length)
    (hf : Fresh d xs) (hm : residual = true → d.mean.isSome) :
    ∃ per, load d q residual = .ok per ∧ per.flatten = xs ∧ per.length = q := by
  obtain ⟨h1, h2⟩ := hf
  have hmemL : ∀ i, i ∈ listing d ↔ i < d.hi ∧ (d.files i).isSome := by
    intro i; simp [listing]
  have hcl : consecutiveLength (listing d) = .ok xs.length := by
    apply consecutiveLength_eq hn
    · intro i hi
      rw [hmemL]
      exact ⟨(h1 i hi).2, by rw [(h1 i hi).1]; rfl⟩
    · rw [hmemL, h2]; simp
  have hne : (listing d).isEmpty = false := by
    have : 0 ∈ listing d := by
      rw [hmemL]; exact ⟨(h1 0 (by omega)).2, by rw [(h1 0 (by omega)).1]; rfl⟩
    cases hl : listing d with
    | nil => rw [hl] at this; cases this
    | cons a l => rfl
  have hres : (residual && d.mean.isNone) = false := by
    cases residual with
    | false => rfl
    | true =>
      have := hm rfl
      cases hmean : d.mean with
      | none => rw [hmean] at this; cases this
      | some v => rfl
  have hrows : ∀ r, r < q → ((localIndices xs.length q r).map d.files).filterMap id =
      (localIndices xs.length q r).map (fun i => xs.getD i 0) ∧
      ((localIndices xs.length q r).map d.files).all Option.isSome = true := by
    intro r hr
    exact filterMap_files _ (fun i hi => (h1 i (localIndices_lt hq hr hi)).1)
  refine ⟨(List.range q).map (fun r => (localIndices xs.length q r).map (fun i => xs.getD i 0)), ?_, ?_, by simp⟩
  · unfold load
    simp only [hres, Bool.false_eq_true, if_false, hne, hcl]
    have hall : ((List.range q).map (fun r => (localIndices xs.length q r).map d.files)).all
        (fun row => row.all Option.isSome) = true := by
      rw [List.all_eq_true]
      intro row hrow
      obtain ⟨r, hr, rfl⟩ := List.mem_map.mp hrow
      exact (hrows r (List.mem_range.mp hr)).2
    rw [if_pos hall]
    congr 1
    rw [List.map_map]
    apply List.map_congr_left
    intro r hr
    exact (hrows r (List.mem_range.mp hr)).1
  · rw [← List.flatMap_def, ← List.map_flatMap, NiftyVerif.C22.localIndices_concat _ q hq]
    exact map_getD_range xs

/-- a save request: the samples, their distribution over the saving tasks, `overwrite`, the mean (residual lists) -/
structure SaveOp where
  xs : List Tag
  counts : List Nat
  ow : Bool
  mean : Option Tag

def applySaves (d : Dir) (ops : List SaveOp) : Dir :=
  ops.foldl (fun d op => (save d op.xs op.counts op.ow op.mean).1) d

/-- **save_load_roundtrip / stale_never_leaks**: after ANY history of saves (any lengths — in particular longer lists
    saved earlier —, any task counts, overwrite or not, succeeding or failing) from ANY initial directory, if the LAST
    save succeeds, then loading with any number of tasks returns exactly the samples of that last save: nothing
    stale from earlier saves can leak in -/
theorem save_load_roundtrip (d0 : Dir) (history : List SaveOp) (op : SaveOp) (q : Nat) (hq : 0 < q)
    (hc : op.counts.sum = op.xs.length) (hn : 1 ≤ op.xs.length)
    (hok : (save (applySaves d0 history) op.xs op.counts op.ow op.mean).2 = .ok ()) :
    ∃ per, load (save (applySaves d0 history) op.xs op.counts op.ow op.mean).1 q op.mean.isSome = .ok per ∧
      per.flatten = op.xs ∧ per.length = q := by
  obtain ⟨hf, hm⟩ := save_postcondition _ op.xs op.counts op.ow op.mean hc hok
  apply load_of_fresh _ _ q _ hq hn hf
  intro h
  rw [hm h]; exact h

/-- the same, spelled out for the scenario in the property text: a LONGER list `ys` is saved first, then a SHORTER
    `xs` is saved over it with `overwrite=True`; a later load sees `xs` only -/
theorem stale_never_leaks (d0 : Dir) (ys xs : List Tag) (cy cx : List Nat) (q : Nat) (hq : 0 < q)
    (hcx : cx.sum = xs.length) (hn : 1 ≤ xs.length) (_hlen : xs.length < ys.length)
    (hok : (save (save d0 ys cy true none).1 xs cx true none).2 = .ok ()) :
    ∃ per, load (save (save d0 ys cy true none).1 xs cx true none).1 q false = .ok per ∧ per.flatten = xs := by
  obtain ⟨per, h1, h2, _⟩ := save_load_roundtrip d0 [⟨ys, cy, true, none⟩] ⟨xs, cx, true, none⟩ q hq hcx hn hok
  exact ⟨per, h1, h2⟩

/-- saving with `overwrite=True` cannot fail (so the hypotheses above are satisfiable from every state) -/
theorem save_overwrite_succeeds (d : Dir) (xs : List Tag) (counts : List Nat) (mean : Option Tag) :
    (save d xs counts true mean).2 = .ok () := by
  have hw : ∀ (items : List (Nat × Tag)) (d : Dir), (writeSeq true d items).2 = true := by
    intro items
    induction items with
    | nil => intro d; rfl
    | cons p rest ih => intro d; obtain ⟨i, t⟩ := p; simp [writeSeq, writeOne, ih]
  have hr : ∀ (rs : List (List (Nat × Tag))) (d : Dir), (writeRanks true d rs).2 = true := by
    intro rs
    induction rs with
    | nil => intro d; rfl
    | cons items rest ih => intro d; simp [writeRanks, hw, ih]
  unfold save
  cases mean <;> simp [hr]

/-- **refused_save_changes_nothing**: a save that is refused — whatever the reason: the file after the list exists, a
    target file of SOME task exists, the mean file exists — leaves the directory exactly as it was, for any distribution of
    the samples over tasks.  (With `overwrite=True` a save is never refused.) -/
theorem refused_save_changes_nothing (d : Dir) (xs : List Tag) (counts : List Nat) (ow : Bool) (mean : Option Tag)
    (_hc : counts.sum = xs.length) (hre : (save d xs counts ow mean).2 ≠ .ok ()) :
    (save d xs counts ow mean).1 = d := by
  cases ow with
  | true => exact absurd (save_overwrite_succeeds d xs counts mean) hre
  | false =>
    unfold save at hre ⊢
    by_cases h1 : (!false && (d.files xs.length).isSome) = true
    · rw [if_pos h1]
    · simp only [h1, Bool.false_eq_true, if_false] at hre ⊢
      by_cases h1b : (!false && !preCheck d (allItems xs 0 counts) mean) = true
      · rw [if_pos h1b]
      · exfalso
        simp only [h1b, Bool.false_eq_true, if_false] at hre
        have hpc : preCheck d (allItems xs 0 counts) mean = true := by
          cases hh : preCheck d (allItems xs 0 counts) mean with
          | true => rfl
          | false => simp [hh] at h1b
        obtain ⟨habs, hmean⟩ := (preCheck_iff _ _ _).mp hpc
        have hnd : ((allItems xs 0 counts).flatten.map Prod.fst).Nodup := by
          rw [allItems_flatten, List.map_map]
          have : (Prod.fst ∘ fun i => (i, xs.getD i 0)) = id := by funext i; rfl
          rw [this, List.map_id]
          exact List.nodup_range'
        have hok := writeRanks_false_ok _ d habs hnd
        simp only [hok, Bool.not_true, Bool.false_eq_true, if_false] at hre
        cases mean with
        | none => exact hre rfl
        | some m =>
          simp only at hre
          have hm : (writeRanks false d (allItems xs 0 counts)).1.mean = d.mean := (writeRanks_hi_mean false _ d).2
          rcases hmean with hmn | hmn
          · simp at hmn
          · rw [Option.isNone_iff_eq_none] at hmn
            rw [hm, hmn] at hre
            simp at hre

/-- **refused_on_nonempty_fresh**: on a directory that holds a non-empty list, every save WITHOUT overwrite is refused -/
theorem refused_on_nonempty_fresh (d : Dir) (ys xs : List Tag) (counts : List Nat) (mean : Option Tag)
    (hf : Fresh d ys) (hn : 1 ≤ ys.length) (hc : counts.sum = xs.length) :
    (save d xs counts false mean).2 = .error .fileExists := by
  unfold save
  by_cases h1 : (!false && (d.files xs.length).isSome) = true
  · rw [if_pos h1]
  · simp only [h1, Bool.false_eq_true, if_false]
    have hx : ys.length ≤ xs.length := by
      rcases Nat.lt_or_ge xs.length ys.length with h | h
      · exfalso; apply h1
        simp [(hf.1 _ h).1]
      · exact h
    have hnot : preCheck d (allItems xs 0 counts) mean = false := by
      cases hh : preCheck d (allItems xs 0 counts) mean with
      | false => rfl
      | true =>
        exfalso
        obtain ⟨habs, _⟩ := (preCheck_iff _ _ _).mp hh
        have hmem : (0, xs.getD 0 0) ∈ (allItems xs 0 counts).flatten := by
          rw [allItems_flatten, hc]
          exact List.mem_map.mpr ⟨0, by simp [List.mem_range']; omega, rfl⟩
        have := habs _ hmem
        rw [(hf.1 0 (by omega)).1] at this
        cases this
    simp [hnot]

/-- **refused_save_then_load**: so after a list has been saved, any number of refused save attempts (any lengths, any
    task counts) later, a load still returns exactly that list: neither the attempted samples nor stale files from
    older, longer lists can appear -/
theorem refused_save_then_load (d : Dir) (ys : List Tag) (attempts : List SaveOp) (q : Nat) (hq : 0 < q)
    (hf : Fresh d ys) (hn : 1 ≤ ys.length)
    (hatt : ∀ op ∈ attempts, op.ow = false ∧ op.counts.sum = op.xs.length) :
    applySaves d attempts = d ∧ ∃ per, load (applySaves d attempts) q false = .ok per ∧ per.flatten = ys := by
  have hsame : applySaves d attempts = d := by
    induction attempts with
    | nil => rfl
    | cons op rest ih =>
      have hop := hatt op (List.mem_cons_self ..)
      have hre := refused_on_nonempty_fresh d ys op.xs op.counts op.mean hf hn hop.2
      have hun := refused_save_changes_nothing d op.xs op.counts false op.mean hop.2 (by rw [hre]; exact fun h => by cases h)
      simp only [applySaves, List.foldl_cons]
      rw [hop.1, hun]
      exact ih (fun o ho => hatt o (List.mem_cons_of_mem _ ho))
  refine ⟨hsame, ?_⟩
  rw [hsame]
  obtain ⟨per, h1, h2, _⟩ := load_of_fresh d ys q false hq hn hf (by simp)
  exact ⟨per, h1, h2⟩

/-- **nonoverwrite_write_preserves_existing**: the write loops themselves, run without overwrite, can never alter or
    delete a file that exists (this held before the repair too; what was missing was the up-front check) -/
theorem nonoverwrite_write_preserves_existing (d : Dir) (items : List (List (Nat × Tag))) (j : Nat) (t : Tag)
    (h : d.files j = some t) : (writeRanks false d items).1.files j = some t :=
  (writeRanks_false_files items d j).1 t h

/-- **load_partition_independent**: the number of loading tasks does not matter (two successful loads of the same
    directory return the same samples in the same order) — a consequence of `load_of_fresh` for fresh directories;
    stated here for the directory after any successful save -/
theorem load_partition_independent (d : Dir) (xs : List Tag) (q q' : Nat) (hq : 0 < q) (hq' : 0 < q')
    (hn : 1 ≤ xs.length) (hf : Fresh d xs) :
    ∃ per per', load d q false = .ok per ∧ load d q' false = .ok per' ∧ per.flatten = per'.flatten := by
  obtain ⟨per, h1, h2, _⟩ := load_of_fresh d xs q false hq hn hf (by simp)
  obtain ⟨per', h1', h2', _⟩ := load_of_fresh d xs q' false hq' hn hf (by simp)
  exact ⟨per, per', h1, h1', by rw [h2, h2']⟩

/-! ### statistics -/

variable {K : Type} [Field K] [CharZero K]

/-- **welford_mean**: after adding `x₁..xₙ` (n ≥ 1) `StatCalculator.mean` is the arithmetic mean -/
theorem welford_mean (xs : List K) (h : xs ≠ []) : wMean (wRun xs) = some (xs.sum / (xs.length : K)) := by
  obtain ⟨h1, h2, _⟩ := wRun_inv xs h
  have : xs.length ≠ 0 := fun e => h (List.length_eq_zero_iff.mp e)
  simp [wMean, h1, h2, this]

/-- **welford_var**: for n ≥ 2 `StatCalculator.var` is the unbiased sample variance `Σ (xᵢ - x̄)² / (n-1)` -/
theorem welford_var (xs : List K) (h : 2 ≤ xs.length) :
    wVar (wRun xs) = some ((xs.map (fun x => (x - xs.sum / (xs.length : K)) * (x - xs.sum / (xs.length : K)))).sum
      / ((xs.length : K) - 1)) := by
  have hne : xs ≠ [] := by intro e; subst e; simp at h
  obtain ⟨h1, _, h3⟩ := wRun_inv xs hne
  have hn : (xs.length : K) ≠ 0 := Nat.cast_ne_zero.mpr (by omega)
  have hn1 : ((xs.length : K) - 1) ≠ 0 := by
    have : ((xs.length - 1 : Nat) : K) ≠ 0 := Nat.cast_ne_zero.mpr (by omega)
    rwa [Nat.cast_sub (by omega), Nat.cast_one] at this
  have hlt : ¬ xs.length < 2 := by omega
  simp only [wVar, h1, hlt, if_false, h3, sum_sq_dev]
  rw [Nat.cast_sub (by omega), Nat.cast_one]
  congr 1
  field_simp
  ring

omit [CharZero K] in
/-- **n1_variance_zero**: the `n_samples == 1` branch of `sample_stat` returns the sample itself and variance 0 -/
theorem n1_variance_zero (x : K) : sampleStat [x] = some (x, 0) := by
  simp [sampleStat, Welford.sum]

/-- **sample_stat_spec**: for n ≥ 2, `sample_stat` returns (arithmetic mean, unbiased variance) -/
theorem sample_stat_spec (xs : List K) (h : 2 ≤ xs.length) :
    sampleStat xs = some (xs.sum / (xs.length : K),
      (xs.map (fun x => (x - xs.sum / (xs.length : K)) * (x - xs.sum / (xs.length : K)))).sum / ((xs.length : K) - 1)) := by
  have hne : xs ≠ [] := by intro e; subst e; simp at h
  have h1 : xs.length ≠ 1 := by omega
  simp [sampleStat, h1, welford_mean xs hne, welford_var xs h]

/-- **welford_merge**: combining the states of two non-empty streams gives the state of the concatenated stream
    (count, mean and M2 all agree) -/
theorem welford_merge (xs ys : List K) (hx : xs ≠ []) (hy : ys ≠ []) :
    (wMerge (wRun xs) (wRun ys)).count = (wRun (xs ++ ys)).count ∧
    (wMerge (wRun xs) (wRun ys)).mean = (wRun (xs ++ ys)).mean ∧
    (wMerge (wRun xs) (wRun ys)).m2 = (wRun (xs ++ ys)).m2 := by
  obtain ⟨a1, a2, a3⟩ := wRun_inv xs hx
  obtain ⟨b1, b2, b3⟩ := wRun_inv ys hy
  obtain ⟨c1, c2, c3⟩ := wRun_inv (xs ++ ys) (by simp [hx])
  have hnx : (xs.length : K) ≠ 0 := Nat.cast_ne_zero.mpr (fun e => hx (List.length_eq_zero_iff.mp e))
  have hny : (ys.length : K) ≠ 0 := Nat.cast_ne_zero.mpr (fun e => hy (List.length_eq_zero_iff.mp e))
  have hn : ((xs.length : K) + (ys.length : K)) ≠ 0 := by
    have : ((xs.length + ys.length : Nat) : K) ≠ 0 :=
      Nat.cast_ne_zero.mpr (fun e => hx (List.length_eq_zero_iff.mp (by omega)))
    simpa using this
  refine ⟨?_, ?_, ?_⟩
  · simp [wMerge, a1, b1, c1]
  · simp only [wMerge, a1, a2, b1, b2, c2, List.sum_append, List.length_append, Nat.cast_add]
    field_simp
    ring
  · simp only [wMerge, a1, a2, a3, b1, b2, b3, c3, List.sum_append, List.length_append, Nat.cast_add, Welford.sq,
      List.map_append]
    field_simp
    ring

/-! ### non-vacuity -/

def emptyDir : Dir := ⟨fun _ => none, 0, none⟩

-- save 4 samples over 2 tasks, then 2 samples over 3 tasks (one empty) with overwrite; load with 5 tasks
example : (load (save (save emptyDir [10, 11, 12, 13] [2, 2] true none).1 [20, 21] [1, 0, 1] true none).1 5 false)
    = .ok [[20], [21], [], [], []] := by decide
-- the stale file 3 is still there, but invisible to load
example : ((save (save emptyDir [10, 11, 12, 13] [2, 2] true none).1 [20, 21] [1, 0, 1] true none).1.files 3) = some 13 := by
  decide
-- without overwrite the second save is refused
example : (save (save emptyDir [10, 11, 12, 13] [2, 2] true none).1 [20, 21] [1, 0, 1] false none).2 = .error .fileExists := by
  decide
example : consecutiveLength [3, 0, 1, 5] = .ok 2 := by decide
-- the write loops WITHOUT the up-front check (the code before fixes/C26_refused_save_side_effects.diff): a refused save
-- of 4 samples over 2 tasks onto [20,21] with stale files 3.. from an older list of 6 leaves a directory that loads as
-- [20, 21, new 32, stale 13, stale 14, stale 15] — the defect the check repairs
example :
    let d := (save (save emptyDir [10, 11, 12, 13, 14, 15] [6] true none).1 [20, 21] [2] true none).1
    let d' := (writeRanks false d (allItems [30, 31, 32, 33] 0 [2, 2])).1
    load d' 1 false = .ok [[20, 21, 32, 13, 14, 15]] ∧ (save d [30, 31, 32, 33] [2, 2] false none).1.files 2 = none := by
  decide
example : sampleStat ([1, 2, 6] : List Rat) = some (3, 7) := by
  norm_num [sampleStat, wMean, wVar, wRun, wAdd, wInit]

end NiftyVerif.C26
