/-
  C10 — Power distribution and power analysis are exact on binned spectra.
  Property theorems only (model: Model/Power.lean on top of Model/Domains.lean; lemmas: Lemmas/Power.lean).
  Obligations are listed in harness/props/c10.py.  `K` is any field (ordered where needed); the driver runs `Rat`.
-/
import NiftyVerif.Lemmas.Power
import NiftyVerif.Lemmas.Domains

namespace NiftyVerif.C10
open NiftyVerif.Domains NiftyVerif.Power

variable {K : Type} [Field K]

/-- distributing a spectrum assigns every mode the value of its bin -/
theorem distribute_spec (pindex : List Nat) (s : List K) (p : Nat) (hp : p < pindex.length) :
    (distribute pindex s).getD p 0 = s.getD (pindex.getD p 0) 0 := Power.distribute_spec pindex s p hp

/-- the adjoint sums over each bin … -/
theorem distribute_adj_spec (nbin : Nat) (pindex : List Nat) (f : List K) (b : Nat) (hb : b < nbin) :
    (distributeAdj nbin pindex f).getD b 0 = (((List.zip pindex f).filter fun p => p.1 == b).map (·.2)).sum :=
  Power.distribute_adj_spec nbin pindex f b hb

/-- … and really is the adjoint: `⟨D s, f⟩ = ⟨s, Dᴴ f⟩` for all spectra and fields -/
theorem distribute_adjoint (pindex : List Nat) (s f : List K) (hlen : pindex.length = f.length)
    (hb : ∀ i ∈ pindex, i < s.length) :
    (List.zipWith (· * ·) (distribute pindex s) f).sum = (List.zipWith (· * ·) s (distributeAdj s.length pindex f)).sum :=
  Power.distribute_adjoint pindex s f hlen hb

/-- **analyze_distributed**: if `|f|² = D s` then `power_analyze(f) = s` exactly (needs every bin non-empty — which
    `PowerSpace.__init__` enforces and `C08.natural_binning_nonempty` proves for natural bounds — and `dvol ≠ 0`) -/
theorem analyze_distributed [CharZero K] (pindex : List Nat) (s : List K) (dvol : K) (hd : dvol ≠ 0)
    (hr : ∀ b, b < s.length → 0 < pindex.count b) :
    analyze pindex (bincount s.length pindex) dvol (distribute pindex s) = s :=
  Power.analyze_distributed pindex s dvol hd hr

/-- **analyze_subspace**: on a product domain the analysis of one harmonic factor acts fibre by fibre, so the statement
    above holds slice-wise -/
theorem analyze_subspace [CharZero K] (pindex : List Nat) (dvol : K) (hd : dvol ≠ 0) (spectra : List (List K)) (n : Nat)
    (hs : ∀ s ∈ spectra, s.length = n) (hr : ∀ b, b < n → 0 < pindex.count b) :
    analyzeFibres pindex (bincount n pindex) dvol (spectra.map (distribute pindex)) = spectra := by
  unfold analyzeFibres
  rw [List.map_map]
  conv_rhs => rw [← List.map_id spectra]
  apply List.map_congr_left
  intro s hs'
  have hl := hs s hs'
  subst hl
  exact Power.analyze_distributed pindex s dvol hd hr

/-- **analyze_phase**: the spectrum of `re² + im²` is the sum of the spectra of the real and of the imaginary part -/
theorem analyze_phase (pindex : List Nat) (rho : List Nat) (dvol : K) (re2 im2 : List K)
    (h1 : pindex.length = re2.length) (h2 : re2.length = im2.length) :
    analyze pindex rho dvol (List.zipWith (· + ·) re2 im2) =
      List.zipWith (· + ·) (analyze pindex rho dvol re2) (analyze pindex rho dvol im2) :=
  analyze_add pindex rho dvol re2 im2 h1 h2

/-- the repaired guard: `power_analyze` accepts a complex field with `keep_phase_information=True` and returns the two
    part spectra, whose sum is the spectrum without phase information; a real field with the flag is rejected -/
theorem power_analyze_keep_phase (pindex : List Nat) (rho : List Nat) (dvol : K) (re im : List K)
    (h1 : pindex.length = re.length) (h2 : re.length = im.length) :
    powerAnalyze fixed pindex rho dvol ⟨re, some im⟩ true =
      .ok (.phase (analyze pindex rho dvol (re.map fun x => x * x)) (analyze pindex rho dvol (im.map fun x => x * x))) ∧
    powerAnalyze fixed pindex rho dvol ⟨re, some im⟩ false =
      .ok (.real (List.zipWith (· + ·) (analyze pindex rho dvol (re.map fun x => x * x))
                                       (analyze pindex rho dvol (im.map fun x => x * x)))) ∧
    powerAnalyze fixed pindex rho dvol ⟨re, none⟩ true = .error .valueError := by
  refine ⟨rfl, ?_, rfl⟩
  simp only [powerAnalyze, fixed]
  rw [analyze_add pindex rho dvol _ _ (by simpa using h1) (by simpa using h2)]
  rfl

/-- the code as found: the guard is inverted — complex input with the flag is rejected, and real input with the flag
    runs into `Field.imag` of a real field (replayed on the real code by the harness) -/
theorem asFound_guard_inverted (pindex : List Nat) (rho : List Nat) (dvol : K) (re im : List K) :
    powerAnalyze asFound pindex rho dvol ⟨re, some im⟩ true = .error .valueError ∧
    powerAnalyze asFound pindex rho dvol ⟨re, none⟩ true = .error .valueError := ⟨rfl, rfl⟩

/-- **power_operator_diag**: the operator built from a spectrum multiplies mode `p` by `s[pindex p]` -/
theorem power_operator_diag (pindex : List Nat) (s x : List K) (p : Nat) (hp : p < pindex.length) (hx : p < x.length) :
    (powerOperator pindex s x).getD p 0 = s.getD (pindex.getD p 0) 0 * x.getD p 0 :=
  Power.power_operator_diag pindex s x p hp hx


/-- natural binning: if `u` lists the unique k-lengths (strictly increasing) and every one of them is the k-length of
    some pixel, then every bin of `pindex = searchsorted(midpoints u, k)` has at least one member -/
theorem natural_bins_nonempty {K : Type} [Field K] [LinearOrder K] [IsStrictOrderedRing K] (u k : List K)
    (hs : u.Pairwise (· < ·)) (hatt : ∀ x ∈ u, x ∈ k) (b : Nat) (hb : b < u.length) :
    0 < (k.map (searchsortedLeft (midpoints u))).count b := by
  rw [List.count_pos_iff]
  rw [List.mem_map]
  exact ⟨u[b], hatt _ (List.getElem_mem hb), midpoints_count u hs b hb⟩

/-- hence, for natural binning, `power_analyze(f) = s` whenever `|f|² = D s` — no further hypothesis on the bins -/
theorem analyze_distributed_natural {K : Type} [Field K] [LinearOrder K] [IsStrictOrderedRing K] (u k s : List K) (dvol : K)
    (hd : dvol ≠ 0) (hs : u.Pairwise (· < ·)) (hatt : ∀ x ∈ u, x ∈ k) (hlen : s.length = u.length) :
    let pindex := k.map (searchsortedLeft (midpoints u))
    analyze pindex (bincount s.length pindex) dvol (distribute pindex s) = s := by
  intro pindex
  have : CharZero K := IsStrictOrderedRing.toCharZero
  exact Power.analyze_distributed pindex s dvol hd (fun b hb => natural_bins_nonempty u k hs hatt b (by omega))


/-! ### non-vacuity -/
example : analyze [0, 1, 2, 1, 1] (bincount 3 [0, 1, 2, 1, 1]) (1 / 4 : Rat) (distribute [0, 1, 2, 1, 1] [5, 7, 9]) = [5, 7, 9] := by
  decide +kernel
example : distributeAdj 3 [0, 1, 2, 1, 1] [(1 : Rat), 2, 3, 4, 5] = [1, 11, 3] := by decide +kernel

end NiftyVerif.C10
