/-
  C17 — JAX Newton minimisers never go uphill and make progress when they can.
  Property theorems only; lemmas in Lemmas/NewtonReInv.lean, NewtonReSim.lean, NewtonReLs.lean.
  Model: Model/NewtonRe.lean = `_newton_cg`, `_static_newton_cg`/`_line_search_successive_halving`, `_trust_ncg` of
  nifty/re/optimize.py with fixes/C17_ls_reset_uphill.diff and fixes/C17_static_min_cond.diff applied (and, for
  `negcurv_progress`, the C15 repairs of the conjugate gradient).
  Everything is universally quantified over the objective `f`, the Hessian-vector product, the norm, the CG oracle
  (resp. sub-problem oracle), the start and all limits.
-/
import NiftyVerif.Lemmas.NewtonReInv
import NiftyVerif.Lemmas.NewtonReSim
import NiftyVerif.Lemmas.NewtonReLs
import Mathlib.Tactic.NormNum

namespace NiftyVerif.C17
set_option linter.unusedSectionVars false
open NiftyVerif.NewtonRe NiftyVerif.Iter

variable {K V : Type} [Field K] [LinearOrder K] [IsStrictOrderedRing K] [AddCommGroup V] [Module K V]
variable (c : Cfg K) (f : V → K × V) (hessp : V → V → V) (ip : V → V → K) (gradnorm : V → K) (cgnorm : V → K)
  (cg : CgArgs K → V → V → V × Int) (nrm : V → K)

/-- **Eager Newton-CG never goes uphill**: for all objectives, oracles and limits the returned `fun` is the energy of the
    returned point, `jac` its gradient, and it is not above the energy of the start. -/
theorem ncg_never_uphill (x0 : V) (r : NRes K V) (h : ncgEager c f hessp ip gradnorm cgnorm cg x0 = .ok r) :
    r.fn = (f r.x).1 ∧ r.jac = (f r.x).2 ∧ r.fn ≤ (f x0).1 := by
  unfold ncgEager at h
  exact ncgEagerLoop_inv c f hessp ip gradnorm cgnorm cg (f x0).1 c.maxiter 1 ⟨x0, (f x0).1, (f x0).2, c.oldFval⟩
    ⟨rfl, rfl, le_refl _⟩ r h

/-- **Compiled Newton-CG never goes uphill** (direct invariant of the compiled loops; no guard). -/
theorem static_ncg_never_uphill (x0 : V) (r : NRes K V) (h : ncgStatic c f hessp ip gradnorm cgnorm cg x0 = some r) :
    r.fn = (f r.x).1 ∧ r.jac = (f r.x).2 ∧ r.fn ≤ (f x0).1 := by
  unfold ncgStatic at h
  simp only [] at h
  cases hl : ncgStaticLoop c f hessp ip gradnorm cgnorm cg c.maxiter
      { status := if c.maxiter = 0 then 0 else -2, it := 0, pos := x0, energy := (f x0).1, g := (f x0).2,
        oldE := c.oldFval } with
  | none => rw [hl] at h; simp at h
  | some v =>
    rw [hl] at h
    simp only [Option.map_some, Option.some.injEq] at h
    subst h
    exact ncgStaticLoop_inv c f hessp ip gradnorm cgnorm cg (f x0).1 c.maxiter _ v ⟨rfl, rfl, le_refl _⟩ hl

/-- **Program equivalence**: the compiled minimiser returns exactly the eager minimiser's `(x, status, fun, jac, nit)` and
    raises exactly where it raises — for every objective, every CG oracle, every `miniter/maxiter/absdelta/xtol`
    (including `maxiter = 0`), INCLUDING the stopping parameters both variants derive for the inner CG from the energy
    history. Guard (made as weak as the code allows): `energy_reduction_factor` is a non-zero number, no energy value is
    exactly `0` (the eager code tests `old_fval` for truthiness, the compiled one for `isinf`), and — only when `absdelta`
    is `None` — the CG oracle answers alike for `absdelta=None` (eager, first iteration) and `absdelta=0.` (compiled). -/
theorem static_ncg_eq_eager (e : K) (he : c.erf = some e) (he0 : e ≠ 0) (hold : c.oldFval ≠ some 0)
    (hf0 : ∀ x, (f x).1 ≠ 0)
    (hcg0 : c.absdelta = none → ∀ m p g, cg ⟨none, m⟩ p g = cg ⟨some 0, m⟩ p g) (x0 : V) :
    match ncgEager c f hessp ip gradnorm cgnorm cg x0 with
    | .ok r => ncgStatic c f hessp ip gradnorm cgnorm cg x0 = some r
    | .error _ => ncgStatic c f hessp ip gradnorm cgnorm cg x0 = none := by
  apply ncgStatic_sim c f hessp ip gradnorm cgnorm cg
    (fun s => Inv f (f x0).1 s ∧ s.oldF ≠ some 0)
  · intro s i s' hP hstep
    have hinv := ncgEagerStep_inv c f hessp ip gradnorm cgnorm cg (f x0).1 i s hP.1
    rw [hstep] at hinv
    simp only at hinv
    refine ⟨hinv.1, ?_⟩
    rw [hinv.2.2]
    intro h
    have : s.energy = 0 := by simpa using h
    exact hf0 s.pos (by rw [← hP.1.1]; exact this)
  · intro s i hP
    by_cases hn : s.oldF = none ∧ c.absdelta = none
    · have h := hcg0 hn.2 (cgnorm s.g) s.pos s.g
      have e1 : eagerCgArgs c cgnorm s = ⟨none, cgnorm s.g⟩ := by
        simp [eagerCgArgs, hn.1, hn.2, truthy]
      have e2 : staticCgArgs c cgnorm (sOf s i) = ⟨some 0, cgnorm s.g⟩ := by
        simp [staticCgArgs, sOf, hn.1, hn.2, he]
      rw [e1, e2]; exact h
    · rw [cgArgs_eq c cgnorm e he he0 s i hP.2 (fun h1 h2 => hn ⟨h1, h2⟩)]
  · exact ⟨⟨rfl, rfl, le_refl _⟩, hold⟩

/-- **Full-stack equivalence**: the compiled minimiser running the compiled conjugate gradient (`_static_cg`) returns
    exactly what the eager minimiser running the eager conjugate gradient (`_cg`) returns, with the inner solver's stopping
    parameters (`absdelta` from the energy history, `resnorm = min(0.5, √mag)·mag`) derived as the code derives them —
    for every objective, every CG base configuration allowing one iteration; guard as in `static_ncg_eq_eager`, with
    `absdelta` given (so that both variants pass the same `cg_absdelta` in the first iteration). -/
theorem static_stack_eq_eager_stack (base : CgRe.Cfg K) (pa pr : Bool) (hmax : 0 < CgRe.maxiterEff base)
    (e : K) (he : c.erf = some e) (he0 : e ≠ 0) (hold : c.oldFval ≠ some 0) (hf0 : ∀ x, (f x).1 ≠ 0)
    (habs : c.absdelta ≠ none) (x0 : V) :
    match ncgEager c f hessp ip gradnorm cgnorm (cgOracle base pa pr ip nrm hessp) x0 with
    | .ok r => ncgStatic c f hessp ip gradnorm cgnorm (cgOracleStatic base pa pr ip nrm hessp) x0 = some r
    | .error _ => ncgStatic c f hessp ip gradnorm cgnorm (cgOracleStatic base pa pr ip nrm hessp) x0 = none := by
  rw [cgOracleStatic_eq base pa pr ip nrm hessp hmax]
  exact static_ncg_eq_eager c f hessp ip gradnorm cgnorm (cgOracle base pa pr ip nrm hessp) e he he0 hold hf0
    (fun h => absurd h habs) x0

/-- the excluded region of `static_ncg_eq_eager` is real: after an iterate with energy exactly `0` the eager code
    (truthiness test) falls back to `absdelta/100` while the compiled code uses `energy_reduction_factor·(0 − energy)` -/
theorem zero_energy_args_differ :
    eagerCgArgs (V := ℚ) { miniter := 0, maxiter := 3, absdelta := some (1 : ℚ), xtol := 0, erf := some (1 / 10), oldFval := none }
        (fun g => |g|) ⟨0, -1, 1, some 0⟩
      ≠ staticCgArgs { miniter := 0, maxiter := 3, absdelta := some (1 : ℚ), xtol := 0, erf := some (1 / 10), oldFval := none }
        (fun g => |g|) ⟨-2, 1, 0, -1, 1, some 0⟩ := by
  simp [eagerCgArgs, staticCgArgs, truthy, hundred, two]
  norm_num

/-- **The line search accepts the first trial of its schedule that does not increase the energy** (trials 0–5 at
    `pos − 2⁻ᵏ·nat_g`, trials 6–8 at `pos − 2⁻⁽ᵏ⁻⁶⁾·γ/|curv|·g`), and fails only if none of the nine does. -/
theorem line_search_accepts_first (pos : V) (energy : K) (g natg : V) :
    let R := lineSearchEager f hessp ip pos energy g natg
    let tp := trialPos (K := K) pos natg (resetDir ip hessp pos g)
    (R.found = true ↔ ∃ k, k < 9 ∧ (f (tp k)).1 ≤ energy)
    ∧ (R.found = true → ∃ k, k < 9 ∧ R.trials = k + 1 ∧ R.newPos = tp k ∧ R.newEnergy = (f (tp k)).1
        ∧ (f (tp k)).1 ≤ energy ∧ ∀ k', k' < k → energy < (f (tp k')).1) :=
  lineSearchEager_first f hessp ip pos energy g natg

/-- **Negative curvature ⇒ progress along −g** (see `ncgEagerStep_negcurv`): with the C15 conjugate gradient as inner
    solver (every base configuration, every stopping parameters the minimiser derives; `_raise_nonposdef = False` as
    `_newton_cg` passes it), symmetric bilinear
    `ip ≥ 0` and a linear self-adjoint Hessian at the position: if `g ≠ 0`, `gᵀHg < 0` and some trial length of the
    schedule does not increase `f` along `−g`, the iteration neither aborts (status −1) nor fails, and moves to
    `pos − s·g` for the first such trial length `s > 0`; all earlier trial lengths give strictly higher energy.
    (If that first acceptable trial is strictly lower, the energy strictly decreases.) -/
theorem negcurv_progress (base : CgRe.Cfg K) (pa pr : Bool) (i : Nat) (s : NSt K V) (hip : SymmBilin ip)
    (hm : Linear (K := K) (hessp s.pos)) (hsa : CgRe.SelfAdj ip (hessp s.pos)) (hnn : ∀ a, 0 ≤ ip a a)
    (hmax : 0 < CgRe.maxiterEff base) (hg0 : ip s.g s.g ≠ 0)
    (hcurv : ip s.g (hessp s.pos s.g) < 0)
    (hex : ∃ k, k < 9 ∧ (f (s.pos - ((sched k : K) * (ip s.g s.g / -ip s.g (hessp s.pos s.g))) • s.g)).1 ≤ s.energy) :
    ∃ k, k < 9 ∧ 0 < (sched k : K) * (ip s.g s.g / -ip s.g (hessp s.pos s.g))
      ∧ (f (s.pos - ((sched k : K) * (ip s.g s.g / -ip s.g (hessp s.pos s.g))) • s.g)).1 ≤ s.energy
      ∧ (∀ k', k' < k →
          s.energy < (f (s.pos - ((sched k' : K) * (ip s.g s.g / -ip s.g (hessp s.pos s.g))) • s.g)).1)
      ∧ (match ncgEagerStep c f hessp ip gradnorm cgnorm (cgOracle base pa pr ip nrm hessp) i s with
         | .next s' => s'.pos = s.pos - ((sched k : K) * (ip s.g s.g / -ip s.g (hessp s.pos s.g))) • s.g
             ∧ s'.energy = (f s'.pos).1
         | .stop (.ok r) => r.status = 0
             ∧ r.x = s.pos - ((sched k : K) * (ip s.g s.g / -ip s.g (hessp s.pos s.g))) • s.g ∧ r.fn = (f r.x).1
         | .stop (.error _) => False) :=
  ncgEagerStep_negcurv c f hessp ip gradnorm nrm base pa pr cgnorm i s hip hm hsa hnn hmax hg0 hcurv hex

/-- **Trust-region Newton-CG never goes uphill** — for EVERY sub-problem oracle (no hypothesis on the sub-problem
    solver: not even that its predicted value is below the current one), every objective, radius schedule and limit;
    only `0 ≤ eta`, which `_trust_ncg` itself enforces (`raise Exception("invalid acceptance stringency")`).
    This is the repaired acceptance rule `(rho > eta) & (pred_reduction > 0)`; with the original rule `rho > eta` the
    statement is false (`old_rule_accepts_uphill` below) and the real code returned a higher point
    (corpus/C17/trust_uphill_mixed_norm.json). -/
theorem trust_never_uphill (tc : TCfg K) (gnorm : V → K) (sub : K → V → V → K → SubRes K V)
    (heta : 0 ≤ tc.eta) (x0 : V) :
    (trustNcg tc f gnorm sub x0).fn = (f (trustNcg tc f gnorm sub x0).x).1
    ∧ (trustNcg tc f gnorm sub x0).fn ≤ (f x0).1 := by
  have := trustLoop_inv f tc gnorm sub heta (f x0).1 tc.maxiter (trustInit tc f gnorm x0)
    ⟨rfl, rfl, le_refl _⟩
  unfold trustNcg
  exact ⟨this.1, this.2.2⟩

/-! ### Non-vacuity and witnesses (K = V = ℚ) -/

section witnesses

def fQ (x : ℚ) : ℚ × ℚ := (-x ^ 2 / 2 + x ^ 4 / 4, -x + x ^ 3)     -- the double well of DESIGN §6 #5
def hQ (x v : ℚ) : ℚ := (-1 + 3 * x ^ 2) * v
def ipQ (a b : ℚ) : ℚ := a * b

/-- hypotheses of `negcurv_progress` are satisfiable at `x = 3/10` (g = −0.273, gᵀHg < 0) -/
example : ipQ (fQ (3/10)).2 (fQ (3/10)).2 ≠ 0 ∧ ipQ (fQ (3/10)).2 (hQ (3/10) (fQ (3/10)).2) < 0 := by
  norm_num [ipQ, fQ, hQ]

/-- the ORIGINAL acceptance test `rho > eta` alone admits an uphill step when the sub-problem solver predicts an increase:
    actual reduction −1, predicted reduction −2 ⇒ `rho = 1/2 > 0.15` — while the repaired test rejects it. -/
theorem old_rule_accepts_uphill :
    rhoGt (-1 : ℚ) (-2) (15 / 100) = true ∧ (rhoGt (-1 : ℚ) (-2) (15 / 100) && decide ((0 : ℚ) < -2)) = false := by
  constructor <;> simp [rhoGt] <;> norm_num

end witnesses

end NiftyVerif.C17
