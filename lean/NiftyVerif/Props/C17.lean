/-
  C17 — JAX Newton minimisers never go uphill and make progress when they can.
  Property theorems only; lemmas in Lemmas/NewtonReInv.lean, NewtonReSim.lean, NewtonReLs.lean.
  Model: Model/NewtonRe.lean = `_newton_cg`, `_static_newton_cg`/`_line_search_successive_halving`, `_trust_ncg` of
  nifty/re/optimize.py with fixes/C17_ls_reset_uphill.diff and fixes/C17_static_min_cond.diff applied (and, for
  `negcurv_progress`, the C15 repairs of the conjugate gradient).
  Everything is universally quantified over the objective `f`, the Hessian-vector product, the norm, the CG oracle
  (resp. sub-problem oracle), the start and all limits.
-/
import NiftyVerif.Lemmas.NewtonReInv
import NiftyVerif.Lemmas.NewtonReSim
import NiftyVerif.Lemmas.NewtonReLs
import Mathlib.Tactic.NormNum

namespace NiftyVerif.C17
set_option linter.unusedSectionVars false
open NiftyVerif.NewtonRe NiftyVerif.Iter

variable {K V : Type} [Field K] [LinearOrder K] [IsStrictOrderedRing K] [AddCommGroup V] [Module K V]
variable (c : Cfg K) (f : V → K × V) (hessp : V → V → V) (ip : V → V → K) (gradnorm : V → K)
  (cg : V → V → V × Int)

/-- **Eager Newton-CG never goes uphill**: for all objectives, oracles and limits the returned `fun` is the energy of the
    returned point, `jac` its gradient, and it is not above the energy of the start. -/
theorem ncg_never_uphill (x0 : V) (r : NRes K V) (h : ncgEager c f hessp ip gradnorm cg x0 = .ok r) :
    r.fn = (f r.x).1 ∧ r.jac = (f r.x).2 ∧ r.fn ≤ (f x0).1 := by
  unfold ncgEager at h
  exact ncgEagerLoop_inv c f hessp ip gradnorm cg (f x0).1 c.maxiter 1 ⟨x0, (f x0).1, (f x0).2⟩
    ⟨rfl, rfl, le_refl _⟩ r h

/-- **Program equivalence** (no guard): the compiled minimiser returns exactly the eager minimiser's
    `(x, status, fun, jac, nit)` and raises exactly where it raises — for every objective, every CG oracle
    (the same oracle on both sides), every `miniter/maxiter/absdelta/xtol`, including `maxiter = 0`. -/
theorem static_ncg_eq_eager (x0 : V) :
    match ncgEager c f hessp ip gradnorm cg x0 with
    | .ok r => ncgStatic c f hessp ip gradnorm cg x0 = some r
    | .error _ => ncgStatic c f hessp ip gradnorm cg x0 = none :=
  ncgStatic_sim c f hessp ip gradnorm cg x0

/-- **Full-stack equivalence**: the compiled minimiser running the compiled conjugate gradient (`_static_cg`) returns
    exactly what the eager minimiser running the eager conjugate gradient (`_cg`) returns — for every objective, every CG
    stopping configuration that allows one iteration (`_raise_nonposdef = False`, as `_newton_cg` passes it), all limits. -/
theorem static_stack_eq_eager_stack (cc : CgRe.Cfg K) (hr : cc.raiseNPD = false) (hmax : 0 < CgRe.maxiterEff cc) (x0 : V) :
    match ncgEager c f hessp ip gradnorm (cgOracle cc ip hessp) x0 with
    | .ok r => ncgStatic c f hessp ip gradnorm (cgOracleStatic cc ip hessp) x0 = some r
    | .error _ => ncgStatic c f hessp ip gradnorm (cgOracleStatic cc ip hessp) x0 = none := by
  rw [cgOracleStatic_eq cc ip hessp hr hmax]
  exact static_ncg_eq_eager c f hessp ip gradnorm (cgOracle cc ip hessp) x0

/-- **Compiled Newton-CG never goes uphill.** -/
theorem static_ncg_never_uphill (x0 : V) (r : NRes K V) (h : ncgStatic c f hessp ip gradnorm cg x0 = some r) :
    r.fn = (f r.x).1 ∧ r.jac = (f r.x).2 ∧ r.fn ≤ (f x0).1 := by
  have hs := static_ncg_eq_eager c f hessp ip gradnorm cg x0
  cases hE : ncgEager c f hessp ip gradnorm cg x0 with
  | ok r' =>
    rw [hE] at hs
    simp only at hs
    rw [hs] at h
    have hr : r' = r := by simpa using h
    subst hr
    exact ncg_never_uphill c f hessp ip gradnorm cg x0 r' hE
  | error e =>
    rw [hE] at hs
    simp only at hs
    rw [hs] at h
    cases h

/-- **The line search accepts the first trial of its schedule that does not increase the energy** (trials 0–5 at
    `pos − 2⁻ᵏ·nat_g`, trials 6–8 at `pos − 2⁻⁽ᵏ⁻⁶⁾·γ/|curv|·g`), and fails only if none of the nine does. -/
theorem line_search_accepts_first (pos : V) (energy : K) (g natg : V) :
    let R := lineSearchEager f hessp ip pos energy g natg
    let tp := trialPos (K := K) pos natg (resetDir ip hessp pos g)
    (R.found = true ↔ ∃ k, k < 9 ∧ (f (tp k)).1 ≤ energy)
    ∧ (R.found = true → ∃ k, k < 9 ∧ R.trials = k + 1 ∧ R.newPos = tp k ∧ R.newEnergy = (f (tp k)).1
        ∧ (f (tp k)).1 ≤ energy ∧ ∀ k', k' < k → energy < (f (tp k')).1) :=
  lineSearchEager_first f hessp ip pos energy g natg

/-- **Negative curvature ⇒ progress along −g** (see `ncgEagerStep_negcurv`): with the C15 conjugate gradient as inner
    solver (any stopping configuration with `_raise_nonposdef = False`, as `_newton_cg` passes it), symmetric bilinear
    `ip ≥ 0` and a linear self-adjoint Hessian at the position: if `g ≠ 0`, `gᵀHg < 0` and some trial length of the
    schedule does not increase `f` along `−g`, the iteration neither aborts (status −1) nor fails, and moves to
    `pos − s·g` for the first such trial length `s > 0`; all earlier trial lengths give strictly higher energy.
    (If that first acceptable trial is strictly lower, the energy strictly decreases.) -/
theorem negcurv_progress (cc : CgRe.Cfg K) (i : Nat) (s : NSt K V) (hip : SymmBilin ip)
    (hm : Linear (K := K) (hessp s.pos)) (hsa : CgRe.SelfAdj ip (hessp s.pos)) (hnn : ∀ a, 0 ≤ ip a a)
    (hraise : cc.raiseNPD = false) (hmax : 0 < CgRe.maxiterEff cc) (hg0 : ip s.g s.g ≠ 0)
    (hcurv : ip s.g (hessp s.pos s.g) < 0)
    (hex : ∃ k, k < 9 ∧ (f (s.pos - ((sched k : K) * (ip s.g s.g / -ip s.g (hessp s.pos s.g))) • s.g)).1 ≤ s.energy) :
    ∃ k, k < 9 ∧ 0 < (sched k : K) * (ip s.g s.g / -ip s.g (hessp s.pos s.g))
      ∧ (f (s.pos - ((sched k : K) * (ip s.g s.g / -ip s.g (hessp s.pos s.g))) • s.g)).1 ≤ s.energy
      ∧ (∀ k', k' < k →
          s.energy < (f (s.pos - ((sched k' : K) * (ip s.g s.g / -ip s.g (hessp s.pos s.g))) • s.g)).1)
      ∧ (match ncgEagerStep c f hessp ip gradnorm (cgOracle cc ip hessp) i s with
         | .next s' => s'.pos = s.pos - ((sched k : K) * (ip s.g s.g / -ip s.g (hessp s.pos s.g))) • s.g
             ∧ s'.energy = (f s'.pos).1
         | .stop (.ok r) => r.status = 0
             ∧ r.x = s.pos - ((sched k : K) * (ip s.g s.g / -ip s.g (hessp s.pos s.g))) • s.g ∧ r.fn = (f r.x).1
         | .stop (.error _) => False) :=
  ncgEagerStep_negcurv c f hessp ip gradnorm cc i s hip hm hsa hnn hraise hmax hg0 hcurv hex

/-- **Trust-region Newton-CG never goes uphill**, for every sub-problem oracle whose predicted value is not above the
    current value (`pred_f ≤ f_k`, which Steihaug-CG guarantees in exact arithmetic) and `0 ≤ eta`.
    Full statement without the hypothesis on the oracle is FALSE for the code as it is: with `pred_f > f_k` and an
    uphill step, `rho = actual/pred > eta` holds and the step is accepted (the loop then stops with status 2) —
    see `trust_uphill_witness`. -/
theorem trust_never_uphill (tc : TCfg K) (gnorm : V → K) (sub : K → V → V → K → SubRes K V)
    (hsub : ∀ fk gk xk tr, (sub fk gk xk tr).predF ≤ fk) (heta : 0 ≤ tc.eta) (x0 : V) :
    (trustNcg tc f gnorm sub x0).fn = (f (trustNcg tc f gnorm sub x0).x).1
    ∧ (trustNcg tc f gnorm sub x0).fn ≤ (f x0).1 := by
  have := trustLoop_inv f tc gnorm sub hsub heta (f x0).1 tc.maxiter (trustInit tc f gnorm x0)
    ⟨rfl, rfl, le_refl _⟩
  unfold trustNcg
  exact ⟨this.1, this.2.2⟩

/-! ### Non-vacuity and witnesses (K = V = ℚ) -/

section witnesses

def fQ (x : ℚ) : ℚ × ℚ := (-x ^ 2 / 2 + x ^ 4 / 4, -x + x ^ 3)     -- the double well of DESIGN §6 #5
def hQ (x v : ℚ) : ℚ := (-1 + 3 * x ^ 2) * v
def ipQ (a b : ℚ) : ℚ := a * b

/-- hypotheses of `negcurv_progress` are satisfiable at `x = 3/10` (g = −0.273, gᵀHg < 0) -/
example : ipQ (fQ (3/10)).2 (fQ (3/10)).2 ≠ 0 ∧ ipQ (fQ (3/10)).2 (hQ (3/10) (fQ (3/10)).2) < 0 := by
  norm_num [ipQ, fQ, hQ]

/-- an uphill step is accepted by `_trust_ncg`'s acceptance rule when the oracle predicts an increase:
    `f(x) = x`, step `+1`, predicted value `f + 2`: `rho = (−1)/(−2) = 1/2 > eta`; the loop ends with status 2
    and returns the higher point. -/
theorem trust_uphill_witness :
    let tc : TCfg ℚ := { maxiter := 5, absdelta := none, gtol := 1 / 10000, maxTr := 1000, initTr := 1,
                         eta := 15 / 100, eps := 1 / 10 ^ 15 }
    let r := trustNcg tc (fun x : ℚ => (x, (1 : ℚ))) (fun g => |g|) (fun fk _ _ _ => ⟨1, false, fk + 2⟩) 0
    r.x = 1 ∧ r.fn = 1 ∧ r.status = 2 := by
  simp [trustNcg, trustInit, trustLoop, trustStep, rhoGt, rhoLt, quarter, threeQuarter, two, NewtonRe.absK]
  norm_num

end witnesses

end NiftyVerif.C17
