/-
  C11 — Classic likelihood energies are negative log-pdfs with Fisher metrics.

  Theorems about the executable model `NiftyVerif/Model/Likelihood.lean`, instantiated at `K = ℝ`
  (`Lemmas/TranscReal.lean`).  Per energy (one pixel; the energies are sums over pixels):
    * `E_hasDerivAt_<name>`      the gradient formula is the exact derivative of the value,
    * `t_hasDerivAt_<name>`      the Jacobian entry of the transformation is its exact derivative,
    * `pullback_eq_metric_<name>` the metric the code builds (`get_metric_at`: `JᴴJ`) is the closed-form Fisher coefficient,
    * `fisher_<name>`            the Hessian of the value with the data replaced by its mean equals that coefficient
                                 (mean-substitution form of the Fisher information; Student-t: trusted closed form),
    * `value_up_to_const_<name>` value = -log pdf + (term without the parameter).
  Composition (`metric_scale`, `metric_sum_blocks`, `metric_chain`, `hamiltonian_metric`, …) is in the second half.
-/
import NiftyVerif.Lemmas.LikelihoodScalar
import NiftyVerif.Lemmas.LikelihoodLists
import Mathlib.Data.Matrix.ColumnRowPartitioned

namespace NiftyVerif.C11
open NiftyVerif NiftyVerif.Likelihood

/-! ## GaussianEnergy -/

theorem E_hasDerivAt_gauss (w x d : ℝ) : HasDerivAt (fun y => gaussE w y d) (gaussGrad w x d) x := by
  unfold gaussE gaussGrad
  have h1 : HasDerivAt (fun y : ℝ => y - d) 1 x := by simpa using (hasDerivAt_id' x).sub_const d
  exact ((h1.mul (h1.const_mul w)).const_mul (1 / 2)).congr_deriv (by ring)

/-- without inverse covariance: `Squared2NormOperator.scale(0.5)` -/
theorem E_hasDerivAt_gauss1 (x d : ℝ) : HasDerivAt (fun y => gaussE1 y d) (gaussGrad1 x d) x := by
  unfold gaussE1 gaussGrad1
  have h1 : HasDerivAt (fun y : ℝ => y - d) 1 x := by simpa using (hasDerivAt_id' x).sub_const d
  exact ((h1.mul h1).const_mul (1 / 2)).congr_deriv (by ring)

theorem t_hasDerivAt_gauss (w x : ℝ) : HasDerivAt (fun y => gaussT w y) (gaussTd w) x := by
  unfold gaussT gaussTd
  exact ((hasDerivAt_id' x).const_mul _).congr_deriv (by ring)

theorem pullback_eq_metric_gauss (w : ℝ) (hw : 0 ≤ w) : gaussTd w * gaussTd w = gaussMet w := by
  simp only [gaussTd, gaussMet, TranscReal.sqrt_eq]
  exact Real.mul_self_sqrt hw

/-- the Hessian of the Gaussian energy does not depend on the data: it is the inverse variance, for every `d` -/
theorem fisher_gauss (w x d : ℝ) : HasDerivAt (fun y => gaussGrad w y d) (gaussMet w) x := by
  unfold gaussGrad gaussMet
  have h1 : HasDerivAt (fun y : ℝ => y - d) 1 x := by simpa using (hasDerivAt_id' x).sub_const d
  exact (h1.const_mul w).congr_deriv (by ring)

/-- `gaussE` is `-log` of the normal density of the datum `d` with mean `x`, variance `1/w`, up to `½ log(w/2π)` -/
theorem value_up_to_const_gauss (w x d : ℝ) (hw : 0 < w) :
    gaussE w x d = -Real.log (Real.sqrt (w / (2 * Real.pi)) * Real.exp (-(w * (d - x) ^ 2 / 2)))
      + Real.log (Real.sqrt (w / (2 * Real.pi))) := by
  have hs : 0 < Real.sqrt (w / (2 * Real.pi)) := Real.sqrt_pos.mpr (by positivity)
  rw [Real.log_mul hs.ne' (Real.exp_pos _).ne', Real.log_exp]
  unfold gaussE
  ring

example : gaussTd (4 : ℝ) * gaussTd 4 = 4 := by
  rw [pullback_eq_metric_gauss 4 (by norm_num)]; rfl

/-! ## PoissonianEnergy -/

theorem E_hasDerivAt_poisson (x d : ℝ) (hx : x ≠ 0) : HasDerivAt (fun y => poissonE y d) (poissonGrad x d) x := by
  unfold poissonE poissonGrad
  simp only [TranscReal.log_eq]
  exact ((hasDerivAt_id' x).sub ((Real.hasDerivAt_log hx).mul_const d)).congr_deriv (by ring)

theorem t_hasDerivAt_poisson (x : ℝ) (hx : 0 < x) : HasDerivAt (fun y => poissonT y) (poissonTd x) x := by
  unfold poissonT poissonTd
  simp only [TranscReal.sqrt_eq]
  exact (hasDerivAt_sqrt' hx).const_mul 2

theorem pullback_eq_metric_poisson (x : ℝ) (hx : 0 < x) : poissonMet x = 1 / x := by
  simp only [poissonMet, poissonTd, TranscReal.sqrt_eq]
  have hs : Real.sqrt x ≠ 0 := (Real.sqrt_pos.mpr hx).ne'
  have h2 : Real.sqrt x * Real.sqrt x = x := Real.mul_self_sqrt hx.le
  field_simp
  nlinarith [h2]

/-- Hessian of the Poisson energy in the rate: `d/x²` -/
noncomputable def poissonHess (x d : ℝ) : ℝ := d / (x * x)

/-- the Hessian is `d/x²`; with the datum replaced by its mean (`E d = x`) it is the metric `1/x` -/
theorem fisher_poisson (x d : ℝ) (hx : 0 < x) :
    HasDerivAt (fun y => poissonGrad y d) (poissonHess x d) x ∧ poissonHess x x = poissonMet x := by
  constructor
  · unfold poissonGrad poissonHess
    have h := ((hasDerivAt_one_div hx.ne').mul_const d).const_sub 1
    exact h.congr_deriv (by field_simp)
  · rw [pullback_eq_metric_poisson x hx]; unfold poissonHess; field_simp

/-- `poissonE` is `-log` of the Poisson pmf `e^{-x} x^k / k!` up to `log k!` -/
theorem value_up_to_const_poisson (x : ℝ) (k : ℕ) (hx : 0 < x) :
    poissonE x (k : ℝ) = -Real.log (Real.exp (-x) * x ^ k / (k.factorial : ℝ)) - Real.log (k.factorial : ℝ) := by
  have hk : (0 : ℝ) < (k.factorial : ℝ) := by exact_mod_cast k.factorial_pos
  have hxk : (0 : ℝ) < x ^ k := pow_pos hx k
  rw [Real.log_div (mul_pos (Real.exp_pos _) hxk).ne' hk.ne', Real.log_mul (Real.exp_pos _).ne' hxk.ne',
    Real.log_exp, Real.log_pow]
  simp only [poissonE, TranscReal.log_eq]
  ring

example : poissonMet (4 : ℝ) = 1 / 4 := pullback_eq_metric_poisson 4 (by norm_num)

/-! ## CategoricalEnergy (per category; one-hot data, probabilities assumed normalised) -/

theorem E_hasDerivAt_categorical (x d : ℝ) (hx : x ≠ 0) :
    HasDerivAt (fun y => categoricalE y d) (categoricalGrad x d) x := by
  unfold categoricalE categoricalGrad
  simp only [TranscReal.log_eq]
  exact (((Real.hasDerivAt_log hx).mul_const d).neg).congr_deriv (by ring)

theorem t_hasDerivAt_categorical (x : ℝ) (hx : 0 < x) : HasDerivAt (fun y => categoricalT y) (categoricalTd x) x := by
  unfold categoricalT categoricalTd
  simp only [TranscReal.sqrt_eq]
  exact (hasDerivAt_sqrt' hx).const_mul 2

theorem pullback_eq_metric_categorical (x : ℝ) (hx : 0 < x) : categoricalMet x = 1 / x := by
  have := pullback_eq_metric_poisson x hx
  simpa [categoricalMet, categoricalTd, poissonMet, poissonTd] using this

noncomputable def categoricalHess (x d : ℝ) : ℝ := d / (x * x)

theorem fisher_categorical (x d : ℝ) (hx : 0 < x) :
    HasDerivAt (fun y => categoricalGrad y d) (categoricalHess x d) x ∧ categoricalHess x x = categoricalMet x := by
  constructor
  · unfold categoricalGrad categoricalHess
    have h := ((hasDerivAt_one_div hx.ne').mul_const d).neg
    exact h.congr_deriv (by field_simp)
  · rw [pullback_eq_metric_categorical x hx]; unfold categoricalHess; field_simp

/-- `-log (x^d)` for `d ∈ {0,1}` -/
theorem value_up_to_const_categorical (x : ℝ) (k : ℕ) : categoricalE x (k : ℝ) = -Real.log (x ^ k) := by
  simp only [categoricalE, TranscReal.log_eq, Real.log_pow]; ring

/-! ## InverseGammaEnergy -/

theorem E_hasDerivAt_invGamma (α β x : ℝ) (hx : x ≠ 0) :
    HasDerivAt (fun y => invGammaE α β y) (invGammaGrad α β x) x := by
  unfold invGammaE invGammaGrad
  simp only [TranscReal.log_eq]
  exact (((Real.hasDerivAt_log hx).mul_const (α + 1)).add ((hasDerivAt_one_div hx).mul_const β)).congr_deriv (by ring)

theorem t_hasDerivAt_invGamma (α x : ℝ) (hx : x ≠ 0) : HasDerivAt (fun y => invGammaT α y) (invGammaTd α x) x := by
  unfold invGammaT invGammaTd
  simp only [TranscReal.log_eq, TranscReal.sqrt_eq]
  exact ((Real.hasDerivAt_log hx).const_mul _).congr_deriv (by ring)

theorem pullback_eq_metric_invGamma (α x : ℝ) (hα : 0 ≤ α + 1) : invGammaMet α x = (α + 1) / (x * x) := by
  simp only [invGammaMet, invGammaTd, TranscReal.sqrt_eq]
  have h2 : Real.sqrt (α + 1) * Real.sqrt (α + 1) = α + 1 := Real.mul_self_sqrt hα
  calc Real.sqrt (α + 1) * (1 / x) * (Real.sqrt (α + 1) * (1 / x))
      = (Real.sqrt (α + 1) * Real.sqrt (α + 1)) * ((1 / x) * (1 / x)) := by ring
    _ = (α + 1) / (x * x) := by rw [h2]; field_simp

noncomputable def invGammaHess (α β x : ℝ) : ℝ := -((α + 1) / (x * x)) + 2 * β / (x * x * x)

/-- Hessian `-(α+1)/x² + 2β/x³`; with `β` replaced by its mean `(α+1)·x` it is the metric `(α+1)/x²` -/
theorem fisher_invGamma (α β x : ℝ) (hx : 0 < x) (hα : 0 ≤ α + 1) :
    HasDerivAt (fun y => invGammaGrad α β y) (invGammaHess α β x) x
      ∧ invGammaHess α ((α + 1) * x) x = invGammaMet α x := by
  constructor
  · unfold invGammaGrad invGammaHess
    have h1 := hasDerivAt_one_div hx.ne'
    have h := (h1.mul_const (α + 1)).add (((h1.mul h1).neg).mul_const β)
    exact h.congr_deriv (by field_simp; ring)
  · rw [pullback_eq_metric_invGamma α x hα]; unfold invGammaHess; field_simp; ring

/-- `-log` of the inverse-gamma density `C · x^{-(α+1)} · e^{-β/x}` in `x`, up to `log C` (`C = β^α/Γ(α)`, abstract) -/
theorem value_up_to_const_invGamma (α β x C : ℝ) (hx : 0 < x) (hC : 0 < C) :
    invGammaE α β x = -Real.log (C * x ^ (-(α + 1)) * Real.exp (-(β / x))) + Real.log C := by
  have hp : (0 : ℝ) < x ^ (-(α + 1)) := Real.rpow_pos_of_pos hx _
  rw [Real.log_mul (mul_pos hC hp).ne' (Real.exp_pos _).ne', Real.log_mul hC.ne' hp.ne', Real.log_exp,
    Real.log_rpow hx]
  simp only [invGammaE, TranscReal.log_eq]
  ring

example : invGammaMet (3 : ℝ) 2 = 1 := by
  rw [pullback_eq_metric_invGamma 3 2 (by norm_num)]; norm_num

/-! ## StudentTEnergy -/

theorem E_hasDerivAt_student (θ x : ℝ) (hθ : 0 < θ) : HasDerivAt (fun y => studentE θ y) (studentGrad θ x) x := by
  unfold studentE studentGrad
  simp only [TranscReal.log_eq]
  have hpos : (1 + x * x / θ) ≠ 0 := by
    have : 0 ≤ x * x / θ := div_nonneg (mul_self_nonneg x) hθ.le
    linarith
  have h1 : HasDerivAt (fun y : ℝ => 1 + y * y / θ) (2 * x / θ) x := by
    have h := (((hasDerivAt_id' x).mul (hasDerivAt_id' x)).div_const θ).const_add 1
    exact h.congr_deriv (by ring)
  exact ((h1.log hpos).const_mul ((θ + 1) / 2)).congr_deriv (by ring)

theorem t_hasDerivAt_student (θ x : ℝ) : HasDerivAt (fun y => studentT θ y) (studentTd θ) x := by
  unfold studentT studentTd
  exact ((hasDerivAt_id' x).const_mul _).congr_deriv (by ring)

/-- the metric the code builds is the constant `(θ+1)/(θ+3)` (the Fisher information of the location of a
    Student-t with unit scale — closed form from the literature, validated numerically by the harness) -/
theorem pullback_eq_metric_student (θ : ℝ) (hθ : 0 < θ) : studentMet θ = (θ + 1) / (θ + 3) := by
  simp only [studentMet, studentTd, TranscReal.sqrt_eq]
  exact Real.mul_self_sqrt (by positivity)

/-- `-log` of the Student-t density `C·(1+x²/θ)^{-(θ+1)/2}` up to `log C` -/
theorem value_up_to_const_student (θ x C : ℝ) (hθ : 0 < θ) (hC : 0 < C) :
    studentE θ x = -Real.log (C * (1 + x * x / θ) ^ (-((θ + 1) / 2))) + Real.log C := by
  have hb : 0 < 1 + x * x / θ := by
    have : 0 ≤ x * x / θ := div_nonneg (mul_self_nonneg x) hθ.le
    linarith
  rw [Real.log_mul hC.ne' (Real.rpow_pos_of_pos hb _).ne', Real.log_rpow hb]
  simp only [studentE, TranscReal.log_eq]
  ring

example : studentMet (1 : ℝ) = 1 / 2 := by rw [pullback_eq_metric_student 1 (by norm_num)]; norm_num

/-! ## _SpecialGammaEnergy (inverse variance as the parameter, residual constant) -/

theorem E_hasDerivAt_sgamma (r x : ℝ) (hx : x ≠ 0) : HasDerivAt (fun y => sgammaE r y) (sgammaGrad r x) x := by
  unfold sgammaE sgammaGrad
  simp only [TranscReal.log_eq]
  have h := ((((hasDerivAt_id' x).const_mul r).mul_const r).sub (Real.hasDerivAt_log hx)).const_mul (1 / 2)
  exact h.congr_deriv (by ring)

theorem E_hasDerivAt_sgammac (a b x : ℝ) (hx : x ≠ 0) : HasDerivAt (fun y => sgammacE a b y) (sgammacGrad a b x) x := by
  unfold sgammacE sgammacGrad
  simp only [TranscReal.log_eq]
  have h := (((((hasDerivAt_id' x).const_mul (a * a)).add ((hasDerivAt_id' x).const_mul (b * b))).const_mul (1 / 2)).sub
    (Real.hasDerivAt_log hx))
  exact h.congr_deriv (by ring)

theorem t_hasDerivAt_sgamma (x : ℝ) (hx : x ≠ 0) : HasDerivAt (fun y => sgammaT y) (sgammaTd x) x := by
  unfold sgammaT sgammaTd
  simp only [TranscReal.log_eq, TranscReal.sqrt_eq]
  exact ((Real.hasDerivAt_log hx).const_mul _).congr_deriv (by ring)

theorem t_hasDerivAt_sgammac (x : ℝ) (hx : x ≠ 0) : HasDerivAt (fun y => sgammacT y) (sgammacTd x) x := by
  unfold sgammacT sgammacTd
  simp only [TranscReal.log_eq]
  exact (Real.hasDerivAt_log hx).congr_deriv (by ring)

theorem pullback_eq_metric_sgamma (x : ℝ) : sgammaMet x = 1 / 2 * (1 / (x * x)) := by
  simp only [sgammaMet, sgammaTd, TranscReal.sqrt_eq]
  have h2 : Real.sqrt (1 / 2) * Real.sqrt (1 / 2) = 1 / 2 := Real.mul_self_sqrt (by norm_num)
  calc Real.sqrt (1 / 2) * (1 / x) * (Real.sqrt (1 / 2) * (1 / x))
      = (Real.sqrt (1 / 2) * Real.sqrt (1 / 2)) * ((1 / x) * (1 / x)) := by ring
    _ = 1 / 2 * (1 / (x * x)) := by rw [h2]; field_simp

theorem pullback_eq_metric_sgammac (x : ℝ) : sgammacMet x = 1 / (x * x) := by
  simp only [sgammacMet, sgammacTd]; field_simp

/-- the Hessian in the inverse variance does not depend on the residual: `½/x²` (real), `1/x²` (complex) -/
theorem fisher_sgamma (r x : ℝ) (hx : x ≠ 0) : HasDerivAt (fun y => sgammaGrad r y) (sgammaMet x) x := by
  rw [pullback_eq_metric_sgamma]
  unfold sgammaGrad
  have h := (((hasDerivAt_one_div hx).const_sub (r * r))).const_mul (1 / 2)
  exact h.congr_deriv (by field_simp)

theorem fisher_sgammac (a b x : ℝ) (hx : x ≠ 0) : HasDerivAt (fun y => sgammacGrad a b y) (sgammacMet x) x := by
  rw [pullback_eq_metric_sgammac]
  unfold sgammacGrad
  have h := (hasDerivAt_one_div hx).const_sub (1 / 2 * (a * a + b * b))
  exact h.congr_deriv (by field_simp)

/-- `-log` of the normal density of the residual `r` with variance `1/x`, up to `½ log 2π` -/
theorem value_up_to_const_sgamma (r x : ℝ) (hx : 0 < x) :
    sgammaE r x = -Real.log (Real.sqrt x * Real.exp (-(x * r ^ 2 / 2))) := by
  rw [Real.log_mul (Real.sqrt_pos.mpr hx).ne' (Real.exp_pos _).ne', Real.log_exp, Real.log_sqrt hx.le]
  simp only [sgammaE, TranscReal.log_eq]
  ring

/-! ## BernoulliEnergy -/

theorem E_hasDerivAt_bernoulli (x d : ℝ) (h0 : x ≠ 0) (h1 : 1 - x ≠ 0) :
    HasDerivAt (fun y => bernoulliE y d) (bernoulliGrad x d) x := by
  unfold bernoulliE bernoulliGrad
  simp only [TranscReal.log_eq]
  have hl : HasDerivAt (fun y : ℝ => Real.log (1 - y)) (-1 / (1 - x)) x :=
    ((hasDerivAt_id' x).const_sub 1).log h1
  exact ((((Real.hasDerivAt_log h0).mul_const d).neg).add (hl.mul_const (d - 1))).congr_deriv (by ring)

theorem t_hasDerivAt_bernoulli (x : ℝ) (h0 : 0 < x) (h1 : x < 1) :
    HasDerivAt (fun y => bernoulliT y) (bernoulliTd x) x := by
  unfold bernoulliT bernoulliTd
  simp only [TranscReal.sqrt_eq, TranscReal.arctan_eq]
  have hu := bernoulliU_pos h0 h1
  have hU := hasDerivAt_bernoulliU h0.ne'
  have hs : HasDerivAt (fun y => Real.sqrt (bernoulliU y)) (1 / 2 / Real.sqrt (bernoulliU x) * bernoulliUd x) x :=
    (hasDerivAt_sqrt' hu).comp x hU
  exact (hs.arctan.const_mul (-2)).congr_deriv (by ring)

/-- the metric the code builds from `-2·arctan(sqrt((1-x)/x))` is the Bernoulli Fisher information `1/(x(1-x))` -/
theorem pullback_eq_metric_bernoulli (x : ℝ) (h0 : 0 < x) (h1 : x < 1) : bernoulliMet x = 1 / (x * (1 - x)) := by
  have hu := bernoulliU_pos h0 h1
  have hs2 : Real.sqrt (bernoulliU x) * Real.sqrt (bernoulliU x) = bernoulliU x := Real.mul_self_sqrt hu.le
  have hs0 : Real.sqrt (bernoulliU x) ≠ 0 := (Real.sqrt_pos.mpr hu).ne'
  have hx1 : 1 - x ≠ 0 := by linarith
  have e1 : 1 + bernoulliU x = 1 / x := by unfold bernoulliU; field_simp; ring
  have e2 : bernoulliUd x = -(1 / (x * x)) := by unfold bernoulliUd; field_simp; ring
  simp only [bernoulliMet, bernoulliTd, TranscReal.sqrt_eq]
  rw [hs2, e1, e2]
  have e3 : bernoulliU x = (1 - x) / x := by unfold bernoulliU; field_simp
  generalize Real.sqrt (bernoulliU x) = s at hs2 hs0 ⊢
  have key : -2 * (1 / (1 / x) * (1 / 2 / s * -(1 / (x * x)))) = 1 / (s * x) := by field_simp
  rw [key]
  have e4 : 1 / (s * x) * (1 / (s * x)) = 1 / ((s * s) * (x * x)) := by field_simp
  rw [e4, hs2, e3]
  field_simp

noncomputable def bernoulliHess (x d : ℝ) : ℝ := d / (x * x) + (1 - d) / ((1 - x) * (1 - x))

/-- Hessian `d/x² + (1-d)/(1-x)²`; with the datum replaced by its mean (`E d = x`) it is the metric -/
theorem fisher_bernoulli (x d : ℝ) (h0 : 0 < x) (h1 : x < 1) :
    HasDerivAt (fun y => bernoulliGrad y d) (bernoulliHess x d) x ∧ bernoulliHess x x = bernoulliMet x := by
  have hx1 : 1 - x ≠ 0 := by linarith
  constructor
  · unfold bernoulliGrad bernoulliHess
    have hq : HasDerivAt (fun y : ℝ => 1 / (1 - y)) (-((1 / (1 - x)) * (1 / (1 - x))) * -1) x :=
      (hasDerivAt_one_div hx1).comp x ((hasDerivAt_id' x).const_sub 1)
    have h := (((hasDerivAt_one_div h0.ne').mul_const d).neg).add ((hq.neg).mul_const (d - 1))
    exact h.congr_deriv (by field_simp; ring)
  · rw [pullback_eq_metric_bernoulli x h0 h1]; unfold bernoulliHess; field_simp; ring

/-- exactly `-log` of the Bernoulli pmf `x^k (1-x)^(1-k)`, `k ∈ {0,1}` -/
theorem value_up_to_const_bernoulli (x : ℝ) (k : ℕ) (hk : k ≤ 1) (h0 : 0 < x) (h1 : x < 1) :
    bernoulliE x (k : ℝ) = -Real.log (x ^ k * (1 - x) ^ (1 - k)) := by
  have h1x : 0 < 1 - x := by linarith
  rw [Real.log_mul (pow_pos h0 _).ne' (pow_pos h1x _).ne', Real.log_pow, Real.log_pow]
  simp only [bernoulliE, TranscReal.log_eq]
  rcases Nat.le_one_iff_eq_zero_or_eq_one.mp hk with rfl | rfl <;> simp

example : bernoulliMet (1 / 2 : ℝ) = 4 := by
  rw [pullback_eq_metric_bernoulli (1 / 2) (by norm_num) (by norm_num)]; norm_num

/-! ## VariableCovarianceGaussianEnergy (real residual) -/

theorem E_hasDerivAt_varcov_r (r i : ℝ) : HasDerivAt (fun y => varcovE y i) (varcovGradR r i) r := by
  unfold varcovE varcovGradR
  have h := ((((hasDerivAt_id' r).mul ((hasDerivAt_id' r).mul_const i)).sub_const (Transc.log i))).const_mul (1 / 2)
  exact h.congr_deriv (by ring)

theorem E_hasDerivAt_varcov_i (r i : ℝ) (hi : i ≠ 0) : HasDerivAt (fun y => varcovE r y) (varcovGradI r i) i := by
  unfold varcovE varcovGradI
  simp only [TranscReal.log_eq]
  have h := ((((hasDerivAt_id' i).const_mul r).const_mul r).sub (Real.hasDerivAt_log hi)).const_mul (1 / 2)
  exact h.congr_deriv (by ring)

theorem t_hasDerivAt_varcov (r i : ℝ) (hi : 0 < i) :
    HasDerivAt (fun y => varcovTr y i) (varcovTrR i) r ∧ HasDerivAt (fun y => varcovTr r y) (varcovTrI r i) i
      ∧ HasDerivAt (fun y => varcovTi y) (varcovTiI i) i := by
  refine ⟨?_, ?_, ?_⟩
  · unfold varcovTr varcovTrR
    exact ((hasDerivAt_id' r).const_mul _).congr_deriv (by ring)
  · unfold varcovTr varcovTrI
    simp only [TranscReal.sqrt_eq]
    exact (hasDerivAt_sqrt' hi).mul_const r
  · unfold varcovTi varcovTiI
    simp only [TranscReal.log_eq]
    exact ((Real.hasDerivAt_log hi.ne').const_mul (1 / 2)).congr_deriv (by ring)

/-- the Hessian does not depend on the data on the diagonal (`i`, `½/i²`: the full-Fisher metric the code uses);
    the mixed derivative is `r`, whose mean is `0` -/
theorem fisher_varcov (r i : ℝ) (hi : i ≠ 0) :
    HasDerivAt (fun y => varcovGradR y i) (varcovMetR i) r ∧ HasDerivAt (fun y => varcovGradI r y) (varcovMetI i) i
      ∧ HasDerivAt (fun y => varcovGradR r y) r i := by
  refine ⟨?_, ?_, ?_⟩
  · unfold varcovGradR varcovMetR
    have h := (((hasDerivAt_id' r).mul_const i).add ((hasDerivAt_id' r).mul_const i)).const_mul (1 / 2)
    exact h.congr_deriv (by ring)
  · unfold varcovGradI varcovMetI
    have h := ((hasDerivAt_one_div hi).const_sub (r * r)).const_mul (1 / 2)
    exact h.congr_deriv (by field_simp)
  · unfold varcovGradR
    have h := (((hasDerivAt_id' i).const_mul r).add ((hasDerivAt_id' i).const_mul r)).const_mul (1 / 2)
    exact h.congr_deriv (by ring)

/-- `JᴴJ` of the transformation `(sqrt(i)·r, ½ log i)` per pixel is
    `[[i, r/2], [r/2, r²/(4i) + 1/(4i²)]]`: a polynomial in the residual `r`; taking the data expectation
    (`E r = 0`, `E r² = 1/i`) gives exactly the full-Fisher metric `diag(i, ½/i²)` — the documented local approximation -/
theorem varcov_expected_pullback (r i : ℝ) (hi : 0 < i) :
    varcovTrR i * varcovTrR i = varcovMetR i
      ∧ varcovTrR i * varcovTrI r i = 1 / 2 * r
      ∧ varcovTrI r i * varcovTrI r i + varcovTiI i * varcovTiI i = 1 / (4 * i) * (r * r) + 1 / (4 * (i * i))
      ∧ 1 / (4 * i) * (1 / i) + 1 / (4 * (i * i)) = varcovMetI i := by
  have hs2 : Real.sqrt i * Real.sqrt i = i := Real.mul_self_sqrt hi.le
  have hs0 : Real.sqrt i ≠ 0 := (Real.sqrt_pos.mpr hi).ne'
  simp only [varcovTrR, varcovTrI, varcovTiI, varcovMetR, varcovMetI, TranscReal.sqrt_eq]
  refine ⟨hs2, ?_, ?_, ?_⟩
  · field_simp
  · have : 1 / 2 / Real.sqrt i * r * (1 / 2 / Real.sqrt i * r) = 1 / (4 * (Real.sqrt i * Real.sqrt i)) * (r * r) := by
      field_simp; ring
    rw [this, hs2]; field_simp; ring
  · field_simp; ring

/-! complex residual -/

theorem E_hasDerivAt_varcovc_a (a b i : ℝ) : HasDerivAt (fun y => varcovcE y b i) (varcovcGradA a i) a := by
  unfold varcovcE varcovcGradA
  have h := (((((hasDerivAt_id' a).mul (hasDerivAt_id' a)).mul_const i).add_const (b * b * i)).const_mul (1 / 2)).sub_const
    (Transc.log i)
  exact h.congr_deriv (by ring)

theorem E_hasDerivAt_varcovc_i (a b i : ℝ) (hi : i ≠ 0) : HasDerivAt (fun y => varcovcE a b y) (varcovcGradI a b i) i := by
  unfold varcovcE varcovcGradI
  simp only [TranscReal.log_eq]
  have h := ((((hasDerivAt_id' i).const_mul (a * a)).add ((hasDerivAt_id' i).const_mul (b * b))).const_mul (1 / 2)).sub
    (Real.hasDerivAt_log hi)
  exact h.congr_deriv (by ring)

theorem fisher_varcovc (a b i : ℝ) (hi : i ≠ 0) :
    HasDerivAt (fun y => varcovcGradA y i) (varcovMetR i) a
      ∧ HasDerivAt (fun y => varcovcGradI a b y) (varcovcMetI i) i := by
  constructor
  · unfold varcovcGradA varcovMetR
    exact ((hasDerivAt_id' a).mul_const i).congr_deriv (by ring)
  · unfold varcovcGradI varcovcMetI
    have h := (hasDerivAt_one_div hi).const_sub (1 / 2 * (a * a + b * b))
    exact h.congr_deriv (by field_simp)

/- FULL STATEMENT (what the property asks for the complex sampling dtype; does NOT hold for the code as it is):
     with E a = E b = 0, E a² = E b² = 1/i the data expectation of the (i,i) entry of JᴴJ,
     1/(4i)·(E a² + E b²) + (varcovcTiI i)², equals the Fisher coefficient varcovcMetI i = 1/i².
   The code uses the factor `sc = 1` in `sc·log(i)` for the complex case, which gives 3/2·1/i² (proved below);
   the factor that makes the statement true is sqrt(1/2).  Finding C11-varcov-complex-trafo; witness replayed on the
   real code: corpus/C11/varcov_complex_expected_pullback.json. -/
theorem varcovc_expected_pullback_partial (a b i : ℝ) (hi : 0 < i) :
    varcovTrR i * varcovTrR i = varcovMetR i
      ∧ varcovTrI a i * varcovTrI a i + varcovTrI b i * varcovTrI b i + varcovcTiI i * varcovcTiI i
          = 1 / (4 * i) * (a * a + b * b) + 1 / (i * i)
      ∧ 1 / (4 * i) * (1 / i + 1 / i) + 1 / (i * i) = 3 / 2 * varcovcMetI i := by
  have hs2 : Real.sqrt i * Real.sqrt i = i := Real.mul_self_sqrt hi.le
  have hs0 : Real.sqrt i ≠ 0 := (Real.sqrt_pos.mpr hi).ne'
  simp only [varcovTrR, varcovTrI, varcovcTiI, varcovMetR, varcovcMetI, TranscReal.sqrt_eq]
  refine ⟨hs2, ?_, ?_⟩
  · have : ∀ r : ℝ, 1 / 2 / Real.sqrt i * r * (1 / 2 / Real.sqrt i * r) = 1 / (4 * (Real.sqrt i * Real.sqrt i)) * (r * r) := by
      intro r; field_simp; ring
    rw [this a, this b, hs2]; field_simp
  · field_simp; ring

/-- witness of the excluded point: at `i = 1` the expected pull-back coefficient is `3/2`, the Fisher coefficient `1` -/
example : (1 / (4 * 1) * (1 / 1 + 1 / 1) + 1 / (1 * 1) : ℝ) ≠ varcovcMetI 1 := by
  simp only [varcovcMetI]; norm_num

/-! ## point-wise model functions and the scalar composition rules -/

theorem pf_hasDerivAt (f : PF ℝ) (x : ℝ) : HasDerivAt (fun y => PF.val f y) (PF.der f x) x := by
  cases f with
  | id => exact hasDerivAt_id' x
  | scal c =>
      show HasDerivAt (fun y : ℝ => c * y) c x
      exact ((hasDerivAt_id' x).const_mul c).congr_deriv (by ring)
  | exp => exact Real.hasDerivAt_exp x
  | sigmoid =>
      show HasDerivAt (fun y : ℝ => 1 / 2 + 1 / 2 * Real.tanh y) (1 / 2 - 1 / 2 * (Real.tanh x * Real.tanh x)) x
      exact (((TranscReal.hasDerivAt_tanh x).const_mul (1 / 2)).const_add (1 / 2)).congr_deriv (by ring)
  | sqr =>
      show HasDerivAt (fun y : ℝ => y * y) (2 * x) x
      exact ((hasDerivAt_id' x).mul (hasDerivAt_id' x)).congr_deriv (by ring)
  | expscal c =>
      show HasDerivAt (fun y : ℝ => Real.exp (c * y)) (Real.exp (c * x) * c) x
      exact (((hasDerivAt_id' x).const_mul c).exp).congr_deriv (by ring)

/-- chain rule for the gradient of `lh @ f` (`Linearization.prepend_jac`: gradient `Jᵀ g`) -/
theorem E_hasDerivAt_chain (E f : ℝ → ℝ) (g f' x : ℝ) (hE : HasDerivAt E g (f x)) (hf : HasDerivAt f f' x) :
    HasDerivAt (fun y => E (f y)) (chainGrad f' g) x := by
  unfold chainGrad
  exact (hE.comp x hf).congr_deriv (by ring)

/-- `lh @ f`: the pulled-back metric is the pull-back of the identity through the composed transformation -/
theorem chain_pullback (f' td : ℝ) : chainTd f' td * chainTd f' td = chainMet f' (td * td) := by
  unfold chainTd chainMet; ring

/-- `c·lh`, `c ≥ 0`: metric scaled by `c` (the code sandwiches with `sqrt c`), transformation scaled by `sqrt c` -/
theorem scale_pullback (c m td : ℝ) (hc : 0 ≤ c) :
    scaleMet c m = c * m ∧ scaleTd c td * scaleTd c td = scaleMet c (td * td) := by
  have h2 : Real.sqrt c * Real.sqrt c = c := Real.mul_self_sqrt hc
  simp only [scaleMet, scaleTd, TranscReal.sqrt_eq]
  constructor
  · rw [h2]
  · ring

/-- Hessian of the prior `½x²` of `StandardHamiltonian` is `1` -/
theorem prior_hessian (x : ℝ) : HasDerivAt (fun y : ℝ => 1 / 2 * (2 * y)) 1 x :=
  (((hasDerivAt_id' x).const_mul 2).const_mul (1 / 2)).congr_deriv (by ring)

/-! ## composition as matrix identities (any commutative ring; sizes arbitrary) -/
section Matrices
open Matrix
variable {R : Type*} [CommRing R] {m n k m₁ m₂ : Type*}

/-- `c·lh`: transformation `s·T` with `s² = c` (the code: `s = sqrt c`) has pull-back `c·TᵀT` -/
theorem metric_scale [Fintype m] (T : Matrix m n R) (s c : R) (hs : s * s = c) :
    (s • T)ᵀ * (s • T) = c • (Tᵀ * T) := by
  rw [transpose_smul, Matrix.smul_mul, Matrix.mul_smul, smul_smul, hs]

/-- `_LikelihoodSum`: the transformations are stacked (disjoint union of targets); the pull-back is the sum of the
    summands' metrics -/
theorem metric_sum_blocks [Fintype m₁] [Fintype m₂] (T₁ : Matrix m₁ n R) (T₂ : Matrix m₂ n R) :
    (fromRows T₁ T₂)ᵀ * fromRows T₁ T₂ = T₁ᵀ * T₁ + T₂ᵀ * T₂ := by
  rw [transpose_fromRows, fromCols_mul_fromRows]

/-- `_LikelihoodChain` / `Linearization.prepend_jac`: `M = Jᵀ M_lh J` is the pull-back through `T ∘ model` -/
theorem metric_chain [Fintype m] [Fintype k] (T : Matrix m k R) (J : Matrix k n R) :
    (T * J)ᵀ * (T * J) = Jᵀ * (Tᵀ * T) * J := by
  rw [transpose_mul]; simp only [Matrix.mul_assoc]

/-- `StandardHamiltonian`: likelihood transformation stacked with the identity (standard-normal prior):
    metric = likelihood metric + 1 -/
theorem hamiltonian_metric [Fintype m] [Fintype n] [DecidableEq n] (T : Matrix m n R) :
    (fromRows T (1 : Matrix n n R))ᵀ * fromRows T 1 = Tᵀ * T + 1 := by
  rw [metric_sum_blocks, transpose_one, Matrix.mul_one]

end Matrices


/-! ## the executable composition model (`Node.eval`, what the driver runs) -/

/-- For every well-formed likelihood tree — any nesting of `lh @ linear`, `lh @ point-wise`, `c·lh`, `lh₁ + lh₂` over the leaf
    energies (non-negative inverse variances; the full-Fisher variable-covariance leaf excluded, see `varcov_expected_pullback`) —
    every size and every position: the metric is the pull-back of the identity through the transformation, `M = JᴴJ`. -/
theorem tree_metric_is_pullback (e : Node ℝ) (x : Vec ℝ) (h : e.WF x.length) :
    (e.eval x).tjac.length = (e.eval x).t ∧
    ∀ i j, i < x.length → j < x.length →
      at2 (e.eval x).met i j = ∑ t ∈ Finset.range (e.eval x).t, at2 (e.eval x).tjac t i * at2 (e.eval x).tjac t j := by
  have hp := eval_Pull e x h
  have hn := eval_n e x h
  exact ⟨hp.1, fun i j hi hj => hp.2 i j (hn ▸ hi) (hn ▸ hj)⟩

example : (Node.add (Node.scale 2 (Node.leaf (.poisson [1, 2])))
    (Node.ptw [.exp, .exp] (Node.leaf (.student [3, 3])))).WF ([1, 2] : Vec ℝ).length := by
  simp [Node.WF, Leaf.dim, Leaf.Good]

/-- `StandardHamiltonian`: metric = likelihood metric + identity, entry by entry -/
theorem tree_hamiltonian_metric (e : Node ℝ) (x : Vec ℝ) (i j : Nat) (hi : i < x.length) (hj : j < x.length) :
    at2 ((Node.ham e).eval x).met i j = at2 (e.eval x).met i j + (if i = j then 1 else 0) := by
  show at2 (tab2 x.length x.length fun i j => at2 (e.eval x).met i j + (if i = j then 1 else 0)) i j = _
  rw [at2_tab2, if_pos ⟨hi, hj⟩]

/-- the list model's Poisson leaf has the diagonal Fisher metric `1/x` (ties `Leaf.eval` to the scalar theorem) -/
theorem leaf_metric_poisson (d x : Vec ℝ) (i j : Nat) (hi : i < d.length) (hj : j < d.length) (hx : 0 < at1 x i) :
    at2 ((Leaf.poisson d).eval x).met i j = if i = j then 1 / at1 x i else 0 := by
  show at2 (diagM d.length fun j => poissonMet (at1 x j)) i j = _
  rw [at2_diagM, if_pos ⟨hi, hj⟩, pullback_eq_metric_poisson _ hx]

/-- the list model's Bernoulli leaf has the diagonal Fisher metric `1/(x(1-x))` -/
theorem leaf_metric_bernoulli (d x : Vec ℝ) (i j : Nat) (hi : i < d.length) (hj : j < d.length)
    (h0 : 0 < at1 x i) (h1 : at1 x i < 1) :
    at2 ((Leaf.bernoulli d).eval x).met i j = if i = j then 1 / (at1 x i * (1 - at1 x i)) else 0 := by
  show at2 (diagM d.length fun j => bernoulliMet (at1 x j)) i j = _
  rw [at2_diagM, if_pos ⟨hi, hj⟩, pullback_eq_metric_bernoulli _ h0 h1]


/-! ### the gradient entries of the element-wise leaves of the list model are exact partial derivatives (every size) -/

theorem leaf_grad_exact_poisson (d x : Vec ℝ) (j : Nat) (hj : j < d.length) (hjx : j < x.length) (hx : at1 x j ≠ 0) :
    HasDerivAt (fun y => ((Leaf.poisson d).eval (x.set j y)).val) (at1 ((Leaf.poisson d).eval x).grad j) (at1 x j) := by
  have hg : at1 ((Leaf.poisson d).eval x).grad j = poissonGrad (at1 x j) (at1 d j) := by
    show at1 (tab (d.length) fun j => _) j = _
    rw [at1_tab, if_pos hj]
  rw [hg]
  exact ptwLeaf_val_hasDerivAt (d.length) (fun k y => poissonE y (at1 d k)) _ x j hj hjx (E_hasDerivAt_poisson _ _ hx)

theorem leaf_grad_exact_bernoulli (d x : Vec ℝ) (j : Nat) (hj : j < d.length) (hjx : j < x.length) (h0 : at1 x j ≠ 0) (h1 : 1 - at1 x j ≠ 0) :
    HasDerivAt (fun y => ((Leaf.bernoulli d).eval (x.set j y)).val) (at1 ((Leaf.bernoulli d).eval x).grad j) (at1 x j) := by
  have hg : at1 ((Leaf.bernoulli d).eval x).grad j = bernoulliGrad (at1 x j) (at1 d j) := by
    show at1 (tab (d.length) fun j => _) j = _
    rw [at1_tab, if_pos hj]
  rw [hg]
  exact ptwLeaf_val_hasDerivAt (d.length) (fun k y => bernoulliE y (at1 d k)) _ x j hj hjx (E_hasDerivAt_bernoulli _ _ h0 h1)

theorem leaf_grad_exact_categorical (d x : Vec ℝ) (j : Nat) (hj : j < d.length) (hjx : j < x.length) (hx : at1 x j ≠ 0) :
    HasDerivAt (fun y => ((Leaf.categorical d).eval (x.set j y)).val) (at1 ((Leaf.categorical d).eval x).grad j) (at1 x j) := by
  have hg : at1 ((Leaf.categorical d).eval x).grad j = categoricalGrad (at1 x j) (at1 d j) := by
    show at1 (tab (d.length) fun j => _) j = _
    rw [at1_tab, if_pos hj]
  rw [hg]
  exact ptwLeaf_val_hasDerivAt (d.length) (fun k y => categoricalE y (at1 d k)) _ x j hj hjx (E_hasDerivAt_categorical _ _ hx)

theorem leaf_grad_exact_student (θ x : Vec ℝ) (j : Nat) (hj : j < θ.length) (hjx : j < x.length) (hθ : 0 < at1 θ j) :
    HasDerivAt (fun y => ((Leaf.student θ).eval (x.set j y)).val) (at1 ((Leaf.student θ).eval x).grad j) (at1 x j) := by
  have hg : at1 ((Leaf.student θ).eval x).grad j = studentGrad (at1 θ j) (at1 x j) := by
    show at1 (tab (θ.length) fun j => _) j = _
    rw [at1_tab, if_pos hj]
  rw [hg]
  exact ptwLeaf_val_hasDerivAt (θ.length) (fun k y => studentE (at1 θ k) y) _ x j hj hjx (E_hasDerivAt_student _ _ hθ)

theorem leaf_grad_exact_invGamma (α β x : Vec ℝ) (j : Nat) (hj : j < β.length) (hjx : j < x.length) (hx : at1 x j ≠ 0) :
    HasDerivAt (fun y => ((Leaf.invGamma α β).eval (x.set j y)).val) (at1 ((Leaf.invGamma α β).eval x).grad j) (at1 x j) := by
  have hg : at1 ((Leaf.invGamma α β).eval x).grad j = invGammaGrad (at1 α j) (at1 β j) (at1 x j) := by
    show at1 (tab (β.length) fun j => _) j = _
    rw [at1_tab, if_pos hj]
  rw [hg]
  exact ptwLeaf_val_hasDerivAt (β.length) (fun k y => invGammaE (at1 α k) (at1 β k) y) _ x j hj hjx (E_hasDerivAt_invGamma _ _ _ hx)

theorem leaf_grad_exact_gaussDiag (w d x : Vec ℝ) (j : Nat) (hj : j < d.length) (hjx : j < x.length) :
    HasDerivAt (fun y => ((Leaf.gaussDiag w d).eval (x.set j y)).val) (at1 ((Leaf.gaussDiag w d).eval x).grad j) (at1 x j) := by
  have hg : at1 ((Leaf.gaussDiag w d).eval x).grad j = gaussGrad (at1 w j) (at1 x j) (at1 d j) := by
    show at1 (tab (d.length) fun j => _) j = _
    rw [at1_tab, if_pos hj]
  rw [hg]
  exact ptwLeaf_val_hasDerivAt (d.length) (fun k y => gaussE (at1 w k) y (at1 d k)) _ x j hj hjx (E_hasDerivAt_gauss _ _ _)

theorem leaf_grad_exact_gaussNone (d x : Vec ℝ) (j : Nat) (hj : j < d.length) (hjx : j < x.length) :
    HasDerivAt (fun y => ((Leaf.gaussNone d).eval (x.set j y)).val) (at1 ((Leaf.gaussNone d).eval x).grad j) (at1 x j) := by
  have hg : at1 ((Leaf.gaussNone d).eval x).grad j = gaussGrad1 (at1 x j) (at1 d j) := by
    show at1 (tab (d.length) fun j => _) j = _
    rw [at1_tab, if_pos hj]
  rw [hg]
  exact ptwLeaf_val_hasDerivAt (d.length) (fun k y => gaussE1 y (at1 d k)) _ x j hj hjx (E_hasDerivAt_gauss1 _ _)

/-! ### the remaining `value = -log pdf + const` statements -/

/-- no inverse covariance: unit-variance normal density of the datum `d` with mean `x`, up to `½ log 2π` -/
theorem value_up_to_const_gauss1 (x d : ℝ) : gaussE1 x d = -Real.log (Real.exp (-((d - x) ^ 2 / 2))) := by
  rw [Real.log_exp]; unfold gaussE1; ring

/-- variable covariance (real): `-log` of the normal density of the residual `r` with inverse variance `i`, up to `½ log 2π` -/
theorem value_up_to_const_varcov (r i : ℝ) (hi : 0 < i) :
    varcovE r i = -Real.log (Real.sqrt i * Real.exp (-(i * r ^ 2 / 2))) := by
  rw [Real.log_mul (Real.sqrt_pos.mpr hi).ne' (Real.exp_pos _).ne', Real.log_exp, Real.log_sqrt hi.le]
  simp only [varcovE, TranscReal.log_eq]
  ring

/-- variable covariance (complex residual `a + ib`): `-log` of the product of two such densities (`sqrt i · sqrt i = i`) -/
theorem value_up_to_const_varcovc (a b i : ℝ) (hi : 0 < i) :
    varcovcE a b i = -Real.log (i * Real.exp (-(i * (a ^ 2 + b ^ 2) / 2))) := by
  rw [Real.log_mul hi.ne' (Real.exp_pos _).ne', Real.log_exp]
  simp only [varcovcE, TranscReal.log_eq]
  ring

theorem value_up_to_const_sgammac (a b x : ℝ) (hx : 0 < x) :
    sgammacE a b x = -Real.log (x * Real.exp (-(x * (a ^ 2 + b ^ 2) / 2))) := by
  rw [Real.log_mul hx.ne' (Real.exp_pos _).ne', Real.log_exp]
  simp only [sgammacE, TranscReal.log_eq]
  ring

/-- the Hamiltonian adds the standard-normal prior `½x²`: value and gradient of the list model -/
theorem tree_hamiltonian_grad (e : Node ℝ) (x : Vec ℝ) (j : Nat) (hj : j < x.length) :
    at1 ((Node.ham e).eval x).grad j = at1 (e.eval x).grad j + at1 x j := by
  show at1 (tab x.length fun j => at1 (e.eval x).grad j + 1 / 2 * (2 * at1 x j)) j = _
  rw [at1_tab, if_pos hj]; ring

/-- `c·lh` in the list model: value, gradient and (for `c ≥ 0`) metric are scaled by `c` -/
theorem tree_scale (c : ℝ) (hc : 0 ≤ c) (e : Node ℝ) (x : Vec ℝ) (i j : Nat) :
    ((Node.scale c e).eval x).val = c * (e.eval x).val
      ∧ at2 ((Node.scale c e).eval x).met i j = c * at2 (e.eval x).met i j := by
  refine ⟨rfl, ?_⟩
  show at2 ((e.eval x).met.map fun row => row.map (Real.sqrt c * Real.sqrt c * ·)) i j = _
  rw [at2_map_map (Real.sqrt c * Real.sqrt c * ·) (by simp), Real.mul_self_sqrt hc]

/-- `lh₁ + lh₂` in the list model: metrics add entry by entry -/
theorem tree_add_metric (a b : Node ℝ) (x : Vec ℝ) (i j : Nat) (hi : i < x.length) (hj : j < x.length) :
    at2 ((Node.add a b).eval x).met i j = at2 (a.eval x).met i j + at2 (b.eval x).met i j := by
  show at2 (tab2 x.length x.length fun i j => at2 (a.eval x).met i j + at2 (b.eval x).met i j) i j = _
  rw [at2_tab2, if_pos ⟨hi, hj⟩]

/-- `lh @ linear` in the list model: metric `Jᵀ M J`, entry by entry -/
theorem tree_lin_metric (rows : Nat) (A : Mat ℝ) (e : Node ℝ) (x : Vec ℝ) (i j : Nat) (hi : i < x.length) (hj : j < x.length) :
    at2 ((Node.lin rows A e).eval x).met i j
      = ∑ k ∈ Finset.range (e.eval (matVec rows x.length A x)).n, at2 A k i *
          ∑ l ∈ Finset.range (e.eval (matVec rows x.length A x)).n, at2 (e.eval (matVec rows x.length A x)).met k l * at2 A l j := by
  show at2 (sandwich _ x.length A _) i j = _
  rw [at2_sandwich _ _ _ _ _ _ hi hj]

end NiftyVerif.C11
