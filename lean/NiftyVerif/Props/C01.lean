/-
  C01 — Linear-operator algebra has exact matrix semantics.
  Property theorems only; obligations are listed in harness/props/c01.py.
  `Gen.ModeTables` is regenerated from nifty/cl/operators/*.py on every run (translator T1), so the table theorems
  below are re-proved against the literal tables and mode expressions the code contains *now*.
  Trafo index `s < 4`: bit 0 = adjoint, bit 1 = inverse; the mode bit mask of `s` is `1 <<< s`.
-/
import NiftyVerif.Gen.ModeTables
import NiftyVerif.Model.OpAlgebra

namespace NiftyVerif.C01
open NiftyVerif.Gen.ModeTables NiftyVerif.OpAlgebra

/-! ### Part 1 — the mode algebra (complete finite tables, by `decide`) -/

/-- `_ilog` inverts `s ↦ 1 <<< s`, and maps every other index below 9 to "invalid" -/
theorem ilog_spec :
    (∀ s, s < 4 → ilogN (1 <<< s) = s) ∧ ilog.length = 9 ∧
    (∀ m, m < 9 → (ilogN m < 4 ↔ ∃ s, s < 4 ∧ m = 1 <<< s)) := by decide

/-- `_validMode` holds exactly for the four single-bit masks -/
theorem validMode_spec :
    validMode.length = 9 ∧ ∀ m, m < 9 → (validMode.getD m false = true ↔ ∃ s, s < 4 ∧ m = 1 <<< s) := by decide

/-- `_modeTable[t][s]` is the mask of `s xor t`: the modes form the group `{id,adj} × {id,inv}` -/
theorem modeTable_is_xor :
    modeTable.length = 4 ∧ (∀ t, t < 4 → (modeTable.getD t []).length = 4) ∧
    ∀ t, t < 4 → ∀ s, s < 4 → (modeTable.getD t []).getD s 0 = 1 <<< (s ^^^ t) := by decide

/-- an adapter with transformation `t` advertises mode `s` exactly when its operand advertises the mode the adapter
    forwards to (`_capTable` is the permutation of capability bits induced by `_modeTable`) -/
theorem capTable_matches_modeTable :
    capTable.length = 4 ∧ (∀ t, t < 4 → (capTable.getD t []).length = 16) ∧
    ∀ t, t < 4 → ∀ c, c < 16 → ∀ s, s < 4 →
      ((adapterCap t c &&& (1 <<< s)) ≠ 0 ↔ (c &&& adapterApplyMode t (1 <<< s)) ≠ 0) := by decide

/-- `_addInverse[c]` is the closure of `c` under "the inverse of an advertised mode" -/
theorem addInverse_is_closure :
    addInverse.length = 16 ∧
    ∀ c, c < 16 → ∀ s, s < 4 →
      ((invEnablerCap c &&& (1 <<< s)) ≠ 0 ↔ ((c &&& (1 <<< s)) ≠ 0 ∨ (c &&& (1 <<< (s ^^^ INVERSE_BIT))) ≠ 0)) := by decide

/-- `_dom(mode)` is the domain exactly when adjoint-ness and inverse-ness agree (TIMES, ADJOINT_INVERSE_TIMES),
    `_tgt(mode)` is the domain in the two other modes -/
theorem dom_tgt_masks :
    ∀ s, s < 4 → (((1 <<< s) &&& domMask ≠ 0) ↔ (s &&& 1 = (s >>> 1) &&& 1)) ∧
                 (((1 <<< s) &&& tgtMask ≠ 0) ↔ ¬ (s &&& 1 = (s >>> 1) &&& 1)) := by decide

/-- a chain applies its operators in list order (i.e. reverses the matrix product) exactly for ADJOINT_TIMES and
    INVERSE_TIMES; `_flip_modes` reverses the list for the same two transformations and keeps it for adjoint-inverse -/
theorem backwards_spec :
    (∀ s, s < 4 → (chainAppliesListOrder (1 <<< s) = true ↔ ¬ (s &&& 1 = (s >>> 1) &&& 1))) ∧
    chainFlipReversed = [true, true, false] := by decide

/-- the literal capability masks and the scaling masks -/
theorem mask_specs :
    sumCap = TIMES ||| ADJOINT_TIMES ∧ nullCap = TIMES ||| ADJOINT_TIMES ∧ chainCap = 15 ∧ allOps = 15 ∧
    TIMES = 1 <<< 0 ∧ ADJOINT_TIMES = 1 <<< 1 ∧ INVERSE_TIMES = 1 <<< 2 ∧ ADJOINT_INVERSE_TIMES = 1 <<< 3 ∧
    INVERSE_ADJOINT_TIMES = ADJOINT_INVERSE_TIMES ∧ ADJOINT_BIT = 1 ∧ INVERSE_BIT = 2 ∧
    (∀ s, s < 4 → (((1 <<< s) &&& scalingAdjMask ≠ 0) ↔ s &&& 1 = 1) ∧ (((1 <<< s) &&& scalingInvMask ≠ 0) ↔ s &&& 2 = 2)) ∧
    (∀ t, t < 4 → (scalingFlipConj t = true ↔ t &&& 1 = 1) ∧ (scalingFlipInv t = true ↔ t &&& 2 = 2)) ∧
    (∀ c, c < 16 → ∀ m, m < 9 → (checkMode c m = true ↔ ∃ s, s < 4 ∧ m = 1 <<< s ∧ c &&& m ≠ 0)) := by decide

/-- adapters: the mode used for the domain, the forwarded mode, and flipping are all `xor` on trafo indices -/
theorem adapter_table_specs :
    (∀ t, t < 4 → adapterDomMode t = 1 <<< t ∧ adapterTgtMode t = 1 <<< t) ∧
    (∀ t, t < 4 → ∀ s, s < 4 → adapterApplyMode t (1 <<< s) = 1 <<< (s ^^^ t)) ∧
    (∀ a, a < 4 → ∀ b, b < 4 → adapterFlip a b = a ^^^ b ∧ diagFlip a b = a ^^^ b) ∧
    (∀ s, s < 4 → invEnablerInvMode (1 <<< s) = 1 <<< (s ^^^ INVERSE_BIT)) ∧
    (∀ c, c < 16 → ∀ s, s < 4 → (invEnablerDelegates c (1 <<< s) = true ↔ c &&& (1 <<< s) ≠ 0)) := by decide

/-- diagonal operators: the branch taken in mode `s` with pending transformation `t` is `s xor t`;
    branch `b` conjugates iff bit 0 and divides iff bit 1; `_get_actual_diag` does the same for `_trafo` -/
theorem diag_kind_specs :
    (∀ t, t < 4 → ∀ s, s < 4 → diagTrafo t (1 <<< s) = s ^^^ t) ∧
    diagApplyKind.length = 4 ∧ diagActualKind.length = 4 ∧
    (∀ b, b < 4 → diagApplyKind.getD b (false, false) = (decide (b &&& 1 = 1), decide (b &&& 2 = 2))) ∧
    (∀ b, b < 4 → diagActualKind.getD b (false, false) = (decide (b &&& 1 = 1), decide (b &&& 2 = 2))) := by decide

end NiftyVerif.C01
