/-
  C01 — Linear-operator algebra has exact matrix semantics.
  Property theorems only; obligations are listed in harness/props/c01.py.
  `Gen.ModeTables` is regenerated from nifty/cl/operators/*.py on every run (translator T1), so the table theorems
  below are re-proved against the literal tables and mode expressions the code contains *now*.
  Trafo index `s < 4`: bit 0 = adjoint, bit 1 = inverse; the mode bit mask of `s` is `1 <<< s`.
-/
import NiftyVerif.Gen.ModeTables
import NiftyVerif.Model.OpAlgebra
import NiftyVerif.Lemmas.OpAlgebra
import NiftyVerif.Lemmas.OpAlgebraCap

namespace NiftyVerif.C01
open NiftyVerif.Gen.ModeTables NiftyVerif.OpAlgebra

/-! ### Part 1 — the mode algebra (complete finite tables, by `decide`) -/

/-- `_ilog` inverts `s ↦ 1 <<< s`, and maps every other index below 9 to "invalid" -/
theorem ilog_spec :
    (∀ s, s < 4 → ilogN (1 <<< s) = s) ∧ ilog.length = 9 ∧
    (∀ m, m < 9 → (ilogN m < 4 ↔ ∃ s, s < 4 ∧ m = 1 <<< s)) := by decide

/-- `_validMode` holds exactly for the four single-bit masks -/
theorem validMode_spec :
    validMode.length = 9 ∧ ∀ m, m < 9 → (validMode.getD m false = true ↔ ∃ s, s < 4 ∧ m = 1 <<< s) := by decide

/-- `_modeTable[t][s]` is the mask of `s xor t`: the modes form the group `{id,adj} × {id,inv}` -/
theorem modeTable_is_xor :
    modeTable.length = 4 ∧ (∀ t, t < 4 → (modeTable.getD t []).length = 4) ∧
    ∀ t, t < 4 → ∀ s, s < 4 → (modeTable.getD t []).getD s 0 = 1 <<< (s ^^^ t) := by decide

/-- an adapter with transformation `t` advertises mode `s` exactly when its operand advertises the mode the adapter
    forwards to (`_capTable` is the permutation of capability bits induced by `_modeTable`) -/
theorem capTable_matches_modeTable :
    capTable.length = 4 ∧ (∀ t, t < 4 → (capTable.getD t []).length = 16) ∧
    ∀ t, t < 4 → ∀ c, c < 16 → ∀ s, s < 4 →
      ((adapterCap t c &&& (1 <<< s)) ≠ 0 ↔ (c &&& adapterApplyMode t (1 <<< s)) ≠ 0) := by decide

/-- `_addInverse[c]` is the closure of `c` under "the inverse of an advertised mode" -/
theorem addInverse_is_closure :
    addInverse.length = 16 ∧
    ∀ c, c < 16 → ∀ s, s < 4 →
      ((invEnablerCap c &&& (1 <<< s)) ≠ 0 ↔ ((c &&& (1 <<< s)) ≠ 0 ∨ (c &&& (1 <<< (s ^^^ INVERSE_BIT))) ≠ 0)) := by decide

/-- `_dom(mode)` is the domain exactly when adjoint-ness and inverse-ness agree (TIMES, ADJOINT_INVERSE_TIMES),
    `_tgt(mode)` is the domain in the two other modes -/
theorem dom_tgt_masks :
    ∀ s, s < 4 → (((1 <<< s) &&& domMask ≠ 0) ↔ (s &&& 1 = (s >>> 1) &&& 1)) ∧
                 (((1 <<< s) &&& tgtMask ≠ 0) ↔ ¬ (s &&& 1 = (s >>> 1) &&& 1)) := by decide

/-- a chain applies its operators in list order (i.e. reverses the matrix product) exactly for ADJOINT_TIMES and
    INVERSE_TIMES; `_flip_modes` reverses the list for the same two transformations and keeps it for adjoint-inverse -/
theorem backwards_spec :
    (∀ s, s < 4 → (chainAppliesListOrder (1 <<< s) = true ↔ ¬ (s &&& 1 = (s >>> 1) &&& 1))) ∧
    chainFlipReversed = [true, true, false] := by decide

/-- the literal capability masks and the scaling masks -/
theorem mask_specs :
    sumCap = TIMES ||| ADJOINT_TIMES ∧ nullCap = TIMES ||| ADJOINT_TIMES ∧ chainCap = 15 ∧ allOps = 15 ∧
    TIMES = 1 <<< 0 ∧ ADJOINT_TIMES = 1 <<< 1 ∧ INVERSE_TIMES = 1 <<< 2 ∧ ADJOINT_INVERSE_TIMES = 1 <<< 3 ∧
    INVERSE_ADJOINT_TIMES = ADJOINT_INVERSE_TIMES ∧ ADJOINT_BIT = 1 ∧ INVERSE_BIT = 2 ∧
    (∀ s, s < 4 → (((1 <<< s) &&& scalingAdjMask ≠ 0) ↔ s &&& 1 = 1) ∧ (((1 <<< s) &&& scalingInvMask ≠ 0) ↔ s &&& 2 = 2)) ∧
    (∀ t, t < 4 → (scalingFlipConj t = true ↔ t &&& 1 = 1) ∧ (scalingFlipInv t = true ↔ t &&& 2 = 2)) ∧
    (∀ c, c < 16 → ∀ m, m < 9 → (checkMode c m = true ↔ ∃ s, s < 4 ∧ m = 1 <<< s ∧ c &&& m ≠ 0)) := by decide

/-- adapters: the mode used for the domain, the forwarded mode, and flipping are all `xor` on trafo indices -/
theorem adapter_table_specs :
    (∀ t, t < 4 → adapterDomMode t = 1 <<< t ∧ adapterTgtMode t = 1 <<< t) ∧
    (∀ t, t < 4 → ∀ s, s < 4 → adapterApplyMode t (1 <<< s) = 1 <<< (s ^^^ t)) ∧
    (∀ a, a < 4 → ∀ b, b < 4 → adapterFlip a b = a ^^^ b ∧ diagFlip a b = a ^^^ b) ∧
    (∀ s, s < 4 → invEnablerInvMode (1 <<< s) = 1 <<< (s ^^^ INVERSE_BIT)) ∧
    (∀ c, c < 16 → ∀ s, s < 4 → (invEnablerDelegates c (1 <<< s) = true ↔ c &&& (1 <<< s) ≠ 0)) := by decide

/-- diagonal operators: the branch taken in mode `s` with pending transformation `t` is `s xor t`;
    branch `b` conjugates iff bit 0 and divides iff bit 1; `_get_actual_diag` does the same for `_trafo` -/
theorem diag_kind_specs :
    (∀ t, t < 4 → ∀ s, s < 4 → diagTrafo t (1 <<< s) = s ^^^ t) ∧
    diagApplyKind.length = 4 ∧ diagActualKind.length = 4 ∧
    (∀ b, b < 4 → diagApplyKind.getD b (false, false) = (decide (b &&& 1 = 1), decide (b &&& 2 = 2))) ∧
    (∀ b, b < 4 → diagActualKind.getD b (false, false) = (decide (b &&& 1 = 1), decide (b &&& 2 = 2))) := by decide


/-! ### Part 1b — capability of composite expressions -/

section capability
variable {K D : Type}

/-- the property's own rule for "mode `s` is advertised": every constituent provides the mode that `s` requires -/
def Requires : Op K D → Nat → Bool
  | .leaf _ c _ _, s => (c &&& (1 <<< s)) != 0
  | .scaling _ _ _, _ => true
  | .diag _ _ _ _, _ => true
  | .idEntry _, _ => true
  | .blockdiag _ ents, s => (ents.map (Requires · s)).all id
  | .null _ _, s => (s &&& 2) == 0
  | .adapter o t, s => Requires o (s ^^^ t)
  | .chain ops, s => (ops.map (Requires · s)).all id
  | .sum ops _, s => ((s &&& 2) == 0) && (ops.map (Requires · s)).all id
  | .sandwich _ _ op, s => Requires op s
  | .invEnabler o, s => Requires o s || Requires o (s ^^^ 2)

/-- **capability = the property's rule**: an expression advertises mode `s` exactly when all of its constituents provide the
    modes that `s` requires (adapters permute by xor, chains/block-diagonals intersect, sums additionally only forward/adjoint,
    InversionEnabler closes under inverse) -/
theorem cap_spec (e : Op K D) (h : WF e = true) (s : Nat) (hs : s < 4) :
    (((cap e) &&& (1 <<< s)) != 0) = Requires e s := by
  induction e using cap.induct generalizing s with
  | case1 id c d t => simp [cap, Requires]
  | case2 => simp [cap, Requires, (consts_bit s hs).1]
  | case3 => simp [cap, Requires, (consts_bit s hs).1]
  | case4 => simp [cap, Requires, (consts_bit s hs).1]
  | case5 dm ents ih =>
    have hwf : ∀ o ∈ ents, WF o = true := by
      simpa [WF, List.all_map, List.all_eq_true] using h
    simp only [cap, Requires]
    rw [foldl_and_bit _ _ _ hs (consts_bit 0 (by decide)).2.2.2.2.1
      (by intro c hc; simp only [List.mem_map] at hc; obtain ⟨o, ho, rfl⟩ := hc; exact cap_lt o (hwf o ho)),
      (consts_bit s hs).1, Bool.true_and, List.all_map]
    rw [show (ents.map (Requires · s)).all id = ents.all (fun o => Requires o s) by simp [List.all_map]]
    apply all_congr_mem
    intro o ho
    exact ih o ho (hwf o ho) s hs
  | case6 d t => simp [cap, Requires, (consts_bit s hs).2.2.2.1]
  | case7 o t ih =>
    simp only [WF, Bool.and_eq_true, decide_eq_true_eq] at h
    simp only [cap, Requires]
    rw [adapterCap_bit t h.1 _ (cap_lt o h.2) s hs]
    exact ih h.2 _ (xor_lt s hs t h.1)
  | case8 ops ih =>
    have hwf : ∀ o ∈ ops, WF o = true := by
      simpa [WF, List.all_map, List.all_eq_true] using h
    simp only [cap, Requires]
    rw [foldl_and_bit _ _ _ hs (consts_bit 0 (by decide)).2.2.2.2.2.1
      (by intro c hc; simp only [List.mem_map] at hc; obtain ⟨o, ho, rfl⟩ := hc; exact cap_lt o (hwf o ho)),
      (consts_bit s hs).2.1, Bool.true_and, List.all_map]
    rw [show (ops.map (Requires · s)).all id = ops.all (fun o => Requires o s) by simp [List.all_map]]
    apply all_congr_mem
    intro o ho
    exact ih o ho (hwf o ho) s hs
  | case9 ops neg ih =>
    have hwf : ∀ o ∈ ops, WF o = true := by
      simpa [WF, List.all_map, List.all_eq_true] using h
    simp only [cap, Requires]
    rw [foldl_and_bit _ _ _ hs (consts_bit 0 (by decide)).2.2.2.2.2.2.1
      (by intro c hc; simp only [List.mem_map] at hc; obtain ⟨o, ho, rfl⟩ := hc; exact cap_lt o (hwf o ho)),
      (consts_bit s hs).2.2.1, List.all_map]
    rw [show (ops.map (Requires · s)).all id = ops.all (fun o => Requires o s) by simp [List.all_map]]
    congr 1
    apply all_congr_mem
    intro o ho
    exact ih o ho (hwf o ho) s hs
  | case10 b c op ih => simp only [cap, Requires]; exact ih (by simpa [WF] using h) s hs
  | case11 o ih =>
    have hw : WF o = true := by simpa [WF] using h
    simp only [cap, Requires]
    rw [invCap_bit _ (cap_lt o hw) s hs, ih hw s hs, ih hw _ (xor_lt s hs 2 (by decide))]

/-- non-vacuity of `cap_spec`: a well-formed expression with a chain, an inverse adapter, a diagonal with pending
    transformation, a difference and an InversionEnabler; its capability (TIMES and INVERSE_TIMES) follows the rule -/
example :
    let e : Op Nat Unit := Op.invEnabler (Op.sum [Op.adapter (Op.chain [Op.leaf 0 5 0 0, Op.scaling 0 2 0]) 2,
      Op.diag 0 () 1 0] [false, true])
    WF e = true ∧ cap e = 5 ∧ Requires e 0 = true ∧ Requires e 2 = true ∧ Requires e 1 = false := by
  simp [WF, cap, Requires, adapterCap, invEnablerCap, capTable, addInverse, sumCap, chainCap, allOps, TIMES, ADJOINT_TIMES]

end capability

/-! ### Part 2 — dense action of the operator classes (Mathlib matrices over any star field, any index type)

`S = msem …` interprets every operator in the star algebra `Matrix X X K` (block embedding of all domains into one
index type `X`; the identity of every domain is interpreted as `1`), diagonal data as functions `X → K`.
`modeScalar c s` / `modeDiag d s`: conjugate when bit 0 of `s` is set, reciprocal when bit 1 is set. -/

section matrix
open Matrix
set_option linter.unusedSectionVars false
variable {X K : Type} [Fintype X] [DecidableEq X] [Field K] [StarRing K] [DecidableEq K]
variable (isReal : K → Bool) (re : K → K) (blocks : Nat → List (Matrix X X K) → Matrix X X K)
  (leaf : Nat → Nat → Matrix X X K)

local notation "S" => msem isReal re blocks leaf

/-- ScalingOperator.apply: `c`, conjugated in adjoint modes, inverted in inverse modes (including the `c = 1` and
    `c = 0` shortcuts of the code, which agree with the formula because `star 1 = 1`, `0⁻¹ = 0`) -/
theorem den_scaling (d : Nat) (c : K) (dt s : Nat) (hs : s < 4) :
    den S (Op.scaling d c dt) (1 <<< s) = modeScalar c s • (1 : Matrix X X K) := by
  unfold den scalingFactor
  rw [adjMask_eval s hs, invMask_eval s hs]
  by_cases h1 : c = 1
  · subst h1; interval_cases s <;> simp [msem, modeScalar]
  · by_cases h0 : c = 0
    · subst h0; interval_cases s <;> simp [msem, modeScalar]
    · interval_cases s <;> simp [msem, modeScalar, h1, h0]

/-- DiagonalOperator.apply with pending transformation `t`: branch `s xor t` -/
theorem den_diag (dm : Nat) (d : X → K) (t dt s : Nat) (ht : t < 4) (hs : s < 4) :
    den S (Op.diag dm d t dt) (1 <<< s) = Matrix.diagonal (modeDiag d (s ^^^ t)) := by
  unfold den
  rw [diagTrafo_eval t ht s hs, diagBranch_msem _ _ _ _ _ _ (xor_lt4 s hs t ht)]
  rfl

/-- OperatorAdapter.apply: mode `s` of the adapter is mode `s xor t` of the operand -/
theorem den_adapter (o : Op K (X → K)) (t s : Nat) (ht : t < 4) (hs : s < 4) :
    den S (Op.adapter o t) (1 <<< s) = den S o (1 <<< (s ^^^ t)) := by
  rw [den, adapterApplyMode_eval t ht s hs]

/-- ChainOperator.apply: the matrix product in list order for TIMES and ADJOINT_INVERSE_TIMES, in reversed order
    exactly for ADJOINT_TIMES and INVERSE_TIMES -/
theorem den_chain (ops : List (Op K (X → K))) (s : Nat) (hs : s < 4) (hne : ops ≠ []) :
    den S (Op.chain ops) (1 <<< s) =
      if s &&& 1 = (s >>> 1) &&& 1 then (ops.map (den S · (1 <<< s))).prod
      else (ops.map (den S · (1 <<< s))).reverse.prod := by
  rw [den]
  rw [chainOrder_eval s hs]
  have hne' : ops.map (den S · (1 <<< s)) ≠ [] := by simpa using hne
  by_cases h : s &&& 1 = (s >>> 1) &&& 1
  · simp only [h, decide_true, Bool.not_true, Bool.false_eq_true, if_false, if_true]
    exact prodR_msem _ _ _ _ _ hne'
  · simp only [h, decide_false, Bool.not_false, if_true, if_false]
    exact prodR_msem _ _ _ _ _ (by simpa using hne)

/-- SumOperator.apply: the signed sum of the summands' actions -/
theorem den_sum (ops : List (Op K (X → K))) (neg : List Bool) (m : Nat) (hne : ops ≠ []) (hneg : neg ≠ []) :
    den S (Op.sum ops neg) m = signedSum ((ops.map (den S · m)).zip neg) := by
  rw [den]
  apply sumR_msem
  cases ops with
  | nil => exact absurd rfl hne
  | cons o os => cases neg with
    | nil => exact absurd rfl hneg
    | cons n ns => simp

/-- SandwichOperator.apply delegates to the chain built by `make`; NullOperator is zero; a missing block entry is unity -/
theorem den_sandwich (b c o : Op K (X → K)) (m : Nat) : den S (Op.sandwich b c o) m = den S o m := by rw [den]
theorem den_null (d t m : Nat) : den S (Op.null d t : Op K (X → K)) m = 0 := by
  rw [den]; split <;> rfl
theorem den_idEntry (d m : Nat) : den S (Op.idEntry d : Op K (X → K)) m = 1 := by rw [den]; rfl

/-! ### Part 3 — the rewriting rules of the simplifiers preserve the action -/

/-- `_scale(f)`: every mode of the rescaled diagonal is the mode-scalar times the original (trafo is reset to 0) -/
theorem diagScale_sound (dm : Nat) (d : X → K) (t dt : Nat) (f : K) (s : Nat) (ht : t < 4) (hs : s < 4) :
    den S (diagScale S (Op.diag dm d t dt) f) (1 <<< s) = modeScalar f s • den S (Op.diag dm d t dt) (1 <<< s) := by
  unfold diagScale
  rw [den_diag _ _ _ _ _ _ _ _ _ (by decide) hs, den_diag _ _ _ _ _ _ _ _ _ ht hs, actualDiag_msem _ _ _ _ _ _ ht]
  have : (msem isReal re blocks leaf).dscale (modeDiag d t) f = modeDiag d t * fun _ => f := rfl
  rw [this, Nat.xor_zero, modeDiag_mul _ _ _ hs, modeDiag_modeDiag _ _ _ hs ht, modeDiag_const _ _ hs]
  ext i j
  by_cases hij : i = j <;> simp [Matrix.diagonal, hij, mul_comm]

/-- `_combine_prod`: adjacent diagonals of a chain merge into the product, in every mode (diagonals commute, so the
    order reversal of the adjoint/inverse modes is immaterial) -/
theorem diagCombineProd_sound (dm dm2 : Nat) (d1 d2 : X → K) (t1 t2 dt1 dt2 s : Nat) (h1 : t1 < 4) (h2 : t2 < 4) (hs : s < 4) :
    den S (diagCombineProd S (Op.diag dm d1 t1 dt1) (Op.diag dm2 d2 t2 dt2)) (1 <<< s) =
      den S (Op.diag dm d1 t1 dt1) (1 <<< s) * den S (Op.diag dm2 d2 t2 dt2) (1 <<< s) := by
  unfold diagCombineProd
  rw [den_diag _ _ _ _ _ _ _ _ _ (by decide) hs, den_diag _ _ _ _ _ _ _ _ _ h1 hs, den_diag _ _ _ _ _ _ _ _ _ h2 hs,
    actualDiag_msem _ _ _ _ _ _ h1, actualDiag_msem _ _ _ _ _ _ h2]
  have : (msem isReal re blocks leaf).dmul (modeDiag d1 t1) (modeDiag d2 t2) = modeDiag d1 t1 * modeDiag d2 t2 := rfl
  rw [this, Nat.xor_zero, modeDiag_mul _ _ _ hs, modeDiag_modeDiag _ _ _ hs h1, modeDiag_modeDiag _ _ _ hs h2,
    Matrix.diagonal_mul_diagonal]
  rfl

theorem diagCombineProd_comm (dm dm2 : Nat) (d1 d2 : X → K) (t1 t2 dt1 dt2 s : Nat) (h1 : t1 < 4) (h2 : t2 < 4) (hs : s < 4) :
    den S (Op.diag dm d1 t1 dt1) (1 <<< s) * den S (Op.diag dm2 d2 t2 dt2) (1 <<< s) =
      den S (Op.diag dm2 d2 t2 dt2) (1 <<< s) * den S (Op.diag dm d1 t1 dt1) (1 <<< s) := by
  rw [den_diag _ _ _ _ _ _ _ _ _ h1 hs, den_diag _ _ _ _ _ _ _ _ _ h2 hs, Matrix.diagonal_mul_diagonal,
    Matrix.diagonal_mul_diagonal]
  congr 1; funext i; exact mul_comm _ _

/-- `_add(c)` (scaling absorbed into a diagonal of a sum): in the two modes a sum advertises -/
theorem diagAdd_sound (dm : Nat) (d : X → K) (t dt : Nat) (c : K) (s : Nat) (ht : t < 4) (hs : s < 2) :
    den S (diagAdd S (Op.diag dm d t dt) c) (1 <<< s) =
      den S (Op.diag dm d t dt) (1 <<< s) + modeScalar c s • (1 : Matrix X X K) := by
  have hs4 : s < 4 := by omega
  unfold diagAdd
  rw [den_diag _ _ _ _ _ _ _ _ _ (by decide) hs4, den_diag _ _ _ _ _ _ _ _ _ ht hs4, actualDiag_msem _ _ _ _ _ _ ht]
  have : (msem isReal re blocks leaf).dshift (modeDiag d t) c = modeDiag d t + fun _ => c := rfl
  rw [this, Nat.xor_zero, modeDiag_add _ _ _ hs, modeDiag_modeDiag _ _ _ hs4 ht, modeDiag_const _ _ hs4]
  ext i j
  by_cases hij : i = j <;> simp [Matrix.diagonal, hij]

/-- `_combine_sum`: two diagonals of a sum merge into the signed sum (result sign: plus) -/
theorem diagCombineSum_sound (dm dm2 : Nat) (d1 d2 : X → K) (t1 t2 dt1 dt2 : Nat) (n1 n2 : Bool) (s : Nat)
    (h1 : t1 < 4) (h2 : t2 < 4) (hs : s < 2) :
    den S (diagCombineSum S (Op.diag dm d1 t1 dt1) (Op.diag dm2 d2 t2 dt2) n1 n2) (1 <<< s) =
      (if n1 then - den S (Op.diag dm d1 t1 dt1) (1 <<< s) else den S (Op.diag dm d1 t1 dt1) (1 <<< s)) +
      (if n2 then - den S (Op.diag dm2 d2 t2 dt2) (1 <<< s) else den S (Op.diag dm2 d2 t2 dt2) (1 <<< s)) := by
  have hs4 : s < 4 := by omega
  unfold diagCombineSum
  rw [den_diag _ _ _ _ _ _ _ _ _ (by decide) hs4, den_diag _ _ _ _ _ _ _ _ _ h1 hs4, den_diag _ _ _ _ _ _ _ _ _ h2 hs4,
    actualDiag_msem _ _ _ _ _ _ h1, actualDiag_msem _ _ _ _ _ _ h2, Nat.xor_zero]
  cases n1 <;> cases n2 <;>
    simp only [Bool.false_eq_true, if_false, if_true] <;>
    (show Matrix.diagonal (modeDiag (_ + _) s) = _) <;>
    rw [modeDiag_add _ _ _ hs] <;>
    simp only [show ∀ a : X → K, (msem isReal re blocks leaf).dneg a = -a from fun _ => rfl, modeDiag_neg _ _ hs4,
      modeDiag_modeDiag _ _ _ hs4 h1, modeDiag_modeDiag _ _ _ hs4 h2, Matrix.diagonal_add, Matrix.diagonal_neg] <;>
    rfl

/-- `_flip_modes` of scaling, diagonal and adapter operators and the default wrapping into an OperatorAdapter:
    mode `s` of the flipped operator is mode `s xor t` of the original -/
theorem flip_scaling_sound (d : Nat) (c : K) (dt t s : Nat) (ht : t < 4) (hs : s < 4) :
    den S (OpAlgebra.flip S (Op.scaling d c dt) t) (1 <<< s) = den S (Op.scaling d c dt) (1 <<< (s ^^^ t)) := by
  unfold OpAlgebra.flip scalingFlipFactor
  rw [den_scaling _ _ _ _ _ _ _ _ hs, den_scaling _ _ _ _ _ _ _ _ (xor_lt4 s hs t ht), flipConj_eval t ht, flipInv_eval t ht,
    ← modeScalar_modeScalar c s t hs ht]
  congr 2
  interval_cases t <;> simp [modeScalar, msem]

theorem flip_diag_sound (dm : Nat) (d : X → K) (t0 dt t s : Nat) (ht0 : t0 < 4) (ht : t < 4) (hs : s < 4) :
    den S (OpAlgebra.flip S (Op.diag dm d t0 dt) t) (1 <<< s) = den S (Op.diag dm d t0 dt) (1 <<< (s ^^^ t)) := by
  unfold OpAlgebra.flip
  rw [diagFlip_eval t0 ht0 t ht, den_diag _ _ _ _ _ _ _ _ _ (xor_lt4 t0 ht0 t ht) hs,
    den_diag _ _ _ _ _ _ _ _ _ ht0 (xor_lt4 s hs t ht), xor_assoc4 s hs t0 ht0 t ht]

theorem flip_adapter_sound (o : Op K (X → K)) (t0 t s : Nat) (ht0 : t0 < 4) (ht : t < 4) (hs : s < 4) :
    den S (OpAlgebra.flip S (Op.adapter o t0) t) (1 <<< s) = den S (Op.adapter o t0) (1 <<< (s ^^^ t)) := by
  unfold OpAlgebra.flip
  rw [adapterFlip_eval t0 ht0 t ht, den_adapter _ _ _ _ _ _ _ ht0 (xor_lt4 s hs t ht)]
  by_cases h : t0 ^^^ t = 0
  · have : t0 = t := (xor_eq_zero4 t0 ht0 t ht).mp h
    subst this
    simp only [h, beq_self_eq_true, if_true, xor_self4 s hs t0 ht0]
  · have hb : ((t0 ^^^ t) == 0) = false := by simpa using h
    simp only [hb, Bool.false_eq_true, if_false]
    rw [den_adapter _ _ _ _ _ _ _ (xor_lt4 t0 ht0 t ht) hs]
    rw [xor_assoc4 s hs t0 ht0 t ht]

/-! ### Part 4 — ChainOperator.make / simplify preserve the action (whole pass, all four modes)

`mprod rev l` is the product of `l` in list order (`rev = false`) or reversed order; `revOf s` says which one mode `s` uses.
Hypotheses: the operands contain no block-diagonal operators (`okC`; their merging needs a block structure on `X`), nested
chains are non-empty, diagonal transformations are 0..3, and `re c = c` for scalings the code treats as real. -/

/-- `den (chain ops)` as a mode-ordered product -/
theorem den_chain_mprod (ops : List (Op K (X → K))) (s : Nat) (hs : s < 4) (hne : ops ≠ []) :
    den S (Op.chain ops) (1 <<< s) = mprod (revOf s) (ops.map (den S · (1 <<< s))) := by
  rw [den, chainOrder_eval s hs]
  have hne' : ops.map (den S · (1 <<< s)) ≠ [] := by simpa using hne
  unfold revOf mprod
  by_cases h : s &&& 1 = (s >>> 1) &&& 1
  · simp only [h, decide_true, Bool.not_true, Bool.false_eq_true, if_false]
    exact prodR_msem _ _ _ _ _ hne'
  · simp only [h, decide_false, Bool.not_false, if_true]
    exact prodR_msem _ _ _ _ _ (by simpa using hne)

/-- merging adjacent diagonal operators of a chain preserves the (mode-ordered) product -/
theorem chainMergeDiag_sound (l : List (Op K (X → K))) (s : Nat) (hs : s < 4) (hd : ∀ o ∈ l, okC o = true) :
    mprod (revOf s) ((chainMergeDiag S l).map (den S · (1 <<< s))) = mprod (revOf s) (l.map (den S · (1 <<< s))) ∧
    (∀ o ∈ chainMergeDiag S l, okC o = true) := by
  fun_induction chainMergeDiag S l with
  | case1 a b rest hab ih =>
    simp only [Bool.and_eq_true] at hab
    obtain ⟨dm1, d1, t1, dt1, rfl⟩ := isDiag_cases a hab.1
    obtain ⟨dm2, d2, t2, dt2, rfl⟩ := isDiag_cases b hab.2
    have h1 : t1 < 4 := by simpa [okC, diagOK, isBlock] using hd (Op.diag dm1 d1 t1 dt1) (by simp)
    have h2 : t2 < 4 := by simpa [okC, diagOK, isBlock] using hd (Op.diag dm2 d2 t2 dt2) (by simp)
    have hd' : ∀ o ∈ diagCombineProd S (Op.diag dm1 d1 t1 dt1) (Op.diag dm2 d2 t2 dt2) :: rest, okC o = true := by
      intro o ho
      simp only [List.mem_cons] at ho
      rcases ho with rfl | ho
      · simp [diagCombineProd, okC, diagOK, isBlock]
      · exact hd o (by simp [ho])
    obtain ⟨ih1, ih2⟩ := ih hd'
    refine ⟨?_, ih2⟩
    rw [ih1]
    simp only [List.map_cons]
    rw [mprod_cons, mprod_cons, mprod_cons, diagCombineProd_sound isReal re blocks leaf _ _ _ _ _ _ _ _ _ h1 h2 hs]
    cases revOf s
    · simp [Matrix.mul_assoc]
    · simp only [if_true]
      rw [diagCombineProd_comm isReal re blocks leaf _ _ _ _ _ _ _ _ _ h1 h2 hs, Matrix.mul_assoc]
  | case2 a b rest hab ih =>
    have hd' : ∀ o ∈ b :: rest, okC o = true := fun o ho => hd o (by simp [List.mem_cons] at ho ⊢; tauto)
    obtain ⟨ih1, ih2⟩ := ih hd'
    refine ⟨?_, ?_⟩
    · simp only [List.map_cons] at ih1 ⊢
      rw [mprod_cons, mprod_cons (a := den S a (1 <<< s)), ih1]
    · intro o ho
      simp only [List.mem_cons] at ho
      rcases ho with rfl | ho
      · exact hd _ (by simp)
      · exact ih2 o ho
  | case3 l hl => exact ⟨rfl, hd⟩

/-- collecting the real scalings of a chain: the product of the remaining operators times the collected factor -/
theorem chainCollect_sound (hre : ∀ c, isReal c = true → re c = c) (l : List (Op K (X → K))) (init : K) (s : Nat) (hs : s < 4) :
    modeScalar (l.foldl (chainCollectStep S) init) s •
        mprod (revOf s) ((l.filter (fun o => !isRealScaling S o)).map (den S · (1 <<< s))) =
      modeScalar init s • mprod (revOf s) (l.map (den S · (1 <<< s))) := by
  induction l generalizing init with
  | nil => simp
  | cons o os ih =>
    by_cases hrs : isRealScaling S o = true
    · obtain ⟨d, c, dt, rfl⟩ : ∃ d c dt, o = Op.scaling d c dt := by
        cases o <;> simp [isRealScaling] at hrs
        exact ⟨_, _, _, rfl⟩
      have hc : isReal c = true := by simpa [isRealScaling, msem] using hrs
      simp only [List.foldl_cons, List.filter_cons, hrs, Bool.not_true, Bool.false_eq_true, if_false, List.map_cons]
      have : chainCollectStep S init (Op.scaling d c dt) = init * c := by
        simp [chainCollectStep, msem, hc, hre c hc]
      rw [this, ih, den_scaling isReal re blocks leaf d c dt s hs, mprod_cons_smul, mprod_one_cons,
        modeScalar_mul _ _ _ hs, smul_smul]
    · have hrs' : isRealScaling S o = false := by simpa using hrs
      have hstep : chainCollectStep S init o = init := by
        cases o <;> simp [chainCollectStep]
        rename_i d c dt
        have : isReal c = false := by simpa [isRealScaling, msem] using hrs'
        simp [msem, this]
      simp only [List.foldl_cons, List.filter_cons, hrs', Bool.not_false, if_true, List.map_cons, hstep]
      rw [mprod_cons, mprod_cons]
      have ih' := ih init
      generalize revOf s = r at ih' ⊢
      cases r
      · simp only [Bool.false_eq_true, if_false]
        rw [← Matrix.mul_smul, ih', Matrix.mul_smul]
      · simp only [if_true]
        rw [← Matrix.smul_mul, ih', Matrix.smul_mul]

/-- the collected factor absorbed into the first diagonal operator -/
theorem chainAbsorb_sound (f : K) (l : List (Op K (X → K))) (s : Nat) (hs : s < 4) (hd : ∀ o ∈ l, okC o = true) :
    modeScalar (chainAbsorb S f l).2 s • mprod (revOf s) ((chainAbsorb S f l).1.map (den S · (1 <<< s))) =
      modeScalar f s • mprod (revOf s) (l.map (den S · (1 <<< s))) ∧ (∀ o ∈ (chainAbsorb S f l).1, okC o = true) := by
  induction l with
  | nil => simp [chainAbsorb]
  | cons o os ih =>
    by_cases hdg : isDiag o = true
    · obtain ⟨dm, d, t, dt, rfl⟩ := isDiag_cases o hdg
      have ht : t < 4 := by simpa [okC, diagOK, isBlock] using hd (Op.diag dm d t dt) (by simp)
      simp only [chainAbsorb, hdg, if_true, List.map_cons]
      refine ⟨?_, ?_⟩
      · rw [diagScale_sound isReal re blocks leaf dm d t dt f s ht hs, mprod_cons_smul]
        have : (msem isReal re blocks leaf).kone = (1 : K) := rfl
        rw [this, modeScalar_one s hs, one_smul]
      · intro o ho
        simp only [List.mem_cons] at ho
        rcases ho with rfl | ho
        · simp [diagScale, okC, diagOK, isBlock]
        · exact hd o (by simp [ho])
    · have hdg' : isDiag o = false := by simpa using hdg
      have hd' : ∀ o ∈ os, okC o = true := fun x hx => hd x (by simp [hx])
      obtain ⟨ih1, ih2⟩ := ih hd'
      simp only [chainAbsorb, hdg', Bool.false_eq_true, if_false, List.map_cons]
      refine ⟨?_, ?_⟩
      · rw [mprod_cons, mprod_cons]
        generalize revOf s = r at ih1 ⊢
        cases r
        · simp only [Bool.false_eq_true, if_false]
          rw [← Matrix.mul_smul, ih1, Matrix.mul_smul]
        · simp only [if_true]
          rw [← Matrix.smul_mul, ih1, Matrix.smul_mul]
      · intro x hx
        simp only [List.mem_cons] at hx
        rcases hx with rfl | hx
        · exact hd _ (by simp)
        · exact ih2 x hx

/-- un-nesting chains keeps the mode-ordered product (nested chains are non-empty) -/
theorem chainFlatten_sound (ops : List (Op K (X → K))) (s : Nat) (hs : s < 4)
    (hne : ∀ o ∈ ops, ∀ l, o = Op.chain l → l ≠ []) :
    mprod (revOf s) ((chainFlatten ops).map (den S · (1 <<< s))) =
      mprod (revOf s) (ops.map (den S · (1 <<< s))) := by
  unfold chainFlatten
  induction ops with
  | nil => rfl
  | cons o os ih =>
    have ih' := ih (fun x hx => hne x (by simp [hx]))
    simp only [List.flatMap_cons, List.map_append, List.map_cons]
    rw [mprod_append, mprod_cons, ih']
    cases o with
    | chain l =>
      dsimp only
      rw [den_chain_mprod isReal re blocks leaf l s hs (hne _ (by simp) l rfl)]
    | _ => simp [mprod_singleton]

/-- the leftover factor appended as a ScalingOperator (or nothing when it is 1 and the chain is non-empty) -/
theorem chainAppend_sound (l : List (Op K (X → K))) (f : K) (dom : Nat) (s : Nat) (hs : s < 4) :
    mprod (revOf s) ((if (!(msem isReal re blocks leaf).keq f (msem isReal re blocks leaf).kone || l.isEmpty) then
        l ++ [Op.scaling dom f 0] else l).map (den S · (1 <<< s))) =
      modeScalar f s • mprod (revOf s) (l.map (den S · (1 <<< s))) := by
  have hk : (msem isReal re blocks leaf).keq f (msem isReal re blocks leaf).kone = decide (f = 1) := rfl
  rw [hk]
  by_cases hc : (!decide (f = 1) || l.isEmpty) = true
  · simp only [hc, if_true, List.map_append, List.map_cons, List.map_nil]
    rw [mprod_append, mprod_singleton, den_scaling isReal re blocks leaf dom f 0 s hs]
    cases revOf s <;> simp
  · have hc' : (!decide (f = 1) || l.isEmpty) = false := by simpa using hc
    simp only [hc', Bool.false_eq_true, if_false]
    have hf : f = 1 := by
      simp only [Bool.or_eq_false_iff, Bool.not_eq_false', decide_eq_true_eq] at hc'
      exact hc'.1
    rw [hf, modeScalar_one s hs, one_smul]

theorem chainMergeDiag_sound' (mk : List (Op K (X → K)) → Op K (X → K)) (l : List (Op K (X → K))) (s : Nat) (hs : s < 4)
    (hd : ∀ o ∈ l, okC o = true) :
    mprod (revOf s) ((chainMergeBlock S mk (chainMergeDiag S l)).map (den S · (1 <<< s))) =
      mprod (revOf s) (l.map (den S · (1 <<< s))) ∧ (l ≠ [] → chainMergeBlock S mk (chainMergeDiag S l) ≠ []) := by
  obtain ⟨h1, h2⟩ := chainMergeDiag_sound isReal re blocks leaf l s hs hd
  have hnb := chainMergeBlock_noblock isReal re blocks leaf mk _ (fun o ho => by
    have := h2 o ho
    simp only [okC, Bool.and_eq_true, Bool.not_eq_true'] at this
    exact this.2)
  rw [hnb]
  exact ⟨h1, chainMergeDiag_ne isReal re blocks leaf l⟩

/-- collapsing a chain that contains a NullOperator keeps the product (both are zero) -/
theorem chainNullCollapse_sound (ops1 : List (Op K (X → K))) (s : Nat) (hs : s < 4) (hok : ∀ o ∈ ops1, okC o = true) :
    mprod (revOf s) ((chainNullCollapse ops1).map (den S · (1 <<< s))) = mprod (revOf s) (ops1.map (den S · (1 <<< s))) ∧
    (∀ o ∈ chainNullCollapse ops1, okC o = true) := by
  unfold chainNullCollapse
  by_cases hnull : ops1.any isNull = true
  · simp only [hnull, if_true]
    obtain ⟨o, ho, hon⟩ := List.any_eq_true.mp hnull
    have hz : (0 : Matrix X X K) ∈ ops1.map (den S · (1 <<< s)) := by
      refine List.mem_map.mpr ⟨o, ho, ?_⟩
      cases o <;> simp [isNull] at hon
      exact den_null isReal re blocks leaf _ _ _
    refine ⟨?_, ?_⟩
    · rw [mprod_zero_mem _ _ hz]
      apply mprod_zero_mem
      simp [den_null]
    · intro o ho
      simp only [List.mem_singleton] at ho
      subst ho
      simp [okC, diagOK, isBlock]
  · have hnull' : ops1.any isNull = false := by simpa using hnull
    simp only [hnull', Bool.false_eq_true, if_false]
    constructor
    · first | rfl | trivial
    · exact hok

/-- collect / absorb / merge: the mode-ordered product is preserved -/
theorem chainPost_sound (hre : ∀ c, isReal c = true → re c = c) (mk : List (Op K (X → K)) → Op K (X → K))
    (ops1 : List (Op K (X → K))) (s : Nat) (hs : s < 4) (hok : ∀ o ∈ ops1, okC o = true) :
    mprod (revOf s) ((chainPost S mk ops1).map (den S · (1 <<< s))) = mprod (revOf s) (ops1.map (den S · (1 <<< s))) ∧
    chainPost S mk ops1 ≠ [] := by
  simp only [chainPost]
  have hcol := chainCollect_sound isReal re blocks leaf hre ops1 (msem isReal re blocks leaf).kone s hs
  have hone : modeScalar (msem isReal re blocks leaf).kone s = 1 := modeScalar_one s hs
  rw [hone, one_smul] at hcol
  rw [← hcol]
  generalize ops1.foldl (chainCollectStep S) (msem isReal re blocks leaf).kone = fct
  have hfilt : ∀ o ∈ ops1.filter (fun o => !isRealScaling S o), okC o = true :=
    fun o ho => hok o (List.mem_of_mem_filter ho)
  generalize ops1.filter (fun o => !isRealScaling S o) = opsnew at hfilt ⊢
  have hk : ∀ f : K, (msem isReal re blocks leaf).keq f (msem isReal re blocks leaf).kone = decide (f = 1) := fun _ => rfl
  by_cases hf : fct = 1
  · subst hf
    simp only [hk, decide_true, Bool.not_true, Bool.false_eq_true, if_false]
    have happ := chainAppend_sound isReal re blocks leaf opsnew (1 : K) (lastDom ops1) s hs
    simp only [hk, decide_true, Bool.not_true] at happ
    have hm := chainMergeDiag_sound' isReal re blocks leaf mk
      (if (!decide ((1 : K) = 1) || opsnew.isEmpty) = true then opsnew ++ [Op.scaling (lastDom ops1) 1 0] else opsnew) s hs ?_
    · simp only [decide_true, Bool.not_true] at hm
      exact ⟨hm.1.trans happ, hm.2 (appendScaling_ne _ _ _)⟩
    intro o ho
    split at ho
    · simp only [List.mem_append, List.mem_singleton] at ho
      rcases ho with ho | rfl
      · exact hfilt o ho
      · simp [okC, diagOK, isBlock]
    · exact hfilt o ho
  · have hdf : decide (fct = 1) = false := by simpa using hf
    simp only [hk, hdf, Bool.not_false, if_true]
    obtain ⟨ha1, ha2⟩ := chainAbsorb_sound isReal re blocks leaf fct opsnew s hs hfilt
    have happ := chainAppend_sound isReal re blocks leaf (chainAbsorb S fct opsnew).1 (chainAbsorb S fct opsnew).2
      (lastDom ops1) s hs
    simp only [hk] at happ
    have hm := chainMergeDiag_sound' isReal re blocks leaf mk
      (if (!decide ((chainAbsorb S fct opsnew).2 = 1) || (chainAbsorb S fct opsnew).1.isEmpty) = true then
        (chainAbsorb S fct opsnew).1 ++ [Op.scaling (lastDom ops1) (chainAbsorb S fct opsnew).2 0]
      else (chainAbsorb S fct opsnew).1) s hs ?_
    · exact ⟨hm.1.trans (happ.trans ha1), hm.2 (appendScaling_ne _ _ _)⟩
    intro o ho
    split at ho
    · simp only [List.mem_append, List.mem_singleton] at ho
      rcases ho with ho | rfl
      · exact ha2 o ho
      · simp [okC, diagOK, isBlock]
    · exact ha2 o ho

/-- **ChainOperator.simplify preserves the action** (lists without block-diagonal operators): the mode-ordered product of the
    simplified list equals that of the original list, in all four modes -/
theorem chainSimplifyCore_sound (hre : ∀ c, isReal c = true → re c = c) (mk : List (Op K (X → K)) → Op K (X → K))
    (ops : List (Op K (X → K))) (s : Nat) (hs : s < 4)
    (hne : ∀ o ∈ ops, ∀ l, o = Op.chain l → l ≠ [])
    (hok : ∀ o ∈ chainFlatten ops, okC o = true) :
    mprod (revOf s) ((chainSimplifyCore S mk ops).map (den S · (1 <<< s))) = mprod (revOf s) (ops.map (den S · (1 <<< s))) ∧
    chainSimplifyCore S mk ops ≠ [] := by
  unfold chainSimplifyCore
  obtain ⟨hn1, hn2⟩ := chainNullCollapse_sound isReal re blocks leaf (chainFlatten ops) s hs hok
  obtain ⟨hp1, hp2⟩ := chainPost_sound isReal re blocks leaf hre mk _ s hs hn2
  exact ⟨by rw [hp1, hn1, chainFlatten_sound isReal re blocks leaf ops s hs hne], hp2⟩

theorem isIdentity_den (o : Op K (X → K)) (h : isIdentity S o = true) (m : Nat) : den S o m = 1 := by
  cases o <;> simp [isIdentity] at h
  rename_i d c dt
  have hc : c = 1 := by simpa [msem] using h
  subst hc
  simp [den, msem]

/-- **ChainOperator.make preserves the action**: for a non-empty list of operators (no block-diagonals, nested chains non-empty),
    every mode of `ChainOperator.make(ops)` is the product of the operands' actions, in list order for TIMES and
    ADJOINT_INVERSE_TIMES and in reversed order for ADJOINT_TIMES and INVERSE_TIMES -/
theorem mkChainU_sound (hre : ∀ c, isReal c = true → re c = c) (fuel : Nat) (ops : List (Op K (X → K))) (s : Nat) (hs : s < 4)
    (hne0 : ops ≠ []) (hne : ∀ o ∈ ops, ∀ l, o = Op.chain l → l ≠ [])
    (hok : ∀ o ∈ chainFlatten ops, okC o = true) :
    den S (mkChainU S (fuel + 1) ops) (1 <<< s) = mprod (revOf s) (ops.map (den S · (1 <<< s))) := by
  have hL : mprod (revOf s) ((chainSimplify S (mkChainU S fuel) ops).map (den S · (1 <<< s))) =
      mprod (revOf s) (ops.map (den S · (1 <<< s))) ∧ chainSimplify S (mkChainU S fuel) ops ≠ [] := by
    unfold chainSimplify
    split
    · exact ⟨rfl, by simp⟩
    · rename_i a b
      split
      · rename_i ha
        refine ⟨?_, by simp⟩
        simp only [List.map_cons, List.map_nil, mprod_cons, mprod_nil, isIdentity_den isReal re blocks leaf a ha]
        cases revOf s <;> simp
      · split
        · rename_i hb
          refine ⟨?_, by simp⟩
          simp only [List.map_cons, List.map_nil, mprod_cons, mprod_nil, isIdentity_den isReal re blocks leaf b hb]
          cases revOf s <;> simp
        · exact chainSimplifyCore_sound isReal re blocks leaf hre _ _ s hs hne hok
    · exact chainSimplifyCore_sound isReal re blocks leaf hre _ _ s hs hne hok
  obtain ⟨hL1, hL2⟩ := hL
  rw [mkChainU]
  rw [← hL1]
  split
  · rename_i o heq
    rw [heq]; simp [mprod_singleton]
  · rename_i l hl
    exact den_chain_mprod isReal re blocks leaf _ s hs hL2

/-! ### Part 5 — SumOperator.simplify: the sign bookkeeping of its rewriting passes (TIMES and ADJOINT_TIMES)

`ssum l s` is the signed sum of the actions of a list of (operator, negated?) pairs.  Proved: absorbing the summed scalings into
the first diagonal with matching sampling dtype (with its sign), and the diagonal merge (inner and outer loop), preserve it.
Then the whole pass (operands without block-diagonal operators): one (domain, target) group, the grouping (a partition), un-nesting
with sign flips, and `SumOperator.make` including the final `-op`. -/

/-- signed sum of the actions of a list of (operator, negated?) pairs in mode `s` -/
noncomputable def ssum (l : List (Op K (X → K) × Bool)) (s : Nat) : Matrix X X K :=
  signedSum (l.map fun p => (den S p.1 (1 <<< s), p.2))

theorem ssum_nil (s : Nat) : ssum isReal re blocks leaf [] s = 0 := by simp [ssum, signedSum]
theorem ssum_cons (o : Op K (X → K)) (n : Bool) (l : List (Op K (X → K) × Bool)) (s : Nat) :
    ssum isReal re blocks leaf ((o, n) :: l) s =
      (if n then - den S o (1 <<< s) else den S o (1 <<< s)) + ssum isReal re blocks leaf l s := by
  simp [ssum, signedSum]

theorem modeScalar_neg2 (c : K) (s : Nat) (hs : s < 2) : modeScalar (-c) s = - modeScalar c s := by
  interval_cases s <;> simp [modeScalar]
theorem modeScalar_zero2 (s : Nat) (hs : s < 2) : modeScalar (0 : K) s = 0 := by
  interval_cases s <;> simp [modeScalar]
theorem modeScalar_add2 (a b : K) (s : Nat) (hs : s < 2) : modeScalar (a + b) s = modeScalar a s + modeScalar b s := by
  interval_cases s <;> simp [modeScalar]

/-- the summed scalings absorbed into the first diagonal operator with the same sampling dtype, **with its sign** -/
theorem sumAbsorb_sound (c : K) (dt : Nat) (l : List (Op K (X → K) × Bool)) (s : Nat) (hs : s < 2)
    (hd : ∀ p ∈ l, okC p.1 = true) :
    ssum isReal re blocks leaf (sumAbsorb S c dt l).1 s + modeScalar (sumAbsorb S c dt l).2 s • (1 : Matrix X X K) =
      ssum isReal re blocks leaf l s + modeScalar c s • (1 : Matrix X X K) ∧
    (∀ p ∈ (sumAbsorb S c dt l).1, okC p.1 = true) := by
  induction l with
  | nil => simp [sumAbsorb]
  | cons p ps ih =>
    obtain ⟨o, n⟩ := p
    have hd' : ∀ p ∈ ps, okC p.1 = true := fun x hx => hd x (by simp [hx])
    by_cases hc : (isDiag o && dtOf o == dt) = true
    · simp only [sumAbsorb, hc, if_true]
      simp only [Bool.and_eq_true] at hc
      obtain ⟨dm, d, t, dt', rfl⟩ := isDiag_cases o hc.1
      have ht : t < 4 := by simpa [okC, diagOK, isBlock] using hd (Op.diag dm d t dt', n) (by simp)
      have hz : (msem isReal re blocks leaf).kzero = (0 : K) := rfl
      refine ⟨?_, ?_⟩
      · rw [ssum_cons, ssum_cons, hz, modeScalar_zero2 s hs, zero_smul, add_zero,
          diagAdd_sound isReal re blocks leaf dm d t dt' _ s ht hs]
        cases n
        · simp only [Bool.false_eq_true, if_false]; abel
        · simp only [if_true]
          have : (msem isReal re blocks leaf).kneg c = -c := rfl
          rw [this, modeScalar_neg2 c s hs]
          simp only [neg_smul, neg_add, neg_neg]; abel
      · intro p hp
        simp only [List.mem_cons] at hp
        rcases hp with rfl | hp
        · simp [diagAdd, okC, diagOK, isBlock]
        · exact hd' p hp
    · have hc' : (isDiag o && dtOf o == dt) = false := by simpa using hc
      obtain ⟨ih1, ih2⟩ := ih hd'
      simp only [sumAbsorb, hc', Bool.false_eq_true, if_false]
      refine ⟨?_, ?_⟩
      · rw [ssum_cons, ssum_cons, add_assoc, ih1, add_assoc]
      · intro p hp
        simp only [List.mem_cons] at hp
        rcases hp with rfl | hp
        · exact hd (o, n) (by simp)
        · exact ih2 p hp


theorem diagCombineSum_isDiag (a b : Op K (X → K)) (na nb : Bool) (ha : isDiag a = true) (hb : isDiag b = true) :
    isDiag (diagCombineSum S a b na nb) = true ∧ okC (diagCombineSum S a b na nb) = true := by
  obtain ⟨dm, d, t, dt, rfl⟩ := isDiag_cases a ha
  obtain ⟨dm2, d2, t2, dt2, rfl⟩ := isDiag_cases b hb
  simp [diagCombineSum, isDiag, okC, diagOK, isBlock]

/-- inner loop of the diagonal merge of SumOperator.simplify: later diagonals with the same sampling dtype are merged into the
    accumulator with their signs; the accumulator's own sign becomes "+" after the first merge -/
theorem sumAbsorbDiags_sound (dt0 : Nat) (acc : Op K (X → K)) (accneg : Bool) (l : List (Op K (X → K) × Bool)) (s : Nat)
    (hs : s < 2) (hacc : isDiag acc = true) (hokacc : okC acc = true) (hd : ∀ p ∈ l, okC p.1 = true) :
    (if (sumAbsorbDiags S dt0 acc accneg l).2.1 then - den S (sumAbsorbDiags S dt0 acc accneg l).1 (1 <<< s)
      else den S (sumAbsorbDiags S dt0 acc accneg l).1 (1 <<< s)) +
        ssum isReal re blocks leaf (sumAbsorbDiags S dt0 acc accneg l).2.2 s =
      (if accneg then - den S acc (1 <<< s) else den S acc (1 <<< s)) + ssum isReal re blocks leaf l s ∧
    okC (sumAbsorbDiags S dt0 acc accneg l).1 = true ∧
    (∀ p ∈ (sumAbsorbDiags S dt0 acc accneg l).2.2, okC p.1 = true) := by
  induction l generalizing acc accneg with
  | nil =>
    refine ⟨?_, hokacc, by simp [sumAbsorbDiags]⟩
    cases accneg <;> simp [sumAbsorbDiags, ssum_nil]
  | cons p ps ih =>
    obtain ⟨o, n⟩ := p
    have hd' : ∀ p ∈ ps, okC p.1 = true := fun x hx => hd x (by simp [hx])
    by_cases hc : (isDiag o && dtOf o == dt0) = true
    · simp only [sumAbsorbDiags, hc, if_true]
      simp only [Bool.and_eq_true] at hc
      obtain ⟨h1, h2⟩ := diagCombineSum_isDiag isReal re blocks leaf acc o accneg n hacc hc.1
      obtain ⟨ih1, ih2, ih3⟩ := ih (diagCombineSum S acc o accneg n) false h1 h2 hd'
      refine ⟨?_, ih2, ih3⟩
      rw [ih1, ssum_cons]
      obtain ⟨dm, d, t, dt, rfl⟩ := isDiag_cases acc hacc
      obtain ⟨dm2, d2, t2, dt2, rfl⟩ := isDiag_cases o hc.1
      have ht : t < 4 := by simpa [okC, diagOK, isBlock] using hokacc
      have ht2 : t2 < 4 := by simpa [okC, diagOK, isBlock] using hd (Op.diag dm2 d2 t2 dt2, n) (by simp)
      simp only [Bool.false_eq_true, if_false]
      rw [diagCombineSum_sound isReal re blocks leaf dm dm2 d d2 t t2 dt dt2 accneg n s ht ht2 hs, add_assoc]
    · have hc' : (isDiag o && dtOf o == dt0) = false := by simpa using hc
      obtain ⟨ih1, ih2, ih3⟩ := ih acc accneg hacc hokacc hd'
      simp only [sumAbsorbDiags, hc', Bool.false_eq_true, if_false]
      refine ⟨?_, ih2, ?_⟩
      · rw [ssum_cons, ssum_cons, ← add_assoc, add_comm _ (if n = true then _ else _), add_assoc, ih1]
        abel
      · intro p hp
        simp only [List.mem_cons] at hp
        rcases hp with rfl | hp
        · exact hd (o, n) (by simp)
        · exact ih3 p hp

/-- **diagonal merge of SumOperator.simplify preserves the signed sum** (TIMES and ADJOINT_TIMES) -/
theorem sumMergeDiags_sound (l : List (Op K (X → K) × Bool)) (s : Nat) (hs : s < 2) (hd : ∀ p ∈ l, okC p.1 = true) :
    ssum isReal re blocks leaf (sumMergeDiags S l) s = ssum isReal re blocks leaf l s ∧
    (∀ p ∈ sumMergeDiags S l, okC p.1 = true) := by
  fun_induction sumMergeDiags S l with
  | case1 => exact ⟨rfl, hd⟩
  | case2 o n rest ho r ih =>
    have hd' : ∀ p ∈ rest, okC p.1 = true := fun x hx => hd x (by simp [hx])
    obtain ⟨h1, h2, h3⟩ := sumAbsorbDiags_sound isReal re blocks leaf (dtOf o) o n rest s hs ho (hd (o, n) (by simp)) hd'
    obtain ⟨ih1, ih2⟩ := ih h3
    refine ⟨?_, ?_⟩
    · rw [ssum_cons, ih1, h1, ssum_cons]
    · intro p hp
      simp only [List.mem_cons] at hp
      rcases hp with rfl | hp
      · exact h2
      · exact ih2 p hp
  | case3 o n rest ho ih =>
    have hd' : ∀ p ∈ rest, okC p.1 = true := fun x hx => hd x (by simp [hx])
    obtain ⟨ih1, ih2⟩ := ih hd'
    refine ⟨?_, ?_⟩
    · rw [ssum_cons, ssum_cons, ih1]
    · intro p hp
      simp only [List.mem_cons] at hp
      rcases hp with rfl | hp
      · exact hd (o, n) (by simp)
      · exact ih2 p hp


/-! #### the whole pass: one group, grouping, un-nesting, `SumOperator.make` -/

theorem sumMergeBlocks_noblock (fuel : Nat) (mk : List (Op K (X → K)) → List Bool → Op K (X → K))
    (l : List (Op K (X → K) × Bool)) (h : ∀ p ∈ l, isBlock p.1 = false) : sumMergeBlocks S fuel mk l = l := by
  fun_induction sumMergeBlocks S fuel mk l with
  | case1 => rfl
  | case2 o n rest ho r ih =>
    have := h (o, n) (by simp)
    simp [ho] at this
  | case3 o n rest ho ih =>
    rw [ih (fun p hp => h p (by simp [hp]))]

theorem ssum_append (l1 l2 : List (Op K (X → K) × Bool)) (s : Nat) :
    ssum isReal re blocks leaf (l1 ++ l2) s = ssum isReal re blocks leaf l1 s + ssum isReal re blocks leaf l2 s := by
  simp [ssum, signedSum, List.map_append, List.sum_append]

/-- the scalings of a group are summed with their signs; the other operators stay -/
theorem sumScalings_split (l : List (Op K (X → K) × Bool)) (init : K) (s : Nat) (hs : s < 2) :
    ssum isReal re blocks leaf l s + modeScalar init s • (1 : Matrix X X K) =
      ssum isReal re blocks leaf (l.filter fun x => !isScaling x.1) s +
        modeScalar ((l.filter fun x => isScaling x.1).foldl (sumScalStep S) init) s • (1 : Matrix X X K) := by
  induction l generalizing init with
  | nil => simp
  | cons p ps ih =>
    obtain ⟨o, n⟩ := p
    by_cases hsc : isScaling o = true
    · obtain ⟨d, c, dt, rfl⟩ : ∃ d c dt, o = Op.scaling d c dt := by
        cases o <;> simp [isScaling] at hsc
        exact ⟨_, _, _, rfl⟩
      simp only [List.filter_cons, hsc, Bool.not_true, Bool.false_eq_true, if_false, if_true, List.foldl_cons]
      have hstep : sumScalStep S init (Op.scaling d c dt, n) = init + (if n then -c else c) := by
        simp only [sumScalStep, msem]
      rw [hstep, ← ih, ssum_cons, den_scaling isReal re blocks leaf d c dt s (by omega), modeScalar_add2 _ _ s hs]
      cases n
      · simp only [Bool.false_eq_true, if_false, add_smul]; abel
      · simp only [if_true, modeScalar_neg2 c s hs, add_smul, neg_smul]; abel
    · have hsc' : isScaling o = false := by simpa using hsc
      simp only [List.filter_cons, hsc', Bool.not_false, Bool.false_eq_true, if_false, if_true]
      rw [ssum_cons, ssum_cons, add_assoc, ih init, add_assoc]

/-- **one (domain, target) group of SumOperator.simplify preserves the signed sum** (no block-diagonal operators) -/
theorem sumProcessGroup_sound (fuel : Nat) (mk : List (Op K (X → K)) → List Bool → Op K (X → K))
    (opset : List (Op K (X → K) × Bool)) (s : Nat) (hs : s < 2) (hd : ∀ p ∈ opset, okC p.1 = true) :
    ssum isReal re blocks leaf (sumProcessGroup S fuel mk opset) s = ssum isReal re blocks leaf opset s := by
  have hs4 : s < 4 := by omega
  simp only [sumProcessGroup]
  have hsplit := sumScalings_split isReal re blocks leaf opset (msem isReal re blocks leaf).kzero s hs
  have hz : modeScalar (msem isReal re blocks leaf).kzero s = 0 := modeScalar_zero2 s hs
  rw [hz, zero_smul, add_zero] at hsplit
  rw [hsplit]
  generalize (opset.filter fun x => isScaling x.1).foldl (sumScalStep S) (msem isReal re blocks leaf).kzero = sc
  generalize commonDtype ((opset.filter fun x => isScaling x.1).map (fun x => dtOf x.1)) = dtype
  have hfilt : ∀ p ∈ opset.filter (fun x => !isScaling x.1), okC p.1 = true := fun p hp => hd p (List.mem_of_mem_filter hp)
  generalize opset.filter (fun x => !isScaling x.1) = others at hfilt ⊢
  have hk : ∀ f : K, (msem isReal re blocks leaf).keq f (msem isReal re blocks leaf).kzero = decide (f = 0) := fun _ => rfl
  -- the list before the merges and its signed sum
  have key : ∀ (l : List (Op K (X → K) × Bool)) (f : K), (∀ p ∈ l, okC p.1 = true) →
      ssum isReal re blocks leaf (sumMergeBlocks S fuel mk (sumMergeDiags S
        (if (!decide (f = 0) || l.isEmpty) = true then l ++ [(Op.scaling (firstDom opset) f dtype, false)] else l))) s =
      ssum isReal re blocks leaf l s + modeScalar f s • (1 : Matrix X X K) := by
    intro l f hl
    have hok3 : ∀ p ∈ (if (!decide (f = 0) || l.isEmpty) = true then l ++ [(Op.scaling (firstDom opset) f dtype, false)] else l),
        okC p.1 = true := by
      intro p hp
      split at hp
      · simp only [List.mem_append, List.mem_singleton] at hp
        rcases hp with hp | rfl
        · exact hl p hp
        · simp [okC, diagOK, isBlock]
      · exact hl p hp
    obtain ⟨hm1, hm2⟩ := sumMergeDiags_sound isReal re blocks leaf _ s hs hok3
    rw [sumMergeBlocks_noblock isReal re blocks leaf fuel mk _ (fun p hp => by
      have := hm2 p hp
      simp only [okC, Bool.and_eq_true, Bool.not_eq_true'] at this
      exact this.2), hm1]
    by_cases hc : (!decide (f = 0) || l.isEmpty) = true
    · simp only [hc, if_true]
      rw [ssum_append, ssum_cons, ssum_nil, den_scaling isReal re blocks leaf _ f dtype s hs4]
      simp
    · have hc' : (!decide (f = 0) || l.isEmpty) = false := by simpa using hc
      simp only [hc', Bool.false_eq_true, if_false]
      have hf : f = 0 := by
        simp only [Bool.or_eq_false_iff, Bool.not_eq_false', decide_eq_true_eq] at hc'
        exact hc'.1
      rw [hf, modeScalar_zero2 s hs, zero_smul, add_zero]
  by_cases hf : sc = 0
  · subst hf
    simp only [hk, decide_true, Bool.not_true, Bool.false_eq_true, if_false]
    have := key others 0 hfilt
    simp only [decide_true, Bool.not_true] at this
    exact this
  · have hdf : decide (sc = 0) = false := by simpa using hf
    simp only [hk, hdf, Bool.not_false, if_true]
    obtain ⟨ha1, ha2⟩ := sumAbsorb_sound isReal re blocks leaf sc dtype others s hs hfilt
    rw [key _ _ ha2, ha1]

/-- the grouping keys: no duplicates, and every element's key occurs -/
theorem groupKeys_spec (l : List (Op K (X → K) × Bool)) :
    (groupKeys l).Nodup ∧ ∀ x ∈ l, domTgt x.1 ∈ groupKeys l := by
  unfold groupKeys
  have key : ∀ (l : List (Op K (X → K) × Bool)) (ks : List (Nat × Nat)), ks.Nodup →
      (l.foldl (fun ks x => if ks.contains (domTgt x.1) then ks else ks ++ [domTgt x.1]) ks).Nodup ∧
      (∀ k ∈ ks, k ∈ l.foldl (fun ks x => if ks.contains (domTgt x.1) then ks else ks ++ [domTgt x.1]) ks) ∧
      (∀ x ∈ l, domTgt x.1 ∈ l.foldl (fun ks x => if ks.contains (domTgt x.1) then ks else ks ++ [domTgt x.1]) ks) := by
    intro l
    induction l with
    | nil => intro ks h; exact ⟨h, fun k hk => hk, by simp⟩
    | cons x xs ih =>
      intro ks h
      simp only [List.foldl_cons]
      by_cases hc : ks.contains (domTgt x.1) = true
      · simp only [hc, if_true]
        obtain ⟨h1, h2, h3⟩ := ih ks h
        refine ⟨h1, h2, ?_⟩
        intro y hy
        simp only [List.mem_cons] at hy
        rcases hy with rfl | hy
        · exact h2 _ (by simpa using hc)
        · exact h3 y hy
      · have hc' : ks.contains (domTgt x.1) = false := by simpa using hc
        simp only [hc', Bool.false_eq_true, if_false]
        have hnd : (ks ++ [domTgt x.1]).Nodup := by
          rw [List.nodup_append]
          refine ⟨h, by simp, ?_⟩
          intro a ha b hb
          simp only [List.mem_singleton] at hb
          subst hb
          intro hab; subst hab
          simp at hc'
          exact hc' ha
        obtain ⟨h1, h2, h3⟩ := ih _ hnd
        refine ⟨h1, fun k hk => h2 k (by simp [hk]), ?_⟩
        intro y hy
        simp only [List.mem_cons] at hy
        rcases hy with rfl | hy
        · exact h2 _ (by simp)
        · exact h3 y hy
  obtain ⟨h1, _, h3⟩ := key l [] List.nodup_nil
  exact ⟨h1, h3⟩

theorem sum_indicator {α : Type} [DecidableEq α] (keys : List α) (hn : keys.Nodup) (a : α) (ha : a ∈ keys)
    (t : Matrix X X K) : (keys.map fun k => if a = k then t else 0).sum = t := by
  induction keys with
  | nil => simp at ha
  | cons k ks ih =>
    simp only [List.nodup_cons] at hn
    simp only [List.map_cons, List.sum_cons]
    by_cases hak : a = k
    · subst hak
      have : (ks.map fun k => if a = k then t else 0).sum = 0 := by
        apply List.sum_eq_zero
        intro x hx
        simp only [List.mem_map] at hx
        obtain ⟨k', hk', rfl⟩ := hx
        have : a ≠ k' := fun h => hn.1 (h ▸ hk')
        simp [this]
      rw [this]; simp
    · have hmem : a ∈ ks := by
        simp only [List.mem_cons] at ha
        rcases ha with h | h
        · exact absurd h hak
        · exact h
      rw [ih hn.2 hmem]; simp [hak]

/-- grouping by (domain, target) is a partition: the group sums add up to the total -/
theorem ssum_groups (l : List (Op K (X → K) × Bool)) (keys : List (Nat × Nat)) (hn : keys.Nodup)
    (hc : ∀ x ∈ l, domTgt x.1 ∈ keys) (s : Nat) :
    (keys.map fun k => ssum isReal re blocks leaf (l.filter fun x => domTgt x.1 == k) s).sum = ssum isReal re blocks leaf l s := by
  induction l with
  | nil => simp [ssum_nil]
  | cons x xs ih =>
    obtain ⟨o, n⟩ := x
    have hc' : ∀ x ∈ xs, domTgt x.1 ∈ keys := fun y hy => hc y (by simp [hy])
    have hx : domTgt o ∈ keys := hc (o, n) (by simp)
    rw [ssum_cons, ← ih hc', ← sum_indicator keys hn (domTgt o) hx
      (if n then - den S o (1 <<< s) else den S o (1 <<< s)), ← List.sum_map_add]
    congr 1
    apply List.map_congr_left
    intro k _
    by_cases hk : domTgt o = k
    · subst hk
      simp [List.filter_cons, ssum_cons]
    · have hk' : (domTgt o == k) = false := by simpa using hk
      simp only [List.filter_cons, hk', hk, Bool.false_eq_true, if_false, zero_add]

theorem ssum_flatMap {α : Type} (keys : List α) (g : α → List (Op K (X → K) × Bool)) (s : Nat) :
    ssum isReal re blocks leaf (keys.flatMap g) s = (keys.map fun k => ssum isReal re blocks leaf (g k) s).sum := by
  induction keys with
  | nil => simp [ssum_nil]
  | cons k ks ih => simp only [List.flatMap_cons, List.map_cons, List.sum_cons, ← ih]; exact ssum_append isReal re blocks leaf _ _ s


theorem ssum_zip_not (l : List (Op K (X → K))) (ns : List Bool) (s : Nat) :
    ssum isReal re blocks leaf (l.zip (ns.map (!·))) s = - ssum isReal re blocks leaf (l.zip ns) s := by
  induction l generalizing ns with
  | nil => simp [ssum_nil]
  | cons o os ih =>
    cases ns with
    | nil => simp [ssum_nil]
    | cons n ns =>
      simp only [List.map_cons, List.zip_cons_cons, ssum_cons, ih]
      cases n <;> simp <;> abel

theorem den_sum_ssum (l : List (Op K (X → K))) (ns : List Bool) (s : Nat) :
    den S (Op.sum l ns) (1 <<< s) = ssum isReal re blocks leaf (l.zip ns) s := by
  by_cases h : l = [] ∨ ns = []
  · rcases h with rfl | rfl
    · simp [den, sumR, ssum_nil, msem]
    · cases l <;> simp [den, sumR, ssum_nil, msem]
  · have h1 : l ≠ [] := fun h' => h (Or.inl h')
    have h2 : ns ≠ [] := fun h' => h (Or.inr h')
    rw [den_sum isReal re blocks leaf l ns _ h1 h2]
    unfold ssum
    congr 1
    rw [List.zip_map_left]
    exact List.map_congr_left (fun p _ => rfl)

/-- un-nesting sums (a subtracted nested sum flips the signs of its summands) keeps the signed sum -/
theorem sumFlatten_sound (ops : List (Op K (X → K))) (neg : List Bool) (s : Nat) :
    ssum isReal re blocks leaf (sumFlatten ops neg) s = ssum isReal re blocks leaf (ops.zip neg) s := by
  unfold sumFlatten
  induction ops.zip neg with
  | nil => rfl
  | cons x xs ih =>
    obtain ⟨o, n⟩ := x
    simp only [List.flatMap_cons]
    rw [ssum_append, ih, ssum_cons]
    congr 1
    cases o with
    | sum l ns =>
      dsimp only
      rw [den_sum_ssum]
      cases n
      · simp
      · simp only [if_true]; exact ssum_zip_not isReal re blocks leaf l ns s
    | _ => simp [ssum_cons, ssum_nil]

/-- **SumOperator.simplify preserves the signed sum** in the two modes a sum advertises (no block-diagonal operators) -/
theorem sumSimplify_sound (fuel : Nat) (mk : List (Op K (X → K)) → List Bool → Op K (X → K))
    (ops : List (Op K (X → K))) (neg : List Bool) (s : Nat) (hs : s < 2)
    (hd : ∀ p ∈ sumFlatten ops neg, okC p.1 = true) :
    ssum isReal re blocks leaf (sumSimplify S fuel mk ops neg) s = ssum isReal re blocks leaf (ops.zip neg) s := by
  simp only [sumSimplify]
  rw [ssum_flatMap, ← sumFlatten_sound isReal re blocks leaf ops neg s]
  obtain ⟨hn, hc⟩ := groupKeys_spec (sumFlatten ops neg)
  rw [← ssum_groups isReal re blocks leaf (sumFlatten ops neg) (groupKeys (sumFlatten ops neg)) hn hc s]
  congr 1
  apply List.map_congr_left
  intro k _
  exact sumProcessGroup_sound isReal re blocks leaf fuel mk _ s hs (fun p hp => hd p (List.mem_of_mem_filter hp))

/-- **SumOperator.make preserves the action** (TIMES, ADJOINT_TIMES): the result acts as the signed sum of the operands; when a
    single negated operator remains, `-op` is built through `ChainOperator.make` (hypotheses of `mkChainU_sound` on that operator) -/
theorem mkSumU_sound (hre : ∀ c, isReal c = true → re c = c) (fuel : Nat) (ops : List (Op K (X → K))) (neg : List Bool)
    (s : Nat) (hs : s < 2) (hd : ∀ p ∈ sumFlatten ops neg, okC p.1 = true)
    (hsingle : ∀ o, sumSimplify S fuel (mkSumU S fuel) ops neg = [(o, true)] →
      (∀ l, o = Op.chain l → l ≠ []) ∧ (∀ x ∈ chainFlatten [o], okC x = true)) :
    den S (mkSumU S (fuel + 1) ops neg) (1 <<< s) = ssum isReal re blocks leaf (ops.zip neg) s := by
  have hs4 : s < 4 := by omega
  rw [← sumSimplify_sound isReal re blocks leaf fuel (mkSumU S fuel) ops neg s hs hd, mkSumU]
  split
  · rename_i o n heq
    rw [heq, ssum_cons, ssum_nil, add_zero]
    cases n
    · simp
    · simp only [if_true]
      obtain ⟨h1, h2⟩ := hsingle o heq
      unfold negU
      have hF : FUEL = 63 + 1 := rfl
      rw [hF, mkChainU_sound isReal re blocks leaf hre 63 _ s hs4 (by simp)
        (by intro x hx l hl; simp only [List.mem_cons, List.not_mem_nil, or_false] at hx; rcases hx with rfl | rfl
            · cases hl
            · exact h1 l hl)
        (by intro x hx
            simp only [chainFlatten, List.flatMap_cons, List.flatMap_nil, List.append_nil, List.mem_append] at hx h2
            rcases hx with hx | hx
            · simp only [List.mem_singleton] at hx; subst hx; simp [okC, diagOK, isBlock]
            · exact h2 x hx)]
      simp only [List.map_cons, List.map_nil, mprod_cons, mprod_nil]
      rw [den_scaling isReal re blocks leaf _ _ 0 s hs4]
      have hm : modeScalar ((msem isReal re blocks leaf).kneg (msem isReal re blocks leaf).kone) s = -1 := by
        show modeScalar (-(1 : K)) s = -1
        rw [modeScalar_neg2 1 s hs, modeScalar_one s hs4]
      rw [hm]
      cases revOf s <;> simp
  · rename_i l hl
    have hz : ∀ l : List (Op K (X → K) × Bool), (l.map (·.1)).zip (l.map (·.2)) = l := by
      intro l; induction l <;> simp [*]
    rw [den_sum_ssum, hz]


/-- non-vacuity of the hypotheses of `mkChainU_sound`: a diagonal with pending adjoint, a nested chain with a scaling, a leaf -/
example : (∀ o ∈ chainFlatten [Op.diag 0 (fun _ : Fin 2 => (2 : ℚ)) 1 0, Op.chain [Op.scaling 0 (3 : ℚ) 0, Op.leaf 7 15 0 0]],
    okC o = true) ∧
    (∀ o ∈ [Op.diag 0 (fun _ : Fin 2 => (2 : ℚ)) 1 0, Op.chain [Op.scaling 0 (3 : ℚ) 0, Op.leaf 7 15 0 0]],
      ∀ l, o = Op.chain l → l ≠ []) := by
  constructor
  · simp [chainFlatten, okC, diagOK, isBlock]
  · intro o ho l hl
    simp only [List.mem_cons, List.not_mem_nil, or_false] at ho
    rcases ho with rfl | rfl
    · cases hl
    · injection hl with hl; subst hl; simp

end matrix

end NiftyVerif.C01
